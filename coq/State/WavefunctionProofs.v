(* Proofs about the wavefunction model (property C12). *)
Require Import Coq.ZArith.ZArith Coq.QArith.QArith Coq.QArith.Qabs Coq.Lists.List Coq.Bool.Bool Coq.micromega.Lia.
Require Import Coq.Sorting.Permutation Coq.Sorting.Sorted Coq.Arith.PeanoNat.
Require Import OQ.Base.CaseEq OQ.Gen.GosperGen OQ.State.Wavefunction.
Import ListNotations.
Local Open Scope nat_scope.

(* ---------------------------------------------------------------- power of two *)
Lemma pos_pow2_spec p : pos_pow2 p = true <-> exists k : nat, Pos.to_nat p = Nat.pow 2 k.
Proof.
  induction p as [p IH|p IH|]; cbn [pos_pow2].
  - split; [discriminate|]. intros [k Hk]. rewrite Pos2Nat.inj_xI in Hk.
    destruct k as [|k]; cbn [Nat.pow] in Hk; [pose proof (Pos2Nat.is_pos p); lia|lia].
  - rewrite IH. split; intros [k Hk].
    + exists (S k). rewrite Pos2Nat.inj_xO, Hk. cbn [Nat.pow]. lia.
    + rewrite Pos2Nat.inj_xO in Hk. destruct k as [|k]; cbn [Nat.pow] in Hk; [lia|]. exists k. lia.
  - split; [|reflexivity]. intros _. exists O. reflexivity.
Qed.

Lemma pow2b_spec n : pow2b n = true <-> exists k : nat, n = Nat.pow 2 k.
Proof.
  unfold pow2b. destruct (N.of_nat n) as [|p] eqn:E.
  - split; [discriminate|]. intros [k Hk]. assert (n = O) by lia. subst n.
    pose proof (Nat.pow_nonzero 2 k ltac:(lia)). lia.
  - rewrite pos_pow2_spec. assert (Hn : n = Pos.to_nat p) by lia. rewrite Hn. reflexivity.
Qed.

(* ---------------------------------------------------------------- write / restore *)
Section Lists.
Context {A : Type}.
Implicit Types l seg : list A.

Lemma write_length l lo seg : lo + length seg <= length l -> length (write l lo seg) = length l.
Proof. intro H. unfold write. rewrite !app_length, firstn_length, skipn_length. lia. Qed.

Lemma segment_length l lo m : lo + m <= length l -> length (segment l lo m) = m.
Proof. intro H. unfold segment. rewrite firstn_length, skipn_length. lia. Qed.

Lemma skipn_add (a b : nat) l : skipn a (skipn b l) = skipn (b + a) l.
Proof. revert l. induction b as [|b IH]; intro l; [reflexivity|]. destruct l as [|x l]; [destruct a; reflexivity|]. cbn [skipn Nat.add]. apply IH. Qed.

(* writing back what was there before undoes an assignment exactly *)
Lemma write_restore l lo seg : lo + length seg <= length l ->
  write (write l lo seg) lo (segment l lo (length seg)) = l.
Proof.
  intro H. unfold write at 1. rewrite segment_length by exact H.
  assert (Hf : length (firstn lo l) = lo) by (rewrite firstn_length; lia).
  assert (E1 : firstn lo (write l lo seg) = firstn lo l).
  { unfold write. rewrite firstn_app, Hf, Nat.sub_diag, firstn_O, app_nil_r.
    rewrite <- Hf at 1. apply firstn_all. }
  assert (E2 : skipn (lo + length seg) (write l lo seg) = skipn (lo + length seg) l).
  { unfold write. rewrite skipn_app, Hf.
    replace (lo + length seg - lo) with (length seg) by lia.
    rewrite (skipn_all2 (firstn lo l)) by lia. cbn [app].
    rewrite skipn_app, Nat.sub_diag, skipn_all, skipn_O. reflexivity. }
  rewrite E1, E2. unfold segment.
  rewrite <- (firstn_skipn lo l) at 4. f_equal.
  rewrite <- (firstn_skipn (length seg) (skipn lo l)) at 2. f_equal.
  rewrite skipn_add. reflexivity.
Qed.

Lemma write_nth_inside l lo seg d i : lo + length seg <= length l -> lo <= i < lo + length seg ->
  nth i (write l lo seg) d = nth (i - lo) seg d.
Proof.
  intros H Hi. unfold write. assert (Hf : length (firstn lo l) = lo) by (rewrite firstn_length; lia).
  rewrite app_nth2 by lia. rewrite Hf. rewrite app_nth1 by lia. reflexivity.
Qed.

Lemma write_nth_outside l lo seg d i : lo + length seg <= length l -> i < lo \/ lo + length seg <= i ->
  nth i (write l lo seg) d = nth i l d.
Proof.
  intros H Hi. unfold write. assert (Hf : length (firstn lo l) = lo) by (rewrite firstn_length; lia).
  destruct Hi as [Hi|Hi].
  - rewrite app_nth1 by lia. rewrite <- (firstn_skipn lo l) at 2. rewrite app_nth1 by lia. reflexivity.
  - rewrite app_nth2 by lia. rewrite app_nth2 by lia. rewrite Hf.
    rewrite <- (firstn_skipn (lo + length seg) l) at 2.
    rewrite app_nth2 by (rewrite firstn_length; lia). rewrite firstn_length.
    f_equal. lia.
Qed.
End Lists.

(* ---------------------------------------------------------------- symbols *)
Lemma has_symb_app l1 l2 : has_symb (l1 ++ l2) = has_symb l1 || has_symb l2.
Proof. apply existsb_app. Qed.

Lemma has_symb_firstn n l : has_symb l = false -> has_symb (firstn n l) = false.
Proof.
  intro H. rewrite <- (firstn_skipn n l), has_symb_app in H. apply orb_false_iff in H. apply H.
Qed.
Lemma has_symb_skipn n l : has_symb l = false -> has_symb (skipn n l) = false.
Proof.
  intro H. rewrite <- (firstn_skipn n l), has_symb_app in H. apply orb_false_iff in H. apply H.
Qed.
Lemma has_symb_write l lo seg : has_symb l = false -> has_symb seg = false -> has_symb (write l lo seg) = false.
Proof.
  intros H1 H2. unfold write. rewrite !has_symb_app, has_symb_firstn, has_symb_skipn, H2 by assumption. reflexivity.
Qed.
Lemma has_symb_repeat v m : is_symb v = false -> has_symb (repeat v m) = false.
Proof. intro H. induction m as [|m IH]; cbn; [reflexivity|]. rewrite H. exact IH. Qed.

(* ---------------------------------------------------------------- create *)
Section Tol.
Variable tol : Q.

Lemma create_some col v s : create tol col v = Some s -> Inv tol s /\ amps s = v.
Proof.
  unfold create. destruct (pow2b (length v)) eqn:Hp; cbn [negb]; [|discriminate].
  destruct (check tol v) eqn:Hc; [|discriminate]. intro H. inversion H; subst s; clear H.
  split; [|reflexivity]. unfold Inv. cbn [amps bk fst snd]. repeat split; try assumption.
  destruct (has_symb v); [intro H; congruence|reflexivity].
Qed.

Lemma create_none col v : create tol col v = None <-> pow2b (length v) = false \/ check tol v = false.
Proof.
  unfold create. destruct (pow2b (length v)); cbn [negb].
  - destruct (check tol v); split; try discriminate; try (intros [H|H]; discriminate); auto.
  - split; auto.
Qed.

Lemma create_backing col v s : create tol col v = Some s ->
  bk s = if has_symb v then Mat else if col then NpCol else NpFlat.
Proof.
  unfold create. destruct (negb _); [discriminate|]. destruct (check tol v); [|discriminate].
  intro H. inversion H. reflexivity.
Qed.

(* ---------------------------------------------------------------- assignments *)
Lemma assign_spec s lo seg s' r :
  Inv tol s -> lo + length seg <= length (amps s) ->
  (bk s <> Mat -> has_symb seg = false) ->
  assign tol s lo seg = (s', r) ->
  Inv tol s' /\ (r <> Ok -> s' = s) /\ (r = Ok -> s' = (bk s, write (amps s) lo seg)) /\ (r = Ok \/ r = ErrValue).
Proof.
  intros (Hp & Hc & Hs) Hlen Hseg. unfold assign.
  destruct (check tol (write (amps s) lo seg)) eqn:E; intro H; inversion H; subst s' r; clear H.
  - split; [|split; [congruence|split; [reflexivity|left; reflexivity]]].
    unfold Inv. cbn [amps bk fst snd]. rewrite write_length by exact Hlen. repeat split; try assumption.
    intro Hb. apply has_symb_write; auto.
  - destruct s as [b l]. cbn [bk amps fst snd] in *.
    split; [repeat split; assumption|]. split; [reflexivity|]. split; [discriminate|right; reflexivity].
Qed.

Lemma is_mat_false b : is_mat b = false <-> b <> Mat.
Proof. destruct b; cbn; split; congruence. Qed.

Lemma set_item_spec s i v s' r : Inv tol s -> set_item tol s i v = (s', r) ->
  Inv tol s' /\ (r <> Ok -> s' = s).
Proof.
  intros HI. unfold set_item. set (n := Z.of_nat (length (amps s))).
  destruct ((i <? - n)%Z || (n <=? i)%Z) eqn:Er.
  { intro H; inversion H; subst. split; [assumption|reflexivity]. }
  destruct (negb (is_mat (bk s)) && is_symb v) eqn:Et.
  { intro H; inversion H; subst. split; [assumption|reflexivity]. }
  intro H. apply assign_spec in H; [tauto|assumption| |].
  - apply orb_false_iff in Er. destruct Er as [E1 E2]. apply Z.ltb_ge in E1. apply Z.leb_gt in E2.
    cbn [length]. destruct (Z.ltb_spec i 0); subst n; lia.
  - intro Hb. apply is_mat_false in Hb. rewrite Hb in Et. cbn in Et. cbn. rewrite Et. reflexivity.
Qed.

Lemma set_item_list_spec s i vs s' r : Inv tol s -> set_item_list tol s i vs = (s', r) ->
  Inv tol s' /\ (r <> Ok -> s' = s).
Proof.
  intros HI. unfold set_item_list. set (n := Z.of_nat (length (amps s))).
  assert (Hid : forall e, (s, e) = (s', r) -> Inv tol s' /\ (r <> Ok -> s' = s))
    by (intros e H; inversion H; subst; split; [assumption|reflexivity]).
  destruct ((i <? - n)%Z || (n <=? i)%Z) eqn:Er; [apply Hid|].
  apply orb_false_iff in Er. destruct Er as [E1 E2]. apply Z.ltb_ge in E1. apply Z.leb_gt in E2.
  set (a := Z.to_nat (if (i <? 0)%Z then (i + n)%Z else i)).
  assert (Ha : a < length (amps s)) by (subst a n; destruct (Z.ltb_spec i 0); lia).
  destruct (bk s) eqn:Ebk.
  - apply Hid.
  - destruct (has_symb vs) eqn:Es; [apply Hid|].
    destruct vs as [|v [|v2 vs]]; try apply Hid.
    intro H. apply assign_spec in H; [tauto|assumption|cbn [length]; lia|intros _; exact Es].
  - destruct (Nat.leb_spec (a + length vs) (length (amps s))) as [Hl|Hl]; [|apply Hid].
    intro H. apply assign_spec in H; [tauto|assumption|exact Hl|congruence].
Qed.

Lemma clip_range n i : (0 <= n)%Z -> (0 <= clip n i <= n)%Z.
Proof. intro H. unfold clip. destruct (Z.ltb_spec i 0); lia. Qed.

Lemma write_nil {A} (l : list A) lo : write l lo [] = l.
Proof. unfold write. cbn [length app]. rewrite Nat.add_0_r. apply firstn_skipn. Qed.

Lemma set_slice_spec s lo hi vs s' r : Inv tol s ->
  set_slice tol s lo hi vs = (s', r) ->
  Inv tol s' /\ (r <> Ok -> s' = s).
Proof.
  intros HI. unfold set_slice. set (n := Z.of_nat (length (amps s))).
  assert (Hn : (0 <= n)%Z) by (subst n; lia).
  pose proof (clip_range n lo Hn) as Ha. pose proof (clip_range n hi Hn) as Hb.
  set (a := clip n lo) in *. set (b := clip n hi) in *.
  set (m := Z.to_nat (Z.max (b - a) 0)).
  assert (Hm : Z.to_nat a + m <= length (amps s)) by (subst m n; lia).
  assert (Hid : (s, ErrValue) = (s', r) -> Inv tol s' /\ (r <> Ok -> s' = s))
    by (intro H; inversion H; subst; split; [assumption|reflexivity]).
  assert (Hfill : forall v, (bk s <> Mat -> is_symb v = false) ->
            assign tol s (Z.to_nat a) (repeat v m) = (s', r) -> Inv tol s' /\ (r <> Ok -> s' = s)).
  { intros v Hv H. apply assign_spec in H; [tauto|assumption|rewrite repeat_length; exact Hm|].
    intro Hb'. apply has_symb_repeat. auto. }
  destruct (bk s) eqn:Ebk.
  - (* NpFlat *)
    destruct (has_symb vs) eqn:Es.
    { intro H; inversion H; subst. split; [assumption|reflexivity]. }
    destruct (Nat.eqb_spec (length vs) m) as [Ek|Ek].
    + intro H. apply assign_spec in H; [tauto|assumption|lia|auto].
    + destruct vs as [|v [|v2 vs]]; try exact Hid.
      apply Hfill. intros _. cbn in Es. apply orb_false_iff in Es. apply Es.
  - (* NpCol *)
    destruct (has_symb vs) eqn:Es.
    { intro H; inversion H; subst. split; [assumption|reflexivity]. }
    destruct vs as [|v [|v2 vs]]; try exact Hid.
    apply Hfill. intros _. cbn in Es. apply orb_false_iff in Es. apply Es.
  - (* Mat *)
    destruct (Nat.eqb (length vs) 0 && Z.eqb a 0 && Z.eqb b 0); [|exact Hid].
    intro H. apply assign_spec in H; [tauto|assumption|cbn; lia|reflexivity].
Qed.

Lemma bind_spec s m s' r al : Inv tol s -> bind tol s m = (s', r, al) ->
  Inv tol s' /\ (r <> Ok -> s' = s) /\
  (al = true <-> has_symb (amps s) = false) /\ (al = true -> s' = s /\ r = Ok) /\
  (r = Ok -> al = false -> amps s' = map (subst m) (amps s)) /\ (r = Ok \/ r = ErrValue).
Proof.
  intros HI. unfold bind. destruct (has_symb (amps s)) eqn:Es; cbn [negb].
  - destruct (create tol true (map (subst m) (amps s))) as [s2|] eqn:Ec; intro H; inversion H; subst; clear H.
    + apply create_some in Ec. destruct Ec as [Hi Ha].
      split; [exact Hi|]. split; [congruence|]. split; [split; congruence|]. split; [congruence|].
      split; [intros _ _; exact Ha|left; reflexivity].
    + split; [exact HI|]. split; [reflexivity|]. split; [split; congruence|]. split; [congruence|].
      split; [congruence|right; reflexivity].
  - intro H; inversion H; subst. split; [exact HI|]. split; [reflexivity|]. split; [split; reflexivity|].
    split; [intros _; split; reflexivity|]. split; [congruence|left; reflexivity].
Qed.

Lemma step_spec s o s' r : Inv tol s ->
  step tol s o = (s', r) -> Inv tol s' /\ (r <> Ok -> s' = s).
Proof.
  intros HI. destruct o as [i v|i vs|lo hi vs|m]; cbn [step].
  - apply set_item_spec. exact HI.
  - apply set_item_list_spec. exact HI.
  - apply set_slice_spec. exact HI.
  - destruct (bind tol s m) as [[s2 r2] al] eqn:E. cbn [fst]. intro H; inversion H; subst.
    apply bind_spec in E; [tauto|exact HI].
Qed.

Lemma run_inv ops : forall s, Inv tol s -> Inv tol (run tol s ops).
Proof.
  induction ops as [|o ops IH]; intros s HI; cbn [run fold_left]; [exact HI|].
  apply IH. destruct (step tol s o) as [s' r] eqn:E. cbn [fst]. apply (step_spec s o s' r HI E).
Qed.

Lemma run_inv_created col v s0 ops : create tol col v = Some s0 -> Inv tol (run tol s0 ops).
Proof. intro H. apply run_inv. apply (create_some col v s0 H). Qed.

(* every snapshot of a history satisfies the invariant, and a step that reports an error leaves the snapshot as it was *)
Lemma trace_inv ops : forall s, Inv tol s -> Forall (fun rs => Inv tol (snd rs)) (trace tol s ops).
Proof.
  induction ops as [|o ops IH]; intros s HI; cbn [trace]; [constructor|].
  destruct (step tol s o) as [s' r] eqn:E. destruct (step_spec s o s' r HI E) as [HI' _].
  constructor; [exact HI'|apply IH; exact HI'].
Qed.

Fixpoint unchanged_on_error (prev : state) (t : list (outcome * state)) : Prop :=
  match t with
  | [] => True
  | (r, s) :: rest => (r <> Ok -> s = prev) /\ unchanged_on_error s rest
  end.
Lemma trace_unchanged ops : forall s, Inv tol s -> unchanged_on_error s (trace tol s ops).
Proof.
  induction ops as [|o ops IH]; intros s HI; cbn [trace unchanged_on_error]; [exact I|].
  destruct (step tol s o) as [s' r] eqn:E. destruct (step_spec s o s' r HI E) as [HI' Hu].
  cbn [unchanged_on_error]. split; [exact Hu|apply IH; exact HI'].
Qed.

(* a slice assignment that carries a symbol into flat numpy storage (the shape of finding F37): TypeError, object unchanged *)
Lemma symbol_into_numpy_slice s lo hi vs : bk s = NpFlat -> has_symb vs = true ->
  set_slice tol s lo hi vs = (s, ErrType).
Proof. intros Hb Hs. unfold set_slice. rewrite Hb, Hs. reflexivity. Qed.

(* an in-range assignment whose result would fail the test is rejected; an accepted one has exactly the written values *)
Lemma set_item_effect s i v s' r : Inv tol s ->
  (0 <= i < Z.of_nat (length (amps s)))%Z -> (bk s <> Mat -> is_symb v = false) ->
  set_item tol s i v = (s', r) ->
  (check tol (write (amps s) (Z.to_nat i) [v]) = true -> r = Ok /\ s' = (bk s, write (amps s) (Z.to_nat i) [v])) /\
  (check tol (write (amps s) (Z.to_nat i) [v]) = false -> r = ErrValue /\ s' = s).
Proof.
  intros HI Hi Hv. unfold set_item.
  destruct (Z.ltb_spec i (- Z.of_nat (length (amps s)))) as [H1|H1]; [lia|].
  destruct (Z.leb_spec (Z.of_nat (length (amps s))) i) as [H2|H2]; [lia|]. cbn [orb].
  assert (Et : negb (is_mat (bk s)) && is_symb v = false).
  { destruct (is_mat (bk s)) eqn:Em; [reflexivity|]. apply is_mat_false in Em. rewrite (Hv Em). reflexivity. }
  rewrite Et. destruct (Z.ltb_spec i 0) as [H3|H3]; [lia|].
  unfold assign. cbn [length].
  destruct (check tol (write (amps s) (Z.to_nat i) [v])) eqn:E; intro H; inversion H; subst; clear H.
  - split; [auto|discriminate].
  - split; [discriminate|]. intros _. split; [reflexivity|]. destruct s; reflexivity.
Qed.

(* a list assigned at an integer index of a sympy-backed object spills over the following entries; the whole spill is
   either accepted (and stored) or rejected with the object exactly as before *)
Lemma set_item_list_effect s i vs s' r : Inv tol s -> bk s = Mat ->
  (0 <= i < Z.of_nat (length (amps s)))%Z -> Z.to_nat i + length vs <= length (amps s) ->
  set_item_list tol s i vs = (s', r) ->
  (check tol (write (amps s) (Z.to_nat i) vs) = true -> r = Ok /\ s' = (Mat, write (amps s) (Z.to_nat i) vs)) /\
  (check tol (write (amps s) (Z.to_nat i) vs) = false -> r = ErrValue /\ s' = s).
Proof.
  intros HI Hb Hi Hk. unfold set_item_list.
  destruct (Z.ltb_spec i (- Z.of_nat (length (amps s)))) as [H1|H1]; [lia|].
  destruct (Z.leb_spec (Z.of_nat (length (amps s))) i) as [H2|H2]; [lia|]. cbn [orb].
  destruct (Z.ltb_spec i 0) as [H3|H3]; [lia|]. rewrite Hb.
  destruct (Nat.leb_spec (Z.to_nat i + length vs) (length (amps s))) as [Hl|Hl]; [|lia].
  unfold assign. rewrite Hb.
  destruct (check tol (write (amps s) (Z.to_nat i) vs)) eqn:E; intro H; inversion H; subst; clear H.
  - split; [auto|discriminate].
  - split; [discriminate|]. intros _. split; [reflexivity|]. destruct s as [b l]. cbn [bk amps fst snd] in *. congruence.
Qed.

(* ---------------------------------------------------------------- probabilities *)
Lemma probs_length l : length (probs l) = length l.
Proof. apply map_length. Qed.

Lemma probs_sum_tol s : Inv tol s -> has_symb (amps s) = false ->
  (Qabs (qsum (probs (amps s)) - 1) <= tol)%Q.
Proof.
  intros (_ & Hc & _) Hs. unfold check in Hc. rewrite Hs in Hc. apply Qle_bool_iff in Hc. exact Hc.
Qed.
Lemma probs_sum_tol_len s : Inv tol s -> has_symb (amps s) = false ->
  length (probs (amps s)) = length (amps s) /\ (Qabs (qsum (probs (amps s)) - 1) <= tol)%Q.
Proof. intros H1 H2. split; [apply probs_length|apply probs_sum_tol; assumption]. Qed.
End Tol.

Lemma probs_sum_exact s : Inv 0%Q s -> has_symb (amps s) = false -> (qsum (probs (amps s)) == 1)%Q.
Proof.
  intros HI Hs. pose proof (probs_sum_tol 0%Q s HI Hs) as H.
  apply Qabs_Qle_condition in H. destruct H as [H1 H2]. change (- 0)%Q with 0%Q in H1.
  assert (E : (qsum (probs (amps s)) - 1 == 0)%Q) by (apply Qle_antisym; assumption).
  setoid_replace (qsum (probs (amps s))) with ((qsum (probs (amps s)) - 1) + 1)%Q by ring.
  rewrite E. reflexivity.
Qed.

(* ---------------------------------------------------------------- flip *)
Section Flip.
Context {A : Type}.
Implicit Types a b l : list A.

Lemma interleave_length a : forall b, length a = length b -> length (interleave a b) = 2 * length a.
Proof.
  induction a as [|x a IH]; intros [|y b] H; cbn [interleave length] in *; try reflexivity; try discriminate.
  rewrite (IH b) by lia. lia.
Qed.

Lemma interleave_nth_even a d : forall b j, length a = length b -> j < length a ->
  nth (2 * j) (interleave a b) d = nth j a d.
Proof.
  induction a as [|x a IH]; intros [|y b] j H Hj; cbn [length] in *; try lia.
  destruct j as [|j]; [reflexivity|]. replace (2 * S j) with (S (S (2 * j))) by lia.
  cbn [interleave nth]. apply IH; lia.
Qed.

Lemma interleave_nth_odd a d : forall b j, length a = length b -> j < length a ->
  nth (2 * j + 1) (interleave a b) d = nth j b d.
Proof.
  induction a as [|x a IH]; intros [|y b] j H Hj; cbn [length] in *; try lia.
  destruct j as [|j]; [reflexivity|]. replace (2 * S j + 1) with (S (S (2 * j + 1))) by lia.
  cbn [interleave nth]. apply IH; lia.
Qed.

Lemma interleave_perm a : forall b, length a = length b -> Permutation (interleave a b) (a ++ b).
Proof.
  induction a as [|x a IH]; intros [|y b] H; cbn [interleave length app] in *; try discriminate; [constructor|].
  constructor. apply Permutation_cons_app. apply IH. lia.
Qed.

Lemma flip_length n : forall l, length l = Nat.pow 2 n -> length (flip n l) = Nat.pow 2 n.
Proof.
  induction n as [|n IH]; intros l H; cbn [flip]; [exact H|]. cbn [Nat.pow] in H.
  set (p := Nat.pow 2 n) in *.
  assert (L0 : length (firstn p l) = p) by (rewrite firstn_length; lia).
  assert (L1 : length (skipn p l) = p) by (rewrite skipn_length; lia).
  rewrite interleave_length by (rewrite !IH by assumption; reflexivity).
  rewrite IH by assumption. cbn [Nat.pow]. fold p. lia.
Qed.

Lemma nth_firstn_lt l d m k : k < m -> nth k (firstn m l) d = nth k l d.
Proof.
  revert l k. induction m as [|m IH]; intros l k H; [lia|].
  destruct l as [|x l]; [destruct k; reflexivity|]. destruct k as [|k]; [reflexivity|]. cbn [firstn nth]. apply IH. lia.
Qed.

Lemma nth_skipn_add l d m k : nth k (skipn m l) d = nth (m + k) l d.
Proof.
  revert l. induction m as [|m IH]; intro l; [reflexivity|].
  destruct l as [|x l]; [destruct k; reflexivity|]. cbn [skipn Nat.add nth]. apply IH.
Qed.
End Flip.

Lemma bitrev_lt n : forall i, bitrev n i < Nat.pow 2 n.
Proof.
  induction n as [|n IH]; intro i; cbn [bitrev Nat.pow]; [lia|].
  pose proof (IH (i / 2)). pose proof (Nat.mod_upper_bound i 2 ltac:(lia)).
  set (p := Nat.pow 2 n) in *. clearbody p. destruct (i mod 2) as [|[|?]]; lia.
Qed.

Lemma flip_nth {A} (d : A) n : forall l i, length l = Nat.pow 2 n -> i < Nat.pow 2 n ->
  nth i (flip n l) d = nth (bitrev n i) l d.
Proof.
  induction n as [|n IH]; intros l i Hl Hi; cbn [flip bitrev Nat.pow] in *.
  - assert (i = 0) by lia. subst i. reflexivity.
  - set (p := Nat.pow 2 n) in *.
    assert (Hp : 0 < p) by (subst p; apply Nat.neq_0_lt_0, Nat.pow_nonzero; lia).
    assert (L0 : length (firstn p l) = p) by (rewrite firstn_length; lia).
    assert (L1 : length (skipn p l) = p) by (rewrite skipn_length; lia).
    assert (F0 : length (flip n (firstn p l)) = p) by (apply flip_length; exact L0).
    assert (F1 : length (flip n (skipn p l)) = p) by (apply flip_length; exact L1).
    pose proof (Nat.div_mod i 2 ltac:(lia)) as Hdm.
    pose proof (Nat.mod_upper_bound i 2 ltac:(lia)) as Hm.
    assert (Hj : i / 2 < p) by (apply Nat.div_lt_upper_bound; lia).
    pose proof (bitrev_lt n (i / 2)) as Hb. fold p in Hb.
    destruct (i mod 2) as [|[|?]] eqn:Em; [| |lia].
    + rewrite Hdm at 1. rewrite Nat.add_0_r. rewrite interleave_nth_even by lia.
      rewrite IH by assumption. cbn [Nat.mul Nat.add]. apply nth_firstn_lt. exact Hb.
    + rewrite Hdm at 1. rewrite interleave_nth_odd by lia.
      rewrite IH by assumption. rewrite nth_skipn_add. f_equal. lia.
Qed.

Lemma bitrev_high n : forall r h, r < Nat.pow 2 n -> h < 2 ->
  bitrev (S n) (h * Nat.pow 2 n + r) = 2 * bitrev n r + h.
Proof.
  induction n as [|n IH]; intros r h Hr Hh.
  - cbn [Nat.pow] in Hr. assert (r = 0) by lia. subst r. cbn [bitrev Nat.pow].
    rewrite Nat.mul_1_r, Nat.add_0_r, Nat.mod_small by lia. lia.
  - cbn [Nat.pow] in Hr. set (p := Nat.pow 2 n) in *.
    assert (E : h * Nat.pow 2 (S n) + r = (h * p + r / 2) * 2 + r mod 2).
    { cbn [Nat.pow]. fold p. pose proof (Nat.div_mod r 2 ltac:(lia)). lia. }
    pose proof (Nat.mod_upper_bound r 2 ltac:(lia)) as Hm.
    assert (Emod : (h * Nat.pow 2 (S n) + r) mod 2 = r mod 2).
    { rewrite E. rewrite Nat.add_comm, Nat.mod_add by lia. apply Nat.mod_small. exact Hm. }
    assert (Ediv : (h * Nat.pow 2 (S n) + r) / 2 = h * p + r / 2).
    { rewrite E. rewrite Nat.div_add_l by lia. rewrite (Nat.div_small (r mod 2)) by exact Hm. lia. }
    assert (Hr2 : r / 2 < p) by (apply Nat.div_lt_upper_bound; lia).
    change (bitrev (S (S n)) (h * Nat.pow 2 (S n) + r))
      with (((h * Nat.pow 2 (S n) + r) mod 2) * Nat.pow 2 (S n) + bitrev (S n) ((h * Nat.pow 2 (S n) + r) / 2)).
    rewrite Emod, Ediv. subst p. rewrite IH by assumption.
    change (bitrev (S n) r) with ((r mod 2) * Nat.pow 2 n + bitrev n (r / 2)).
    cbn [Nat.pow]. lia.
Qed.

Lemma bitrev_involutive n : forall i, i < Nat.pow 2 n -> bitrev n (bitrev n i) = i.
Proof.
  induction n as [|n IH]; intros i Hi.
  - cbn [Nat.pow] in Hi. cbn [bitrev]. lia.
  - cbn [Nat.pow] in Hi.
    change (bitrev (S n) i) with ((i mod 2) * Nat.pow 2 n + bitrev n (i / 2)).
    pose proof (Nat.mod_upper_bound i 2 ltac:(lia)) as Hm.
    rewrite bitrev_high by (try apply bitrev_lt; exact Hm).
    rewrite IH by (apply Nat.div_lt_upper_bound; lia).
    pose proof (Nat.div_mod i 2 ltac:(lia)). lia.
Qed.

Lemma bitrev_injective n i j : i < Nat.pow 2 n -> j < Nat.pow 2 n -> bitrev n i = bitrev n j -> i = j.
Proof. intros Hi Hj E. rewrite <- (bitrev_involutive n i Hi), <- (bitrev_involutive n j Hj), E. reflexivity. Qed.

Lemma flip_involutive {A} n (l : list A) : length l = Nat.pow 2 n -> flip n (flip n l) = l.
Proof.
  intro Hl. destruct l as [|d l'] eqn:El.
  { cbn [length] in Hl. pose proof (Nat.pow_nonzero 2 n ltac:(lia)). lia. }
  rewrite <- El in *. clear El l'.
  assert (Hf : length (flip n l) = Nat.pow 2 n) by (apply flip_length; exact Hl).
  apply (nth_ext _ _ d d).
  - rewrite (flip_length n (flip n l) Hf). symmetry. exact Hl.
  - intros i Hi. rewrite (flip_length n (flip n l) Hf) in Hi.
    rewrite (flip_nth d n (flip n l) i Hf Hi).
    rewrite (flip_nth d n l (bitrev n i) Hl (bitrev_lt n i)).
    rewrite bitrev_involutive by exact Hi. reflexivity.
Qed.

Lemma flip_perm {A} n : forall l : list A, length l = Nat.pow 2 n -> Permutation (flip n l) l.
Proof.
  induction n as [|n IH]; intros l Hl; cbn [flip]; [apply Permutation_refl|]. cbn [Nat.pow] in Hl.
  set (p := Nat.pow 2 n) in *.
  assert (L0 : length (firstn p l) = p) by (rewrite firstn_length; lia).
  assert (L1 : length (skipn p l) = p) by (rewrite skipn_length; lia).
  etransitivity; [apply interleave_perm; rewrite !flip_length; auto|].
  rewrite <- (firstn_skipn p l) at 3. apply Permutation_app; apply IH; assumption.
Qed.

(* bit j of the flipped index is bit n-1-j of the source index *)
Lemma testbit_split p r b j n : p = Nat.pow 2 n -> r < p -> b < 2 ->
  Nat.testbit (b * p + r) j = if j <? n then Nat.testbit r j else if j =? n then (b =? 1) else false.
Proof.
  intros Hp Hr Hb. rewrite !Nat.testbit_eqb.
  destruct (Nat.ltb_spec j n) as [Hj|Hj].
  - assert (E : b * p + r = r + (b * Nat.pow 2 (n - j - 1) * 2) * Nat.pow 2 j).
    { subst p. replace n with ((n - j - 1) + 1 + j) at 1 by lia. rewrite !Nat.pow_add_r. cbn [Nat.pow]. lia. }
    rewrite E. rewrite Nat.div_add by (apply Nat.pow_nonzero; lia).
    rewrite Nat.mul_comm with (m := 2), Nat.mul_comm with (n := 2), Nat.mod_add by lia. reflexivity.
  - destruct (Nat.eqb_spec j n) as [Ej|Ej].
    + subst j p. rewrite Nat.div_add_l by (apply Nat.pow_nonzero; lia). rewrite Nat.div_small by exact Hr.
      rewrite Nat.add_0_r. rewrite Nat.mod_small by exact Hb. reflexivity.
    + assert (Hlt : b * p + r < Nat.pow 2 j).
      { assert (Nat.pow 2 (S n) <= Nat.pow 2 j) by (apply Nat.pow_le_mono_r; lia). cbn [Nat.pow] in *. subst p. nia. }
      rewrite Nat.div_small by exact Hlt. reflexivity.
Qed.

Lemma bitrev_testbit n : forall i j, j < n -> Nat.testbit (bitrev n i) j = Nat.testbit i (n - 1 - j).
Proof.
  induction n as [|n IH]; intros i j Hj; [lia|].
  change (bitrev (S n) i) with ((i mod 2) * Nat.pow 2 n + bitrev n (i / 2)).
  pose proof (Nat.mod_upper_bound i 2 ltac:(lia)) as Hm.
  rewrite (testbit_split (Nat.pow 2 n) _ _ j n eq_refl (bitrev_lt n (i / 2)) Hm).
  destruct (Nat.ltb_spec j n) as [Hlt|Hge].
  - rewrite IH by lia. replace (S n - 1 - j) with (S (n - 1 - j)) by lia.
    rewrite !Nat.testbit_eqb. cbn [Nat.pow].
    rewrite Nat.div_div by (try apply Nat.pow_nonzero; lia). reflexivity.
  - assert (j = n) by lia. subst j. rewrite Nat.eqb_refl. replace (S n - 1 - n) with 0 by lia.
    rewrite Nat.testbit_eqb. cbn [Nat.pow]. rewrite Nat.div_1_r. reflexivity.
Qed.

(* ---- flipping a wavefunction: same multiset of amplitudes, so it passes the test again *)
Lemma qsum_perm l l' : Permutation l l' -> (qsum l == qsum l')%Q.
Proof.
  induction 1 as [|x l l' _ IH|x y l|l l' l'' _ IH1 _ IH2]; cbn [qsum].
  - reflexivity.
  - rewrite IH. reflexivity.
  - ring.
  - rewrite IH1. exact IH2.
Qed.

Lemma has_symb_perm l l' : Permutation l l' -> has_symb l = has_symb l'.
Proof.
  unfold has_symb. induction 1 as [|x l l' _ IH|x y l|l l' l'' _ IH1 _ IH2]; cbn [existsb] in *.
  - reflexivity.
  - rewrite IH. reflexivity.
  - destruct (is_symb x), (is_symb y); reflexivity.
  - congruence.
Qed.

Lemma Qle_bool_eq a b c d : (a == b)%Q -> (c == d)%Q -> Qle_bool a c = Qle_bool b d.
Proof. intros H1 H2. apply eq_true_iff_eq. rewrite !Qle_bool_iff, H1, H2. reflexivity. Qed.

Lemma check_perm tol l l' : Permutation l l' -> check tol l = check tol l'.
Proof.
  intro H. unfold check. rewrite (has_symb_perm l l' H).
  assert (E : (numsum l == numsum l')%Q) by (apply qsum_perm, Permutation_map, H).
  destruct (has_symb l'); apply Qle_bool_eq; try reflexivity; rewrite E; reflexivity.
Qed.

Lemma nbits_pow2 n : nbits (Nat.pow 2 n) = n.
Proof.
  unfold nbits. rewrite Nat2Z.inj_pow. change (Z.of_nat 2) with 2%Z.
  rewrite Z.log2_pow2 by lia. apply Nat2Z.id.
Qed.

Lemma flip_amplitudes_pow2 {A} (l : list A) n : length l = Nat.pow 2 n -> flip_amplitudes l = flip n l.
Proof. intro H. unfold flip_amplitudes. rewrite H, nbits_pow2. reflexivity. Qed.

Lemma flip_amplitudes_spec {A} (d : A) (l : list A) n : length l = Nat.pow 2 n ->
  length (flip_amplitudes l) = length l /\
  (forall i, i < Nat.pow 2 n -> nth i (flip_amplitudes l) d = nth (bitrev n i) l d) /\
  flip_amplitudes (flip_amplitudes l) = l /\
  Permutation (flip_amplitudes l) l.
Proof.
  intro H. rewrite (flip_amplitudes_pow2 l n H).
  assert (Hf : length (flip n l) = Nat.pow 2 n) by (apply flip_length; exact H).
  rewrite (flip_amplitudes_pow2 (flip n l) n Hf).
  split; [congruence|]. split; [intros i Hi; apply flip_nth; assumption|].
  split; [apply flip_involutive; exact H|apply flip_perm; exact H].
Qed.

Lemma flip_wavefunction_spec tol s : Inv tol s ->
  exists s', flip_wavefunction tol s = Some s' /\ Inv tol s' /\ amps s' = flip_amplitudes (amps s) /\
             Permutation (amps s') (amps s).
Proof.
  intros (Hp & Hc & Hs). destruct (proj1 (pow2b_spec _) Hp) as [n Hn].
  destruct (flip_amplitudes_spec (Symb 1) (amps s) n Hn) as (Hl & _ & _ & Hperm).
  unfold flip_wavefunction, create. rewrite Hl, Hp. cbn [negb].
  rewrite (check_perm tol _ _ Hperm), Hc. eexists. split; [reflexivity|].
  cbn [amps snd]. split; [|split; [reflexivity|exact Hperm]].
  unfold Inv. cbn [amps bk fst snd]. rewrite Hl, (check_perm tol _ _ Hperm). repeat split; try assumption.
  destruct (has_symb (flip_amplitudes (amps s))); [intro H; congruence|reflexivity].
Qed.

(* ---------------------------------------------------------------- save / load *)
Lemma zip_num_parts l : has_symb l = false -> zip_num (map re_of l) (map im_of l) = l.
Proof.
  induction l as [|[re im|id] l IH]; cbn; intro H; [reflexivity| |discriminate].
  rewrite IH by exact H. reflexivity.
Qed.

Lemma save_load tol s : Inv tol s -> bk s <> Mat ->
  exists d, save s = Some d /\ load tol d = Some s.
Proof.
  intros (Hp & Hc & Hs) Hb. specialize (Hs Hb). destruct s as [b l]. cbn [bk amps fst snd] in *.
  unfold save. cbn [bk amps fst snd]. rewrite Hs.
  destruct b; [| |congruence]; (eexists; split; [reflexivity|]); unfold load;
    rewrite (zip_num_parts l Hs); unfold create; rewrite Hp, Hc, Hs; reflexivity.
Qed.

Lemma save_symbolic_fails s : bk s = Mat \/ has_symb (amps s) = true -> save s = None.
Proof.
  unfold save. intros [H|H]; [rewrite H; reflexivity|]. destruct (bk s); rewrite ?H; reflexivity.
Qed.

(* ---------------------------------------------------------------- Dicke states *)
Lemma zrange_spec len : forall lo x, In x (zrange lo len) <-> (lo <= x < lo + Z.of_nat len)%Z.
Proof.
  induction len as [|len IH]; intros lo x; cbn [zrange In].
  - split; [intros []|lia].
  - rewrite IH. lia.
Qed.

Lemma zrange_NoDup len : forall lo, NoDup (zrange lo len).
Proof.
  induction len as [|len IH]; intro lo; cbn [zrange]; constructor; [|apply IH].
  rewrite zrange_spec. lia.
Qed.

Lemma zrange_length len : forall lo, length (zrange lo len) = len.
Proof. induction len as [|len IH]; intro lo; cbn [zrange length]; [reflexivity|]. rewrite IH. reflexivity. Qed.

Lemma zrange_nth len : forall lo k d, k < len -> nth k (zrange lo len) d = (lo + Z.of_nat k)%Z.
Proof.
  induction len as [|len IH]; intros lo k d H; [lia|]. cbn [zrange]. destruct k as [|k]; cbn [nth]; [lia|].
  rewrite IH by lia. lia.
Qed.

Lemma memZ_spec i l : memZ i l = true <-> In i l.
Proof.
  unfold memZ. rewrite existsb_exists. split.
  - intros [x [Hx E]]. apply Z.eqb_eq in E. subst x. exact Hx.
  - intro H. exists i. split; [exact H|apply Z.eqb_refl].
Qed.

Lemma qsum_map_add {A} (f g : A -> Q) l : (qsum (map (fun x => f x + g x) l) == qsum (map f l) + qsum (map g l))%Q.
Proof. induction l as [|x l IH]; cbn [map qsum]; [reflexivity|]. rewrite IH. ring. Qed.

Lemma qsum_map_ext {A} (f g : A -> Q) l : (forall x, In x l -> (f x == g x)%Q) ->
  (qsum (map f l) == qsum (map g l))%Q.
Proof.
  induction l as [|x l IH]; intro H; cbn [map qsum]; [reflexivity|].
  rewrite (H x (or_introl eq_refl)), IH; [reflexivity|]. intros y Hy. apply H. right. exact Hy.
Qed.

Lemma qsum_delta (p : Q) j rng : NoDup rng ->
  (qsum (map (fun i => if Z.eqb i j then p else 0) rng) == if memZ j rng then p else 0)%Q.
Proof.
  induction 1 as [|x rng Hx Hnd IH]; cbn [map qsum]; [reflexivity|].
  unfold memZ in *. cbn [existsb]. rewrite IH. rewrite (Z.eqb_sym j x).
  destruct (Z.eqb_spec x j) as [E|E]; cbn [orb].
  - subst x. destruct (existsb (Z.eqb j) rng) eqn:Ex; [|ring].
    exfalso. apply Hx. apply memZ_spec. exact Ex.
  - ring.
Qed.

Lemma qsum_zero {A} (l : list A) : (qsum (map (fun _ => 0) l) == 0)%Q.
Proof. induction l as [|x l IH]; cbn [map qsum]; [reflexivity|]. rewrite IH. ring. Qed.

Lemma qsum_indicator (p : Q) rng : NoDup rng -> forall idx, NoDup idx -> (forall i, In i idx -> In i rng) ->
  (qsum (map (fun i => if memZ i idx then p else 0) rng) == p * inject_Z (Z.of_nat (length idx)))%Q.
Proof.
  intros Hr idx. induction 1 as [|j idx Hj Hnd IH]; intro Hsub.
  - rewrite (qsum_map_ext _ (fun _ => 0%Q)) by (intros; reflexivity). rewrite qsum_zero.
    cbn [length]. change (inject_Z (Z.of_nat 0)) with 0%Q. ring.
  - rewrite (qsum_map_ext _ (fun i => (if Z.eqb i j then p else 0) + (if memZ i idx then p else 0))%Q).
    + rewrite qsum_map_add, qsum_delta by exact Hr. rewrite IH by (intros i Hi; apply Hsub; right; exact Hi).
      assert (Hin : memZ j rng = true) by (apply memZ_spec, Hsub; left; reflexivity). rewrite Hin.
      cbn [length]. rewrite Nat2Z.inj_succ. unfold Z.succ. rewrite inject_Z_plus. ring.
    + intros i _. unfold memZ. cbn [existsb]. destruct (Z.eqb_spec i j) as [E|E]; cbn [orb].
      * subst i. destruct (existsb (Z.eqb j) idx) eqn:Ex; [|ring].
        exfalso. apply Hj. apply memZ_spec. exact Ex.
      * ring.
Qed.

Lemma dicke_probs_sum n idx : NoDup idx -> (forall i, In i idx -> 0 <= i < 2 ^ n)%Z -> idx <> [] ->
  (qsum (dicke_probs n idx) == 1)%Q.
Proof.
  intros Hnd Hr Hne. unfold dicke_probs. rewrite qsum_indicator; [|apply zrange_NoDup|exact Hnd|].
  - destruct idx as [|j idx]; [congruence|]. set (c := length (j :: idx)).
    assert (Hc : c <> 0) by (subst c; cbn [length]; lia). clearbody c.
    unfold Qeq, Qmult, inject_Z. cbn [Qnum Qden]. rewrite Z.mul_1_r, Z.mul_1_l, Pos.mul_1_r.
    rewrite <- (Nat2Pos.id c Hc) at 1. rewrite positive_nat_Z. reflexivity.
  - intros i Hi. apply zrange_spec. specialize (Hr i Hi). rewrite Z2Nat.id by (apply Z.pow_nonneg; lia). lia.
Qed.

Lemma nth_map_lt {A B} (f : A -> B) l : forall k d d', k < length l -> nth k (map f l) d' = f (nth k l d).
Proof.
  induction l as [|x l IH]; intros k d d' H; cbn [length] in H; [lia|].
  destruct k as [|k]; cbn [map nth]; [reflexivity|]. apply IH. lia.
Qed.

Lemma dicke_probs_nth n idx i : (0 <= i < 2 ^ n)%Z ->
  nth (Z.to_nat i) (dicke_probs n idx) 0%Q = if memZ i idx then (1 # Pos.of_nat (length idx))%Q else 0%Q.
Proof.
  intro Hi. unfold dicke_probs.
  rewrite (nth_map_lt _ _ _ 0%Z) by (rewrite zrange_length; lia).
  rewrite zrange_nth by lia. rewrite Z2Nat.id by lia. reflexivity.
Qed.

Lemma weight_k_indices_spec n k i : In i (weight_k_indices n k) <-> (0 <= i < 2 ^ n)%Z /\ popcount i = k.
Proof.
  unfold weight_k_indices. rewrite filter_In, zrange_spec, Z.eqb_eq.
  destruct (Z.le_gt_cases 0 n) as [Hn|Hn].
  - rewrite Z2Nat.id by (apply Z.pow_nonneg; lia). reflexivity.
  - rewrite (Z.pow_neg_r 2 n Hn). cbn. lia.
Qed.

Lemma weight_k_indices_NoDup n k : NoDup (weight_k_indices n k).
Proof. unfold weight_k_indices. apply NoDup_filter. apply zrange_NoDup. Qed.

Definition dicke_checkb (n k : Z) : bool :=
  match dicke_indices n k with
  | DIdx idx => lzeqb idx (weight_k_indices n k) && negb (Nat.eqb (length idx) 0)
  | _ => false
  end.
Definition dicke_krange (n : Z) : list Z := zrange 0 (Z.to_nat (n + 1)).
Definition dicke_all_checkb (N : nat) : bool :=
  forallb (fun n => forallb (dicke_checkb n) (dicke_krange n)) (zrange 1 N).

Lemma forallb2_lift {A B} (f : A -> B -> bool) (g : A -> list B) l :
  forallb (fun a => forallb (f a) (g a)) l = true -> forall a b, In a l -> In b (g a) -> f a b = true.
Proof.
  intros H a b Ha Hb. rewrite forallb_forall in H. specialize (H a Ha). rewrite forallb_forall in H. apply H. exact Hb.
Qed.

(* certified computation: every n <= 16, every k <= n *)
Lemma dicke_all_16 : forallb (fun n => forallb (dicke_checkb n) (dicke_krange n)) (zrange 1 16) = true.
Proof. vm_compute. reflexivity. Qed.

Lemma dicke_all_16_lifted : forall n k, In n (zrange 1 16) -> In k (dicke_krange n) -> dicke_checkb n k = true.
Proof. apply (forallb2_lift dicke_checkb dicke_krange (zrange 1 16)). exact dicke_all_16. Qed.

Lemma dicke_bounded n k : (1 <= n <= 16)%Z -> (0 <= k <= n)%Z ->
  dicke_indices n k = DIdx (weight_k_indices n k) /\ weight_k_indices n k <> [].
Proof.
  intros Hn Hk.
  assert (H1 : In n (zrange 1 16)) by (apply zrange_spec; change (Z.of_nat 16) with 16%Z; lia).
  assert (H2 : In k (dicke_krange n)) by (apply zrange_spec; lia).
  pose proof (dicke_all_16_lifted n k H1 H2) as H. clear H1 H2.
  unfold dicke_checkb in H. destruct (dicke_indices n k) as [| |idx]; try discriminate.
  apply andb_true_iff in H. destruct H as [H1 H2].
  apply (leqb_true Z.eqb (fun x y => proj1 (Z.eqb_eq x y))) in H1. subst idx.
  split; [reflexivity|]. intro E. rewrite E in H2. discriminate.
Qed.

(* everything the property says about dicke_state, for n <= 16 *)
Lemma dicke_bounded_spec n k : (1 <= n <= 16)%Z -> (0 <= k <= n)%Z ->
  exists idx, dicke_indices n k = DIdx idx /\
    (forall i, In i idx <-> (0 <= i < 2 ^ n)%Z /\ popcount i = k) /\ NoDup idx /\
    (qsum (dicke_probs n idx) == 1)%Q /\
    (forall i, (0 <= i < 2 ^ n)%Z ->
       nth (Z.to_nat i) (dicke_probs n idx) 0%Q
       = if Z.eqb (popcount i) k then (1 # Pos.of_nat (length idx))%Q else 0%Q).
Proof.
  intros Hn Hk. destruct (dicke_bounded n k Hn Hk) as [E Hne]. exists (weight_k_indices n k).
  split; [exact E|]. split; [apply weight_k_indices_spec|]. split; [apply weight_k_indices_NoDup|].
  split.
  - apply dicke_probs_sum; [apply weight_k_indices_NoDup| |exact Hne].
    intros i Hi. apply weight_k_indices_spec in Hi. apply Hi.
  - intros i Hi. rewrite dicke_probs_nth by exact Hi.
    destruct (Z.eqb_spec (popcount i) k) as [Ep|Ep].
    + assert (Hm : memZ i (weight_k_indices n k) = true) by (apply memZ_spec, weight_k_indices_spec; auto).
      rewrite Hm. reflexivity.
    + destruct (memZ i (weight_k_indices n k)) eqn:Hm; [|reflexivity].
      apply memZ_spec, weight_k_indices_spec in Hm. tauto.
Qed.

Lemma dicke_rejects n k : dicke_indices n k = DErr <-> (n <= 0 \/ k < 0 \/ n < k)%Z.
Proof.
  unfold dicke_indices.
  destruct (Z.leb_spec n 0); [split; [lia|reflexivity]|].
  destruct (Z.ltb_spec k 0); [split; [lia|reflexivity]|].
  destruct (Z.ltb_spec n k); [split; [lia|reflexivity]|].
  destruct (Z.eqb_spec k 0); [split; [discriminate|lia]|].
  destruct (dicke_loop _ _ _ _); split; try discriminate; lia.
Qed.

Local Open Scope Z_scope.
(* ---------------------------------------------------------------- the Gosper step, for every input *)
Lemma testbit_hl h a m n : 0 <= m -> 0 <= a < 2 ^ m -> 0 <= n ->
  Z.testbit (h * 2 ^ m + a) n = if n <? m then Z.testbit a n else Z.testbit h (n - m).
Proof.
  intros Hm Ha Hn. assert (Hp : 2 ^ m <> 0) by (apply Z.pow_nonzero; lia).
  destruct (Z.ltb_spec n m) as [H|H].
  - rewrite <- (Z.mod_pow2_bits_low (h * 2 ^ m + a) m n) by lia.
    rewrite Z.add_comm, Z.mod_add by exact Hp. rewrite Z.mod_small by exact Ha. reflexivity.
  - replace n with ((n - m) + m) at 1 by lia. rewrite <- Z.div_pow2_bits by lia.
    rewrite Z.div_add_l by exact Hp. rewrite Z.div_small by exact Ha. rewrite Z.add_0_r. reflexivity.
Qed.

Lemma lor_hl h h' a b m : 0 <= m -> 0 <= a < 2 ^ m -> 0 <= b < 2 ^ m -> 0 <= Z.lor a b < 2 ^ m ->
  Z.lor (h * 2 ^ m + a) (h' * 2 ^ m + b) = Z.lor h h' * 2 ^ m + Z.lor a b.
Proof.
  intros Hm Ha Hb Hab. apply Z.bits_inj'. intros n Hn.
  rewrite Z.lor_spec, !testbit_hl by assumption.
  destruct (n <? m); rewrite Z.lor_spec; reflexivity.
Qed.

Lemma lowbit B j : 0 <= j -> Z.land (B * 2 ^ (j + 1) + 2 ^ j) (- (B * 2 ^ (j + 1) + 2 ^ j)) = 2 ^ j.
Proof.
  intro Hj. assert (Hlt : 0 <= 2 ^ j < 2 ^ (j + 1)).
  { split; [apply Z.pow_nonneg; lia|]. apply Z.pow_lt_mono_r; lia. }
  assert (E2 : 2 ^ (j + 1) = 2 * 2 ^ j) by (rewrite Z.pow_add_r by lia; lia).
  replace (- (B * 2 ^ (j + 1) + 2 ^ j)) with (Z.lnot B * 2 ^ (j + 1) + 2 ^ j) by (unfold Z.lnot; rewrite E2; lia).
  replace (2 ^ j) with (0 * 2 ^ (j + 1) + 2 ^ j) at 3 by lia.
  apply Z.bits_inj'. intros n Hn. rewrite Z.land_spec, !testbit_hl by lia.
  destruct (n <? j + 1) eqn:E.
  - apply andb_diag.
  - apply Z.ltb_ge in E. rewrite Z.lnot_spec by lia. rewrite Z.testbit_0_l. apply andb_negb_r.
Qed.

Lemma lor_pred B j : 0 <= j ->
  Z.lor (B * 2 ^ (j + 1) + 2 ^ j) (B * 2 ^ (j + 1) + 2 ^ j - 1) = B * 2 ^ (j + 1) + (2 ^ (j + 1) - 1).
Proof.
  intro Hj. assert (Hp : 0 < 2 ^ j) by (apply Z.pow_pos_nonneg; lia).
  assert (E2 : 2 ^ (j + 1) = 2 * 2 ^ j) by (rewrite Z.pow_add_r by lia; lia).
  assert (Elow : Z.lor (2 ^ j) (2 ^ j - 1) = 2 ^ (j + 1) - 1).
  { replace (2 ^ j) with (1 * 2 ^ j + 0) at 1 by lia. replace (2 ^ j - 1) with (0 * 2 ^ j + (2 ^ j - 1)) by lia.
    rewrite lor_hl by (rewrite ?Z.lor_0_l; lia). rewrite Z.lor_0_l. change (Z.lor 1 0) with 1. lia. }
  replace (B * 2 ^ (j + 1) + 2 ^ j - 1) with (B * 2 ^ (j + 1) + (2 ^ j - 1)) by lia.
  rewrite lor_hl by (rewrite ?Elow; lia). rewrite Z.lor_diag, Elow. reflexivity.
Qed.

(* closed form: the lowest block of c ones starting at bit j moves its top one up by one position and the
   remaining c-1 ones drop to the bottom *)
Lemma gosper_closed_form A c j : 0 <= A -> 1 <= c -> 0 <= j ->
  get_next_number_with_same_hamming_weight (A * 2 ^ (j + c + 1) + (2 ^ c - 1) * 2 ^ j)
  = A * 2 ^ (j + c + 1) + 2 ^ (j + c) + (2 ^ (c - 1) - 1).
Proof.
  intros HA Hc Hj. unfold get_next_number_with_same_hamming_weight.
  set (B := A * 2 ^ c + (2 ^ (c - 1) - 1)).
  assert (P1 : 0 < 2 ^ j) by (apply Z.pow_pos_nonneg; lia).
  assert (P2 : 0 < 2 ^ (c - 1)) by (apply Z.pow_pos_nonneg; lia).
  assert (Ec : 2 ^ c = 2 * 2 ^ (c - 1)) by (replace c with ((c - 1) + 1) at 1 by lia; rewrite Z.pow_add_r by lia; lia).
  assert (Ej1 : 2 ^ (j + 1) = 2 * 2 ^ j) by (rewrite Z.pow_add_r by lia; lia).
  assert (Ejc : 2 ^ (j + c) = 2 ^ j * 2 ^ c) by (rewrite Z.pow_add_r by lia; lia).
  assert (Ejc1 : 2 ^ (j + c + 1) = 2 * 2 ^ (j + c)) by (rewrite (Z.pow_add_r 2 (j + c) 1) by lia; lia).
  assert (Ev : A * 2 ^ (j + c + 1) + (2 ^ c - 1) * 2 ^ j = B * 2 ^ (j + 1) + 2 ^ j) by (subst B; nia).
  rewrite Ev. cbv zeta. rewrite lor_pred by exact Hj. rewrite lowbit by exact Hj.
  assert (Et : B * 2 ^ (j + 1) + (2 ^ (j + 1) - 1) + 1 = A * 2 ^ (j + c + 1) + 2 ^ (j + c)) by (subst B; nia).
  rewrite Et. rewrite lowbit by lia.
  assert (Eq : 2 ^ (j + c) / 2 ^ j = 2 ^ c) by (rewrite Ejc, Z.mul_comm, Z.div_mul by lia; reflexivity).
  assert (Es : Z.shiftr (2 ^ c) 1 = 2 ^ (c - 1)).
  { rewrite Z.shiftr_div_pow2 by lia. change (2 ^ 1) with 2. rewrite Ec, Z.mul_comm, Z.div_mul by lia. reflexivity. }
  rewrite Eq, Es.
  assert (Hr : 0 <= 2 ^ (c - 1) - 1 < 2 ^ (j + c)) by nia.
  replace (A * 2 ^ (j + c + 1) + 2 ^ (j + c)) with ((2 * A + 1) * 2 ^ (j + c) + 0) at 1 by lia.
  replace (2 ^ (c - 1) - 1) with (0 * 2 ^ (j + c) + (2 ^ (c - 1) - 1)) at 1 by lia.
  rewrite lor_hl by (rewrite ?Z.lor_0_l; lia). rewrite Z.lor_0_l, Z.lor_0_r. lia.
Qed.

(* ---- popcount *)
Lemma pos_popcount_pos p : 1 <= pos_popcount p.
Proof. induction p; cbn [pos_popcount]; lia. Qed.

Lemma popcount_nonneg x : 0 <= popcount x.
Proof. destruct x; cbn [popcount]; try lia. pose proof (pos_popcount_pos p). lia. Qed.

Lemma popcount_positive x : 0 < x -> 1 <= popcount x.
Proof. destruct x; cbn [popcount]; try lia. intros _. apply pos_popcount_pos. Qed.

Lemma popcount_double x : 0 <= x -> popcount (2 * x) = popcount x.
Proof. destruct x; intro H; try reflexivity; lia. Qed.

Lemma popcount_succ_double x : 0 <= x -> popcount (2 * x + 1) = 1 + popcount x.
Proof. destruct x; intro H; try reflexivity; lia. Qed.

Lemma popcount_hl m : 0 <= m -> forall h a, 0 <= h -> 0 <= a < 2 ^ m ->
  popcount (h * 2 ^ m + a) = popcount h + popcount a.
Proof.
  intro Hm. pattern m. apply natlike_ind; [| |exact Hm]; clear m Hm.
  - intros h a Hh Ha. change (2 ^ 0) with 1 in *. assert (a = 0) by lia. subst a. rewrite Z.mul_1_r, Z.add_0_r.
    cbn [popcount]. lia.
  - intros m Hm IH h a Hh Ha. rewrite Z.pow_succ_r in * by exact Hm.
    pose proof (Z.div_mod a 2 ltac:(lia)) as Hdm. pose proof (Z.mod_pos_bound a 2 ltac:(lia)) as Hb.
    assert (Hq : 0 <= a / 2 < 2 ^ m) by (split; [apply Z.div_pos; lia|apply Z.div_lt_upper_bound; lia]).
    assert (Hx : 0 <= h * 2 ^ m + a / 2) by nia.
    destruct (Z.eq_dec (a mod 2) 0) as [E|E].
    + replace (h * (2 * 2 ^ m) + a) with (2 * (h * 2 ^ m + a / 2)) by lia.
      rewrite popcount_double by exact Hx. rewrite IH by (exact Hh || exact Hq).
      replace a with (2 * (a / 2)) at 2 by lia. rewrite popcount_double by lia. reflexivity.
    + replace (h * (2 * 2 ^ m) + a) with (2 * (h * 2 ^ m + a / 2) + 1) by lia.
      rewrite popcount_succ_double by exact Hx. rewrite IH by (exact Hh || exact Hq).
      replace a with (2 * (a / 2) + 1) at 2 by lia. rewrite popcount_succ_double by lia. lia.
Qed.

Lemma popcount_pow2 k : 0 <= k -> popcount (2 ^ k) = 1.
Proof.
  intro Hk. assert (Hp : 0 < 2 ^ k) by (apply Z.pow_pos_nonneg; lia).
  replace (2 ^ k) with (1 * 2 ^ k + 0) by lia.
  rewrite popcount_hl by lia. reflexivity.
Qed.

Lemma popcount_ones c : 0 <= c -> popcount (2 ^ c - 1) = c.
Proof.
  intro Hc. pattern c. apply natlike_ind; [reflexivity| |exact Hc]. clear c Hc. intros c Hc IH.
  rewrite Z.pow_succ_r by exact Hc. replace (2 * 2 ^ c - 1) with (2 * (2 ^ c - 1) + 1) by lia.
  rewrite popcount_succ_double by (pose proof (Z.pow_pos_nonneg 2 c); lia). lia.
Qed.

(* below 2^m at most m ones, and m ones only for 2^m - 1 *)
Lemma popcount_bound m : 0 <= m -> forall e, 0 <= e < 2 ^ m -> popcount e <= m /\ (popcount e = m -> e = 2 ^ m - 1).
Proof.
  intro Hm. pattern m. apply natlike_ind; [| |exact Hm]; clear m Hm.
  - intros e He. change (2 ^ 0) with 1 in *. assert (e = 0) by lia. subst e. cbn. lia.
  - intros m Hm IH e He. rewrite Z.pow_succ_r in * by exact Hm.
    pose proof (Z.div_mod e 2 ltac:(lia)) as Hdm. pose proof (Z.mod_pos_bound e 2 ltac:(lia)) as Hb.
    assert (Hq : 0 <= e / 2 < 2 ^ m) by (split; [apply Z.div_pos; lia|apply Z.div_lt_upper_bound; lia]).
    destruct (IH (e / 2) Hq) as [I1 I2]. set (q := e / 2) in *. clearbody q.
    destruct (Z.eq_dec (e mod 2) 0) as [E|E].
    + assert (Ee : e = 2 * q) by lia. rewrite Ee. rewrite popcount_double by lia. split; lia.
    + assert (Ee : e = 2 * q + 1) by lia. rewrite Ee. rewrite popcount_succ_double by lia. split; [lia|].
      intro H. assert (H' : popcount q = m) by lia. specialize (I2 H'). lia.
Qed.

(* ---- every positive number has the block decomposition *)
Lemma odd_decomposition p : exists A c, 0 <= A /\ 1 <= c /\ Zpos p~1 = A * 2 ^ (c + 1) + (2 ^ c - 1).
Proof.
  induction p as [p IH|p _|].
  - destruct IH as (A & c & HA & Hc & E). exists A, (c + 1). split; [exact HA|]. split; [lia|].
    rewrite Pos2Z.inj_xI, E. rewrite !(Z.pow_add_r 2 _ 1) by lia. change (2 ^ 1) with 2. lia.
  - exists (Zpos p), 1. split; [lia|]. split; [lia|]. rewrite Pos2Z.inj_xI, Pos2Z.inj_xO. change (2 ^ (1 + 1)) with 4.
    change (2 ^ 1) with 2. lia.
  - exists 0, 2. cbn. lia.
Qed.

Lemma block_decomposition p : exists A c j, 0 <= A /\ 1 <= c /\ 0 <= j /\
  Zpos p = A * 2 ^ (j + c + 1) + (2 ^ c - 1) * 2 ^ j.
Proof.
  induction p as [p _|p IH|].
  - destruct (odd_decomposition p) as (A & c & HA & Hc & E). exists A, c, 0.
    repeat split; try assumption; try lia. rewrite E. change (2 ^ 0) with 1. rewrite Z.add_0_l. lia.
  - destruct IH as (A & c & j & HA & Hc & Hj & E). exists A, c, (j + 1).
    repeat split; try assumption; try lia. rewrite Pos2Z.inj_xO, E.
    replace (j + 1 + c + 1) with ((j + c + 1) + 1) by lia. rewrite !(Z.pow_add_r 2 _ 1) by lia.
    change (2 ^ 1) with 2. lia.
  - exists 0, 1, 0. cbn. lia.
Qed.

(* ---- the step is correct for every positive input: the result is larger, has the same number of ones, and no
        number strictly in between has that many ones (so it is THE next number with the same Hamming weight) *)
Lemma gosper_next_spec v : 0 < v ->
  let w := get_next_number_with_same_hamming_weight v in
  v < w /\ popcount w = popcount v /\ (forall u, v < u < w -> popcount u <> popcount v).
Proof.
  intro Hv. destruct v as [|p|p]; try lia. clear Hv.
  destruct (block_decomposition p) as (A & c & j & HA & Hc & Hj & E). rewrite E. cbv zeta.
  rewrite gosper_closed_form by assumption.
  assert (P1 : 0 < 2 ^ j) by (apply Z.pow_pos_nonneg; lia).
  assert (P2 : 0 < 2 ^ (c - 1)) by (apply Z.pow_pos_nonneg; lia).
  assert (Ec : 2 ^ c = 2 * 2 ^ (c - 1)) by (replace c with ((c - 1) + 1) at 1 by lia; rewrite Z.pow_add_r by lia; lia).
  assert (Ejc : 2 ^ (j + c) = 2 ^ j * 2 ^ c) by (rewrite Z.pow_add_r by lia; lia).
  assert (Ejc1 : 2 ^ (j + c + 1) = 2 * 2 ^ (j + c)) by (rewrite (Z.pow_add_r 2 (j + c) 1) by lia; lia).
  set (X := 2 ^ (j + c)) in *. set (Y := 2 ^ j) in *. set (Cm := 2 ^ (c - 1)) in *. set (C := 2 ^ c) in *.
  assert (HX : 0 < X) by nia.
  (* popcounts of the two numbers *)
  assert (Pv : popcount (A * 2 ^ (j + c + 1) + (C - 1) * Y) = popcount A + c).
  { rewrite popcount_hl by (try lia; nia). f_equal.
    replace ((C - 1) * Y) with ((C - 1) * 2 ^ j + 0) by (subst Y; lia).
    rewrite popcount_hl by (subst C; lia). subst C. rewrite popcount_ones by lia. change (popcount 0) with 0. lia. }
  assert (Pw : popcount (A * 2 ^ (j + c + 1) + X + (Cm - 1)) = popcount A + c).
  { replace (A * 2 ^ (j + c + 1) + X + (Cm - 1)) with (A * 2 ^ (j + c + 1) + (1 * 2 ^ (j + c) + (Cm - 1))) by (subst X; lia).
    rewrite popcount_hl by (try lia; fold X; nia).
    rewrite popcount_hl by (try lia; fold X; nia). subst Cm. rewrite popcount_ones by lia. change (popcount 1) with 1. lia. }
  split; [nia|]. split; [rewrite Pv, Pw; reflexivity|].
  intros u Hu. rewrite Pv.
  (* u has the same high part A *)
  set (lo := u - A * 2 ^ (j + c + 1)).
  assert (Hlo : (C - 1) * Y < lo < X + (Cm - 1)) by (subst lo; lia).
  assert (Hlo2 : 0 <= lo < 2 ^ (j + c + 1)) by nia.
  replace u with (A * 2 ^ (j + c + 1) + lo) by (subst lo; lia).
  rewrite popcount_hl by (try lia).
  destruct (Z.lt_ge_cases lo X) as [Hlt|Hge].
  - (* all c ones of the block still there, plus something below bit j *)
    set (e := lo - (C - 1) * Y).
    assert (He : 0 < e < Y) by (subst e; nia).
    replace lo with ((C - 1) * 2 ^ j + e) by (subst e Y; lia).
    rewrite popcount_hl by (subst C Y; lia). subst C. rewrite popcount_ones by lia.
    pose proof (popcount_positive e ltac:(lia)). lia.
  - (* bit j+c set, and fewer than c-1 ones below *)
    set (e := lo - X).
    assert (He : 0 <= e < Cm - 1) by (subst e; lia).
    replace lo with (1 * 2 ^ (j + c) + e) by (subst e X; lia).
    rewrite popcount_hl by (try lia; fold X; nia).
    destruct (popcount_bound (c - 1) ltac:(lia) e ltac:(fold Cm; lia)) as [B1 B2]. fold Cm in B2.
    change (popcount 1) with 1. intro Hc'. assert (popcount e = c - 1) by lia. specialize (B2 H). lia.
Qed.

(* ---- the Dicke loop for every n *)

Lemma msb_le_iff w n : 0 < w -> (most_significant_set_bit w <=? n) = true <-> w < 2 ^ n.
Proof.
  intro Hw. unfold most_significant_set_bit. rewrite Z.leb_le.
  destruct (Z.lt_ge_cases n 0) as [Hn|Hn].
  - rewrite (Z.pow_neg_r 2 n Hn). pose proof (Z.log2_nonneg w). lia.
  - rewrite (Z.log2_lt_pow2 w n Hw). lia.
Qed.

Lemma dicke_loop_spec k n fuel : forall cur acc,
  0 < cur < 2 ^ n -> popcount cur = k -> 2 ^ n - cur <= Z.of_nat fuel ->
  exists L, dicke_loop fuel n cur acc = Some (rev acc ++ L) /\
            (forall i, In i L <-> cur < i < 2 ^ n /\ popcount i = k) /\
            StronglySorted Z.lt L.
Proof.
  induction fuel as [|f IH]; intros cur acc Hc Hp Hf; [cbn in Hf; lia|].
  cbn [dicke_loop]. destruct (gosper_next_spec cur ltac:(lia)) as (Hlt & Hpop & Hmin).
  set (nxt := get_next_number_with_same_hamming_weight cur) in *. cbv zeta.
  destruct (most_significant_set_bit nxt <=? n) eqn:E.
  - apply (msb_le_iff nxt n ltac:(lia)) in E.
    destruct (IH nxt (nxt :: acc) ltac:(lia) ltac:(congruence) ltac:(lia)) as (L & EL & HL & HS).
    exists (nxt :: L). split; [rewrite EL; cbn [rev]; rewrite <- app_assoc; reflexivity|]. split.
    + intro i. cbn [In]. rewrite HL. split.
      * intros [H|H]; [subst i; split; [lia|congruence]|]. split; [lia|tauto].
      * intros [H1 H2]. destruct (Z.lt_trichotomy i nxt) as [H|[H|H]]; [|left; congruence|right; split; [lia|exact H2]].
        exfalso. apply (Hmin i ltac:(lia)). congruence.
    + constructor; [exact HS|]. apply Forall_forall. intros i Hi. apply HL in Hi. lia.
  - exists []. split; [rewrite app_nil_r; reflexivity|]. split; [|constructor].
    intro i. cbn [In]. split; [intros []|]. intros [H1 H2].
    assert (Hge : ~ nxt < 2 ^ n) by (intro H; apply (msb_le_iff nxt n ltac:(lia)) in H; congruence).
    apply (Hmin i ltac:(lia)). congruence.
Qed.

Lemma sorted_lt_NoDup l : StronglySorted Z.lt l -> NoDup l.
Proof.
  induction 1 as [|x l _ IH Hx]; constructor; [|exact IH].
  intro Hin. rewrite Forall_forall in Hx. specialize (Hx x Hin). lia.
Qed.

Lemma dicke_indices_all n k : 1 <= n -> 0 <= k <= n ->
  exists idx, dicke_indices n k = DIdx idx /\
    (forall i, In i idx <-> 0 <= i < 2 ^ n /\ popcount i = k) /\ StronglySorted Z.lt idx.
Proof.
  intros Hn Hk. unfold dicke_indices.
  destruct (Z.leb_spec n 0) as [G0|G0]; [lia|]. destruct (Z.ltb_spec k 0) as [G1|G1]; [lia|].
  destruct (Z.ltb_spec n k) as [G2|G2]; [lia|].
  assert (Pn : 0 < 2 ^ n) by (apply Z.pow_pos_nonneg; lia).
  destruct (Z.eqb_spec k 0) as [Ek|Ek].
  - exists [0]. split; [reflexivity|]. split; [|repeat constructor].
    intro i. cbn [In]. split.
    + intros [H|[]]. subst i k. split; [lia|reflexivity].
    + intros [H1 H2]. left. destruct (Z.eq_dec i 0) as [|Hne]; [congruence|].
      pose proof (popcount_positive i ltac:(lia)). lia.
  - assert (Pk : 0 < 2 ^ k) by (apply Z.pow_pos_nonneg; lia).
    assert (Hkn : 2 ^ k <= 2 ^ n) by (apply Z.pow_le_mono_r; lia).
    assert (Ek2 : 2 <= 2 ^ k) by (change 2 with (2 ^ 1) at 1; apply Z.pow_le_mono_r; lia).
    destruct (dicke_loop_spec k n (Z.to_nat (2 ^ n)) (2 ^ k - 1) [2 ^ k - 1] ltac:(lia)
                (popcount_ones k ltac:(lia)) ltac:(lia)) as (L & EL & HL & HS).
    rewrite EL. exists (2 ^ k - 1 :: L). split; [reflexivity|]. split.
    + intro i. cbn [In]. rewrite HL. split.
      * intros [H|H]; [subst i; split; [lia|apply popcount_ones; lia]|]. split; [lia|tauto].
      * intros [H1 H2]. destruct (Z.eq_dec i (2 ^ k - 1)) as [|Hne]; [left; congruence|right].
        split; [|exact H2]. split; [|lia].
        destruct (Z.lt_ge_cases i (2 ^ k)) as [Hlt|Hge]; [|lia].
        destruct (popcount_bound k ltac:(lia) i ltac:(lia)) as [_ B]. specialize (B H2). lia.
    + constructor; [exact HS|]. apply Forall_forall. intros i Hi. apply HL in Hi. lia.
Qed.

(* everything the property says about dicke_state, for every number of qubits *)
Lemma dicke_all_spec n k : 1 <= n -> 0 <= k <= n ->
  exists idx, dicke_indices n k = DIdx idx /\
    (forall i, In i idx <-> 0 <= i < 2 ^ n /\ popcount i = k) /\ StronglySorted Z.lt idx /\ NoDup idx /\
    (qsum (dicke_probs n idx) == 1)%Q /\
    (forall i, 0 <= i < 2 ^ n ->
       nth (Z.to_nat i) (dicke_probs n idx) 0%Q
       = if Z.eqb (popcount i) k then (1 # Pos.of_nat (length idx))%Q else 0%Q).
Proof.
  intros Hn Hk. destruct (dicke_indices_all n k Hn Hk) as (idx & E & Hm & Hs). exists idx.
  pose proof (sorted_lt_NoDup idx Hs) as Hnd.
  split; [exact E|]. split; [exact Hm|]. split; [exact Hs|]. split; [exact Hnd|]. split.
  - apply dicke_probs_sum; [exact Hnd|intros i Hi; apply Hm in Hi; apply Hi|].
    assert (Hin : In (2 ^ k - 1) idx).
    { apply Hm. assert (0 < 2 ^ k) by (apply Z.pow_pos_nonneg; lia).
      assert (2 ^ k <= 2 ^ n) by (apply Z.pow_le_mono_r; lia). split; [lia|apply popcount_ones; lia]. }
    intro E0. rewrite E0 in Hin. exact Hin.
  - intros i Hi. rewrite dicke_probs_nth by exact Hi.
    destruct (Z.eqb_spec (popcount i) k) as [Ep|Ep].
    + assert (Hmem : memZ i idx = true) by (apply memZ_spec, Hm; auto). rewrite Hmem. reflexivity.
    + destruct (memZ i idx) eqn:Hmem; [|reflexivity]. apply memZ_spec, Hm in Hmem. tauto.
Qed.
