(* Agreement of the GENERATED runner methods (Gen/RunnerGen.v, translated from api/circuit_runner.py and
   api/wavefunction_simulator.py on every run) with the hand-written model State/Runner.v of property C14.

   The model describes instrumented subclasses (those of the correspondence harness): a base-class runner whose
   _run_and_measure logs the request and returns n + over shots of register width, and a simulator whose native hook
   logs the native segment, whose operations log their application outside native segments, and whose get_wavefunction
   logs the call before delegating to the inherited method.  These subclasses are written below as values of the
   GENERATED hook records; everything else - validation, counters, loops, dispatch - is generated text. *)
Require Import Coq.ZArith.ZArith Coq.Lists.List Coq.Bool.Bool Coq.micromega.Lia Coq.Strings.String.
Require Import OQ.State.Runner OQ.State.RunnerProofs OQ.State.RunnerTrSupport OQ.Gen.RunnerGen.
Import ListNotations.
Open Scope Z_scope.

(* ------------------------------------------------------------------ objects, outcomes *)
(* an initialised object: both counters set; sd is the attribute seed (None for a class that never assigns it);
   the subclass's own state is the execution log, newest event first *)
Definition leaf := runner_attrs unit (list event).
Definition obj (nc nj : Z) (sd : option (option Z)) (lg : list event) : leaf :=
  mk_runner_attrs (Some nc) (Some nj) sd None None None None None lg.
(* the subclass's own state replaced *)
Definition set_ext {I X Y} (s : runner_attrs I X) (y : Y) : runner_attrs I Y :=
  mk_runner_attrs (a__n_circuits_executed s) (a__n_jobs_executed s) (a_seed s) (a_record_bitstrings s) (a_inner_backend s)
                  (a_raw_data s) (a_type s) (a_raw_data_file_name s) y.
(* the object of a model runner *)
Definition obj_of (r : runner) (sd : option (option Z)) (lg : list event) : leaf :=
  obj (n_circuits r) (n_jobs r) sd lg.

Definition exn_of (e : err) : pyexn :=
  match e with ValueError => E_ValueError | TypeErr => E_TypeError | AttrError => E_AttributeError end.
Definition res_of {A} (x : err + A) : result A :=
  match x with inl e => Raise (exn_of e) | inr a => Ok a end.
(* outcome of the model's [dist] as the result of get_measurement_outcome_distribution ([dist] yields OErr / ODist only) *)
Definition dist_res_of (o : outcome) : result pydist :=
  match o with OErr e => Raise (exn_of e) | ODist w => Ok w | _ => Raise E_TypeError end.
(* the n_samples argument of run_batch_and_measure: Union[int, Sequence[int]] *)
Definition spec_of (s : Z + list Z) : nspec := match s with inl n => One n | inr l => Many l end.

(* what a method call on a model runner looks like on its object: new object with the trace logged, result *)
Definition after {A} (x : runner * (err + A) * list event) (sd : option (option Z)) (lg : list event)
  : leaf * result A :=
  let '(r, o, tr) := x in (obj_of r sd (rev tr ++ lg), res_of o).

(* an instrumented hook: log an event, return a value *)
Definition logged {A} (e : event) (a : A) : M leaf A :=
  fun s => (set_ext s (e :: a_ext s), Ok a).
(* an operation applied outside a native segment: consecutive applications form one ESeg false event *)
Definition log_apply (o : op) (lg : list event) : list event :=
  match lg with
  | ESeg false ks :: l => ESeg false (ks ++ [o]) :: l
  | l => ESeg false [o] :: l
  end.
Definition logged_apply (o : op) (sv : svec) : M leaf svec :=
  fun s => (set_ext s (log_apply o (a_ext s)), Ok sv).

(* the base-class runner of the model: _run_and_measure returns n + over shots of register width *)
Definition base_hooks (over : Z) : BaseCircuitRunner_hooks unit (list event) :=
  BaseCircuitRunner_mk_hooks (fun c n => logged (ERun c n) (n + over, cw c)).
(* the simulator of the model: ov transforms the inherited is_natively_supported (fun _ => p: overridden by p;
   fun q => q: inherited) *)
Definition sim_hooks (ov : (op -> bool) -> (op -> bool)) : BaseWavefunctionSimulator_hooks unit (list event) :=
  BaseWavefunctionSimulator_mk_hooks
    (fun ops sv => logged (ESeg true ops) sv)
    logged_apply
    ov
    (fun inherited c init => bind (logged (EWf c) tt) (fun _ => inherited c init)).
Definition sim_pred (ov : (op -> bool) -> (op -> bool)) : Z -> bool := ov BaseWavefunctionSimulator_is_natively_supported_gen.

(* ------------------------------------------------------------------ __init__, counters *)
Lemma base_init_spec lg :
  BaseCircuitRunner___init___gen (runner_attrs_new lg) = (obj 0 0 None lg, Ok tt).
Proof. reflexivity. Qed.
Lemma sim_init_spec seed lg :
  BaseWavefunctionSimulator___init___gen seed (runner_attrs_new lg) = (obj 0 0 (Some seed) lg, Ok tt).
Proof. reflexivity. Qed.

Lemma base_counters_spec H r sd lg :
  BaseCircuitRunner_R_n_circuits_executed H (obj_of r sd lg) = (obj_of r sd lg, Ok (n_circuits r)) /\
  BaseCircuitRunner_R_n_jobs_executed H (obj_of r sd lg) = (obj_of r sd lg, Ok (n_jobs r)).
Proof. split; reflexivity. Qed.
Lemma sim_counters_spec H r sd lg :
  BaseWavefunctionSimulator_R_n_circuits_executed H (obj_of r sd lg) = (obj_of r sd lg, Ok (n_circuits r)) /\
  BaseWavefunctionSimulator_R_n_jobs_executed H (obj_of r sd lg) = (obj_of r sd lg, Ok (n_jobs r)).
Proof. split; reflexivity. Qed.

(* ------------------------------------------------------------------ run_and_measure of the base-class runner *)
Lemma base_run_spec over nc nj sd lg c n :
  BaseCircuitRunner_R_run_and_measure (base_hooks over) c n (obj nc nj sd lg)
  = after (run_single (RBase over nc nj) c n) sd lg.
Proof.
  unfold BaseCircuitRunner_R_run_and_measure, BaseCircuitRunner_run_and_measure_gen, after. cbn [run_single].
  destruct (n <=? 0); reflexivity.
Qed.

(* ------------------------------------------------------------------ validation of run_batch_and_measure: for every
   _run_batch_and_measure the subclass may have, the generated method is the model's [validate] followed by that hook *)
Lemma list_mul_one {A} (k : nat) (x : A) : List.concat (repeat [x] k) = repeat x k.
Proof. induction k as [|k IH]; [reflexivity|]. cbn. rewrite IH. reflexivity. Qed.

Lemma batch_validation_spec {I X} (h : list circuit -> list Z -> M (runner_attrs I X) (list res)) cs s :
  BaseCircuitRunner_run_batch_and_measure_gen h cs s
  = match validate (List.length cs) (spec_of s) with
    | None => raise E_ValueError
    | Some ns => h cs ns
    end.
Proof.
  unfold BaseCircuitRunner_run_batch_and_measure_gen, py_list_mul, py_len, py_any.
  destruct s as [n|ns]; cbn [spec_of validate].
  - rewrite Nat2Z.id, list_mul_one, repeat_length, Z.eqb_refl. cbn [negb].
    destruct (n <=? 0) eqn:E; [reflexivity|].
    replace (existsb (fun v_n : Z => v_n <=? 0) (repeat n (List.length cs))) with false; [reflexivity|].
    symmetry. induction (List.length cs) as [|k IH]; [reflexivity|]. cbn. rewrite E. exact IH.
  - replace (Z.of_nat (List.length ns) =? Z.of_nat (List.length cs)) with (Nat.eqb (List.length ns) (List.length cs)).
    + destruct (negb (Nat.eqb (List.length ns) (List.length cs))); [reflexivity|].
      destruct (existsb (fun n : Z => n <=? 0) ns); reflexivity.
    + destruct (Nat.eqb_spec (List.length ns) (List.length cs)) as [E|E].
      * rewrite E. symmetry. apply Z.eqb_refl.
      * symmetry. apply Z.eqb_neq. lia.
Qed.

(* ------------------------------------------------------------------ the default _run_batch_and_measure is the model's [loop],
   for every run_and_measure that is the model's [run_single] on a family K of runners closed under it *)
Lemma comp_is_loop (f : circuit -> Z -> M leaf res) (K : runner -> Prop) (P : circuit -> Prop) sd :
  (forall r c n lg, K r -> P c -> f c n (obj_of r sd lg) = after (run_single r c n) sd lg) ->
  (forall r c n, K r -> K (fst (fst (run_single r c n)))) ->
  forall cns r lg, K r -> Forall (fun cn => P (fst cn)) cns ->
    py_comp cns (py_unpack2 f) (obj_of r sd lg) = after (loop r cns) sd lg.
Proof.
  intros Hf HK cns. induction cns as [|[c n] cns IH]; intros r lg Kr HP.
  - reflexivity.
  - inversion HP as [|x y Pc HP']; subst. cbn [fst] in Pc.
    cbn [py_comp loop]. unfold bind at 1. unfold py_unpack2 at 1. cbn [fst snd].
    rewrite (Hf r c n lg Kr Pc). specialize (HK r c n Kr).
    destruct (run_single r c n) as [[r1 [e|m]] tr]; cbn [after res_of fst] in *.
    + reflexivity.
    + unfold bind at 1. rewrite (IH r1 (rev tr ++ lg) HK HP').
      destruct (loop r1 cns) as [[r2 [e|ms]] tr']; cbn [after res_of]; unfold ret;
        rewrite rev_app_distr, <- app_assoc; reflexivity.
Qed.

Definition is_base (over : Z) (r : runner) : Prop := exists nc nj, r = RBase over nc nj.
Definition is_sim (p : Z -> bool) (r : runner) : Prop := exists nc nj, r = RSim p nc nj.

Lemma obj_of_base over nc nj sd lg : obj_of (RBase over nc nj) sd lg = obj nc nj sd lg.
Proof. reflexivity. Qed.
Lemma obj_of_sim p nc nj sd lg : obj_of (RSim p nc nj) sd lg = obj nc nj sd lg.
Proof. reflexivity. Qed.

Lemma base_closed over r c n : is_base over r -> is_base over (fst (fst (run_single r c n))).
Proof.
  intros [nc [nj ->]]. cbn [run_single]. destruct (n <=? 0); cbn [fst]; eexists; eexists; reflexivity.
Qed.

Lemma base_loop_spec over nc nj sd lg cs ns :
  BaseCircuitRunner_R__run_batch_and_measure (base_hooks over) cs ns (obj nc nj sd lg)
  = after (loop (RBase over nc nj) (combine cs ns)) sd lg.
Proof.
  unfold BaseCircuitRunner_R__run_batch_and_measure, BaseCircuitRunner__run_batch_and_measure_gen, py_zip.
  rewrite <- obj_of_base with (over := over).
  apply comp_is_loop with (K := is_base over) (P := fun _ => True).
  - intros r c n lg' [nc' [nj' ->]] _. rewrite obj_of_base. apply base_run_spec.
  - intros r c n. apply base_closed.
  - eexists; eexists; reflexivity.
  - apply Forall_forall. intros; exact I.
Qed.

Lemma run_batch_leaf r cs s : is_leaf r = true ->
  run_batch r cs s = match validate (List.length cs) s with
                     | None => (r, inl ValueError, [])
                     | Some ns => loop r (combine cs ns)
                     end.
Proof. destruct r; [reflexivity|reflexivity|discriminate]. Qed.

Lemma base_batch_spec over nc nj sd lg cs s :
  BaseCircuitRunner_R_run_batch_and_measure (base_hooks over) cs s (obj nc nj sd lg)
  = after (run_batch (RBase over nc nj) cs (spec_of s)) sd lg.
Proof.
  unfold BaseCircuitRunner_R_run_batch_and_measure. rewrite batch_validation_spec, run_batch_leaf by reflexivity.
  destruct (validate (List.length cs) (spec_of s)) as [ns|]; [apply base_loop_spec|reflexivity].
Qed.

(* ------------------------------------------------------------------ get_measurement_outcome_distribution of the base class *)
Lemma base_dist_spec over nc nj sd lg c on :
  BaseCircuitRunner_R_get_measurement_outcome_distribution (base_hooks over) c on (obj nc nj sd lg)
  = (let '(r, o, tr) := dist (RBase over nc nj) c on in (obj_of r sd (rev tr ++ lg), dist_res_of o)).
Proof.
  unfold BaseCircuitRunner_R_get_measurement_outcome_distribution, BaseCircuitRunner_get_measurement_outcome_distribution_gen.
  destruct on as [n|]; [|reflexivity].
  unfold bind. rewrite base_run_spec. cbn [dist].
  destruct (run_single (RBase over nc nj) c n) as [[r [e|m]] tr]; reflexivity.
Qed.

(* ------------------------------------------------------------------ the simulator: get_wavefunction *)
(* the log before a segment is handled does not end in an open non-native segment when that segment is non-native *)
Definition head_ok (lg : list event) (segs : list (bool * list Z)) : Prop :=
  match segs, lg with
  | (false, _) :: _, ESeg false _ :: _ => False
  | _, _ => True
  end.

(* one application outside a native segment *)
Lemma apply_step (self1 : op -> bool) self2 o sv nc nj sd lg :
  BaseWavefunctionSimulator_get_wavefunction_L2_body self1 self2 logged_apply o
    (BaseWavefunctionSimulator_get_wavefunction_S2_mk sv) (obj nc nj sd lg)
  = (obj nc nj sd (log_apply o lg), Ok (BaseWavefunctionSimulator_get_wavefunction_S2_mk sv)).
Proof. reflexivity. Qed.

Lemma apply_loop (self1 : op -> bool) self2 os : forall acc lg nc nj sd sv,
  py_for os (BaseWavefunctionSimulator_get_wavefunction_S2_mk sv)
    (BaseWavefunctionSimulator_get_wavefunction_L2_body self1 self2 logged_apply)
    (obj nc nj sd (ESeg false acc :: lg))
  = (obj nc nj sd (ESeg false (acc ++ os) :: lg), Ok (BaseWavefunctionSimulator_get_wavefunction_S2_mk sv)).
Proof.
  induction os as [|o os IH]; intros acc lg nc nj sd sv.
  - cbn [py_for]. rewrite app_nil_r. reflexivity.
  - cbn [py_for]. unfold bind at 1. rewrite apply_step. cbn [log_apply]. rewrite IH, <- app_assoc. reflexivity.
Qed.

(* a whole non-native segment, entered with a log that does not end in an open non-native segment *)
Lemma apply_segment (self1 : op -> bool) self2 o os lg nc nj sd sv :
  match lg with ESeg false _ :: _ => False | _ => True end ->
  py_for (o :: os) (BaseWavefunctionSimulator_get_wavefunction_S2_mk sv)
    (BaseWavefunctionSimulator_get_wavefunction_L2_body self1 self2 logged_apply)
    (obj nc nj sd lg)
  = (obj nc nj sd (ESeg false (o :: os) :: lg), Ok (BaseWavefunctionSimulator_get_wavefunction_S2_mk sv)).
Proof.
  intro Hlg. cbn [py_for]. unfold bind at 1. rewrite apply_step.
  replace (log_apply o lg) with (ESeg false [o] :: lg) by (destruct lg as [|[c n|c|[|] ks] l]; try reflexivity; contradiction).
  rewrite apply_loop. reflexivity.
Qed.

(* the body of the loop over the segments *)
Lemma segment_step_native ov os sv nc nj sd lg :
  BaseWavefunctionSimulator_get_wavefunction_L1_body
    (BaseWavefunctionSimulator_R_is_natively_supported (sim_hooks ov))
    (BaseWavefunctionSimulator_R__get_wavefunction_from_native_circuit (sim_hooks ov))
    (BaseWavefunctionSimulator_ext_op_apply (sim_hooks ov))
    true os (BaseWavefunctionSimulator_get_wavefunction_S1_mk sv) (obj nc nj sd lg)
  = (obj (nc + 1) (nj + 1) sd (ESeg true os :: lg), Ok (BaseWavefunctionSimulator_get_wavefunction_S1_mk sv)).
Proof. reflexivity. Qed.

Lemma segment_step_other ov os sv nc nj sd lg s' :
  py_for os (BaseWavefunctionSimulator_get_wavefunction_S2_mk sv)
    (BaseWavefunctionSimulator_get_wavefunction_L2_body
       (BaseWavefunctionSimulator_R_is_natively_supported (sim_hooks ov))
       (BaseWavefunctionSimulator_R__get_wavefunction_from_native_circuit (sim_hooks ov)) logged_apply)
    (obj nc (nj + 1) sd lg) = (s', Ok (BaseWavefunctionSimulator_get_wavefunction_S2_mk sv)) ->
  BaseWavefunctionSimulator_get_wavefunction_L1_body
    (BaseWavefunctionSimulator_R_is_natively_supported (sim_hooks ov))
    (BaseWavefunctionSimulator_R__get_wavefunction_from_native_circuit (sim_hooks ov))
    (BaseWavefunctionSimulator_ext_op_apply (sim_hooks ov))
    false os (BaseWavefunctionSimulator_get_wavefunction_S1_mk sv) (obj nc nj sd lg)
  = (s', Ok (BaseWavefunctionSimulator_get_wavefunction_S1_mk sv)).
Proof.
  intro H. unfold BaseWavefunctionSimulator_get_wavefunction_L1_body, subcirc_operations.
  unfold bind at 1. unfold py_getattr at 1. cbn [obj a__n_jobs_executed].
  unfold bind at 1. unfold py_setattr at 1.
  cbn [BaseWavefunctionSimulator_get_wavefunction_S1_v_state].
  change (BaseWavefunctionSimulator_ext_op_apply (sim_hooks ov)) with logged_apply.
  change (set_a__n_jobs_executed (obj nc nj sd lg) (Some (nj + 1))) with (obj nc (nj + 1) sd lg).
  unfold bind. rewrite H. reflexivity.
Qed.

Lemma segment_loop (ov : (op -> bool) -> (op -> bool)) segs : forall nc nj sd lg sv,
  Forall (fun s => snd s <> []) segs -> alternating (map fst segs) -> head_ok lg segs ->
  py_for segs (BaseWavefunctionSimulator_get_wavefunction_S1_mk sv)
    (py_unpack2 (BaseWavefunctionSimulator_get_wavefunction_L1_body
                   (BaseWavefunctionSimulator_R_is_natively_supported (sim_hooks ov))
                   (BaseWavefunctionSimulator_R__get_wavefunction_from_native_circuit (sim_hooks ov))
                   (BaseWavefunctionSimulator_ext_op_apply (sim_hooks ov))))
    (obj nc nj sd lg)
  = (obj (nc + Z.of_nat (List.length (filter fst segs))) (nj + Z.of_nat (List.length segs)) sd
         (rev (map seg_event segs) ++ lg),
     Ok (BaseWavefunctionSimulator_get_wavefunction_S1_mk sv)).
Proof.
  induction segs as [|[b os] segs IH]; intros nc nj sd lg sv Hne Halt Hhd.
  - cbn. rewrite !Z.add_0_r. reflexivity.
  - inversion Hne as [|x y Hos Hne']; subst. cbn [snd] in Hos.
    assert (Halt' : alternating (map fst segs)).
    { cbn [map fst] in Halt. destruct (map fst segs); [exact I|]. exact (proj2 Halt). }
    cbn [py_for]. unfold bind at 1. unfold py_unpack2 at 1. cbn [fst snd].
    cbn [filter fst List.length map rev]. unfold seg_event at 2. cbn [fst snd].
    rewrite <- app_assoc. cbn [app]. rewrite ?Nat2Z.inj_succ.
    destruct b.
    + (* native segment *)
      rewrite segment_step_native.
      rewrite IH; [|exact Hne'|exact Halt'|destruct segs as [|[[|] ?] ?]; exact I].
      cbn [List.length]. rewrite ?Nat2Z.inj_succ.
      replace (nc + 1 + Z.of_nat (List.length (filter fst segs))) with (nc + Z.succ (Z.of_nat (List.length (filter fst segs)))) by lia.
      replace (nj + 1 + Z.of_nat (List.length segs)) with (nj + Z.succ (Z.of_nat (List.length segs))) by lia.
      reflexivity.
    + (* operations applied one by one *)
      destruct os as [|o os]; [contradiction|].
      rewrite (segment_step_other ov (o :: os) sv nc nj sd lg (obj nc (nj + 1) sd (ESeg false (o :: os) :: lg))).
      * rewrite IH; [|exact Hne'|exact Halt'|].
        -- replace (nj + 1 + Z.of_nat (List.length segs)) with (nj + Z.succ (Z.of_nat (List.length segs))) by lia.
           reflexivity.
        -- destruct segs as [|[[|] os'] segs']; try exact I.
           cbn [map fst alternating] in Halt. exfalso. apply (proj1 Halt). reflexivity.
      * apply apply_segment. unfold head_ok in Hhd. destruct lg as [|[c n|c|[|] ks] l]; try exact I. exact Hhd.
Qed.

Lemma sim_wavefunction_spec ov nc nj sd lg c : 0 <= cw c ->
  BaseWavefunctionSimulator_R_get_wavefunction (sim_hooks ov) c None (obj nc nj sd lg)
  = (let '(nc', nj', tr) := get_wavefunction (sim_pred ov) nc nj c in (obj nc' nj' sd (rev tr ++ lg), Ok (cw c))).
Proof.
  intro Hw. rewrite gw_spec.
  unfold BaseWavefunctionSimulator_R_get_wavefunction. cbn [BaseWavefunctionSimulator_ov_get_wavefunction sim_hooks].
  unfold bind at 1. change (logged (EWf c) tt (obj nc nj sd lg)) with (obj nc nj sd (EWf c :: lg), Ok tt).
  unfold BaseWavefunctionSimulator_get_wavefunction_gen, circ_n_qubits, py_pow, np_zeros.
  destruct (cw c <? 0) eqn:E; [lia|]. unfold bind at 1. unfold bind at 1. unfold lift at 1.
  unfold bind at 1. unfold lift at 1. unfold sv_setitem.
  assert (Hpos : 0 < 2 ^ cw c) by (apply Z.pow_pos_nonneg; lia).
  replace ((- 2 ^ cw c <=? 0) && (0 <? 2 ^ cw c)) with true
    by (symmetry; apply andb_true_iff; split; [apply Z.leb_le|apply Z.ltb_lt]; lia).
  unfold ret at 1. unfold bind at 1. unfold py_split_circuit.
  change (BaseWavefunctionSimulator_R_is_natively_supported (sim_hooks ov)) with (sim_pred ov) at 1.
  rewrite segment_loop.
  - cbn [BaseWavefunctionSimulator_get_wavefunction_S1_v_state]. unfold lift, py_Wavefunction.
    rewrite Z.log2_pow2 by lia. rewrite Z.eqb_refl.
    cbn [rev]. rewrite <- app_assoc. reflexivity.
  - eapply Forall_impl; [|apply segments_uniform]. intros s Hs. exact (proj1 Hs).
  - apply segments_alternate.
  - unfold head_ok. destruct (segments (sim_pred ov) (cops c)) as [|[[|] ?] ?]; exact I.
Qed.

(* ------------------------------------------------------------------ the simulator: run_and_measure, batch, distribution *)
Lemma sim_run_spec ov nc nj seed lg c n : 0 <= cw c ->
  BaseWavefunctionSimulator_R_run_and_measure (sim_hooks ov) c n (obj nc nj (Some seed) lg)
  = after (run_single (RSim (sim_pred ov) nc nj) c n) (Some seed) lg.
Proof.
  intro Hw.
  unfold BaseWavefunctionSimulator_R_run_and_measure, BaseWavefunctionSimulator_run_and_measure_gen,
         BaseWavefunctionSimulator_R__run_and_measure, BaseWavefunctionSimulator__run_and_measure_gen, after.
  cbn [run_single]. destruct (n <=? 0) eqn:En; [reflexivity|].
  unfold py_truth_symset, circ_free_symbols. destruct (cfree c); [reflexivity|].
  unfold bind at 1. unfold bind at 1. rewrite sim_wavefunction_spec by exact Hw.
  destruct (get_wavefunction (sim_pred ov) nc nj c) as [[nc' nj'] tr].
  unfold bind, py_getattr, lift, py_sample_from_wavefunction, py_Measurements, ret. cbn [obj a_seed].
  replace (n <? 1) with false by (symmetry; apply Z.ltb_ge; apply Z.leb_gt in En; lia).
  reflexivity.
Qed.

Lemma sim_closed p r c n : is_sim p r -> is_sim p (fst (fst (run_single r c n))).
Proof.
  intros [nc [nj ->]]. cbn [run_single]. destruct (n <=? 0); [eexists; eexists; reflexivity|].
  destruct (cfree c); [eexists; eexists; reflexivity|].
  destruct (get_wavefunction p nc nj c) as [[nc' nj'] tr]. eexists; eexists; reflexivity.
Qed.

Lemma sim_batch_spec ov nc nj seed lg cs s : Forall (fun c => 0 <= cw c) cs ->
  BaseWavefunctionSimulator_R_run_batch_and_measure (sim_hooks ov) cs s (obj nc nj (Some seed) lg)
  = after (run_batch (RSim (sim_pred ov) nc nj) cs (spec_of s)) (Some seed) lg.
Proof.
  intro Hcs.
  unfold BaseWavefunctionSimulator_R_run_batch_and_measure. rewrite batch_validation_spec, run_batch_leaf by reflexivity.
  destruct (validate (List.length cs) (spec_of s)) as [ns|]; [|reflexivity].
  unfold BaseWavefunctionSimulator_R__run_batch_and_measure, BaseCircuitRunner__run_batch_and_measure_gen, py_zip.
  rewrite <- obj_of_sim with (p := sim_pred ov).
  apply comp_is_loop with (K := is_sim (sim_pred ov)) (P := fun c => 0 <= cw c).
  - intros r c n lg' [nc' [nj' ->]] Hc. rewrite obj_of_sim. apply sim_run_spec. exact Hc.
  - intros r c n. apply sim_closed.
  - eexists; eexists; reflexivity.
  - clear -Hcs. revert ns. induction Hcs as [|c cs Hc Hcs IH]; intros [|n ns]; cbn [combine]; constructor; auto.
Qed.

(* a sampled distribution, and the exact one of a circuit without free symbols *)
Lemma sim_dist_spec ov nc nj seed lg c on : 0 <= cw c -> (on = None -> cfree c = false) ->
  BaseWavefunctionSimulator_R_get_measurement_outcome_distribution (sim_hooks ov) c on (obj nc nj (Some seed) lg)
  = (let '(r, o, tr) := dist (RSim (sim_pred ov) nc nj) c on in (obj_of r (Some seed) (rev tr ++ lg), dist_res_of o)).
Proof.
  intros Hw Hfree.
  unfold BaseWavefunctionSimulator_R_get_measurement_outcome_distribution,
         BaseWavefunctionSimulator_get_measurement_outcome_distribution_gen.
  destruct on as [n|].
  - unfold bind. rewrite sim_run_spec by exact Hw. cbn [dist].
    destruct (run_single (RSim (sim_pred ov) nc nj) c n) as [[r [e|m]] tr]; reflexivity.
  - unfold bind. rewrite sim_wavefunction_spec by exact Hw. cbn [dist]. rewrite (Hfree eq_refl).
    destruct (get_wavefunction (sim_pred ov) nc nj c) as [[nc' nj'] tr]. reflexivity.
Qed.

(* the remaining inputs: the exact distribution of a circuit WITH free symbols.  The counters and the log are the
   model's; the model's outcome is TypeError (float() of a symbolic probability inside
   create_bitstring_distribution_from_probability_distribution), which the shape abstraction of
   RunnerTrSupport.v cannot see: the generated method returns the distribution's key length. *)
Lemma sim_dist_symbolic_spec ov nc nj seed lg c : 0 <= cw c -> cfree c = true ->
  BaseWavefunctionSimulator_R_get_measurement_outcome_distribution (sim_hooks ov) c None (obj nc nj (Some seed) lg)
  = (let '(r, o, tr) := dist (RSim (sim_pred ov) nc nj) c None in (obj_of r (Some seed) (rev tr ++ lg), Ok (cw c))) /\
  snd (fst (dist (RSim (sim_pred ov) nc nj) c None)) = OErr TypeErr.
Proof.
  intros Hw Hfree.
  unfold BaseWavefunctionSimulator_R_get_measurement_outcome_distribution,
         BaseWavefunctionSimulator_get_measurement_outcome_distribution_gen.
  unfold bind. rewrite sim_wavefunction_spec by exact Hw. cbn [dist]. rewrite Hfree.
  destruct (get_wavefunction (sim_pred ov) nc nj c) as [[nc' nj'] tr]. split; reflexivity.
Qed.

(* the public get_wavefunction call of the model's [step] *)
Lemma sim_wavefn_step_spec ov nc nj sd lg c : 0 <= cw c ->
  BaseWavefunctionSimulator_R_get_wavefunction (sim_hooks ov) c None (obj nc nj sd lg)
  = (let '(r, o, tr) := step (RSim (sim_pred ov) nc nj) (Wavefn c) in
     (obj_of r sd (rev tr ++ lg), match o with OWf w => Ok w | _ => Raise E_TypeError end)).
Proof.
  intro Hw. rewrite sim_wavefunction_spec by exact Hw. cbn [step].
  destruct (get_wavefunction (sim_pred ov) nc nj c) as [[nc' nj'] tr]. reflexivity.
Qed.

(* the inherited predicate: gate operations are native *)
Lemma default_predicate_spec : sim_pred (fun q => q) = op_is_GateOperation.
Proof. reflexivity. Qed.

(* ------------------------------------------------------------------ the tracking wrapper (runners/trackers.py)
   The tracker holds another runner object in self.inner_backend.  The theorems are simulation statements, relative to
   the wrapped object: IF the methods of the wrapped object (state type I) simulate the model's functions on the model
   runner the object stands for (relation RI, log lgI), THEN the generated tracker methods simulate the model's functions
   on [RTrack ... r].  The relation [tracks] is again such a relation, so that the theorems apply to trackers nested to
   any depth.  The tracker's own world is the content of its file: the list of the texts written since it was last
   truncated.  Hand-written here, as in the model: record_raw_measurement_data (see tr/tr_runner.py for the reason) and
   the two file operations. *)
Definition sim {S A B} (R : S -> runner -> Prop) (lg : S -> list event) (m : M S A)
           (f : runner -> runner * B * list event) (conv : B -> result A) : Prop :=
  forall s r, R s r ->
    let '(r', o, tr) := f r in R (fst (m s)) r' /\ snd (m s) = conv o /\ lg (fst (m s)) = rev tr ++ lg s.

(* what the harness reads back from a written record (harness/c14.py read_records): the model's [record] *)
Fixpoint jget (k : string) (l : list (string * jval)) : option jval :=
  match l with
  | [] => None
  | (k', v) :: r => if String.eqb k k' then Some v else jget k r
  end.
Definition rec_abs (j : jval) : option record :=
  match j with
  | JDict l =>
      match jget "data_type" l, jget "circuit" l, jget "number_of_shots" l with
      | Some (JStr k), Some (JCircuit c), Some shots =>
          if String.eqb k "measurement"
          then match shots, jget "counts" l with
               | JInt n, Some (JCounts m) => Some (RecM c (n, snd m))
               | _, _ => None
               end
          else if String.eqb k "measurement outcome distribution"
          then match shots with JOptInt on => Some (RecD c on) | _ => None end
          else None
      | _, _, _ => None
      end
  | _ => None
  end.
(* the records in the file: json.load(file)["raw-data"]; no file yet: none *)
Definition file_recs (f : list jtext) : list jval :=
  match f with
  | [JDict [(_, JList js)]] => js
  | _ => []
  end.

Section Tracker.
  Variable I : Type.
  Variable RI : I -> runner -> Prop.
  Variable lgI : I -> list event.
  Variable inner_run : circuit -> Z -> M I res.
  Variable inner_batch : list circuit -> Z + list Z -> M I (list res).
  Variable inner_dist : circuit -> option Z -> M I pydist.

  Definition tstate := runner_attrs I (list jtext).
  Definition tobj (nc nj : Z) (sd : option (option Z)) (bits : option bool) (i : I) (pend : list jval)
             (ty fname : string) (file : list jtext) : tstate :=
    mk_runner_attrs (Some nc) (Some nj) sd (Some bits) (Some i) (Some pend) (Some ty) (Some fname) file.

  (* the record of one measurement, as record_raw_measurement_data builds it *)
  Definition jmeasurement (ty : string) (bits : option bool) (c : circuit) (m : res) : jval :=
    JDict (List.app
             [("data_type"%string, JStr "measurement"); ("device"%string, JStr ty); ("circuit"%string, JCircuit c);
              ("counts"%string, JCounts m); ("number_of_gates"%string, JInt (py_len (circ_operations c)));
              ("number_of_shots"%string, JInt (fst m))]
             match bits with Some true => [("bitstrings"%string, JBitstrings m)] | _ => [] end).
  (* record_raw_measurement_data, hand-modelled: the dict display is evaluated (to_dict raises for a circuit with a
     non-gate operation), the bitstrings are added when self.record_bitstrings is true, the dict is appended *)
  Definition record_hm (c : circuit) (m : res) : M tstate unit :=
    bind (py_getattr a_type) (fun ty =>
    bind (lift (py_to_dict c)) (fun _ =>
    bind (py_getattr a_record_bitstrings) (fun bits =>
    bind (py_getattr a_raw_data) (fun l =>
    py_setattr set_a_raw_data (py_list_append l (jmeasurement ty bits c m)))))).
  (* open(name, "w+") truncates the file, f.write(text) appends to it (one tracker, one file: the name is not looked at) *)
  Definition file_truncate (name : string) : M tstate unit := fun s => (set_ext s [], Ok tt).
  Definition file_append (name : string) (t : jtext) : M tstate unit := fun s => (set_ext s (a_ext s ++ [t]), Ok tt).

  Definition tracker_hooks : MeasurementTrackingBackend_hooks I (list jtext) :=
    MeasurementTrackingBackend_mk_hooks record_hm inner_batch inner_run inner_dist file_truncate file_append.

  (* a tracker object stands for the model's RTrack: counters, pending raw_data, file content, wrapped runner *)
  Definition tracks (s : tstate) (r : runner) : Prop :=
    exists nc nj sd bits i pendJ ty fname fileJ pend file ri,
      s = tobj nc nj sd bits i pendJ ty fname fileJ /\ r = RTrack nc nj file pend ri /\ RI i ri /\
      map rec_abs pendJ = map Some pend /\ map rec_abs (file_recs fileJ) = map Some file.
  Definition lgT (s : tstate) : list event :=
    match a_inner_backend s with Some i => lgI i | None => [] end.

  Lemma rec_abs_measurement ty bits c m : rec_abs (jmeasurement ty bits c m) = Some (RecM c m).
  Proof. destruct m as [n w]. destruct bits as [[|]|]; reflexivity. Qed.

  (* save_raw_data on a tracker object *)
  Lemma save_spec nc nj sd bits i pendJ ty fname fileJ :
    MeasurementTrackingBackend_R_save_raw_data tracker_hooks (tobj nc nj sd bits i pendJ ty fname fileJ)
    = (tobj nc nj sd bits i [] ty fname [JDict [("raw-data"%string, JList pendJ)]], Ok tt).
  Proof. reflexivity. Qed.

  (* record_raw_measurement_data on a tracker object *)
  Lemma record_spec nc nj sd bits i pendJ ty fname fileJ c m :
    record_hm c m (tobj nc nj sd bits i pendJ ty fname fileJ)
    = if cgates c then (tobj nc nj sd bits i (pendJ ++ [jmeasurement ty bits c m]) ty fname fileJ, Ok tt)
      else (tobj nc nj sd bits i pendJ ty fname fileJ, Raise E_AttributeError).
  Proof. unfold record_hm, py_to_dict. destruct (cgates c); reflexivity. Qed.

  (* what the generated run_and_measure does on a tracker object, given what the wrapped object's method does *)
  Lemma tracker_run_eq nc nj sd bits i pendJ ty fname fileJ c n i' o : inner_run c n i = (i', o) ->
    MeasurementTrackingBackend_R_run_and_measure tracker_hooks c n (tobj nc nj sd bits i pendJ ty fname fileJ)
    = if n <=? 0 then (tobj nc nj sd bits i pendJ ty fname fileJ, Raise E_ValueError)
      else match o with
           | Raise e => (tobj nc nj sd bits i' pendJ ty fname fileJ, Raise e)
           | Ok m => if cgates c
                     then (tobj (nc + 1) (nj + 1) sd bits i' [] ty fname
                                [JDict [("raw-data"%string, JList (pendJ ++ [jmeasurement ty bits c m]))]], Ok m)
                     else (tobj nc nj sd bits i' pendJ ty fname fileJ, Raise E_AttributeError)
           end.
  Proof.
    intro Ei.
    unfold MeasurementTrackingBackend_R_run_and_measure, BaseCircuitRunner_run_and_measure_gen.
    destruct (n <=? 0); [reflexivity|].
    unfold MeasurementTrackingBackend_R__run_and_measure, MeasurementTrackingBackend__run_and_measure_gen.
    change (MeasurementTrackingBackend_inner_run_and_measure tracker_hooks) with inner_run.
    change (MeasurementTrackingBackend_R_record_raw_measurement_data tracker_hooks) with record_hm.
    unfold bind at 1. unfold bind at 1. unfold py_call_attr at 1. cbn [tobj a_inner_backend]. rewrite Ei.
    change (set_a_inner_backend (tobj nc nj sd bits i pendJ ty fname fileJ) (Some i'))
      with (tobj nc nj sd bits i' pendJ ty fname fileJ).
    destruct o as [m|e]; [|reflexivity].
    unfold bind at 1. rewrite record_spec. destruct (cgates c); [|reflexivity].
    unfold bind at 1. rewrite save_spec. reflexivity.
  Qed.

  Theorem tracker_run_sim c n :
    sim RI lgI (inner_run c n) (fun r => run_single r c n) res_of ->
    sim tracks lgT (MeasurementTrackingBackend_R_run_and_measure tracker_hooks c n) (fun r => run_single r c n) res_of.
  Proof.
    intros Hrun s r (nc & nj & sd & bits & i & pendJ & ty & fname & fileJ & pend & file & ri & -> & -> & Hi & Hp & Hf).
    cbn [run_single].
    destruct (inner_run c n i) as [i' o] eqn:Ei. rewrite (tracker_run_eq _ _ _ _ _ _ _ _ _ _ _ _ _ Ei).
    destruct (n <=? 0).
    - cbn [fst snd res_of exn_of rev app]. split; [|split; reflexivity].
      exists nc, nj, sd, bits, i, pendJ, ty, fname, fileJ, pend, file, ri. repeat split; assumption.
    - specialize (Hrun i ri Hi). rewrite Ei in Hrun.
      destruct (run_single ri c n) as [[ri' [e|m]] tr];
        cbn [fst snd] in Hrun; destruct Hrun as (Hi' & Ho & Hlg); subst o; cbn [res_of].
      + cbn [fst snd]. split; [|split; [reflexivity|exact Hlg]].
        exists nc, nj, sd, bits, i', pendJ, ty, fname, fileJ, pend, file, ri'. repeat split; assumption.
      + destruct (cgates c).
        * cbn [fst snd]. split; [|split; [reflexivity|exact Hlg]].
          exists (nc + 1), (nj + 1), sd, bits, i', [], ty, fname, [JDict [("raw-data"%string, JList (pendJ ++ [jmeasurement ty bits c m]))]],
                 [], (pend ++ [RecM c m]), ri'.
          repeat split; try assumption; try reflexivity.
          cbn [file_recs]. rewrite !map_app, Hp. cbn [map]. rewrite rec_abs_measurement. reflexivity.
        * cbn [fst snd exn_of]. split; [|split; [reflexivity|exact Hlg]].
          exists nc, nj, sd, bits, i', pendJ, ty, fname, fileJ, pend, file, ri'. repeat split; assumption.
  Qed.

  (* ---- run_batch_and_measure *)
  (* the records the loop over zip(circuits, measurements) appends: up to the first circuit to_dict cannot serialise *)
  Fixpoint jrecord_batch (ty : string) (bits : option bool) (cms : list (circuit * res)) : list jval :=
    match cms with
    | [] => []
    | (c, m) :: rest => if cgates c then jmeasurement ty bits c m :: jrecord_batch ty bits rest else []
    end.
  Lemma jrecord_batch_abs ty bits cms :
    map rec_abs (jrecord_batch ty bits cms) = map Some (fst (record_batch cms)).
  Proof.
    induction cms as [|[c m] cms IH]; [reflexivity|]. cbn [jrecord_batch record_batch].
    destruct (cgates c); [|reflexivity]. destruct (record_batch cms) as [rs ok]. cbn [fst map] in *.
    rewrite rec_abs_measurement, IH. reflexivity.
  Qed.

  Lemma record_loop nc nj sd bits i ty fname fileJ (sv : M tstate unit) cms : forall pendJ,
    py_for cms tt (py_unpack2 (MeasurementTrackingBackend_run_batch_and_measure_L1_body inner_batch record_hm sv))
      (tobj nc nj sd bits i pendJ ty fname fileJ)
    = (tobj nc nj sd bits i (pendJ ++ jrecord_batch ty bits cms) ty fname fileJ,
       if snd (record_batch cms) then Ok tt else Raise E_AttributeError).
  Proof.
    induction cms as [|[c m] cms IH]; intro pendJ.
    - cbn. rewrite app_nil_r. reflexivity.
    - cbn [py_for jrecord_batch record_batch]. unfold bind at 1. unfold py_unpack2 at 1. cbn [fst snd].
      unfold MeasurementTrackingBackend_run_batch_and_measure_L1_body at 1. unfold bind at 1.
      rewrite record_spec. destruct (cgates c).
      + unfold ret at 1. rewrite IH. destruct (record_batch cms) as [rs ok]. cbn [snd].
        rewrite <- app_assoc. reflexivity.
      + cbn [snd]. rewrite app_nil_r. reflexivity.
  Qed.

  Lemma tracker_batch_eq nc nj sd bits i pendJ ty fname fileJ cs s i' o : inner_batch cs s i = (i', o) ->
    MeasurementTrackingBackend_R_run_batch_and_measure tracker_hooks cs s (tobj nc nj sd bits i pendJ ty fname fileJ)
    = match o with
      | Raise e => (tobj (nc + py_len cs) (nj + 1) sd bits i' pendJ ty fname fileJ, Raise e)
      | Ok ms =>
          if snd (record_batch (combine cs ms))
          then (tobj (nc + py_len cs) (nj + 1) sd bits i' [] ty fname
                     [JDict [("raw-data"%string, JList (pendJ ++ jrecord_batch ty bits (combine cs ms)))]], Ok ms)
          else (tobj (nc + py_len cs) (nj + 1) sd bits i' (pendJ ++ jrecord_batch ty bits (combine cs ms)) ty fname fileJ,
                Raise E_AttributeError)
      end.
  Proof.
    intro Ei.
    unfold MeasurementTrackingBackend_R_run_batch_and_measure, MeasurementTrackingBackend_run_batch_and_measure_gen.
    change (MeasurementTrackingBackend_inner_run_batch_and_measure tracker_hooks) with inner_batch.
    change (MeasurementTrackingBackend_R_record_raw_measurement_data tracker_hooks) with record_hm.
    unfold bind at 1. unfold py_getattr at 1. cbn [tobj a__n_circuits_executed].
    unfold bind at 1. unfold py_setattr at 1.
    change (set_a__n_circuits_executed (tobj nc nj sd bits i pendJ ty fname fileJ) (Some (nc + py_len cs)))
      with (tobj (nc + py_len cs) nj sd bits i pendJ ty fname fileJ).
    unfold bind at 1. unfold py_getattr at 1. cbn [tobj a__n_jobs_executed].
    unfold bind at 1. unfold py_setattr at 1.
    change (set_a__n_jobs_executed (tobj (nc + py_len cs) nj sd bits i pendJ ty fname fileJ) (Some (nj + 1)))
      with (tobj (nc + py_len cs) (nj + 1) sd bits i pendJ ty fname fileJ).
    unfold bind at 1. unfold py_call_attr at 1. cbn [tobj a_inner_backend]. rewrite Ei.
    change (set_a_inner_backend (tobj (nc + py_len cs) (nj + 1) sd bits i pendJ ty fname fileJ) (Some i'))
      with (tobj (nc + py_len cs) (nj + 1) sd bits i' pendJ ty fname fileJ).
    destruct o as [ms|e]; [|reflexivity].
    unfold bind at 1. unfold py_zip. rewrite record_loop.
    destruct (snd (record_batch (combine cs ms))); [|reflexivity].
    unfold bind at 1. rewrite save_spec. reflexivity.
  Qed.

  Theorem tracker_batch_sim cs s :
    sim RI lgI (inner_batch cs s) (fun r => run_batch r cs (spec_of s)) res_of ->
    sim tracks lgT (MeasurementTrackingBackend_R_run_batch_and_measure tracker_hooks cs s)
        (fun r => run_batch r cs (spec_of s)) res_of.
  Proof.
    intros Hbatch st r (nc & nj & sd & bits & i & pendJ & ty & fname & fileJ & pend & file & ri & -> & -> & Hi & Hp & Hf).
    cbn [run_batch].
    destruct (inner_batch cs s i) as [i' o] eqn:Ei. rewrite (tracker_batch_eq _ _ _ _ _ _ _ _ _ _ _ _ _ Ei).
    specialize (Hbatch i ri Hi). rewrite Ei in Hbatch.
    destruct (run_batch ri cs (spec_of s)) as [[ri' [e|ms]] tr];
      cbn [fst snd] in Hbatch; destruct Hbatch as (Hi' & Ho & Hlg); subst o; cbn [res_of].
    - cbn [fst snd]. split; [|split; [reflexivity|exact Hlg]].
      exists (nc + py_len cs), (nj + 1), sd, bits, i', pendJ, ty, fname, fileJ, pend, file, ri'. repeat split; assumption.
    - pose proof (jrecord_batch_abs ty bits (combine cs ms)) as Hj.
      destruct (record_batch (combine cs ms)) as [recs [|]]; cbn [fst snd] in *.
      + split; [|split; [reflexivity|exact Hlg]].
        exists (nc + py_len cs), (nj + 1), sd, bits, i', [], ty, fname,
               [JDict [("raw-data"%string, JList (pendJ ++ jrecord_batch ty bits (combine cs ms)))]], [], (pend ++ recs), ri'.
        repeat split; try assumption; try reflexivity.
        cbn [file_recs]. rewrite !map_app, Hp, Hj. reflexivity.
      + split; [|split; [reflexivity|exact Hlg]].
        exists (nc + py_len cs), (nj + 1), sd, bits, i', (pendJ ++ jrecord_batch ty bits (combine cs ms)), ty, fname, fileJ,
               (pend ++ recs), file, ri'.
        repeat split; try assumption; try reflexivity.
        rewrite !map_app, Hp, Hj. reflexivity.
  Qed.

  (* ---- get_measurement_outcome_distribution *)
  Definition jdistribution (ty : string) (c : circuit) (d : pydist) (on : option Z) : jval :=
    JDict [("data_type"%string, JStr "measurement outcome distribution"); ("device"%string, JStr ty);
           ("circuit"%string, JCircuit c); ("distribution"%string, py_repr_dist d);
           ("number_of_gates"%string, JInt (py_len (circ_operations c))); ("number_of_shots"%string, JOptInt on)].
  Lemma rec_abs_distribution ty c d on : rec_abs (jdistribution ty c d on) = Some (RecD c on).
  Proof. reflexivity. Qed.

  Lemma tracker_dist_eq nc nj sd bits i pendJ ty fname fileJ c on i' o : inner_dist c on i = (i', o) ->
    MeasurementTrackingBackend_R_get_measurement_outcome_distribution tracker_hooks c on (tobj nc nj sd bits i pendJ ty fname fileJ)
    = match o with
      | Raise e => (tobj nc nj sd bits i' pendJ ty fname fileJ, Raise e)
      | Ok d =>
          if cgates c
          then (tobj nc nj sd bits i' [] ty fname
                     [JDict [("raw-data"%string, JList (pendJ ++ [jdistribution ty c d on]))]], Ok d)
          else (tobj nc nj sd bits i' pendJ ty fname fileJ, Raise E_AttributeError)
      end.
  Proof.
    intro Ei.
    unfold MeasurementTrackingBackend_R_get_measurement_outcome_distribution,
           MeasurementTrackingBackend_get_measurement_outcome_distribution_gen.
    change (MeasurementTrackingBackend_inner_get_measurement_outcome_distribution tracker_hooks) with inner_dist.
    unfold bind at 1. unfold py_call_attr at 1. cbn [tobj a_inner_backend]. rewrite Ei.
    change (set_a_inner_backend (tobj nc nj sd bits i pendJ ty fname fileJ) (Some i'))
      with (tobj nc nj sd bits i' pendJ ty fname fileJ).
    destruct o as [d|e]; [|reflexivity].
    unfold bind at 1. unfold py_getattr at 1. cbn [tobj a_raw_data].
    unfold bind at 1. unfold py_getattr at 1. cbn [tobj a_type].
    unfold bind at 1. unfold lift at 1. unfold py_to_dict. destruct (cgates c); [|reflexivity].
    unfold bind at 1. unfold py_setattr at 1.
    change (set_a_raw_data (tobj nc nj sd bits i' pendJ ty fname fileJ)
              (Some (py_list_append pendJ (JDict [("data_type"%string, JStr "measurement outcome distribution"); ("device"%string, JStr ty);
                 ("circuit"%string, JCircuit c); ("distribution"%string, py_repr_dist d);
                 ("number_of_gates"%string, JInt (py_len (circ_operations c))); ("number_of_shots"%string, JOptInt on)]))))
      with (tobj nc nj sd bits i' (pendJ ++ [jdistribution ty c d on]) ty fname fileJ).
    unfold bind at 1. rewrite save_spec. reflexivity.
  Qed.

  Theorem tracker_dist_sim c on :
    sim RI lgI (inner_dist c on) (fun r => dist r c on) dist_res_of ->
    sim tracks lgT (MeasurementTrackingBackend_R_get_measurement_outcome_distribution tracker_hooks c on)
        (fun r => dist r c on) dist_res_of.
  Proof.
    intros Hdist st r (nc & nj & sd & bits & i & pendJ & ty & fname & fileJ & pend & file & ri & -> & -> & Hi & Hp & Hf).
    cbn [dist].
    destruct (inner_dist c on i) as [i' o] eqn:Ei. rewrite (tracker_dist_eq _ _ _ _ _ _ _ _ _ _ _ _ _ Ei).
    specialize (Hdist i ri Hi). rewrite Ei in Hdist.
    pose proof (dist_outcome_kind ri c on) as Hk.
    destruct (dist ri c on) as [[ri' out] tr]; cbn [fst snd] in Hdist, Hk; destruct Hdist as (Hi' & Ho & Hlg); subst o.
    destruct Hk as [[e ->]|[w ->]]; cbn [dist_res_of].
    - cbn [fst snd]. split; [|split; [reflexivity|exact Hlg]].
      exists nc, nj, sd, bits, i', pendJ, ty, fname, fileJ, pend, file, ri'. repeat split; assumption.
    - destruct (cgates c); cbn [fst snd dist_res_of exn_of].
      + split; [|split; [reflexivity|exact Hlg]].
        exists nc, nj, sd, bits, i', [], ty, fname, [JDict [("raw-data"%string, JList (pendJ ++ [jdistribution ty c w on]))]],
               [], (pend ++ [RecD c on]), ri'.
        repeat split; try assumption; try reflexivity.
        cbn [file_recs]. rewrite !map_app, Hp. cbn [map]. rewrite rec_abs_distribution. reflexivity.
      + split; [|split; [reflexivity|exact Hlg]].
        exists nc, nj, sd, bits, i', pendJ, ty, fname, fileJ, pend, file, ri'. repeat split; assumption.
  Qed.
End Tracker.

(* ------------------------------------------------------------------ the wrapped objects the theorems above apply to *)
(* the objects of the model's base-class runner and simulator, as relations; their logs are their own state *)
Definition stands_base (over : Z) (s : leaf) (r : runner) : Prop :=
  exists nc nj sd lg, s = obj nc nj sd lg /\ r = RBase over nc nj.
Definition stands_sim (p : Z -> bool) (s : leaf) (r : runner) : Prop :=
  exists nc nj seed lg, s = obj nc nj (Some seed) lg /\ r = RSim p nc nj.

Lemma base_run_sim over c n :
  sim (stands_base over) a_ext (BaseCircuitRunner_R_run_and_measure (base_hooks over) c n) (fun r => run_single r c n) res_of.
Proof.
  intros s r (nc & nj & sd & lg & -> & ->). rewrite base_run_spec.
  destruct (base_closed over (RBase over nc nj) c n) as (nc' & nj' & E); [eexists; eexists; reflexivity|].
  destruct (run_single (RBase over nc nj) c n) as [[r' o] tr]. cbn [fst] in E. subst r'. cbn [after fst snd].
  split; [|split; reflexivity]. exists nc', nj', sd, (rev tr ++ lg). split; reflexivity.
Qed.

Lemma base_batch_closed over r cs s : is_base over r -> is_base over (fst (fst (run_batch r cs s))).
Proof.
  intros Hr. assert (Hl : forall cns r0, is_base over r0 -> is_base over (fst (fst (loop r0 cns)))).
  { induction cns as [|[c n] cns IH]; intros r0 H0; [exact H0|]. cbn [loop].
    pose proof (base_closed over r0 c n H0) as H1.
    destruct (run_single r0 c n) as [[r1 [e|m]] tr]; cbn [fst] in *; [exact H1|].
    specialize (IH r1 H1). destruct (loop r1 cns) as [[r2 [e|ms]] tr']; exact IH. }
  destruct Hr as (nc & nj & ->). cbn [run_batch].
  destruct (validate (List.length cs) s); [apply Hl|]; eexists; eexists; reflexivity.
Qed.

Lemma base_batch_sim over cs s :
  sim (stands_base over) a_ext (BaseCircuitRunner_R_run_batch_and_measure (base_hooks over) cs s)
      (fun r => run_batch r cs (spec_of s)) res_of.
Proof.
  intros st r (nc & nj & sd & lg & -> & ->). rewrite base_batch_spec.
  destruct (base_batch_closed over (RBase over nc nj) cs (spec_of s)) as (nc' & nj' & E); [eexists; eexists; reflexivity|].
  destruct (run_batch (RBase over nc nj) cs (spec_of s)) as [[r' o] tr]. cbn [fst] in E. subst r'. cbn [after fst snd].
  split; [|split; reflexivity]. exists nc', nj', sd, (rev tr ++ lg). split; reflexivity.
Qed.

Lemma base_dist_sim over c on :
  sim (stands_base over) a_ext (BaseCircuitRunner_R_get_measurement_outcome_distribution (base_hooks over) c on)
      (fun r => dist r c on) dist_res_of.
Proof.
  intros st r (nc & nj & sd & lg & -> & ->). rewrite base_dist_spec. cbn [dist].
  destruct on as [n|].
  - destruct (base_closed over (RBase over nc nj) c n) as (nc' & nj' & E); [eexists; eexists; reflexivity|].
    destruct (run_single (RBase over nc nj) c n) as [[r' [e|m]] tr]; cbn [fst] in E; subst r'; cbn [fst snd];
      (split; [|split; reflexivity]); exists nc', nj', sd, (rev tr ++ lg); split; reflexivity.
  - cbn [fst snd]. split; [|split; reflexivity]. exists nc, nj, sd, lg. split; reflexivity.
Qed.

(* a tracker around the model's base-class runner: all three forwarded methods simulate the model *)
Theorem tracked_base_sim over c n cs s on :
  let H := tracker_hooks leaf (BaseCircuitRunner_R_run_and_measure (base_hooks over))
                         (BaseCircuitRunner_R_run_batch_and_measure (base_hooks over))
                         (BaseCircuitRunner_R_get_measurement_outcome_distribution (base_hooks over)) in
  let T := tracks leaf (stands_base over) in
  let L := lgT leaf a_ext in
  sim T L (MeasurementTrackingBackend_R_run_and_measure H c n) (fun r => run_single r c n) res_of /\
  sim T L (MeasurementTrackingBackend_R_run_batch_and_measure H cs s) (fun r => run_batch r cs (spec_of s)) res_of /\
  sim T L (MeasurementTrackingBackend_R_get_measurement_outcome_distribution H c on) (fun r => dist r c on) dist_res_of.
Proof.
  cbn zeta. split; [|split].
  - apply tracker_run_sim, base_run_sim.
  - apply tracker_batch_sim, base_batch_sim.
  - apply tracker_dist_sim, base_dist_sim.
Qed.

(* the simulator as a wrapped object (circuits with a non-negative register; exact distributions of circuits without
   free symbols, see sim_dist_symbolic_spec) *)
Lemma sim_run_sim ov c n : 0 <= cw c ->
  sim (stands_sim (sim_pred ov)) a_ext (BaseWavefunctionSimulator_R_run_and_measure (sim_hooks ov) c n)
      (fun r => run_single r c n) res_of.
Proof.
  intros Hw s r (nc & nj & seed & lg & -> & ->). rewrite sim_run_spec by exact Hw.
  destruct (sim_closed (sim_pred ov) (RSim (sim_pred ov) nc nj) c n) as (nc' & nj' & E); [eexists; eexists; reflexivity|].
  destruct (run_single (RSim (sim_pred ov) nc nj) c n) as [[r' o] tr]. cbn [fst] in E. subst r'. cbn [after fst snd].
  split; [|split; reflexivity]. exists nc', nj', seed, (rev tr ++ lg). split; reflexivity.
Qed.
