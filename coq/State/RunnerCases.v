(* Comparison helpers for the C14 correspondence cases: the model is run on a whole call history and
   compared, after every call, with what the implementation did. *)
Require Import Coq.ZArith.ZArith Coq.Lists.List Coq.Bool.Bool.
Require Import OQ.Base.CaseEq OQ.State.Runner.
Import ListNotations.
Open Scope Z_scope.

Definition circuit_eqb (a b : circuit) : bool :=
  Z.eqb (cw a) (cw b) && lzeqb (cops a) (cops b) && Bool.eqb (cfree a) (cfree b) && Bool.eqb (cgates a) (cgates b).
Definition event_eqb (a b : event) : bool :=
  match a, b with
  | ERun c n, ERun c' n' => circuit_eqb c c' && Z.eqb n n'
  | EWf c, EWf c' => circuit_eqb c c'
  | ESeg b1 l1, ESeg b2 l2 => Bool.eqb b1 b2 && lzeqb l1 l2
  | _, _ => false
  end.
Definition err_eqb (a b : err) : bool :=
  match a, b with ValueError, ValueError | TypeErr, TypeErr | AttrError, AttrError => true | _, _ => false end.
Definition res_eqb : res -> res -> bool := peqb Z.eqb Z.eqb.
Definition outcome_eqb (a b : outcome) : bool :=
  match a, b with
  | OErr e, OErr e' => err_eqb e e'
  | OMeas m, OMeas m' => res_eqb m m'
  | OBatch ms, OBatch ms' => leqb res_eqb ms ms'
  | ODist w, ODist w' => Z.eqb w w'
  | OWf w, OWf w' => Z.eqb w w'
  | OVal, OVal => true
  | _, _ => false
  end.
Definition record_eqb (a b : record) : bool :=
  match a, b with
  | RecM c m, RecM c' m' => circuit_eqb c c' && res_eqb m m'
  | RecD c n, RecD c' n' => circuit_eqb c c' && oeqb Z.eqb n n'
  | _, _ => false
  end.

(* what the harness observes after a call: outcome, the trace of the innermost runner, and per level
   (outermost first) the two counters; per tracker (outermost first) the records in its file and the
   records left in its raw_data list *)
Definition observation := (outcome * list event * list (Z * Z) * list (list record) * list (list record))%type.
Definition obs_eqb (x : runner * outcome * list event) (o : observation) : bool :=
  let '(out, tr, cnt, fl, pd) := o in
  outcome_eqb (st_outcome x) out && leqb event_eqb (st_trace x) tr
  && leqb (peqb Z.eqb Z.eqb) (all_counters (st_runner x)) cnt
  && leqb (leqb record_eqb) (files (st_runner x)) fl
  && leqb (leqb record_eqb) (pendings (st_runner x)) pd.
Fixpoint all2 {A B} (e : A -> B -> bool) (l1 : list A) (l2 : list B) : bool :=
  match l1, l2 with
  | [], [] => true
  | x :: r1, y :: r2 => e x y && all2 e r1 r2
  | _, _ => false
  end.
Definition history_eqb (r : runner) (ks : list call) (os : list observation) : bool :=
  all2 obs_eqb (run_history r ks) os.

(* native-support predicate given by the list of native operation kinds *)
Definition native_in (l : list Z) (k : Z) : bool := existsb (Z.eqb k) l.
