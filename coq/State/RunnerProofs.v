(* Proofs about the runner model (property C14). *)
Require Import Coq.ZArith.ZArith Coq.Lists.List Coq.Bool.Bool Coq.micromega.Lia.
Require Import OQ.State.Runner.
Import ListNotations.
Open Scope Z_scope.

(* ------------------------------------------------------------------ traces *)
Lemma circuits_in_app a b : circuits_in (a ++ b) = circuits_in a + circuits_in b.
Proof. induction a as [|e a IH]; cbn [app circuits_in]; lia. Qed.
Lemma jobs_in_app a b : jobs_in (a ++ b) = jobs_in a + jobs_in b.
Proof. induction a as [|e a IH]; cbn [app jobs_in]; lia. Qed.
Lemma circuits_in_nonneg tr : 0 <= circuits_in tr.
Proof. induction tr as [|e tr IH]; cbn [circuits_in]; [lia|]. destruct e as [c n|c|[|] l]; cbn [ev_circuits]; lia. Qed.
Lemma jobs_in_nonneg tr : 0 <= jobs_in tr.
Proof. induction tr as [|e tr IH]; cbn [jobs_in]; [lia|]. destruct e as [c n|c|b l]; cbn [ev_jobs]; lia. Qed.


Lemma circuits_in_segs segs : circuits_in (map seg_event segs) = Z.of_nat (List.length (filter fst segs)).
Proof.
  induction segs as [|[b l] segs IH]; [reflexivity|].
  cbn [map fst snd circuits_in filter]. rewrite IH. unfold seg_event.
  destruct b; cbn [ev_circuits List.length fst snd]; lia.
Qed.
Lemma jobs_in_segs segs : jobs_in (map seg_event segs) = Z.of_nat (List.length segs).
Proof. induction segs as [|[b l] segs IH]; [reflexivity|]. cbn [map jobs_in List.length]. rewrite IH. unfold seg_event. cbn [ev_jobs]. lia. Qed.

(* get_wavefunction: the loop, characterised *)
Lemma fold_seg segs : forall nc nj tr,
  fold_left seg_step segs (nc, nj, tr)
  = (nc + Z.of_nat (List.length (filter fst segs)), nj + Z.of_nat (List.length segs), tr ++ map seg_event segs).
Proof.
  induction segs as [|[b l] segs IH]; intros nc nj tr.
  - cbn. rewrite app_nil_r, !Z.add_0_r. reflexivity.
  - cbn [fold_left seg_step fst snd]. rewrite IH. cbn [filter fst map List.length seg_event snd].
    rewrite <- app_assoc. cbn [app].
    destruct b; cbn [List.length]; rewrite ?Nat2Z.inj_succ; repeat (f_equal; try lia).
Qed.

Lemma gw_spec p nc nj c :
  get_wavefunction p nc nj c
  = (nc + Z.of_nat (List.length (filter fst (segments p (cops c)))),
     nj + Z.of_nat (List.length (segments p (cops c))),
     EWf c :: map seg_event (segments p (cops c))).
Proof. unfold get_wavefunction. rewrite fold_seg. reflexivity. Qed.

Lemma gw_counts p nc nj c :
  fst (fst (get_wavefunction p nc nj c)) = nc + circuits_in (snd (get_wavefunction p nc nj c)) /\
  snd (fst (get_wavefunction p nc nj c)) = nj + jobs_in (snd (get_wavefunction p nc nj c)).
Proof.
  rewrite gw_spec. cbn [fst snd circuits_in jobs_in ev_circuits ev_jobs].
  rewrite circuits_in_segs, jobs_in_segs. lia.
Qed.

(* groupby: segments are non-empty, alternate, and concatenate to the operation list *)
Lemma segments_concat p ops : List.concat (map snd (segments p ops)) = ops.
Proof.
  induction ops as [|o r IH]; [reflexivity|]. cbn [segments].
  destruct (segments p r) as [|[b l] t] eqn:E.
  - cbn in *. rewrite <- IH. reflexivity.
  - destruct (Bool.eqb (p o) b); cbn [map snd List.concat app] in *; rewrite <- IH; reflexivity.
Qed.
Lemma segments_uniform p ops : Forall (fun s => snd s <> [] /\ Forall (fun o => p o = fst s) (snd s)) (segments p ops).
Proof.
  induction ops as [|o r IH]; [constructor|]. cbn [segments].
  destruct (segments p r) as [|[b l] t] eqn:E.
  - constructor; [|constructor]. cbn. split; [discriminate|]. constructor; [reflexivity|constructor].
  - inversion IH as [|x y [Hne Hall] Ht]; subst. cbn [fst snd] in *.
    destruct (Bool.eqb (p o) b) eqn:Eb.
    + apply eqb_prop in Eb. constructor; [|exact Ht]. cbn [fst snd]. split; [discriminate|]. constructor; assumption.
    + constructor; [|constructor; [split; assumption|exact Ht]].
      cbn. split; [discriminate|]. constructor; [reflexivity|constructor].
Qed.
Lemma segments_alternate p ops : alternating (map fst (segments p ops)).
Proof.
  induction ops as [|o r IH]; [exact I|]. cbn [segments].
  destruct (segments p r) as [|[b l] t] eqn:E; [exact I|].
  destruct (Bool.eqb (p o) b) eqn:Eb.
  - exact IH.
  - cbn [map fst alternating] in *. split; [|exact IH]. intro H. rewrite H, eqb_reflx in Eb. discriminate.
Qed.

(* ------------------------------------------------------------------ counters grow by the work in the trace *)
Definition grows (r r' : runner) (tr : list event) : Prop :=
  n_circuits (leaf_of r') = n_circuits (leaf_of r) + circuits_in tr /\
  n_jobs (leaf_of r') = n_jobs (leaf_of r) + jobs_in tr.

Lemma grows_refl r : grows r r [].
Proof. unfold grows. cbn. lia. Qed.
Lemma grows_trans r1 r2 r3 t1 t2 : grows r1 r2 t1 -> grows r2 r3 t2 -> grows r1 r3 (t1 ++ t2).
Proof. unfold grows. rewrite circuits_in_app, jobs_in_app. lia. Qed.

Lemma run_single_grows r : forall c n,
  grows r (fst (fst (run_single r c n))) (snd (run_single r c n)).
Proof.
  induction r as [over nc nj|p nc nj|nc nj file pend inner IH]; intros c n; cbn [run_single].
  - destruct (n <=? 0); [apply grows_refl|]. unfold grows, n_circuits, n_jobs. cbn. lia.
  - destruct (n <=? 0); [apply grows_refl|]. destruct (cfree c); [apply grows_refl|].
    pose proof (gw_counts p nc nj c) as H.
    destruct (get_wavefunction p nc nj c) as [[nc' nj'] tr]. unfold grows, n_circuits, n_jobs. cbn in *. lia.
  - destruct (n <=? 0); [apply grows_refl|]. specialize (IH c n).
    destruct (run_single inner c n) as [[inner' [e|m]] tr]; [|destruct (cgates c)]; exact IH.
Qed.

Lemma loop_grows cns : forall r, grows r (fst (fst (loop r cns))) (snd (loop r cns)).
Proof.
  induction cns as [|[c n] rest IH]; intro r; cbn [loop]; [apply grows_refl|].
  pose proof (run_single_grows r c n) as H1.
  destruct (run_single r c n) as [[r' [e|m]] tr]; cbn [fst snd] in *; [exact H1|].
  specialize (IH r'). destruct (loop r' rest) as [[r'' [e|ms]] tr']; cbn [fst snd] in *; eapply grows_trans; eassumption.
Qed.

Lemma run_batch_grows r : forall cs s, grows r (fst (fst (run_batch r cs s))) (snd (run_batch r cs s)).
Proof.
  induction r as [over nc nj|p nc nj|nc nj file pend inner IH]; intros cs s; cbn [run_batch].
  - destruct (validate (List.length cs) s); [apply loop_grows|apply grows_refl].
  - destruct (validate (List.length cs) s); [apply loop_grows|apply grows_refl].
  - specialize (IH cs s). destruct (run_batch inner cs s) as [[inner' [e|ms]] tr];
      [|destruct (record_batch (combine cs ms)) as [recs [|]]]; exact IH.
Qed.

Lemma dist_grows r : forall c on, grows r (fst (fst (dist r c on))) (snd (dist r c on)).
Proof.
  induction r as [over nc nj|p nc nj|nc nj file pend inner IH]; intros c on; cbn [dist].
  - destruct on as [n|]; [|apply grows_refl].
    pose proof (run_single_grows (RBase over nc nj) c n) as H.
    destruct (run_single (RBase over nc nj) c n) as [[r' [e|m]] tr]; exact H.
  - destruct on as [n|].
    + pose proof (run_single_grows (RSim p nc nj) c n) as H.
      destruct (run_single (RSim p nc nj) c n) as [[r' [e|m]] tr]; exact H.
    + pose proof (gw_counts p nc nj c) as H.
      destruct (get_wavefunction p nc nj c) as [[nc' nj'] tr]. unfold grows, n_circuits, n_jobs. cbn in *. lia.
  - specialize (IH c on). destruct (dist inner c on) as [[inner' o] tr]. destruct o; try destruct (cgates c); exact IH.
Qed.

Lemma step_grows r k : grows r (st_runner (step r k)) (st_trace (step r k)).
Proof.
  unfold st_runner, st_trace. destruct k as [c n|cs s|c on|c|c opw]; cbn [step].
  - pose proof (run_single_grows r c n) as H. destruct (run_single r c n) as [[r' [e|m]] tr]; exact H.
  - pose proof (run_batch_grows r cs s) as H. destruct (run_batch r cs s) as [[r' [e|ms]] tr]; exact H.
  - apply dist_grows.
  - destruct r as [over nc nj|p nc nj|nc nj file pend inner]; try apply grows_refl.
    pose proof (gw_counts p nc nj c) as H.
    destruct (get_wavefunction p nc nj c) as [[nc' nj'] tr]. unfold grows, n_circuits, n_jobs. cbn in *. lia.
  - destruct r as [over nc nj|p nc nj|nc nj file pend inner]; try apply grows_refl.
    pose proof (gw_counts p nc nj c) as H.
    destruct (get_wavefunction p nc nj c) as [[nc' nj'] tr]. unfold grows, n_circuits, n_jobs. cbn in *. lia.
Qed.

Lemma history_grows ks : forall r, grows r (final r ks) (history_trace r ks).
Proof.
  induction ks as [|k rest IH]; intro r; cbn [final history_trace]; [apply grows_refl|].
  eapply grows_trans; [apply step_grows|apply IH].
Qed.

Lemma leaf_of_leaf r : is_leaf r = true -> leaf_of r = r.
Proof. destruct r; cbn; congruence. Qed.

(* stated for the runner the calls are made on when it is a base-class runner or simulator, and for the
   wrapped innermost runner in general *)
Lemma counters_exact_history r ks :
  n_circuits (leaf_of (final r ks)) = n_circuits (leaf_of r) + circuits_in (history_trace r ks) /\
  n_jobs (leaf_of (final r ks)) = n_jobs (leaf_of r) + jobs_in (history_trace r ks).
Proof. apply history_grows. Qed.

Lemma counters_exact_step r k :
  n_circuits (leaf_of (st_runner (step r k))) = n_circuits (leaf_of r) + circuits_in (st_trace (step r k)) /\
  n_jobs (leaf_of (st_runner (step r k))) = n_jobs (leaf_of r) + jobs_in (st_trace (step r k)).
Proof. apply step_grows. Qed.

(* a leaf stays a leaf, so for base-class runners and simulators the statement is about the runner itself *)
Lemma run_single_leaf r c n : is_leaf r = true -> is_leaf (fst (fst (run_single r c n))) = true.
Proof.
  destruct r as [over nc nj|p nc nj|nc nj file pend inner]; cbn [run_single is_leaf]; intro H; try discriminate.
  - destruct (n <=? 0); reflexivity.
  - destruct (n <=? 0); [reflexivity|]. destruct (cfree c); [reflexivity|].
    destruct (get_wavefunction p nc nj c) as [[nc' nj'] tr]. reflexivity.
Qed.
Lemma loop_leaf cns : forall r, is_leaf r = true -> is_leaf (fst (fst (loop r cns))) = true.
Proof.
  induction cns as [|[c n] rest IH]; intros r H; cbn [loop]; [exact H|].
  pose proof (run_single_leaf r c n H) as H1.
  destruct (run_single r c n) as [[r' [e|m]] tr]; cbn [fst] in *; [exact H1|].
  specialize (IH r' H1). destruct (loop r' rest) as [[r'' [e|ms]] tr']; exact IH.
Qed.
Lemma step_leaf r k : is_leaf r = true -> is_leaf (st_runner (step r k)) = true.
Proof.
  intro H. unfold st_runner. destruct k as [c n|cs s|c on|c|c opw]; cbn [step].
  - pose proof (run_single_leaf r c n H) as H1. destruct (run_single r c n) as [[r' [e|m]] tr]; exact H1.
  - destruct r as [over nc nj|p nc nj|nc nj file pend inner]; try discriminate; cbn [run_batch].
    + destruct (validate (List.length cs) s) as [ns|]; [|reflexivity].
      pose proof (loop_leaf (combine cs ns) (RBase over nc nj) eq_refl) as H1.
      destruct (loop (RBase over nc nj) (combine cs ns)) as [[r' [e|ms]] tr]; exact H1.
    + destruct (validate (List.length cs) s) as [ns|]; [|reflexivity].
      pose proof (loop_leaf (combine cs ns) (RSim p nc nj) eq_refl) as H1.
      destruct (loop (RSim p nc nj) (combine cs ns)) as [[r' [e|ms]] tr]; exact H1.
  - destruct r as [over nc nj|p nc nj|nc nj file pend inner]; try discriminate; cbn [dist].
    + destruct on as [n|]; [|reflexivity].
      pose proof (run_single_leaf (RBase over nc nj) c n eq_refl) as H1.
      destruct (run_single (RBase over nc nj) c n) as [[r' [e|m]] tr]; exact H1.
    + destruct on as [n|].
      * pose proof (run_single_leaf (RSim p nc nj) c n eq_refl) as H1.
        destruct (run_single (RSim p nc nj) c n) as [[r' [e|m]] tr]; exact H1.
      * destruct (get_wavefunction p nc nj c) as [[nc' nj'] tr]. reflexivity.
  - destruct r as [over nc nj|p nc nj|nc nj file pend inner]; try discriminate; [reflexivity|].
    destruct (get_wavefunction p nc nj c) as [[nc' nj'] tr]. reflexivity.
  - destruct r as [over nc nj|p nc nj|nc nj file pend inner]; try discriminate; [reflexivity|].
    destruct (get_wavefunction p nc nj c) as [[nc' nj'] tr]. reflexivity.
Qed.
Lemma final_leaf ks : forall r, is_leaf r = true -> is_leaf (final r ks) = true.
Proof. induction ks as [|k rest IH]; intros r H; cbn [final]; [exact H|]. apply IH, step_leaf, H. Qed.

Lemma counters_exact_leaf r ks : is_leaf r = true ->
  n_circuits (final r ks) = n_circuits r + circuits_in (history_trace r ks) /\
  n_jobs (final r ks) = n_jobs r + jobs_in (history_trace r ks).
Proof.
  intro H. pose proof (counters_exact_history r ks) as E.
  rewrite (leaf_of_leaf r H), (leaf_of_leaf _ (final_leaf ks r H)) in E. exact E.
Qed.

(* ------------------------------------------------------------------ counters never decrease (every level) *)

Lemma cle_refl l : cle l l.
Proof. induction l as [|a l IH]; constructor; [unfold pair_le; lia|exact IH]. Qed.
Lemma cle_trans l1 : forall l2 l3, cle l1 l2 -> cle l2 l3 -> cle l1 l3.
Proof.
  induction l1 as [|a l1 IH]; intros l2 l3 H12 H23; inversion H12; subst; inversion H23; subst; constructor.
  - unfold pair_le in *. lia.
  - eapply IH; eassumption.
Qed.

Lemma run_single_mono r : forall c n, cle (all_counters r) (all_counters (fst (fst (run_single r c n)))).
Proof.
  induction r as [over nc nj|p nc nj|nc nj file pend inner IH]; intros c n; cbn [run_single].
  - destruct (n <=? 0); [apply cle_refl|]. cbn. constructor; [unfold pair_le; cbn; lia|constructor].
  - destruct (n <=? 0); [apply cle_refl|]. destruct (cfree c); [apply cle_refl|].
    rewrite gw_spec. cbn. constructor; [unfold pair_le; cbn; lia|constructor].
  - destruct (n <=? 0); [apply cle_refl|]. specialize (IH c n).
    destruct (run_single inner c n) as [[inner' [e|m]] tr]; [|destruct (cgates c)]; cbn [fst all_counters] in *;
      (constructor; [unfold pair_le; cbn; lia|exact IH]).
Qed.

Lemma loop_mono cns : forall r, cle (all_counters r) (all_counters (fst (fst (loop r cns)))).
Proof.
  induction cns as [|[c n] rest IH]; intro r; cbn [loop]; [apply cle_refl|].
  pose proof (run_single_mono r c n) as H1.
  destruct (run_single r c n) as [[r' [e|m]] tr]; cbn [fst] in *; [exact H1|].
  specialize (IH r'). destruct (loop r' rest) as [[r'' [e|ms]] tr']; cbn [fst] in *; eapply cle_trans; eassumption.
Qed.

Lemma run_batch_mono r : forall cs s, cle (all_counters r) (all_counters (fst (fst (run_batch r cs s)))).
Proof.
  induction r as [over nc nj|p nc nj|nc nj file pend inner IH]; intros cs s; cbn [run_batch].
  - destruct (validate (List.length cs) s); [apply loop_mono|apply cle_refl].
  - destruct (validate (List.length cs) s); [apply loop_mono|apply cle_refl].
  - specialize (IH cs s). destruct (run_batch inner cs s) as [[inner' [e|ms]] tr];
      [|destruct (record_batch (combine cs ms)) as [recs [|]]]; cbn [fst all_counters] in *;
      (constructor; [unfold pair_le; cbn; lia|exact IH]).
Qed.

Lemma dist_mono r : forall c on, cle (all_counters r) (all_counters (fst (fst (dist r c on)))).
Proof.
  induction r as [over nc nj|p nc nj|nc nj file pend inner IH]; intros c on; cbn [dist].
  - destruct on as [n|]; [|apply cle_refl].
    pose proof (run_single_mono (RBase over nc nj) c n) as H.
    destruct (run_single (RBase over nc nj) c n) as [[r' [e|m]] tr]; exact H.
  - destruct on as [n|].
    + pose proof (run_single_mono (RSim p nc nj) c n) as H.
      destruct (run_single (RSim p nc nj) c n) as [[r' [e|m]] tr]; exact H.
    + rewrite gw_spec. cbn. constructor; [unfold pair_le; cbn; lia|constructor].
  - specialize (IH c on). destruct (dist inner c on) as [[inner' o] tr]. cbn [fst] in IH.
    destruct o; try destruct (cgates c); cbn [fst all_counters]; (constructor; [unfold pair_le; cbn; lia|exact IH]).
Qed.

Lemma step_mono r k : cle (all_counters r) (all_counters (st_runner (step r k))).
Proof.
  unfold st_runner. destruct k as [c n|cs s|c on|c|c opw]; cbn [step].
  - pose proof (run_single_mono r c n) as H. destruct (run_single r c n) as [[r' [e|m]] tr]; exact H.
  - pose proof (run_batch_mono r cs s) as H. destruct (run_batch r cs s) as [[r' [e|ms]] tr]; exact H.
  - apply dist_mono.
  - destruct r as [over nc nj|p nc nj|nc nj file pend inner]; try apply cle_refl.
    rewrite gw_spec. cbn. constructor; [unfold pair_le; cbn; lia|constructor].
  - destruct r as [over nc nj|p nc nj|nc nj file pend inner]; try apply cle_refl.
    rewrite gw_spec. cbn. constructor; [unfold pair_le; cbn; lia|constructor].
Qed.

Lemma final_app ks1 : forall r ks2, final r (ks1 ++ ks2) = final (final r ks1) ks2.
Proof. induction ks1 as [|k rest IH]; intros r ks2; cbn [app final]; [reflexivity|apply IH]. Qed.

Lemma history_mono ks : forall r, cle (all_counters r) (all_counters (final r ks)).
Proof.
  induction ks as [|k rest IH]; intro r; cbn [final]; [apply cle_refl|].
  eapply cle_trans; [apply step_mono|apply IH].
Qed.

(* between any two points of any history *)
Lemma counters_monotone_along r ks1 ks2 :
  cle (all_counters (final r ks1)) (all_counters (final r (ks1 ++ ks2))).
Proof. rewrite final_app. apply history_mono. Qed.

Lemma counters_monotone_top r ks1 ks2 :
  n_circuits (final r ks1) <= n_circuits (final r (ks1 ++ ks2)) /\
  n_jobs (final r ks1) <= n_jobs (final r (ks1 ++ ks2)).
Proof.
  pose proof (counters_monotone_along r ks1 ks2) as H. unfold n_circuits, n_jobs.
  destruct (final r ks1) as [o a b|p a b|a b f i], (final r (ks1 ++ ks2)) as [o' a' b'|p' a' b'|a' b' f' i'];
    cbn in *; inversion H as [|x y l l' Hp Hl]; subst; exact Hp.
Qed.

(* ------------------------------------------------------------------ rejection of invalid arguments *)

Lemma existsb_nonpos ns : existsb (fun n => n <=? 0) ns = true <-> Exists (fun n => n <= 0) ns.
Proof.
  rewrite existsb_exists, Exists_exists. split; intros [x [Hin Hx]]; exists x; (split; [exact Hin|]).
  - apply Z.leb_le. exact Hx.
  - apply Z.leb_le. exact Hx.
Qed.

Lemma validate_bad k s : bad_spec k s -> validate k s = None.
Proof.
  destruct s as [n|ns]; cbn [bad_spec validate].
  - intro H. destruct (Z.leb_spec n 0); [reflexivity|lia].
  - intros [H|H].
    + destruct (Nat.eqb_spec (List.length ns) k); [contradiction|reflexivity].
    + destruct (negb _); [reflexivity|]. apply existsb_nonpos in H. rewrite H. reflexivity.
Qed.

Lemma validate_good k s ns : validate k s = Some ns ->
  ~ bad_spec k s /\ List.length ns = k /\ Forall (fun n => 0 < n) ns /\
  match s with One n => ns = repeat n k | Many l => ns = l end.
Proof.
  destruct s as [n|l]; cbn [bad_spec validate].
  - destruct (Z.leb_spec n 0) as [Hn|Hn]; [discriminate|]. intro H; inversion H; subst.
    repeat split; [lia|apply repeat_length|]. apply Forall_forall. intros x Hx. apply repeat_spec in Hx. lia.
  - destruct (Nat.eqb_spec (List.length l) k) as [El|El]; cbn [negb]; [|discriminate].
    destruct (existsb (fun n => n <=? 0) l) eqn:Ex; [discriminate|]. intro H; inversion H; subst.
    assert (Hn : ~ Exists (fun n => n <= 0) ns).
    { intro Hx. apply existsb_nonpos in Hx. congruence. }
    repeat split.
    + intros [H1|H1]; [congruence|contradiction].
    + apply Forall_forall. intros x Hx. destruct (Z_lt_le_dec 0 x) as [Hp|Hp]; [exact Hp|].
      exfalso. apply Hn. apply Exists_exists. exists x. split; assumption.
Qed.

Lemma run_single_invalid r c n : n <= 0 -> run_single r c n = (r, inl ValueError, []).
Proof.
  intro H. destruct r as [over nc nj|p nc nj|nc nj file pend inner]; cbn [run_single];
    destruct (Z.leb_spec n 0); try lia; reflexivity.
Qed.

Lemma run_batch_invalid cs s : bad_spec (List.length cs) s -> forall r,
  exists r', run_batch r cs s = (r', inl ValueError, []) /\
             leaf_of r' = leaf_of r /\ files r' = files r /\ pendings r' = pendings r /\ (is_leaf r = true -> r' = r).
Proof.
  intros Hbad. induction r as [over nc nj|p nc nj|nc nj file pend inner IH]; cbn [run_batch].
  - rewrite (validate_bad _ _ Hbad). eexists. repeat split.
  - rewrite (validate_bad _ _ Hbad). eexists. repeat split.
  - destruct IH as (inner' & E & Hl & Hf & Hq & _). rewrite E. eexists. repeat split; cbn [leaf_of files pendings is_leaf].
    + exact Hl.
    + rewrite Hf. reflexivity.
    + rewrite Hq. reflexivity.
    + discriminate.
Qed.

Lemma dist_invalid r : forall c n, n <= 0 -> dist r c (Some n) = (r, OErr ValueError, []).
Proof.
  induction r as [over nc nj|p nc nj|nc nj file pend inner IH]; intros c n H; cbn [dist].
  - rewrite run_single_invalid by exact H. reflexivity.
  - rewrite run_single_invalid by exact H. reflexivity.
  - rewrite IH by exact H. reflexivity.
Qed.

Lemma reject_first r k : invalid_args k ->
  st_outcome (step r k) = OErr ValueError /\ st_trace (step r k) = [] /\
  leaf_of (st_runner (step r k)) = leaf_of r /\ files (st_runner (step r k)) = files r /\
  pendings (st_runner (step r k)) = pendings r /\
  (is_leaf r = true -> st_runner (step r k) = r) /\
  match k with Batch _ _ => True | _ => st_runner (step r k) = r end.
Proof.
  unfold st_outcome, st_trace, st_runner. destruct k as [c n|cs s|c [n|]|c|c opw]; cbn [invalid_args step]; intro H; try contradiction.
  - rewrite run_single_invalid by exact H. repeat split.
  - destruct (run_batch_invalid cs s H r) as (r' & E & Hl & Hf & Hq & Hr). rewrite E. cbn [fst snd]. repeat split; assumption.
  - rewrite dist_invalid by exact H. repeat split.
Qed.

(* asking a base-class runner for an exact distribution *)
Lemma dist_none_base r : forall c, (exists over nc nj, leaf_of r = RBase over nc nj) ->
  dist r c None = (r, OErr ValueError, []).
Proof.
  induction r as [over nc nj|p nc nj|nc nj file pend inner IH]; intros c (o & a & b & H); cbn [dist leaf_of] in *.
  - reflexivity.
  - discriminate.
  - rewrite IH by (do 3 eexists; exact H). reflexivity.
Qed.

(* ------------------------------------------------------------------ shape of successful results *)
Lemma run_single_shape r : forall c n r' m tr, honest r ->
  run_single r c n = (r', inr m, tr) ->
  0 < n /\ n <= fst m /\ snd m = delivered_width r c /\ honest r' /\
  (forall c', delivered_width r' c' = delivered_width r c').
Proof.
  induction r as [over nc nj|p nc nj|nc nj file pend inner IH]; intros c n r' m tr Hh; cbn [run_single].
  - destruct (Z.leb_spec n 0); [discriminate|]. intro E; inversion E; subst. cbn in *. repeat split; try lia; assumption.
  - destruct (Z.leb_spec n 0); [discriminate|]. destruct (cfree c); [discriminate|].
    destruct (get_wavefunction p nc nj c) as [[nc' nj'] tr0]. intro E; inversion E; subst. cbn. repeat split; lia.
  - destruct (Z.leb_spec n 0); [discriminate|].
    destruct (run_single inner c n) as [[inner' [e|m0]] tr0] eqn:Ei; [|destruct (cgates c)]; intro E; inversion E; subst.
    destruct (IH c n inner' m tr Hh Ei) as (H1 & H2 & H3 & H4 & H5). cbn [delivered_width honest]. repeat split; assumption.
Qed.


Lemma Forall2_weaken {A B} (P Q : A -> B -> Prop) l l' :
  (forall a b, P a b -> Q a b) -> Forall2 P l l' -> Forall2 Q l l'.
Proof. intros H. induction 1; constructor; auto. Qed.

Lemma loop_shape cns : forall r r' ms tr, honest r ->
  loop r cns = (r', inr ms, tr) -> Forall2 (served r) cns ms.
Proof.
  induction cns as [|[c n] rest IH]; intros r r' ms tr Hh; cbn [loop].
  - intro E; inversion E; subst. constructor.
  - destruct (run_single r c n) as [[r1 [e|m]] tr1] eqn:E1; [discriminate|].
    destruct (loop r1 rest) as [[r2 [e|ms2]] tr2] eqn:E2; [discriminate|]. intro E; inversion E; subst.
    destruct (run_single_shape r c n r1 m tr1 Hh E1) as (H1 & H2 & H3 & H4 & H5).
    constructor; [split; cbn [fst snd]; assumption|].
    specialize (IH r1 r' ms2 tr2 H4 E2).
    eapply Forall2_weaken; [|exact IH]. intros [c' n'] m' [Ha Hb]. split; [exact Ha|]. rewrite <- H5. exact Hb.
Qed.

Lemma run_batch_shape r : forall cs s r' ms tr, honest r ->
  run_batch r cs s = (r', inr ms, tr) ->
  exists ns, validate (List.length cs) s = Some ns /\ Forall2 (served r) (combine cs ns) ms.
Proof.
  induction r as [over nc nj|p nc nj|nc nj file pend inner IH]; intros cs s r' ms tr Hh; cbn [run_batch].
  - destruct (validate (List.length cs) s) as [ns|] eqn:Ev; [|discriminate]. intro E. exists ns. split; [reflexivity|].
    eapply loop_shape; eassumption.
  - destruct (validate (List.length cs) s) as [ns|] eqn:Ev; [|discriminate]. intro E. exists ns. split; [reflexivity|].
    eapply loop_shape; eassumption.
  - destruct (run_batch inner cs s) as [[inner' [e|ms0]] tr0] eqn:Ei;
      [|destruct (record_batch (combine cs ms0)) as [recs [|]]]; intro E; inversion E; subst.
    destruct (IH cs s inner' ms tr Hh Ei) as (ns & Hv & Hf). exists ns. split; [exact Hv|exact Hf].
Qed.

Lemma Forall2_length {A B} (P : A -> B -> Prop) l l' : Forall2 P l l' -> List.length l = List.length l'.
Proof. induction 1; cbn; congruence. Qed.

Lemma batch_results_shape r cs s r' ms tr : honest r ->
  step r (Batch cs s) = (r', OBatch ms, tr) ->
  exists ns, validate (List.length cs) s = Some ns /\ List.length ns = List.length cs /\
             List.length ms = List.length cs /\ Forall2 (served r) (combine cs ns) ms.
Proof.
  intros Hh. cbn [step]. destruct (run_batch r cs s) as [[r1 [e|ms1]] tr1] eqn:E; intro H; inversion H; subst.
  destruct (run_batch_shape r cs s r' ms tr Hh E) as (ns & Hv & Hf). exists ns.
  destruct (validate_good _ _ _ Hv) as (_ & Hl & _ & _).
  repeat split; try assumption.
  apply Forall2_length in Hf. rewrite combine_length, Hl, Nat.min_id in Hf. congruence.
Qed.

Lemma run_results_shape r c n r' m tr : honest r ->
  step r (Run c n) = (r', OMeas m, tr) -> 0 < n /\ n <= fst m /\ snd m = delivered_width r c.
Proof.
  intros Hh. cbn [step]. destruct (run_single r c n) as [[r1 [e|m1]] tr1] eqn:E; intro H; inversion H; subst.
  destruct (run_single_shape r c n r' m tr Hh E) as (H1 & H2 & H3 & _). repeat split; assumption.
Qed.

Lemma dist_results_shape r : forall c n r' w tr,
  step r (Dist c (Some n)) = (r', ODist w, tr) -> 0 < n /\ w = delivered_width r c.
Proof.
  cbn [step]. induction r as [over nc nj|p nc nj|nc nj file pend inner IH]; intros c n r' w tr; cbn [dist].
  - cbn [run_single]. destruct (Z.leb_spec n 0); [discriminate|]. intro E; inversion E; subst. split; [lia|reflexivity].
  - cbn [run_single]. destruct (Z.leb_spec n 0); [discriminate|]. destruct (cfree c); [discriminate|].
    destruct (get_wavefunction p nc nj c) as [[nc' nj'] tr0]. intro E; inversion E; subst. split; [lia|reflexivity].
  - destruct (dist inner c (Some n)) as [[inner' o] tr0] eqn:Ei. destruct o; try destruct (cgates c); intro E; inversion E; subst.
    cbn [delivered_width]. eapply IH. exact Ei.
Qed.

Lemma delivered_width_register r c :
  0 < cw c \/ (exists over nc nj, leaf_of r = RBase over nc nj) -> delivered_width r c = cw c.
Proof.
  induction r as [over nc nj|p nc nj|nc nj file pend inner IH]; cbn [delivered_width leaf_of]; intro H.
  - reflexivity.
  - destruct H as [H|(o & a & b & H)]; [|discriminate]. unfold sampled_width. destruct (Z.eqb_spec (cw c) 0); lia.
  - apply IH. exact H.
Qed.

(* F6: a simulator delivers bitstrings of length 1 for the empty register *)
Lemma zero_width_refuted :
  exists r c n r' m tr, honest r /\ step r (Run c n) = (r', OMeas m, tr) /\ snd m <> cw c.
Proof.
  exists (RSim (fun _ => true) 0 0), (mkC 0 [] false true), 3. do 3 eexists. split; [exact I|]. split; [reflexivity|].
  cbn. discriminate.
Qed.

(* a base-class runner's default batch: executed requests and results, in order *)
Lemma base_loop over cns : forall nc nj, Forall (fun cn => 0 < snd cn) cns ->
  loop (RBase over nc nj) cns
  = (RBase over (nc + Z.of_nat (List.length cns)) (nj + Z.of_nat (List.length cns)),
     inr (map (fun cn => (snd cn + over, cw (fst cn))) cns),
     map (fun cn => ERun (fst cn) (snd cn)) cns).
Proof.
  induction cns as [|[c n] rest IH]; intros nc nj H.
  - cbn. rewrite !Z.add_0_r. reflexivity.
  - inversion H as [|x y Hn Hr]; subst. cbn [snd] in Hn. cbn [loop run_single].
    destruct (Z.leb_spec n 0); [lia|]. rewrite IH by exact Hr. cbn [map fst snd app List.length].
    assert (E1 : forall a l, a + 1 + Z.of_nat l = a + Z.of_nat (S l)) by (intros; lia).
    rewrite !E1. reflexivity.
Qed.

Lemma base_batch over nc nj cs s ns : validate (List.length cs) s = Some ns ->
  step (RBase over nc nj) (Batch cs s)
  = (RBase over (nc + Z.of_nat (List.length cs)) (nj + Z.of_nat (List.length cs)),
     OBatch (map (fun cn => (snd cn + over, cw (fst cn))) (combine cs ns)),
     map (fun cn => ERun (fst cn) (snd cn)) (combine cs ns)).
Proof.
  intro Hv. destruct (validate_good _ _ _ Hv) as (_ & Hl & Hp & _).
  cbn [step run_batch]. rewrite Hv. rewrite base_loop.
  - rewrite combine_length, Hl, Nat.min_id. reflexivity.
  - apply Forall_forall. intros [c n] Hin. apply in_combine_r in Hin. cbn [snd].
    eapply Forall_forall in Hp; eassumption.
Qed.

(* ------------------------------------------------------------------ the tracking wrapper *)

Lemma dist_outcome_kind r : forall c on, (exists e, snd (fst (dist r c on)) = OErr e) \/ (exists w, snd (fst (dist r c on)) = ODist w).
Proof.
  induction r as [over nc nj|p nc nj|nc nj file pend inner IH]; intros c on; cbn [dist].
  - destruct on as [n|]; [|left; eexists; reflexivity].
    destruct (run_single (RBase over nc nj) c n) as [[r' [e|m]] tr]; [left|right]; eexists; reflexivity.
  - destruct on as [n|].
    + destruct (run_single (RSim p nc nj) c n) as [[r' [e|m]] tr]; [left|right]; eexists; reflexivity.
    + destruct (get_wavefunction p nc nj c) as [[nc' nj'] tr]. destruct (cfree c); [left|right]; eexists; reflexivity.
  - specialize (IH c on). destruct (dist inner c on) as [[inner' o] tr]. cbn [fst snd] in *.
    destruct IH as [[e He]|[w Hw]]; subst o; [left; eexists; reflexivity|].
    destruct (cgates c); [right|left]; eexists; reflexivity.
Qed.

Lemma record_batch_true cms : forall recs, record_batch cms = (recs, true) ->
  recs = map (fun cm => RecM (fst cm) (snd cm)) cms.
Proof.
  induction cms as [|[c m] rest IH]; intros recs; cbn [record_batch].
  - intro E; inversion E; reflexivity.
  - destruct (cgates c); [|discriminate]. destruct (record_batch rest) as [rs ok]. intro E; inversion E; subst.
    cbn [map fst snd]. f_equal. apply IH. reflexivity.
Qed.

Lemma record_batch_gates cms : Forall (fun cm => cgates (fst cm) = true) cms ->
  record_batch cms = (map (fun cm => RecM (fst cm) (snd cm)) cms, true).
Proof.
  induction 1 as [|[c m] rest Hc _ IH]; [reflexivity|]. cbn [record_batch fst] in *. rewrite Hc, IH. reflexivity.
Qed.

Lemma combine_gates {B} (cs : list circuit) (ms : list B) : Forall (fun c => cgates c = true) cs ->
  Forall (fun cm => cgates (fst cm) = true) (combine cs ms).
Proof.
  intro H. apply Forall_forall. intros [c m] Hin. apply in_combine_l in Hin. cbn [fst].
  eapply Forall_forall in H; eassumption.
Qed.

Lemma tracker_passthrough nc nj file pend inner k : tracked_call k -> serialisable k ->
  step (RTrack nc nj file pend inner) k
  = (RTrack (nc + fst (own_count k (st_outcome (step inner k)))) (nj + snd (own_count k (st_outcome (step inner k))))
            (file_after k (st_outcome (step inner k)) file pend) (pending_after k (st_outcome (step inner k)) pend)
            (st_runner (step inner k)),
     st_outcome (step inner k), st_trace (step inner k)).
Proof.
  unfold st_outcome, st_runner, st_trace, serialisable, file_after, pending_after.
  destruct k as [c n|cs s|c on|c|c opw]; cbn [tracked_call call_circuits]; intros H Hs; try contradiction; cbn [step].
  - inversion Hs as [|x y Hc _]; subst. cbn [run_single]. destruct (Z.leb_spec n 0) as [Hn|Hn].
    + rewrite run_single_invalid by exact Hn. cbn. repeat f_equal; lia.
    + destruct (run_single inner c n) as [[inner' [e|m]] tr]; [|rewrite Hc]; cbn; repeat f_equal; lia.
  - cbn [run_batch]. destruct (run_batch inner cs s) as [[inner' [e|ms]] tr]; [cbn; reflexivity|].
    rewrite (record_batch_gates _ (combine_gates cs ms Hs)). cbn. reflexivity.
  - inversion Hs as [|x y Hc _]; subst. cbn [dist]. pose proof (dist_outcome_kind inner c on) as Hk.
    destruct (dist inner c on) as [[inner' o] tr]. cbn [fst snd] in *.
    destruct Hk as [[e He]|[w Hw]]; subst o; [|rewrite Hc]; cbn; repeat f_equal; lia.
Qed.

(* the records written by a successful tracked batch: whatever was pending, then one per result, in order *)
Lemma tracker_batch_records nc nj file pend inner cs s r' ms tr :
  step (RTrack nc nj file pend inner) (Batch cs s) = (r', OBatch ms, tr) ->
  st_outcome (step inner (Batch cs s)) = OBatch ms /\
  files r' = (pend ++ map (fun cm => RecM (fst cm) (snd cm)) (combine cs ms)) :: files (st_runner (step inner (Batch cs s))) /\
  pendings r' = [] :: pendings (st_runner (step inner (Batch cs s))).
Proof.
  unfold st_outcome, st_runner. cbn [step run_batch].
  destruct (run_batch inner cs s) as [[inner' [e|ms0]] tr0]; [intro E; inversion E|].
  destruct (record_batch (combine cs ms0)) as [recs [|]] eqn:Er; intro E; inversion E; subst.
  rewrite (record_batch_true _ _ Er). cbn. repeat split.
Qed.

(* F28: over a circuit with a non-gate operation the tracker does NOT pass the result through: the wrapped runner
   executes and returns measurements, the tracker raises AttributeError ... *)
Lemma tracker_nongate_counterexample :
  exists nc nj file pend inner k m, tracked_call k /\
    st_outcome (step inner k) = OMeas m /\ st_trace (step (RTrack nc nj file pend inner) k) <> [] /\
    n_jobs (st_runner (step inner k)) <> n_jobs inner /\
    st_outcome (step (RTrack nc nj file pend inner) k) = OErr AttrError.
Proof.
  exists 0, 0, [], [], (RSim (fun _ => true) 0 0), (Run (mkC 1 [7] false false) 5), (5, 1).
  split; [exact I|]. split; [reflexivity|]. split; [discriminate|]. split; [discriminate|reflexivity].
Qed.

(* ... and the records appended before a failed batch recording appear in the file written by the next,
   unrelated, successful call: two records for one returned result *)
Lemma tracker_stale_counterexample :
  exists r k1 k2 m rec1 rec2,
    st_outcome (step r k1) = OErr AttrError /\
    st_outcome (step (st_runner (step r k1)) k2) = OMeas m /\
    files (st_runner (step (st_runner (step r k1)) k2)) = [[rec1; rec2]] /\ rec1 <> rec2.
Proof.
  exists (RTrack 0 0 [] [] (RSim (fun _ => true) 0 0)),
         (Batch [mkC 1 [0] false true; mkC 1 [7] false false] (One 5)), (Run (mkC 1 [1] false true) 3).
  do 3 eexists. split; [reflexivity|]. split; [reflexivity|]. split; [reflexivity|discriminate].
Qed.

(* ------------------------------------------------------------------ valid requests succeed *)
Lemma leaf_base_leaf_of r : leaf_base r = true <-> exists over nc nj, leaf_of r = RBase over nc nj.
Proof.
  induction r as [over nc nj|p nc nj|nc nj file pend inner IH]; cbn [leaf_base leaf_of].
  - split; [intros _; do 3 eexists; reflexivity|reflexivity].
  - split; [discriminate|intros (o & a & b & H); discriminate].
  - exact IH.
Qed.

Definition runnable (r : runner) (c : circuit) : Prop :=
  (leaf_base r = true \/ cfree c = false) /\ (is_leaf r = true \/ cgates c = true).

Lemma run_single_succeeds r : forall c n, 0 < n -> runnable r c ->
  exists r' m tr, run_single r c n = (r', inr m, tr) /\ leaf_base r' = leaf_base r /\ is_leaf r' = is_leaf r.
Proof.
  induction r as [over nc nj|p nc nj|nc nj file pend inner IH]; intros c n Hn [Hr Hg]; cbn [run_single].
  - destruct (Z.leb_spec n 0); [lia|]. do 3 eexists. repeat split.
  - destruct (Z.leb_spec n 0); [lia|]. destruct Hr as [Hr|Hr]; [discriminate|]. rewrite Hr.
    destruct (get_wavefunction p nc nj c) as [[nc' nj'] tr]. do 3 eexists. repeat split.
  - destruct (Z.leb_spec n 0); [lia|]. destruct Hg as [Hg|Hg]; [discriminate|].
    destruct (IH c n Hn) as (inner' & m & tr & E & Hb & _). { split; [exact Hr|right; exact Hg]. }
    rewrite E, Hg. do 3 eexists. repeat split. exact Hb.
Qed.

Lemma loop_succeeds cns : forall r, Forall (fun cn => 0 < snd cn /\ runnable r (fst cn)) cns ->
  exists r' ms tr, loop r cns = (r', inr ms, tr).
Proof.
  induction cns as [|[c n] rest IH]; intros r H; cbn [loop].
  - do 3 eexists. reflexivity.
  - inversion H as [|x y [Hn Hr] Hrest]; subst. cbn [fst snd] in *.
    destruct (run_single_succeeds r c n Hn Hr) as (r1 & m & tr & E & Hb & Hl). rewrite E.
    destruct (IH r1) as (r2 & ms & tr2 & E2).
    { eapply Forall_impl; [|exact Hrest]. intros [c' n'] [Ha Hc]. split; [exact Ha|].
      unfold runnable in *. rewrite Hb, Hl. exact Hc. }
    rewrite E2. do 3 eexists. reflexivity.
Qed.

Lemma run_batch_succeeds r : forall cs s ns, validate (List.length cs) s = Some ns ->
  Forall (runnable r) cs -> exists r' ms tr, run_batch r cs s = (r', inr ms, tr).
Proof.
  assert (Hleaf : forall r0 cs s ns, validate (List.length cs) s = Some ns ->
            Forall (runnable r0) cs -> exists r' ms tr, loop r0 (combine cs ns) = (r', inr ms, tr)).
  { intros r0 cs s ns Hv Hc. destruct (validate_good _ _ _ Hv) as (_ & _ & Hp & _).
    apply loop_succeeds. apply Forall_forall. intros [c n] Hin. cbn [fst snd]. split.
    - apply in_combine_r in Hin. eapply Forall_forall in Hp; eassumption.
    - apply in_combine_l in Hin. eapply Forall_forall in Hc; eassumption. }
  induction r as [over nc nj|p nc nj|nc nj file pend inner IH]; intros cs s ns Hv Hc; cbn [run_batch].
  - rewrite Hv. eapply Hleaf; eauto.
  - rewrite Hv. eapply Hleaf; eauto.
  - assert (Hi : Forall (runnable inner) cs).
    { eapply Forall_impl; [|exact Hc]. intros c [Ha [Hb|Hb]]; [discriminate|]. split; [exact Ha|right; exact Hb]. }
    assert (Hg : Forall (fun c => cgates c = true) cs).
    { eapply Forall_impl; [|exact Hc]. intros c [_ [Hb|Hb]]; [discriminate|exact Hb]. }
    destruct (IH cs s ns Hv Hi) as (inner' & ms & tr & E). rewrite E.
    rewrite (record_batch_gates _ (combine_gates cs ms Hg)). do 3 eexists. reflexivity.
Qed.

Lemma valid_batch_succeeds r cs s : ~ bad_spec (List.length cs) s -> Forall (runnable r) cs ->
  exists r' ms tr, step r (Batch cs s) = (r', OBatch ms, tr).
Proof.
  intros Hg Hc. destruct (validate (List.length cs) s) as [ns|] eqn:Ev.
  - destruct (run_batch_succeeds r cs s ns Ev Hc) as (r' & ms & tr & E). cbn [step]. rewrite E. do 3 eexists. reflexivity.
  - exfalso. apply Hg. destruct s as [n|l]; cbn [validate bad_spec] in *.
    + destruct (Z.leb_spec n 0); [assumption|discriminate].
    + destruct (Nat.eqb_spec (List.length l) (List.length cs)) as [El|El]; [|left; exact El]. cbn [negb] in Ev.
      destruct (existsb (fun n => n <=? 0) l) eqn:Ex; [|discriminate]. right. apply existsb_nonpos. exact Ex.
Qed.

Lemma valid_run_succeeds r c n : 0 < n -> runnable r c -> exists r' m tr, step r (Run c n) = (r', OMeas m, tr).
Proof.
  intros Hn Hr. destruct (run_single_succeeds r c n Hn Hr) as (r' & m & tr & E & _ & _). cbn [step]. rewrite E.
  do 3 eexists. reflexivity.
Qed.

(* a simulator refuses to sample a circuit with unbound symbols, before executing anything *)
Lemma reject_unbound r : forall c n, leaf_base r = false -> cfree c = true ->
  run_single r c n = (r, inl ValueError, []).
Proof.
  induction r as [over nc nj|p nc nj|nc nj file pend inner IH]; intros c n Hb Hf; cbn [run_single leaf_base] in *.
  - discriminate.
  - destruct (n <=? 0); [reflexivity|]. rewrite Hf. reflexivity.
  - destruct (n <=? 0); [reflexivity|]. rewrite IH by assumption. reflexivity.
Qed.
Lemma reject_unbound_step r c n : leaf_base r = false -> cfree c = true ->
  step r (Run c n) = (r, OErr ValueError, []).
Proof. intros Hb Hf. cbn [step]. rewrite reject_unbound by assumption. reflexivity. Qed.

(* ------------------------------------------------------------------ combined statements used by Props/C14.v *)
Lemma validation_spec k s :
  (bad_spec k s -> validate k s = None) /\
  (forall ns, validate k s = Some ns ->
     ~ bad_spec k s /\ List.length ns = k /\ Forall (fun n => 0 < n) ns /\
     match s with One n => ns = repeat n k | Many l => ns = l end).
Proof. split; [exact (validate_bad k s)|exact (validate_good k s)]. Qed.

Lemma simulator_work_spec p nc nj c :
  get_wavefunction p nc nj c
  = (nc + Z.of_nat (List.length (filter fst (segments p (cops c)))),
     nj + Z.of_nat (List.length (segments p (cops c))),
     EWf c :: map seg_event (segments p (cops c))) /\
  List.concat (map snd (segments p (cops c))) = cops c /\
  Forall (fun s => snd s <> [] /\ Forall (fun o => p o = fst s) (snd s)) (segments p (cops c)) /\
  alternating (map fst (segments p (cops c))).
Proof.
  split; [apply gw_spec|]. split; [apply segments_concat|]. split; [apply segments_uniform|apply segments_alternate].
Qed.
