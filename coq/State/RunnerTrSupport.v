(* Hand-written support for the GENERATED file Gen/RunnerGen.v (translator tr/tr_runner.py, property C14).

   The translator maps every statement of the translated methods of BaseCircuitRunner (api/circuit_runner.py),
   BaseWavefunctionSimulator (api/wavefunction_simulator.py) and MeasurementTrackingBackend (runners/trackers.py) to a
   piece of Gallina built from the definitions below; the Python fact each definition stands for is written next to
   it.  This file is the trusted reading of Python; that the generated methods agree with the model the C14 theorems
   are about (State/Runner.v) is PROVED in State/RunnerGenProofs.v.

   Reading of a method.  A method body runs against the attributes of [self] (a record the translator generates from
   the assignments [self.x = ...], every field [option T], None = not set yet) and either returns a value or raises;
   what it did to [self] before raising stays done.  So a method is a function
        M S A  =  S -> S * result A          (S the state of self, A the type of the returned value).
   A call [self.m(...)] is dynamic dispatch: the generated method takes the callee as an explicit argument and the
   translator generates, per class, the table that resolves every such call the way the class hierarchy does.
   Effects on the world outside self (an operation applied to a state vector by a subclass's instrumentation, the
   tracker's file: open(name, "w+") truncates it, f.write(text) appends to it) are fields of the generated hook records,
   i.e. arguments of the generated methods; they have no definition here.

   Data.  The objects the methods handle are read through the abstraction of the model (State/Runner.v): a circuit is
   (register width, operation kinds, has free symbols, gate operations only); a Measurements object / a list of sampled
   bitstrings is (number of bitstrings, their length); a distribution is the length of its keys; a state vector is its
   length; a Wavefunction is log2 of its number of amplitudes; an operation is its kind; what the tracker collects and
   writes is a JSON-like value whose leaves are these abstractions. *)
Require Import Coq.ZArith.ZArith Coq.Lists.List Coq.Bool.Bool Coq.Strings.String.
Require Import OQ.State.Runner.
Import ListNotations.
Open Scope Z_scope.

(* ------------------------------------------------------------------ exceptions, results, the method monad *)
Inductive pyexn := E_ValueError | E_TypeError | E_AttributeError | E_IndexError.

Inductive result (A : Type) : Type :=
| Ok (a : A)
| Raise (e : pyexn).
Arguments Ok {A}. Arguments Raise {A}.

Definition M (S A : Type) : Type := S -> S * result A.

(* return a *)
Definition ret {S A} (a : A) : M S A := fun s => (s, Ok a).
(* raise E(...): the state reached so far is kept *)
Definition raise {S A} (e : pyexn) : M S A := fun s => (s, Raise e).
(* evaluate m, then continue with its value in the state it left; an exception propagates with that state *)
Definition bind {S A B} (m : M S A) (f : A -> M S B) : M S B :=
  fun s => match m s with
           | (s', Ok a) => f a s'
           | (s', Raise e) => (s', Raise e)
           end.
(* an operation that can raise but does not touch self *)
Definition lift {S A} (r : result A) : M S A := fun s => (s, r).

(* self.x  (read): AttributeError while the attribute has not been assigned *)
Definition py_getattr {S T} (get : S -> option T) : M S T :=
  fun s => (s, match get s with Some v => Ok v | None => Raise E_AttributeError end).
(* self.x = v *)
Definition py_setattr {S T} (set : S -> option T -> S) (v : T) : M S unit :=
  fun s => (set s (Some v), Ok tt).
(* self.a.m(...) where the attribute a holds another object (state I) and m is a method of that object: the method
   runs on that object's state, and what it did to it is visible through the attribute afterwards (the attribute holds a
   reference).  Assumes that nothing else reachable from self refers to the same object. *)
Definition py_call_attr {S I A} (get : S -> option I) (set : S -> option I -> S) (m : M I A) : M S A :=
  fun s => match get s with
           | None => (s, Raise E_AttributeError)
           | Some o => let '(o', r) := m o in (set s (Some o'), r)
           end.
(* xs.append(x), as the new value of the list *)
Definition py_list_append {A} (l : list A) (x : A) : list A := l ++ [x].
(* super().__init__() where the remaining bases are ABC / Protocol classes: nothing happens *)
Definition py_object_init {S} : M S unit := ret tt.

(* for x in xs: body     (st holds the locals the body assigns; self is threaded by the monad) *)
Fixpoint py_for {S A St} (xs : list A) (st : St) (body : A -> St -> M S St) : M S St :=
  match xs with
  | [] => ret st
  | x :: r => bind (body x st) (fun st' => py_for r st' body)
  end.
(* [elt for x in xs] where elt calls methods: elements evaluated left to right, the first exception ends it *)
Fixpoint py_comp {S A B} (xs : list A) (f : A -> M S B) : M S (list B) :=
  match xs with
  | [] => ret []
  | x :: r => bind (f x) (fun b => bind (py_comp r f) (fun bs => ret (b :: bs)))
  end.
(* for a, b in xs / [... for a, b in xs]: unpacking of a two-element tuple target *)
Definition py_unpack2 {A B C} (f : A -> B -> C) (p : A * B) : C := f (fst p) (snd p).

(* ------------------------------------------------------------------ builtins *)
(* len(xs) *)
Definition py_len {A} (l : list A) : Z := Z.of_nat (List.length l).
(* zip(xs, ys): stops at the shorter one *)
Definition py_zip {A B} (l : list A) (r : list B) : list (A * B) := combine l r.
(* any(c for x in xs) with c a pure test *)
Definition py_any {A} (l : list A) (f : A -> bool) : bool := existsb f l.
(* k * xs for an int k and a list xs: k copies of xs one after the other, [] for k <= 0 *)
Definition py_list_mul {A} (k : Z) (l : list A) : list A := List.concat (repeat l (Z.to_nat k)).
(* a ** n on ints: for n < 0 the result is a float, which none of the accepted consumers takes (np.zeros raises
   TypeError on it) *)
Definition py_pow (a n : Z) : result Z := if n <? 0 then Raise E_TypeError else Ok (a ^ n).

(* ------------------------------------------------------------------ JSON-like values: what the tracker collects and writes *)
Inductive jval : Type :=
| JStr (s : string)
| JInt (z : Z)
| JOptInt (o : option Z)                      (* an Optional[int]: a number or null *)
| JList (l : list jval)
| JDict (l : list (string * jval))            (* a dict display with string keys, in the order written *)
| JCircuit (c : circuit)                      (* the dict to_dict(circuit) *)
| JReprDist (d : Z)                           (* the string repr(distribution) *)
| JCounts (m : res)                           (* measurement.get_counts(): used by the hand-modelled method only *)
| JBitstrings (m : res).                      (* the bitstrings as lists of ints: used by the hand-modelled method only *)
Definition jtext := jval.                     (* the text json.dumps(v), read as the value it denotes *)
(* json.dumps(v) (TypeError for values json cannot serialise: none of the above) *)
Definition py_json_dumps (v : jval) : jtext := v.

(* ------------------------------------------------------------------ circuits and operations (the model's abstraction) *)
Definition op := Z.                           (* an operation, read as its kind *)
Definition subcirc := list op.                (* a sub-circuit yielded by split_circuit, read as its operations *)
Definition symset := bool.                    (* a set of symbols, read as: is it non-empty *)

(* circuit.free_symbols and its truth value (a set is true iff it is not empty) *)
Definition circ_free_symbols (c : circuit) : symset := cfree c.
Definition py_truth_symset (s : symset) : bool := s.
(* circuit.n_qubits *)
Definition circ_n_qubits (c : circuit) : Z := cw c.
(* circuit.operations *)
Definition circ_operations (c : circuit) : list op := cops c.
(* to_dict(circuit) (circuits/_serde.py, hand-modelled): serialises gate operations only; for any other operation
   (MultiPhaseOperation) it raises AttributeError - the model's flag cgates *)
Definition py_to_dict (c : circuit) : result jval :=
  if cgates c then Ok (JCircuit c) else Raise E_AttributeError.
(* subcircuit.operations *)
Definition subcirc_operations (s : subcirc) : list op := s.
(* split_circuit(circuit, predicate) (circuits/_circuit.py, hand-modelled): itertools.groupby of circuit.operations on
   the value of predicate; yields (value, Circuit of one maximal run of consecutive operations with that value).
   The predicate must be a pure function of the operation. *)
Definition py_split_circuit (c : circuit) (p : op -> bool) : list (bool * subcirc) := segments p (cops c).
(* isinstance(operation, GateOperation): the operation kinds of the correspondence harness are 0..6 for gate operations
   and 7 for MultiPhaseOperation (harness/c14.py KIND_NAMES, MPO_KIND) *)
Definition op_is_GateOperation (o : op) : bool := negb (o =? 7).

(* ------------------------------------------------------------------ state vectors, wavefunctions, measurements *)
Definition svec := Z.                         (* a numpy state vector, read as its length *)
Definition wfn := Z.                          (* a Wavefunction, read as log2 of its number of amplitudes *)
Definition pydist := Z.                       (* a MeasurementOutcomeDistribution, read as the length of its keys *)
Definition probs := Z.                        (* the array wavefunction.get_probabilities(), read as log2 of its length *)

(* np.zeros(k) *)
Definition np_zeros (k : Z) : svec := k.
(* state[i] = v on a one-dimensional array: IndexError outside -len .. len-1 *)
Definition sv_setitem (s : svec) (i v : Z) : result svec :=
  if (- s <=? i) && (i <? s) then Ok s else Raise E_IndexError.
(* Wavefunction(state): ValueError unless the number of amplitudes is a power of two (the normalisation check is
   outside the abstraction) *)
Definition py_Wavefunction (s : svec) : result wfn :=
  if s =? 2 ^ Z.log2 s then Ok (Z.log2 s) else Raise E_ValueError.
(* wavefunction.get_probabilities() *)
Definition wfn_get_probabilities (w : wfn) : probs := w.
(* create_bitstring_distribution_from_probability_distribution(p) (hand-modelled): keys are the tuples of
   log2(len(p)) bits.  (For symbolic amplitudes float() raises TypeError: outside the abstraction.) *)
Definition py_distribution_from_probabilities (p : probs) : pydist := p.
(* sample_from_wavefunction(wavefunction, n, seed) (wavefunction.py, hand-modelled): ValueError for n < 1, otherwise n
   bitstrings of length format(i, "0{w}b"), which is 1 for w = 0 (the model's sampled_width) *)
Definition py_sample_from_wavefunction (w : wfn) (n : Z) (seed : option Z) : result res :=
  if n <? 1 then Raise E_ValueError else Ok (n, sampled_width w).
(* Measurements(bitstrings) *)
Definition py_Measurements (b : res) : res := b.
(* measurements.get_distribution(): the keys are the measured bitstrings *)
Definition meas_get_distribution (m : res) : pydist := snd m.
(* repr(distribution) *)
Definition py_repr_dist (d : pydist) : jval := JReprDist d.
