(* Proofs about the circuit (de)serialiser model (property C05). *)
Require Import Coq.ZArith.ZArith Coq.NArith.NArith Coq.Lists.List Coq.Strings.String Coq.Strings.Ascii Coq.Bool.Bool Coq.micromega.Lia Coq.Sorting.Permutation.
Require Import OQ.Gen.NamesGen OQ.Serde.Json OQ.Serde.CircuitSerde.
Import ListNotations.
Open Scope string_scope.

(* ------------------------------------------------------------------ strings *)
Lemma sapp_assoc : forall a b c : string, a ++ (b ++ c) = (a ++ b) ++ c.
Proof. induction a as [|x a IH]; intros b c; simpl; [reflexivity|]. rewrite IH. reflexivity. Qed.

Lemma chars_app : forall a b, chars (a ++ b) = (chars a ++ chars b)%list.
Proof. induction a as [|c a IH]; intro b; simpl; [reflexivity|]. unfold chars in *. simpl. rewrite IH. reflexivity. Qed.

Lemma lprefix_app : forall p l, lprefix p (p ++ l)%list = true.
Proof. induction p as [|c p IH]; intro l; simpl; [reflexivity|]. rewrite Ascii.eqb_refl, IH. reflexivity. Qed.

Lemma lprefix_hd : forall p l, lprefix p l = true -> p <> [] -> hd_error l = hd_error p.
Proof.
  intros [|a p] [|b l] H Hp; simpl in *; try congruence.
  apply andb_true_iff in H. destruct H as [H _]. apply Ascii.eqb_eq in H. subst. reflexivity.
Qed.

Lemma ends_with_app : forall a s, ends_with s (a ++ s) = true.
Proof. intros a s. unfold ends_with. rewrite chars_app, rev_app_distr. apply lprefix_app. Qed.

Lemma last_char_hd : forall s, last_char s = hd_error (rev (chars s)).
Proof. intro s. unfold last_char. destruct (rev (chars s)); reflexivity. Qed.

Lemma ends_with_last : forall d s, ends_with d s = true -> chars d <> [] -> last_char s = last_char d.
Proof.
  intros d s H Hd. rewrite !last_char_hd. apply lprefix_hd; [exact H|].
  intro E. apply Hd. apply (f_equal (@rev ascii)) in E. rewrite rev_involutive in E. exact E.
Qed.

Lemma last_char_app : forall a b c, last_char b = Some c -> last_char (a ++ b) = Some c.
Proof.
  intros a b c H. rewrite last_char_hd in *. rewrite chars_app, rev_app_distr.
  destruct (rev (chars b)); simpl in *; [discriminate|exact H].
Qed.

Lemma lcontains_app : forall sub la lb, lcontains sub (la ++ sub ++ lb)%list = true.
Proof.
  intros sub la lb. induction la as [|c la IH]; simpl.
  - destruct (sub ++ lb)%list eqn:E; simpl; rewrite <- E, lprefix_app; reflexivity.
  - rewrite IH. apply orb_true_r.
Qed.

Lemma contains_app : forall sub a b, contains sub (a ++ sub ++ b) = true.
Proof. intros. unfold contains. rewrite !chars_app. apply lcontains_app. Qed.

Lemma assoc_in : forall A k (l : list (string * A)) v, assoc k l = Some v -> In (k, v) l.
Proof.
  induction l as [|[k' v'] l IH]; intros v H; simpl in *; [discriminate|].
  destruct (String.eqb k k') eqn:E.
  - apply String.eqb_eq in E. inversion H. subst. left. reflexivity.
  - right. apply IH. exact H.
Qed.

(* str(int) ends in a digit *)
Lemma show_N_aux_suffix : forall fuel n acc, exists p, show_N_aux fuel n acc = p ++ acc.
Proof.
  induction fuel as [|f IH]; intros n acc; simpl.
  - exists "". reflexivity.
  - destruct (N.eqb n 0).
    + exists "". reflexivity.
    + destruct (IH (N.div n 10) (String (digit_char (N.modulo n 10)) acc)) as [p Hp].
      rewrite Hp. exists (p ++ String (digit_char (N.modulo n 10)) "").
      rewrite <- sapp_assoc. reflexivity.
Qed.

Definition is_digit (c : ascii) : bool := let n := N_of_ascii c in N.leb 48 n && N.leb n 57.

Lemma digit_char_is_digit : forall d, (d < 10)%N -> is_digit (digit_char d) = true.
Proof.
  intros d H. unfold is_digit, digit_char. rewrite N_ascii_embedding by lia.
  apply andb_true_iff. split; apply N.leb_le; lia.
Qed.

Lemma show_N_last : forall n, exists c, last_char (show_N n) = Some c /\ is_digit c = true.
Proof.
  intro n. unfold show_N.
  destruct (show_N_aux_suffix (N.to_nat (N.size n)) (N.div n 10) (String (digit_char (N.modulo n 10)) "")) as [p Hp].
  rewrite Hp. exists (digit_char (N.modulo n 10)). split.
  - apply last_char_app. reflexivity.
  - apply digit_char_is_digit. apply N.mod_lt. discriminate.
Qed.

Lemma show_Z_last : forall z, exists c, last_char (show_Z z) = Some c /\ is_digit c = true.
Proof.
  intros [|p|p]; simpl; try apply show_N_last.
  destruct (show_N_last (Npos p)) as [c [H1 H2]]. exists c. split; [|exact H2].
  change (String "-" (show_N (N.pos p))) with ("-" ++ show_N (N.pos p)). apply last_char_app. exact H1.
Qed.

(* ------------------------------------------------------------------ facts about the generated names *)
Definition name_plain (n : string) : bool :=
  negb (ends_with DAGGER_GATE_NAME n) && negb (contains POWER_GATE_SYMBOL n).

Lemma globals_plain : forallb (fun p => name_plain (fst p)) builtin_globals = true.
Proof. vm_compute. reflexivity. Qed.
Lemma control_not_global : assoc CONTROLLED_GATE_NAME builtin_globals = None.
Proof. vm_compute. reflexivity. Qed.
Lemma exponential_not_global : assoc EXPONENTIAL_GATE_NAME builtin_globals = None.
Proof. vm_compute. reflexivity. Qed.
Lemma control_plain : name_plain CONTROLLED_GATE_NAME = true.
Proof. vm_compute. reflexivity. Qed.
Lemma exponential_plain : name_plain EXPONENTIAL_GATE_NAME = true.
Proof. vm_compute. reflexivity. Qed.
Lemma exponential_not_control : String.eqb EXPONENTIAL_GATE_NAME CONTROLLED_GATE_NAME = false.
Proof. vm_compute. reflexivity. Qed.
Lemma dagger_nonempty : chars DAGGER_GATE_NAME <> [].
Proof. vm_compute. discriminate. Qed.
Lemma dagger_last_not_digit : match last_char DAGGER_GATE_NAME with Some c => is_digit c = false | None => True end.
Proof. vm_compute. reflexivity. Qed.

Lemma global_plain : forall n r, assoc n builtin_globals = Some r -> name_plain n = true.
Proof.
  intros n r H. apply assoc_in in H.
  pose proof globals_plain as G. rewrite forallb_forall in G. apply (G (n, r)). exact H.
Qed.
Lemma not_plain_not_global : forall n, name_plain n = false -> assoc n builtin_globals = None.
Proof.
  intros n H. destruct (assoc n builtin_globals) eqn:E; [|reflexivity].
  apply global_plain in E. congruence.
Qed.

Lemma dagger_name_ends : forall w, ends_with DAGGER_GATE_NAME (w ++ "_" ++ DAGGER_GATE_NAME) = true.
Proof. intro w. rewrite sapp_assoc. apply ends_with_app. Qed.
Lemma power_name_contains : forall w s, contains POWER_GATE_SYMBOL (w ++ POWER_GATE_SYMBOL ++ s) = true.
Proof. intros. apply contains_app. Qed.

Lemma num_ok_not_dagger : forall w e, num_ok e = true ->
  ends_with DAGGER_GATE_NAME (w ++ POWER_GATE_SYMBOL ++ show_num e) = false.
Proof.
  intros w e H. unfold num_ok in H.
  destruct (last_char (show_num e)) as [c|] eqn:E; [|discriminate].
  destruct (ends_with DAGGER_GATE_NAME (w ++ POWER_GATE_SYMBOL ++ show_num e)) eqn:W; [|reflexivity].
  apply ends_with_last in W; [|exact dagger_nonempty].
  rewrite sapp_assoc in W. rewrite (last_char_app _ _ c E) in W.
  rewrite <- W in H. simpl in H. rewrite Ascii.eqb_refl in H. discriminate.
Qed.

Lemma digit_not_dagger_last : forall c, is_digit c = true -> oascii_eqb (Some c) (last_char DAGGER_GATE_NAME) = false.
Proof.
  intros c H. pose proof dagger_last_not_digit as D. revert D.
  generalize (last_char DAGGER_GATE_NAME). intros [d|] D; [|reflexivity].
  unfold oascii_eqb. destruct (Ascii.eqb c d) eqn:E; [|reflexivity].
  apply Ascii.eqb_eq in E. subst. congruence.
Qed.

Lemma num_ok_int : forall z, num_ok (NInt z) = true.
Proof.
  intro z. unfold num_ok. cbn [show_num]. destruct (show_Z_last z) as [c [H1 H2]]. rewrite H1.
  rewrite (digit_not_dagger_last c H2). reflexivity.
Qed.

(* ------------------------------------------------------------------ small list facts *)
Lemma insert_uniq_in : forall s x l, In x (insert_uniq s l) <-> x = s \/ In x l.
Proof.
  intros s x l. induction l as [|y r IH]; simpl.
  - intuition.
  - destruct (String.eqb s y) eqn:E.
    + apply String.eqb_eq in E. subst. simpl. intuition.
    + destruct (String.ltb s y); simpl; [intuition|]. rewrite IH. intuition.
Qed.
Lemma sort_uniq_in : forall x l, In x (sort_uniq l) <-> In x l.
Proof.
  intros x l. induction l as [|y r IH]; simpl; [reflexivity|].
  unfold sort_uniq in *. simpl. rewrite insert_uniq_in, IH. intuition.
Qed.

Lemma as_strings_map : forall l, as_strings (map JStr l) = Ok l.
Proof. induction l as [|x r IH]; simpl; [reflexivity|]. unfold as_strings in *. simpl. rewrite IH. reflexivity. Qed.
Lemma as_ints_map : forall l, as_ints (map (fun q => JNum (NInt q)) l) = Ok l.
Proof. induction l as [|x r IH]; simpl; [reflexivity|]. unfold as_ints in *. simpl. rewrite IH. reflexivity. Qed.

Lemma mapM_map_ok : forall A B C (f : B -> res C) (g : A -> B) (h : A -> C) l,
  (forall x, In x l -> f (g x) = Ok (h x)) -> mapM f (map g l) = Ok (map h l).
Proof.
  intros A B C f g h l. induction l as [|x r IH]; intro H; simpl; [reflexivity|].
  rewrite H by (left; reflexivity). simpl. rewrite IH; [reflexivity|].
  intros y Hy. apply H. right. exact Hy.
Qed.
Lemma mapM_map_id : forall A B (f : B -> res A) (g : A -> B) l,
  (forall x, In x l -> f (g x) = Ok x) -> mapM f (map g l) = Ok l.
Proof. intros. rewrite (mapM_map_ok A B A f g (fun x => x)) by assumption. rewrite map_id. reflexivity. Qed.

(* ------------------------------------------------------------------ the round trip *)
Section RoundTrip.
  Variable expr : Type.
  Variable print : expr -> string.
  Variable parse : list string -> string -> option expr.
  Variable free : expr -> list string.
  Variable expr_eqb : expr -> expr -> bool.
  Variable syms_ok : list string -> bool.

  (* sympy: sympify(str(e), locals=_make_symbols_map(names)) gives e back when the names are
     acceptable and include the free symbols of e *)
  Hypothesis parse_print : forall syms e, syms_ok syms = true -> incl (free e) syms -> parse syms (print e) = Some e.

  Notation gate := (gate expr).
  Notation gdef := (gdef expr).
  Notation circuit := (circuit expr).
  Notation gate_to_json := (gate_to_json expr print free).
  Notation gate_from_json := (gate_from_json expr parse free).
  Notation gate_ok := (gate_ok expr free syms_ok).
  Notation free_of_params := (free_of_params expr free).
  Notation basic_to_json := (basic_to_json expr print free).

  Lemma free_incl : forall ps p, In p ps -> incl (free p) (free_of_params ps).
  Proof.
    intros ps p H x Hx. unfold CircuitSerde.free_of_params. apply sort_uniq_in. apply in_flat_map. exists p. split; assumption.
  Qed.

  Lemma parse_params_ok : forall ps, syms_ok (free_of_params ps) = true ->
    mapM (parse_param expr parse (free_of_params ps)) (map (fun p => JStr (print p)) ps) = Ok ps.
  Proof.
    intros ps H. apply mapM_map_id. intros p Hp. simpl.
    rewrite parse_print; [reflexivity|exact H|apply free_incl; exact Hp].
  Qed.

  Lemma basic_name : forall n ps, jfield "name" (basic_to_json n ps) = Ok (JStr n).
  Proof. reflexivity. Qed.
  Lemma basic_no_wrapped : forall n ps, jfield "wrapped_gate" (basic_to_json n ps) = EKey.
  Proof.
    intros n ps. unfold CircuitSerde.basic_to_json. destruct ps as [|p ps]; destruct (free_of_params _); reflexivity.
  Qed.
  Lemma basic_symbols : forall n ps, symbol_names (basic_to_json n ps) = Ok (free_of_params ps).
  Proof.
    intros n ps. unfold CircuitSerde.basic_to_json, symbol_names.
    destruct ps as [|p ps]; destruct (free_of_params _) as [|s fs] eqn:E; try reflexivity.
    - cbn [app jget assoc String.eqb Ascii.eqb Bool.eqb bind as_list]. simpl.
      change (as_strings (JStr s :: map JStr fs)) with (as_strings (map JStr (s :: fs))). apply as_strings_map.
    - simpl. change (as_strings (JStr s :: map JStr fs)) with (as_strings (map JStr (s :: fs))). apply as_strings_map.
  Qed.
  Lemma basic_params : forall n ps, params_json (basic_to_json n ps) = Ok (map (fun p => JStr (print p)) ps).
  Proof.
    intros n ps. unfold CircuitSerde.basic_to_json, params_json.
    destruct ps as [|p ps]; destruct (free_of_params _); reflexivity.
  Qed.
  Lemma builtin_reader_basic : forall n ps,
    builtin_from_json expr parse (basic_to_json n ps) =
    match assoc n builtin_globals with
    | None => EKey
    | Some ref =>
        match ps with
        | [] => match ref with GConst _ _ => Ok (Builtin expr n []) | _ => EUnmodelled end
        | _ => match ref with
               | GProto _ _ => ps' <- mapM (parse_param expr parse (free_of_params ps)) (map (fun p => JStr (print p)) ps) ;; Ok (Builtin expr n ps')
               | _ => EUnmodelled end
        end
    end.
  Proof.
    intros n ps. unfold builtin_from_json. rewrite basic_name. cbn [bind].
    destruct (assoc n builtin_globals) as [ref|]; [|reflexivity].
    destruct ps as [|p ps].
    - unfold CircuitSerde.basic_to_json. cbn. destruct ref; reflexivity.
    - rewrite basic_symbols. 
      unfold CircuitSerde.basic_to_json. cbn [app jget assoc String.eqb Ascii.eqb Bool.eqb bind map].
      destruct ref; reflexivity.
  Qed.

  Lemma special_basic_key : forall rec n ps, special_from_json expr free rec (basic_to_json n ps) = EKey.
  Proof.
    intros rec n ps. unfold special_from_json. rewrite basic_name. cbn [bind]. rewrite basic_no_wrapped. cbn [bind].
    destruct (String.eqb n CONTROLLED_GATE_NAME); [reflexivity|].
    destruct (ends_with DAGGER_GATE_NAME n); [reflexivity|].
    destruct (String.eqb n EXPONENTIAL_GATE_NAME); [reflexivity|].
    destruct (contains POWER_GATE_SYMBOL n); reflexivity.
  Qed.

  Lemma custom_reader_basic : forall defs n ps,
    custom_from_json expr parse defs (basic_to_json n ps) =
    match find_def expr n defs with
    | None => EErr
    | Some d => ps' <- mapM (parse_param expr parse (free_of_params ps)) (map (fun p => JStr (print p)) ps) ;; Ok (Custom expr d ps')
    end.
  Proof.
    intros defs n ps. unfold custom_from_json. rewrite basic_name. cbn [bind].
    destruct (find_def expr n defs); [|reflexivity].
    rewrite basic_symbols, basic_params. reflexivity.
  Qed.

  Lemma name_eqb_false_of_plain : forall a b, name_plain a = false -> name_plain b = true -> String.eqb a b = false.
  Proof. intros a b Ha Hb. destruct (String.eqb a b) eqn:E; [|reflexivity]. apply String.eqb_eq in E. subst. congruence. Qed.

  Lemma dagger_name_not_plain : forall w, name_plain (w ++ "_" ++ DAGGER_GATE_NAME) = false.
  Proof. intro w. unfold name_plain. rewrite dagger_name_ends. reflexivity. Qed.
  Lemma power_name_not_plain : forall w s, name_plain (w ++ POWER_GATE_SYMBOL ++ s) = false.
  Proof. intros w s. unfold name_plain. rewrite power_name_contains. apply andb_false_r. Qed.

  Theorem gate_round_trip : forall defs g, gate_ok defs g -> forall fuel, (gate_depth expr g < fuel)%nat ->
    gate_from_json fuel defs (gate_to_json g) = Ok g.
  Proof.
    intros defs g. induction g as [n ps|d ps|w IH k|w IH|w IH e|w IH]; intros Hok [|f] Hf; try (simpl in Hf; lia).
    - (* built-in *)
      destruct Hok as [Hps Hn]. cbn [CircuitSerde.gate_from_json CircuitSerde.gate_to_json].
      rewrite builtin_reader_basic.
      destruct (assoc n builtin_globals) as [[nq h|nq h|]|]; try contradiction.
      + subst ps. reflexivity.
      + destruct ps as [|p ps]; [congruence|]. rewrite parse_params_ok by exact Hps. reflexivity.
    - (* custom *)
      destruct Hok as [Hps [Hn Hd]]. cbn [CircuitSerde.gate_from_json CircuitSerde.gate_to_json].
      rewrite builtin_reader_basic, Hn, special_basic_key, custom_reader_basic, Hd.
      rewrite parse_params_ok by exact Hps. reflexivity.
    - (* controlled *)
      destruct Hok as [Hw Hk]. simpl in Hf.
      cbn [CircuitSerde.gate_from_json CircuitSerde.gate_to_json name_of].
      unfold builtin_from_json. cbn [jfield assoc String.eqb Ascii.eqb Bool.eqb bind].
      rewrite control_not_global.
      unfold special_from_json. cbn [jfield assoc String.eqb Ascii.eqb Bool.eqb bind].
      rewrite String.eqb_refl. rewrite IH by (assumption || lia). cbn [bind].
      destruct (Z.ltb k 1) eqn:E; [apply Z.ltb_lt in E; lia|reflexivity].
    - (* dagger *)
      simpl in Hf. cbn [CircuitSerde.gate_from_json CircuitSerde.gate_to_json name_of].
      unfold builtin_from_json. cbn [jfield assoc String.eqb Ascii.eqb Bool.eqb bind].
      rewrite (not_plain_not_global _ (dagger_name_not_plain _)).
      unfold special_from_json. cbn [jfield assoc String.eqb Ascii.eqb Bool.eqb bind].
      rewrite (name_eqb_false_of_plain _ _ (dagger_name_not_plain _) control_plain), dagger_name_ends.
      rewrite IH by (assumption || lia). reflexivity.
    - (* power *)
      destruct Hok as [Hw [Hfree He]]. simpl in Hf. cbn [CircuitSerde.gate_from_json CircuitSerde.gate_to_json name_of].
      unfold builtin_from_json. cbn [jfield assoc String.eqb Ascii.eqb Bool.eqb bind].
      rewrite (not_plain_not_global _ (power_name_not_plain _ _)).
      unfold special_from_json. cbn [jfield assoc String.eqb Ascii.eqb Bool.eqb bind].
      rewrite (name_eqb_false_of_plain _ _ (power_name_not_plain _ _) control_plain), (num_ok_not_dagger _ _ He),
              (name_eqb_false_of_plain _ _ (power_name_not_plain _ _) exponential_plain), power_name_contains.
      rewrite IH by (assumption || lia). cbn [bind]. rewrite Hfree. reflexivity.
    - (* exponential *)
      destruct Hok as [Hw Hfree]. simpl in Hf. cbn [CircuitSerde.gate_from_json CircuitSerde.gate_to_json name_of].
      unfold builtin_from_json. cbn [jfield assoc String.eqb Ascii.eqb Bool.eqb bind].
      rewrite exponential_not_global.
      unfold special_from_json. cbn [jfield assoc String.eqb Ascii.eqb Bool.eqb bind].
      rewrite exponential_not_control.
      assert (Hd : ends_with DAGGER_GATE_NAME EXPONENTIAL_GATE_NAME = false) by (vm_compute; reflexivity).
      rewrite Hd, String.eqb_refl. rewrite IH by (assumption || lia). cbn [bind]. rewrite Hfree. reflexivity.
  Qed.
  Notation def_ok := (def_ok expr free syms_ok).
  Notation def_to_json := (def_to_json expr print).
  Notation def_from_json := (def_from_json expr parse).
  Notation op_to_json := (op_to_json expr print free).
  Notation op_from_json := (op_from_json expr parse free).
  Notation circuit_to_json := (circuit_to_json expr print free expr_eqb).
  Notation circuit_from_json := (circuit_from_json expr parse free).
  Notation circuit_ok := (circuit_ok expr free expr_eqb syms_ok).

  Lemma def_round_trip : forall d, def_ok d -> def_from_json (def_to_json d) = Ok d.
  Proof.
    intros [n m po] (Hn & Hp & Hsq & Hs & Hf). simpl in *.
    unfold CircuitSerde.def_from_json, CircuitSerde.def_to_json.
    cbn [jget jfield assoc String.eqb Ascii.eqb Bool.eqb bind as_list dname dmatrix dparams].
    rewrite as_strings_map. cbn [bind].
    assert (Hm : mapM (fun row => match row with JArr es => mapM (parse_param expr parse po) es | _ => EUnmodelled end)
                   (map (fun row => JArr (map (fun e => JStr (print e)) row)) m) = Ok m).
    { apply mapM_map_id. intros row Hrow. apply mapM_map_id. intros e He. simpl.
      rewrite parse_print; [reflexivity|exact Hs|].
      rewrite Forall_forall in Hf. specialize (Hf row Hrow). rewrite Forall_forall in Hf. apply Hf. exact He. }
    rewrite Hm. cbn [bind]. rewrite Hp. 
    assert (Hsq' : forallb (fun row => Nat.eqb (List.length row) (List.length m)) m = true).
    { apply forallb_forall. intros row Hrow. apply Nat.eqb_eq. rewrite Forall_forall in Hsq. apply Hsq. exact Hrow. }
    rewrite Hsq'. reflexivity.
  Qed.

  Lemma op_round_trip : forall defs op fuel, gate_ok defs (fst op) -> (gate_depth expr (fst op) < fuel)%nat ->
    op_from_json fuel defs (op_to_json op) = Ok op.
  Proof.
    intros defs [g qs] fuel Hg Hf. simpl in *. unfold CircuitSerde.op_from_json, CircuitSerde.op_to_json.
    cbn [jfield assoc String.eqb Ascii.eqb Bool.eqb bind fst snd].
    rewrite gate_round_trip by assumption. cbn [bind]. rewrite as_ints_map. reflexivity.
  Qed.

  Lemma fold_max_in : forall x l, In x l -> (x <= fold_right Nat.max 0 l)%nat.
  Proof. intros x l. induction l as [|y r IH]; simpl; [tauto|]. intros [E|H]; [subst; lia|specialize (IH H); lia]. Qed.
  Lemma jdepth_arr_in : forall x l, In x l -> (jdepth x < jdepth (JArr l))%nat.
  Proof. intros x l H. simpl. apply Nat.lt_succ_r. apply fold_max_in. apply in_map. exact H. Qed.
  Lemma jdepth_obj_in : forall k v kv, In (k, v) kv -> (jdepth v < jdepth (JObj kv))%nat.
  Proof.
    intros k v kv H. simpl. apply Nat.lt_succ_r. apply fold_max_in.
    change (jdepth v) with ((fun p : string * json => jdepth (snd p)) (k, v)). apply in_map. exact H.
  Qed.

  Lemma gate_json_depth : forall g, (gate_depth expr g < jdepth (gate_to_json g))%nat.
  Proof.
    induction g as [n ps|d ps|w IH k|w IH|w IH e|w IH]; try (simpl; lia);
      cbn [gate_depth CircuitSerde.gate_to_json];
      match goal with |- (_ < jdepth (JObj ?kv))%nat =>
        assert (H : (jdepth (gate_to_json w) < jdepth (JObj kv))%nat) by (apply (jdepth_obj_in "wrapped_gate"); simpl; tauto)
      end; lia.
  Qed.

  Lemma op_json_depth : forall op, (gate_depth expr (fst op) < jdepth (op_to_json op))%nat.
  Proof.
    intros [g qs]. cbn [fst]. pose proof (gate_json_depth g) as H.
    assert (H2 : (jdepth (gate_to_json g) < jdepth (op_to_json (g, qs)))%nat)
      by (apply (jdepth_obj_in "gate"); simpl; tauto).
    lia.
  Qed.

  Definition circ_obj (A B : Type) (x : json) (ops : list A) (oj : json) (defs : list B) (dj : json) : json :=
    JObj ([("n_qubits", x)] ++ (match ops with [] => [] | _ => [("operations", oj)] end)
          ++ (match defs with [] => [] | _ => [("custom_gate_definitions", dj)] end)).
  Lemma circ_get_defs : forall A B x (ops : list A) oj (defs : list B) dj,
    jget "custom_gate_definitions" (circ_obj A B x ops oj defs dj) = Ok (match defs with [] => None | _ => Some dj end).
  Proof. intros. destruct ops, defs; reflexivity. Qed.
  Lemma circ_get_ops : forall A B x (ops : list A) oj (defs : list B) dj,
    jget "operations" (circ_obj A B x ops oj defs dj) = Ok (match ops with [] => None | _ => Some oj end).
  Proof. intros. destruct ops, defs; reflexivity. Qed.
  Lemma circ_get_nq : forall A B x (ops : list A) oj (defs : list B) dj,
    jfield "n_qubits" (circ_obj A B x ops oj defs dj) = Ok x.
  Proof. intros. reflexivity. Qed.
  Lemma circ_ops_depth : forall A B x (ops : list A) oj (defs : list B) dj, ops <> [] ->
    (jdepth oj < jdepth (circ_obj A B x ops oj defs dj))%nat.
  Proof.
    intros A B x ops oj defs dj H. destruct ops as [|o r]; [congruence|].
    apply (jdepth_obj_in "operations"). simpl. tauto.
  Qed.
  Lemma as_list_opt_map : forall A (l : list A) (f : A -> json),
    as_list (match l with [] => None | _ => Some (JArr (map f l)) end) = Ok (map f l).
  Proof. intros A [|x l] f; reflexivity. Qed.

  Theorem circuit_round_trip : forall c j, circuit_ok c -> circuit_to_json c = Some j -> circuit_from_json j = Ok c.
  Proof.
    intros [ops nq] j [Hw (defs & Hc & Hdefs & Hops)] Hj.
    unfold CircuitSerde.circuit_to_json in Hj. unfold CircuitSerde.width_ok in Hw. cbn [c_ops c_nq] in *.
    rewrite Hc in Hj.
    assert (Ej : j = circ_obj _ _ (JNum (NInt nq)) ops (JArr (map op_to_json ops)) defs (JArr (map def_to_json defs)))
      by (destruct ops; inversion Hj; reflexivity).
    clear Hj. subst j.
    set (J := circ_obj _ _ _ _ _ _ _).
    assert (Hd : mapM def_from_json (map def_to_json defs) = Ok defs).
    { apply mapM_map_id. intros d Hd. apply def_round_trip. rewrite Forall_forall in Hdefs. apply Hdefs. exact Hd. }
    assert (Ho : mapM (op_from_json (jdepth J) defs) (map op_to_json ops) = Ok ops).
    { apply mapM_map_id. intros op Hop. apply op_round_trip.
      - rewrite Forall_forall in Hops. apply Hops. exact Hop.
      - pose proof (op_json_depth op) as H1.
        assert (H2 : (jdepth (op_to_json op) < jdepth (JArr (map op_to_json ops)))%nat) by (apply jdepth_arr_in; apply in_map; exact Hop).
        assert (H3 : ops <> []) by (intro E; subst; contradiction).
        pose proof (circ_ops_depth _ _ (JNum (NInt nq)) ops (JArr (map op_to_json ops)) defs (JArr (map def_to_json defs)) H3) as H4.
        fold J in H4. lia. }
    unfold CircuitSerde.circuit_from_json. cbv zeta.
    unfold J at 1. rewrite circ_get_defs. cbn [bind]. rewrite as_list_opt_map. cbn [bind]. rewrite Hd. cbn [bind].
    unfold J at 1. rewrite circ_get_ops. cbn [bind]. rewrite as_list_opt_map. cbn [bind]. rewrite Ho. cbn [bind].
    unfold J. rewrite circ_get_nq. cbn [bind].
    destruct Hw as [Hpos|[Hz Hs]].
    - destruct (Z.eqb nq 0) eqn:E; [apply Z.eqb_eq in E; lia|].
      destruct (Z.ltb nq 0) eqn:E2; [apply Z.ltb_lt in E2; lia|reflexivity].
    - subst nq. simpl. rewrite Hs. reflexivity.
  Qed.
End RoundTrip.

(* ------------------------------------------------------------------ collected definitions, circuit lists, dispatch *)
Lemma list_eqb_eq : forall A (e : A -> A -> bool), (forall x y, e x y = true -> x = y) ->
  forall l1 l2, list_eqb e l1 l2 = true -> l1 = l2.
Proof.
  intros A e He l1. induction l1 as [|x r IH]; intros [|y r2] H; simpl in H; try reflexivity; try discriminate.
  apply andb_true_iff in H. destruct H as [H1 H2]. f_equal; [apply He; exact H1|apply IH; exact H2].
Qed.

Lemma NoDup_snoc : forall A (l : list A) x, NoDup l -> ~ In x l -> NoDup (l ++ [x]).
Proof.
  intros A l x Hl Hx. induction l as [|y r IH]; simpl.
  - constructor; [tauto|constructor].
  - inversion Hl as [|? ? Hy Hr]. subst. constructor.
    + intro H. apply in_app_or in H. destruct H as [H|[H|[]]]; [tauto|]. subst. apply Hx. left. reflexivity.
    + apply IH; [exact Hr|]. intro H. apply Hx. right. exact H.
Qed.

Section Collect.
  Variable expr : Type.
  Variable expr_eqb : expr -> expr -> bool.
  Hypothesis expr_eqb_sound : forall a b, expr_eqb a b = true -> a = b.
  Notation gdef := (gdef expr).
  Notation find_def := (find_def expr).
  Notation def_eqb := (def_eqb expr expr_eqb).
  Notation dname := (dname expr).

  Lemma def_eqb_eq : forall a b, def_eqb a b = true -> a = b.
  Proof.
    intros [n1 m1 p1] [n2 m2 p2] H. unfold CircuitSerde.def_eqb in H. simpl in H.
    apply andb_true_iff in H. destruct H as [H H3]. apply andb_true_iff in H. destruct H as [H1 H2].
    apply String.eqb_eq in H1. apply (list_eqb_eq _ _ (fun x y => proj1 (String.eqb_eq x y))) in H2.
    apply (list_eqb_eq _ _ (list_eqb_eq _ _ expr_eqb_sound)) in H3. subst. reflexivity.
  Qed.

  Lemma find_def_none : forall n l, find_def n l = None -> ~ In n (map dname l).
  Proof.
    intros n l. induction l as [|d r IH]; simpl; intros H; [tauto|].
    unfold CircuitSerde.find_def in *. simpl in H. destruct (String.eqb (dname d) n) eqn:E; [discriminate|].
    apply String.eqb_neq in E. intros [E2|H2]; [congruence|]. apply IH; assumption.
  Qed.
  Lemma find_def_some : forall n l d, find_def n l = Some d -> In d l /\ dname d = n.
  Proof.
    intros n l d H. unfold CircuitSerde.find_def in H. apply find_some in H. destruct H as [H1 H2].
    apply String.eqb_eq in H2. tauto.
  Qed.
  Lemma find_def_unique : forall l d, NoDup (map dname l) -> In d l -> find_def (dname d) l = Some d.
  Proof.
    intros l d. induction l as [|x r IH]; simpl; intros Hnd Hin; [contradiction|].
    unfold CircuitSerde.find_def in *. simpl. inversion Hnd as [|? ? Hx Hr]. subst.
    destruct Hin as [E|Hin].
    - subst. rewrite String.eqb_refl. reflexivity.
    - destruct (String.eqb (dname x) (dname d)) eqn:E.
      + apply String.eqb_eq in E. exfalso. apply Hx. rewrite E. apply in_map. exact Hin.
      + apply IH; assumption.
  Qed.

  Lemma collect_unique_spec : forall ds acc out, NoDup (map dname acc) -> collect_unique expr expr_eqb ds acc = Some out ->
    NoDup (map dname out) /\ (forall d, In d acc -> In d out) /\ (forall d, In d ds -> In d out) /\
    (forall d, In d out -> In d acc \/ In d ds).
  Proof.
    induction ds as [|d r IH]; intros acc out Hnd H; simpl in H.
    - inversion H. subst. repeat split; auto. intros d [].
    - destruct (find_def (dname d) acc) as [d0|] eqn:E.
      + destruct (def_eqb d0 d) eqn:E2; [|discriminate].
        apply def_eqb_eq in E2. subst d0. apply find_def_some in E. destruct E as [Ein _].
        destruct (IH acc out Hnd H) as (A & B & C & D). repeat split; auto.
        * intros x [Ex|Hx]; [subst; apply B; exact Ein|apply C; exact Hx].
        * intros x Hx. destruct (D x Hx) as [Ha|Hr]; [left; exact Ha|right; right; exact Hr].
      + apply find_def_none in E.
        assert (Hnd' : NoDup (map dname (acc ++ [d]))).
        { rewrite map_app. simpl. apply NoDup_snoc; assumption. }
        destruct (IH (acc ++ [d])%list out Hnd' H) as (A & B & C & D). repeat split; auto.
        * intros x Hx. apply B. apply in_or_app. left. exact Hx.
        * intros x [Ex|Hx]; [subst; apply B; apply in_or_app; right; left; reflexivity|apply C; exact Hx].
        * intros x Hx. destruct (D x Hx) as [Ha|Hr]; [|right; right; exact Hr].
          apply in_app_or in Ha. destruct Ha as [Ha|[Ha|[]]]; [left; exact Ha|right; left; exact Ha].
  Qed.

  Lemma insert_def_perm : forall d l, Permutation (insert_def expr d l) (d :: l).
  Proof.
    intros d l. induction l as [|x r IH]; simpl; [apply Permutation_refl|].
    destruct (String.ltb (dname d) (dname x)); [apply Permutation_refl|].
    eapply Permutation_trans; [apply perm_skip; exact IH|apply perm_swap].
  Qed.
  Lemma sort_defs_perm : forall l, Permutation (sort_defs expr l) l.
  Proof.
    intro l. unfold sort_defs. eapply Permutation_trans; [|apply Permutation_sym; apply Permutation_rev].
    induction (rev l) as [|x r IH]; simpl; [apply Permutation_refl|].
    eapply Permutation_trans; [apply insert_def_perm|apply perm_skip; exact IH].
  Qed.

  (* what collect_custom_gate_definitions returns: one definition per name, exactly those in use,
     and looking a used definition up by its name finds it *)
  Lemma collect_spec : forall ops defs, collect_custom_defs expr expr_eqb ops = Some defs ->
    NoDup (map dname defs) /\
    (forall d, In d (op_defs expr ops) -> find_def (dname d) defs = Some d) /\
    (forall d, In d defs -> In d (op_defs expr ops)).
  Proof.
    intros ops defs H. unfold collect_custom_defs in H.
    destruct (collect_unique expr expr_eqb (op_defs expr ops) []) as [out|] eqn:E; [|discriminate].
    simpl in H. inversion H. subst defs. clear H.
    destruct (collect_unique_spec (op_defs expr ops) [] out (NoDup_nil _) E) as (A & _ & C & D).
    pose proof (sort_defs_perm out) as P.
    assert (Hnd : NoDup (map dname (sort_defs expr out))).
    { eapply Permutation_NoDup; [apply Permutation_map; apply Permutation_sym; exact P|exact A]. }
    repeat split; [exact Hnd| |].
    - intros d Hd. apply find_def_unique; [exact Hnd|].
      eapply Permutation_in; [apply Permutation_sym; exact P|apply C; exact Hd].
    - intros d Hd. destruct (D d (Permutation_in _ P Hd)) as [[]|Hr]. exact Hr.
  Qed.
End Collect.

Section RoundTrip2.
  Variable expr : Type.
  Variable print : expr -> string.
  Variable parse : list string -> string -> option expr.
  Variable free : expr -> list string.
  Variable expr_eqb : expr -> expr -> bool.
  Variable syms_ok : list string -> bool.
  Hypothesis parse_print : forall syms e, syms_ok syms = true -> incl (free e) syms -> parse syms (print e) = Some e.
  Hypothesis expr_eqb_sound : forall a b, expr_eqb a b = true -> a = b.

  Notation gate := (gate expr).
  Notation gdef := (gdef expr).
  Notation circuit := (circuit expr).
  Notation gate_okP := (gate_okP expr free syms_ok).
  Notation circuit_to_json := (circuit_to_json expr print free expr_eqb).
  Notation circuit_from_json := (circuit_from_json expr parse free).
  Notation circuit_ok := (circuit_ok expr free expr_eqb syms_ok).
  Notation circuit_wf := (circuit_wf expr free syms_ok).

  Lemma gate_okP_change : forall (P Q : gdef -> Prop) g, gate_okP P g ->
    (forall d ps, innermost expr g = Custom expr d ps -> P d -> Q d) -> gate_okP Q g.
  Proof.
    intros P Q g. induction g as [n ps|d ps|w IH k|w IH|w IH e|w IH]; simpl; intros H HPQ.
    - exact H.
    - destruct H as (A & B & C). repeat split; auto. apply (HPQ d ps); auto.
    - destruct H as [A B]. split; auto.
    - auto.
    - destruct H as (A & B & C). repeat split; auto.
    - destruct H as [A B]. split; auto.
  Qed.
  Lemma gate_okP_def : forall (P : gdef -> Prop) g d ps, gate_okP P g -> innermost expr g = Custom expr d ps -> P d.
  Proof.
    intros P g d ps. induction g as [n qs|d' qs|w IH k|w IH|w IH e|w IH]; simpl; intros H E; try discriminate; try tauto.
    inversion E. subst. tauto.
  Qed.
  Lemma op_defs_in : forall ops op d ps, In op ops -> innermost expr (fst op) = Custom expr d ps -> In d (op_defs expr ops).
  Proof.
    intros ops op d ps. induction ops as [|o r IH]; simpl; intros Hin E; [contradiction|].
    destruct Hin as [Eo|Hin].
    - subst o. unfold op_def. rewrite E. left. reflexivity.
    - destruct (op_def expr o); [right|]; apply IH; assumption.
  Qed.
  Lemma op_defs_from : forall ops d, In d (op_defs expr ops) -> exists op ps, In op ops /\ innermost expr (fst op) = Custom expr d ps.
  Proof.
    intros ops d. induction ops as [|o r IH]; simpl; intros H; [contradiction|].
    unfold op_def in H. destruct (innermost expr (fst o)) as [n ps|d' ps|w k|w|w e|w] eqn:E;
      try (destruct (IH H) as (op & ps' & A & B); exists op, ps'; tauto).
    destruct H as [Ed|H].
    - subst d'. exists o, ps. tauto.
    - destruct (IH H) as (op & ps' & A & B). exists op, ps'. tauto.
  Qed.

  Lemma circuit_wf_ok : forall c j, circuit_wf c -> circuit_to_json c = Some j -> circuit_ok c.
  Proof.
    intros c j [Hw Hg] Hj. split; [exact Hw|]. unfold CircuitSerde.circuit_to_json in Hj.
    destruct (collect_custom_defs expr expr_eqb (c_ops expr c)) as [defs|] eqn:E; [|discriminate].
    exists defs. split; [reflexivity|].
    destruct (collect_spec expr expr_eqb expr_eqb_sound _ _ E) as (_ & Hfind & Hfrom).
    rewrite Forall_forall in Hg. split.
    - apply Forall_forall. intros d Hd. destruct (op_defs_from _ _ (Hfrom d Hd)) as (op & ps & Hop & Ei).
      exact (gate_okP_def _ _ _ _ (Hg op Hop) Ei).
    - apply Forall_forall. intros op Hop. unfold gate_ok. eapply gate_okP_change; [exact (Hg op Hop)|].
      intros d ps Ei _. apply Hfind. eapply op_defs_in; eassumption.
  Qed.

  Theorem circuit_round_trip_wf : forall c j, circuit_wf c -> circuit_to_json c = Some j -> circuit_from_json j = Ok c.
  Proof.
    intros c j Hwf Hj. apply (circuit_round_trip expr print parse free expr_eqb syms_ok parse_print c j); [|exact Hj].
    eapply circuit_wf_ok; eassumption.
  Qed.

  Theorem circuitset_round_trip : forall cs j, Forall circuit_wf cs ->
    circuitset_to_json expr print free expr_eqb cs = Some j -> circuitset_from_json expr parse free j = Ok cs.
  Proof.
    intros cs j Hwf Hj. unfold circuitset_to_json in Hj.
    destruct (all_some (map circuit_to_json cs)) as [js|] eqn:E; [|discriminate].
    inversion Hj. subst j. clear Hj. unfold circuitset_from_json. cbn [jfield assoc String.eqb Ascii.eqb Bool.eqb bind].
    revert js E. induction cs as [|c r IH]; intros js E; simpl in E.
    - inversion E. reflexivity.
    - destruct (circuit_to_json c) as [jc|] eqn:Ec; [|discriminate].
      destruct (all_some (map circuit_to_json r)) as [jr|] eqn:Er; [|discriminate].
      inversion E. subst js. inversion Hwf as [|? ? Hc Hr]. subst.
      cbn [mapM]. rewrite (circuit_round_trip_wf c jc Hc Ec). cbn [bind]. rewrite (IH Hr jr eq_refl). reflexivity.
  Qed.

  (* which reader a gate's name selects *)
  Theorem dispatch_unambiguous : forall g, names_wf expr g -> classify (name_of expr g) = kind_of expr g.
  Proof.
    intros g H. unfold classify. destruct g as [n ps|d ps|w k|w|w e|w]; cbn [name_of kind_of names_wf] in *.
    - destruct (assoc n builtin_globals); [reflexivity|congruence].
    - unfold custom_name_ok, classify in H.
      destruct (assoc (dname expr d) builtin_globals); [discriminate|].
      destruct (String.eqb (dname expr d) CONTROLLED_GATE_NAME); [discriminate|].
      destruct (ends_with DAGGER_GATE_NAME (dname expr d)); [discriminate|].
      destruct (String.eqb (dname expr d) EXPONENTIAL_GATE_NAME); [discriminate|].
      destruct (contains POWER_GATE_SYMBOL (dname expr d)); [discriminate|reflexivity].
    - rewrite control_not_global, String.eqb_refl. reflexivity.
    - rewrite (not_plain_not_global _ (dagger_name_not_plain _)).
      rewrite (name_eqb_false_of_plain _ _ (dagger_name_not_plain _) control_plain), dagger_name_ends. reflexivity.
    - rewrite (not_plain_not_global _ (power_name_not_plain _ _)).
      rewrite (name_eqb_false_of_plain _ _ (power_name_not_plain _ _) control_plain), (num_ok_not_dagger _ _ H),
              (name_eqb_false_of_plain _ _ (power_name_not_plain _ _) exponential_plain), power_name_contains. reflexivity.
    - rewrite exponential_not_global, exponential_not_control.
      assert (Hd : ends_with DAGGER_GATE_NAME EXPONENTIAL_GATE_NAME = false) by (vm_compute; reflexivity).
      rewrite Hd, String.eqb_refl. reflexivity.
  Qed.
End RoundTrip2.

(* ------------------------------------------------------------------ sympify through the symbols map *)
Section ViaMap.
  Variable expr : Type.
  Variable print : expr -> string.
  Variable sympify : symmap -> string -> option expr.
  Variable free : expr -> list string.
  Variable idents_ok : list string -> bool.
  Notation syms_usable := (syms_usable idents_ok).
  Hypothesis sympify_print : forall syms m e, make_symbols_map syms = Some m -> forallb (resolves m) syms = true ->
    idents_ok syms = true -> incl (free e) syms -> sympify m (print e) = Some e.

  Lemma parse_print_via_map : forall syms e, syms_usable syms = true -> incl (free e) syms ->
    parse_via_map sympify syms (print e) = Some e.
  Proof.
    intros syms e H Hi. unfold CircuitSerde.syms_usable, symbols_usable in H. unfold parse_via_map.
    apply andb_true_iff in H. destruct H as [H1 H2].
    destruct (make_symbols_map syms) as [m|] eqn:E; [|discriminate].
    eapply sympify_print; eauto.
  Qed.

  Theorem f16_unreadable : forall e expr_eqb, free e = ["x"; "x[3]"] ->
    exists j, circuit_to_json expr print free expr_eqb (mk_circuit expr [(Builtin expr "RX" [e], [0%Z])] 1) = Some j /\
              circuit_from_json expr (parse_via_map sympify) free j = EErr.
  Proof.
    intros e expr_eqb H. eexists. split; [reflexivity|].
    unfold circuit_from_json. cbn -[make_symbols_map]. unfold CircuitSerde.free_of_params. cbn [flat_map]. rewrite H.
    vm_compute. reflexivity.
  Qed.

  Variable expr_eqb : expr -> expr -> bool.
  Hypothesis expr_eqb_sound : forall a b, expr_eqb a b = true -> a = b.

  Theorem circuit_round_trip_sympify : forall c j, circuit_wf expr free syms_usable c ->
    circuit_to_json expr print free expr_eqb c = Some j ->
    circuit_from_json expr (parse_via_map sympify) free j = Ok c.
  Proof.
    apply (circuit_round_trip_wf expr print (parse_via_map sympify) free expr_eqb syms_usable parse_print_via_map expr_eqb_sound).
  Qed.
  Theorem circuitset_round_trip_sympify : forall cs j, Forall (circuit_wf expr free syms_usable) cs ->
    circuitset_to_json expr print free expr_eqb cs = Some j ->
    circuitset_from_json expr (parse_via_map sympify) free j = Ok cs.
  Proof.
    apply (circuitset_round_trip expr print (parse_via_map sympify) free expr_eqb syms_usable parse_print_via_map expr_eqb_sound).
  Qed.
  (* whatever is computed from a circuit - free symbols, the matrix under an assignment - is the same afterwards *)
  Theorem observables_preserved : forall (Obs : Type) (obs : circuit expr -> Obs) c j c2,
    circuit_wf expr free syms_usable c -> circuit_to_json expr print free expr_eqb c = Some j ->
    circuit_from_json expr (parse_via_map sympify) free j = Ok c2 -> obs c2 = obs c.
  Proof.
    intros Obs obs c j c2 Hwf Hj H2. rewrite (circuit_round_trip_sympify c j Hwf Hj) in H2. inversion H2. reflexivity.
  Qed.
End ViaMap.

(* ------------------------------------------------------------------ a small instance: every argument is a bare symbol *)
Definition toy_print (e : string) : string := e.
Definition toy_free (e : string) : list string := [e].
Definition toy_sympify (m : symmap) (s : string) : option string := if resolves m s then Some s else None.
Definition toy_idents (_ : list string) : bool := true.

Lemma toy_sympify_print : forall syms m e, make_symbols_map syms = Some m -> forallb (resolves m) syms = true ->
  toy_idents syms = true -> incl (toy_free e) syms -> toy_sympify m (toy_print e) = Some e.
Proof.
  intros syms m e _ H _ Hi. unfold toy_sympify, toy_print. rewrite forallb_forall in H.
  rewrite (H e); [reflexivity|]. apply Hi. left. reflexivity.
Qed.
Lemma toy_eqb_sound : forall a b, String.eqb a b = true -> a = b.
Proof. intros a b. apply String.eqb_eq. Qed.

Definition toy_def : gdef string := mk_gdef string "cg" [["p"; "q[1]"]; ["q[1]"; "p"]] ["p"; "q[1]"].
Definition toy_circuit : circuit string :=
  mk_circuit string
    [ (Controlled string (Dagger string (Custom string toy_def ["a"; "x[3]"])) 2, [2; 0; 1]%Z);
      (Power string (Exponential string (Dagger string (Builtin string "T" []))) (NFloat "0.5"), [1]%Z);
      (Builtin string "U3" ["t"; "a"; "t"], [0]%Z);
      (Dagger string (Power string (Custom string toy_def []) (NInt (-2))), [3]%Z) ] 5.

Lemma toy_circuit_wf : circuit_wf string toy_free (syms_usable toy_idents) toy_circuit.
Proof.
  assert (Hd : def_ok string toy_free (syms_usable toy_idents) toy_def).
  { repeat split; try (vm_compute; reflexivity).
    - repeat constructor.
    - apply Forall_forall. intros row Hrow. apply Forall_forall. intros e He x [E|[]]. subst x.
      simpl in Hrow. destruct Hrow as [R|[R|[]]]; subst row; simpl in He; destruct He as [E|[E|[]]]; subst e; simpl; tauto. }
  split; [left; reflexivity|]. unfold gate_wf. revert Hd. generalize (def_ok string toy_free (syms_usable toy_idents)). intros P HP.
  repeat constructor; try exact HP; try (vm_compute; reflexivity); try (vm_compute; discriminate).
Qed.
