(* Hand-written support for the GENERATED file Gen/ArtefactsGen.v (translator tr/tr_artefacts.py, property C11).

   The translator maps every Python construct of the (de)serialisation functions of utils.py,
   measurements/expectation_values.py, operators/_io.py and of the text functions of operators/_pauli_operators.py
   to a piece of Gallina built from the definitions below; the Python fact each definition stands for is written
   next to it.  This file is the trusted reading of those constructs.  The agreement of the generated definitions
   with the hand-written models Serde/Artefacts.v and Serde/OpSerde.v is PROVED in Serde/ArtefactsGenProofs.v about
   the generated text, on every run.

   Values (the data types are those of the models, so that generated and model functions have the same types).
     pyres A         outcome of evaluating something: a value, or a raised exception.  [OutsideModel] is not a Python
                     exception: it marks the inputs on which this file does not say what Python does (named at each use)
     jt R            a value as json.load returns it / json.dumps takes it: None, a number (type R, abstract), a str,
                     a list, a str-keyed dict in insertion order.  Dictionaries and lists that the source builds and
                     mutates in place are read as such values: the translator accepts a mutation only on a local that
                     is the sole reference to a freshly built object (ownership discipline, see its docstring)
     option T        Optional[T];  unit : the value None where nothing else can occur;  list T : a list, in order
     A * B           a tuple of fixed length
     arr R           a numpy array, identified with the nested list tolist() returns (real, or pairs (re, im))
     expvals R       an ExpectationValues object: its three attributes
     sterm R         a PauliTerm as the serialiser sees it: coefficient (int/float or complex) and the (index, letter)
                     pairs of the frozenset term.operations in the order the frozenset is iterated (an input)
     pyval R         a JSON value or the Python complex number built from two JSON numbers
     pyc R * ops     the PauliTerm built by PauliTerm.from_iterable;  psum K : a PauliSum with coefficients in the ring K
     string          a str; also a path (str / bytes / PathLike are not distinguished), and the text of a file
     loadsrc         a LoadSource: a path, or an open readable file (its remaining content)
     pyfs            the file system: path -> content *)
Require Import Coq.ZArith.ZArith Coq.NArith.NArith Coq.Lists.List Coq.Strings.String Coq.Strings.Ascii Coq.Bool.Bool.
Require Import OQ.Base.Ring OQ.Pauli.Algebra OQ.Serde.Json OQ.Serde.Artefacts OQ.Serde.NatKey OQ.Serde.OpSerde.
Import ListNotations.
Open Scope string_scope.

(* ------------------------------------------------------------------ exceptions and sequencing *)
Inductive pyexn := KeyError | TypeError | AttributeError | ValueError | IndexError | FileNotFoundError | OutsideModel.

Inductive pyres (A : Type) : Type :=
| Val (a : A)
| Raise (e : pyexn).
Arguments Val {A}. Arguments Raise {A}.

(* evaluate r, then continue with its value; an exception propagates *)
Definition bind {A B} (r : pyres A) (f : A -> pyres B) : pyres B :=
  match r with Val a => f a | Raise e => Raise e end.

(* the models do not distinguish exceptions: None = raised (or outside the model) *)
Definition res_opt {A} (r : pyres A) : option A := match r with Val a => Some a | Raise _ => None end.

(* for x in xs: body      (st holds the locals bound before the loop that the body re-binds or mutates) *)
Fixpoint py_for {A S} (xs : list A) (st : S) (body : A -> S -> pyres S) : pyres S :=
  match xs with
  | [] => Val st
  | x :: r => bind (body x st) (fun st' => py_for r st' body)
  end.

(* [elt for x in xs] where evaluating elt can raise: left to right, the first exception aborts *)
Fixpoint py_comp {A B} (f : A -> pyres B) (l : list A) : pyres (list B) :=
  match l with
  | [] => Val []
  | a :: r => bind (f a) (fun b => bind (py_comp f r) (fun bs => Val (b :: bs)))
  end.

(* [x for x in xs if c] *)
Definition py_filter {A} (c : A -> bool) (l : list A) : list A := filter c l.

(* try: body except E: handler   - the handler runs iff the body raised E (the exceptions of this file have no
   subclasses among each other); the translator requires the handler to re-assign every name the body assigns *)
Definition pyexn_eqb (a b : pyexn) : bool :=
  match a, b with
  | KeyError, KeyError | TypeError, TypeError | AttributeError, AttributeError | ValueError, ValueError
  | IndexError, IndexError | FileNotFoundError, FileNotFoundError | OutsideModel, OutsideModel => true
  | _, _ => false
  end.
Definition py_try {A} (body : pyres A) (e : pyexn) (handler : pyres A) : pyres A :=
  match body with
  | Val a => Val a
  | Raise e' => if pyexn_eqb e' e then handler else Raise e'
  end.

(* xs.append(x): the same elements followed by x *)
Definition py_append {A} (l : list A) (x : A) : list A := l ++ [x].

(* "if xs:" for xs an Optional[List]: None and [] are false *)
Definition py_truthy_olist {A} (o : option (list A)) : bool :=
  match o with Some (_ :: _) => true | _ => false end.
(* "for x in xs" for xs an Optional[List]: iterating None is a TypeError *)
Definition py_iter_olist {A} (o : option (list A)) : pyres (list A) :=
  match o with Some l => Val l | None => Raise TypeError end.
(* "if xs:" / len(xs) == 0 for a list *)
Definition py_truthy_list {A} (l : list A) : bool := match l with [] => false | _ => true end.
Definition py_len {A} (l : list A) : Z := Z.of_nat (List.length l).

(* ------------------------------------------------------------------ JSON values *)
Section JsonValues.
  Variable R : Type.
  Variable r_truthy : R -> bool.      (* bool(x) of a number *)
  Notation jt := (jt R).

  (* d[k] = v on a dict: an existing key keeps its position and gets the new value, a new key goes to the end *)
  Fixpoint dict_set (k : string) (v : jt) (kv : list (string * jt)) : list (string * jt) :=
    match kv with
    | [] => [(k, v)]
    | (k', v') :: r => if String.eqb k k' then (k', v) :: r else (k', v') :: dict_set k v r
    end.
  (* x[k] = v with k a str: lists take integer indices only, the other values do not support item assignment *)
  Definition py_setitem (x : jt) (k : string) (v : jt) : pyres jt :=
    match x with
    | TObj kv => Val (TObj (dict_set k v kv))
    | _ => Raise TypeError
    end.
  (* x[k] with k a str: KeyError on a dict without k; "indices must be integers" on a list or a str; "not
     subscriptable" on None and numbers *)
  Definition py_getitem (x : jt) (k : string) : pyres jt :=
    match x with
    | TObj kv => match assoc k kv with Some v => Val v | None => Raise KeyError end
    | _ => Raise TypeError
    end.
  (* x.get(k): only dicts have .get; a missing key gives None *)
  Definition py_get (x : jt) (k : string) : pyres (option jt) :=
    match x with
    | TObj kv => Val (assoc k kv)
    | _ => Raise AttributeError
    end.
  (* k in x with k a str: key test on a dict; None and numbers are not containers (TypeError); membership in a list
     and substring test on a str are not needed by the models: outside the model *)
  Definition py_contains_key (k : string) (x : jt) : pyres bool :=
    match x with
    | TObj kv => Val (match assoc k kv with Some _ => true | None => false end)
    | TNull | TNum _ => Raise TypeError
    | _ => Raise OutsideModel
    end.
  (* x.append: only lists have it; the list object whose elements are returned is then extended in place *)
  Definition py_list_of (x : jt) : pyres (list jt) :=
    match x with TArr l => Val l | _ => Raise AttributeError end.
  (* for e in x: the elements of a list, the characters of a str, the keys of a dict (Artefacts.py_iter); None and
     numbers are not iterable *)
  Definition py_iter_json (x : jt) : pyres (list jt) :=
    match py_iter x with Some l => Val l | None => Raise TypeError end.
  (* the same for the result of .get(k) (None when the key is missing) *)
  Definition py_iter_ojson (o : option jt) : pyres (list jt) :=
    match o with Some x => py_iter_json x | None => Raise TypeError end.
  (* "if x:" for the result of .get(k): a missing key (None) is false, otherwise bool(x) (Artefacts.jt_truthy:
     None, zero, "", [] and {} are false) *)
  Definition py_truthy_ojson (o : option jt) : bool :=
    match o with Some x => jt_truthy r_truthy x | None => false end.

  (* ---------------------------------------------------------------- numpy (abstract as in the model) *)
  (* np.array(x) for a value read from JSON: numbers and regular nested lists of numbers give the real array with
     that nested list; a ragged list is a ValueError (inhomogeneous shape); strings, None and dicts inside give
     string / object arrays, which the model does not represent *)
  Definition np_array (x : jt) : pyres (arr R) :=
    match jt_to_nd_raw x with
    | Some d => if regular d then Val (AReal d) else Raise ValueError
    | None => Raise OutsideModel
    end.
  (* np.iscomplexobj(a) *)
  Definition np_iscomplexobj (a : arr R) : bool := match a with ACplx _ => true | AReal _ => false end.
  (* a.real: the array itself for a real array, the real parts for a complex one *)
  Definition np_real (a : arr R) : arr R :=
    match a with AReal d => AReal d | ACplx d => AReal (nd_map fst d) end.
  (* a.imag: the imaginary parts of a complex array; for a real array numpy gives zeros of the array's dtype,
     which the abstract number type cannot name: outside the model *)
  Definition np_imag (a : arr R) : pyres (arr R) :=
    match a with ACplx d => Val (AReal (nd_map snd d)) | AReal _ => Raise OutsideModel end.
  (* a.tolist() as a JSON value: the nested list of a real array; a complex array has complex entries, which are
     not JSON values: outside the model *)
  Definition np_tolist (a : arr R) : pyres jt :=
    match a with AReal d => Val (nd_to_jt d) | ACplx _ => Raise OutsideModel end.
  (* a + 1j * b for real arrays of equal shape: the complex array of the pairs.  Unequal shapes (broadcasting) and
     complex operands are outside the model *)
  Definition np_add_imag (a b : arr R) : pyres (arr R) :=
    match a, b with
    | AReal x, AReal y => match nd_zip x y with Some d => Val (ACplx d) | None => Raise OutsideModel end
    | _, _ => Raise OutsideModel
    end.

  (* ---------------------------------------------------------------- files *)
  Definition pyfs := string -> option string.
  Inductive loadsrc := SrcPath (p : string) | SrcFile (content : string).

  (* isinstance(x, (str, bytes, os.PathLike)) *)
  Definition py_is_pathlike (x : loadsrc) : bool := match x with SrcPath _ => true | SrcFile _ => false end.
  (* open(x, "r"): the file at that path, FileNotFoundError when there is none; a file object is not a path *)
  Definition py_open_r (fs : pyfs) (x : loadsrc) : pyres loadsrc :=
    match x with
    | SrcPath p => match fs p with Some t => Val (SrcFile t) | None => Raise FileNotFoundError end
    | SrcFile _ => Raise TypeError
    end.
  (* open(p, "w"): the file is created or truncated (failures of the operating system are not modelled) *)
  Definition py_open_w (fs : pyfs) (p : string) : pyfs :=
    fun q => if String.eqb q p then Some "" else fs q.
  (* f.write(t) on the file opened for writing at path p: t is added at the end *)
  Definition py_fwrite (fs : pyfs) (p : string) (t : string) : pyfs :=
    fun q => if String.eqb q p then Some (match fs p with Some old => old ++ t | None => t end) else fs q.
  (* json.load(x): parse everything x.read() returns; a path has no .read; a text that is not JSON raises
     JSONDecodeError, a ValueError ([loads] is the abstract parser of the library in use) *)
  Definition py_json_load (loads : string -> option jt) (x : loadsrc) : pyres jt :=
    match x with
    | SrcFile t => match loads t with Some j => Val j | None => Raise ValueError end
    | SrcPath _ => Raise AttributeError
    end.

  (* ---------------------------------------------------------------- operators as the serialiser sees them *)
  (* term.coefficient, term.operations (the frozenset, in its iteration order), op.terms *)
  Definition term_coefficient (t : sterm R) : pyc R := fst t.
  Definition term_operations (t : sterm R) : list (nat * letter) := snd t.
  Definition op_terms (s : list (sterm R)) : list (sterm R) := s.
  (* isinstance(c, complex) *)
  Definition pyc_is_complex (c : pyc R) : bool := match c with PCplx _ _ => true | PReal _ => false end.
  (* c.real: an int / float is its own real part *)
  Definition pyc_real (c : pyc R) : R := match c with PReal x => x | PCplx a _ => a end.
  (* c.imag: for an int / float a zero of its own type, which the abstract number type cannot name *)
  Definition pyc_imag (c : pyc R) : pyres R :=
    match c with PCplx _ b => Val b | PReal _ => Raise OutsideModel end.

  (* a value during the computation of a coefficient: as read from JSON, or the complex number a + 1j * b *)
  Inductive pyval := PJ (j : jt) | PC (re im : R).
  (* a + 1j * b with a, b read from JSON: defined on two numbers; None, str, list, dict operands are TypeErrors
     (a second complex operand cannot come from JSON) *)
  Definition py_add_imag (a : pyval) (b : jt) : pyres pyval :=
    match a, b with
    | PJ (TNum x), TNum y => Val (PC x y)
    | _, _ => Raise TypeError
    end.

  Variable to_nat : R -> option nat.   (* a non-negative int as a qubit index; None: anything else *)
  (* one (op, idx) tuple handed to PauliTerm.from_iterable: op one of "X" "Y" "Z" "I" (anything else is rejected by
     PauliTerm.__init__, ValueError), idx a non-negative int (a negative one: ValueError; other values: outside
     the model) *)
  Definition py_read_factor (p : jt * jt) : option (nat * option letter) :=
    match p with
    | (TStr s, TNum r) => match read_letter s, to_nat r with
                          | Some a, Some q => Some (q, a)
                          | _, _ => None
                          end
    | _ => None
    end.
  (* PauliTerm.from_iterable(terms, coefficient): duplicate indices (identity factors included) are a ValueError,
     identity factors are dropped, the rest becomes the dict of the term (kept sorted, Algebra.set_op).  The
     coefficient must be a number: Python itself accepts any object, which the model does not represent *)
  Definition py_from_iterable (l : list (jt * jt)) (c : pyval) : pyres (pyc R * ops) :=
    match mapM py_read_factor l with
    | None => Raise ValueError
    | Some qs =>
        if nodupb (map fst qs) then
          match c with
          | PJ (TNum a) => Val (PReal a, canon (drop_identity qs))
          | PC a b => Val (PCplx a b, canon (drop_identity qs))
          | PJ _ => Raise OutsideModel
          end
        else Raise ValueError
    end.

  (* full_operator += term: PauliSum.__add__ (no __iadd__), i.e. concatenation and simplify (Algebra.sum_add; proved
     equal to the translated method in property C03); [inj] is the value of a JSON number in the ring *)
  Definition py_sum_iadd (K : cring) (is_zero : K -> bool) (inj : R -> K) (s : psum K) (t : pyc R * ops) : psum K :=
    sum_add is_zero s [kterm inj t].
End JsonValues.

Arguments dict_set {R}. Arguments py_setitem {R}. Arguments py_getitem {R}. Arguments py_get {R}.
Arguments py_contains_key {R}. Arguments py_list_of {R}. Arguments py_iter_json {R}. Arguments py_iter_ojson {R}.
Arguments py_truthy_ojson {R}. Arguments np_array {R}. Arguments np_iscomplexobj {R}. Arguments np_real {R}.
Arguments np_imag {R}. Arguments np_tolist {R}. Arguments np_add_imag {R}. Arguments py_json_load {R}.
Arguments term_coefficient {R}. Arguments term_operations {R}. Arguments op_terms {R}.
Arguments pyc_is_complex {R}. Arguments pyc_real {R}. Arguments pyc_imag {R}.
Arguments PJ {R}. Arguments PC {R}. Arguments py_add_imag {R}. Arguments py_read_factor {R}.
Arguments py_from_iterable {R}. Arguments py_sum_iadd {R K}.

(* ------------------------------------------------------------------ the text side (operators/_pauli_operators.py) *)
(* xs[0]: IndexError on an empty list;  xs[1:] *)
Definition py_list_head {A} (l : list A) : pyres A := match l with x :: _ => Val x | [] => Raise IndexError end.
Definition py_list_from1 {A} (l : list A) : list A := tl l.

(* "if m:" for the result of re.match: a match object is true, None is false *)
Definition py_is_some {A} (o : option A) : bool := match o with Some _ => true | None => false end.
(* x is None *)
Definition py_is_none {A} (o : option A) : bool := match o with None => true | Some _ => false end.

(* s.strip(" ") (OpSerde.strip: spaces removed at both ends) *)
Definition py_strip_spaces (s : string) : string := strip s.

(* s.upper() on ASCII letters; every other character is left as it is (upper-casing of non-ASCII text is outside
   the model, as in OpSerde.v) *)
Definition upper_char (c : ascii) : ascii :=
  let n := N_of_ascii c in if (N.leb 97 n && N.leb n 122)%bool then ascii_of_N (n - 32) else c.
Fixpoint py_upper (s : string) : string :=
  match s with EmptyString => EmptyString | String c r => String (upper_char c) (py_upper r) end.

(* re.split(r"\ *\*\ *", x) for an x that is the result of s.strip(" ") (the translator accepts the call only on such
   an argument): the pieces between the stars, the spaces next to a star belonging to the separator.  (On other
   arguments the first and the last piece would keep their outer spaces.) *)
Definition re_split_star (x : string) : list string := map strip (split_on "*" x).

(* characters the regular expressions below are read on: ASCII other than the newline (with "$" a trailing newline is
   ignored, and with re.I some non-ASCII letters match [XYZI]: outside the model) *)
Definition plain_char (c : ascii) : bool := (N.ltb (N_of_ascii c) 128 && negb (N.eqb (N_of_ascii c) 10))%bool.
(* [XYZI] with re.I *)
Definition is_pauli_char (c : ascii) : bool :=
  match letter_of_char c with Some _ => true | None => false end.
(* re.match(r"([XYZI])([0-9]+)$", s, re.I): one letter followed by one or more ASCII digits up to the end;
   the groups are the letter as written and the digits *)
Definition re_match_factor (s : string) : pyres (option (string * string)) :=
  if all_chars plain_char s then
    match s with
    | String c r => if (is_pauli_char c && isdigit r)%bool then Val (Some (String c EmptyString, r)) else Val None
    | EmptyString => Val None
    end
  else Raise OutsideModel.
(* m.group(1), m.group(2); None has no attribute group *)
Definition py_match_group (m : option (string * string)) (n : nat) : pyres string :=
  match m, n with
  | Some (a, _), 1%nat => Val a
  | Some (_, b), 2%nat => Val b
  | Some _, _ => Raise IndexError
  | None, _ => Raise AttributeError
  end.
(* int(s) on a string of ASCII digits; signs, spaces, underscores and other digits are outside the model (a text
   that is no number at all would be a ValueError) *)
Definition py_int_of_str (s : string) : pyres nat :=
  if isdigit s then Val (N.to_nat (to_int s)) else Raise OutsideModel.

(* dict(pairs) with int keys: a key seen again keeps its position and takes the later value *)
Fixpoint idict_set (k : nat) (v : string) (d : list (nat * string)) : list (nat * string) :=
  match d with
  | [] => [(k, v)]
  | (k', v') :: r => if Nat.eqb k k' then (k', v) :: r else (k', v') :: idict_set k v r
  end.
Definition py_dict_of_pairs (l : list (nat * string)) : list (nat * string) :=
  fold_left (fun d kv => idict_set (fst kv) (snd kv) d) l [].

Section TextSide.
  Variable C : Type.                       (* coefficients *)
  (* a PauliTerm as the text functions see it: coefficient and the dict _ops in insertion order; the values of
     _ops are the strings "X" "Y" "Z" (never "I": __init__ drops identities) *)
  Definition tterm_coefficient (t : tterm C) : C := fst t.
  Definition tterm_ops (t : tterm C) : list (nat * letter) := snd t.
  Definition tsum_terms (s : list (tterm C)) : list (tterm C) := s.
  (* _parse_complex(s), abstract as in the model: [read_c]; None is its ValueError *)
  Definition py_parse_complex (read_c : string -> option C) (s : string) : pyres C :=
    match read_c s with Some c => Val c | None => Raise ValueError end.
  (* PauliTerm("<L><n>", c) for a literal of one factor: the string branch of __init__ finds no coefficient in the
     text, parses the factor, drops it when it is the identity, and stores c *)
  Definition py_PauliTerm_factor (c : C) (l : string) (n : nat) : tterm C :=
    match letter_of_str l with Some a => (c, [(n, a)]) | None => (c, []) end.
End TextSide.
Arguments tterm_coefficient {C}. Arguments tterm_ops {C}. Arguments tsum_terms {C}.
Arguments py_parse_complex {C}. Arguments py_PauliTerm_factor {C}.

(* i in d, d.get(i, default) for the dict _ops *)
Definition py_ops_contains (i : nat) (d : list (nat * letter)) : bool := existsb (fun kv => Nat.eqb i (fst kv)) d.
Fixpoint py_ops_get (d : list (nat * letter)) (i : nat) (default : string) : string :=
  match d with
  | [] => default
  | (k, a) :: r => if Nat.eqb i k then letter_str a else py_ops_get r i default
  end.
