(* Model of circuits/symbolic/_sorting.py: natural_key, natural_key_revlex, on ASCII names.
   re.split(r"(\d+)", name) gives text, digits, text, ..., text (text groups possibly empty);
   every group g with g.isdigit() becomes int(g).  Python compares the resulting lists
   lexicographically; comparing an int with a str raises TypeError (modelled as None). *)
Require Import Coq.Strings.String Coq.Strings.Ascii Coq.NArith.NArith Coq.Lists.List Coq.Bool.Bool.
Require Import Coq.Numbers.DecimalString Coq.Numbers.DecimalN.
Import ListNotations.
Open Scope string_scope.

Inductive kelem := KS (s : string) | KI (n : N).

Definition is_digit (c : ascii) : bool :=
  let n := N_of_ascii c in (N.leb 48 n && N.leb n 57)%bool.
(* the name ends with a digit *)
Fixpoint ends_with_digit (s : string) : bool :=
  match s with
  | EmptyString => false
  | String c r => match r with EmptyString => is_digit c | _ => ends_with_digit r end
  end.
Fixpoint no_digits (s : string) : bool :=
  match s with EmptyString => true | String c r => negb (is_digit c) && no_digits r end.

(* re.split(r"(\d+)", s): one left-to-right pass.  [acc] = finished groups, [cur] = the group being read,
   [dig] = whether that group is a digit group.  The result alternates text, digits, text, .., text. *)
Record scan := mk_scan { acc : list string; cur : string; dig : bool }.
Definition snoc (s : string) (c : ascii) : string := s ++ String c "".
Definition step (q : scan) (c : ascii) : scan :=
  if is_digit c then
    if dig q then mk_scan (acc q) (snoc (cur q) c) true
    else mk_scan (acc q ++ [cur q]) (String c "") true
  else
    if dig q then mk_scan (acc q ++ [cur q]) (String c "") false
    else mk_scan (acc q) (snoc (cur q) c) false.
Fixpoint run (s : string) (q : scan) : scan :=
  match s with EmptyString => q | String c r => run r (step q c) end.
Definition finish (q : scan) : list string :=
  if dig q then acc q ++ [cur q; ""] else acc q ++ [cur q].
Definition split_digits (s : string) : list string := finish (run s (mk_scan [] "" false)).

Fixpoint all_digits (s : string) : bool :=
  match s with EmptyString => true | String c r => is_digit c && all_digits r end.
(* str.isdigit() on ASCII text *)
Definition isdigit (s : string) : bool :=
  match s with EmptyString => false | _ => all_digits s end.
(* int(text) for a digit string *)
Definition to_int (s : string) : N :=
  match NilEmpty.uint_of_string s with Some d => N.of_uint d | None => 0%N end.

Definition conv (g : string) : kelem := if isdigit g then KI (to_int g) else KS g.
Definition natural_key (name : string) : list kelem := map conv (split_digits name).
Definition natural_key_revlex (name : string) : list kelem := rev (natural_key name).

(* Python's < on two key lists: first position where the elements differ decides; a proper prefix is smaller *)
Definition kcmp (a b : kelem) : option comparison :=
  match a, b with
  | KS s, KS t => Some (String.compare s t)
  | KI n, KI m => Some (N.compare n m)
  | _, _ => None                                                  (* TypeError: '<' between int and str *)
  end.
Fixpoint key_cmp (a b : list kelem) : option comparison :=
  match a, b with
  | [], [] => Some Eq
  | [], _ :: _ => Some Lt
  | _ :: _, [] => Some Gt
  | x :: r, y :: q =>
      match kcmp x y with
      | None => None
      | Some Eq => key_cmp r q
      | Some c => Some c
      end
  end.
Definition key_lt (a b : list kelem) : bool :=
  match key_cmp a b with Some Lt => true | _ => false end.

(* sorted(names, key=key): a stable sort *)
Section Sort.
  Variable key : string -> list kelem.
  Fixpoint insert_by (x : string) (l : list string) : list string :=
    match l with
    | [] => [x]
    | y :: r => if key_lt (key y) (key x) then y :: insert_by x r else x :: y :: r
    end.
  Definition sort_by (l : list string) : list string := fold_right insert_by [] l.
End Sort.

(* decimal numeral of a natural number, as str(n) prints it *)
Definition dec (n : N) : string := NilEmpty.string_of_uint (N.to_uint n).
