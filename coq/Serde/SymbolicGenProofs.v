(* Agreement of the GENERATED definitions Gen/SymbolicGen.v (tr/tr_symbolic.py) with the hand-written models
   Serde/NatKey.v (natural keys) and Serde/SymTranslate.v (expression_from_sympy, translate_expression, SYMPY_DIALECT).
   The proofs are about the text the translator produced from the current Python source: they are re-checked on
   every run, and stop checking when the source changes its meaning. *)
Require Import Coq.ZArith.ZArith Coq.QArith.QArith Coq.NArith.NArith Coq.Lists.List Coq.Strings.String
        Coq.Strings.Ascii Coq.Bool.Bool Coq.micromega.Lia Coq.Arith.PeanoNat.
Require Import Coq.Numbers.DecimalString Coq.Numbers.DecimalN.
Require Import OQ.Serde.SymTranslate OQ.Serde.SymTranslateProofs OQ.Serde.NatKey OQ.Serde.NatKeyProofs
        OQ.Serde.SymbolicTrSupport OQ.Gen.SymbolicGen.
Import ListNotations.
Open Scope nat_scope.
Open Scope string_scope.

(* ------------------------------------------------------------------ generic facts about the building blocks *)
Lemma bind_ok {A} (r : res A) : bind r (fun x => Ok x) = r.
Proof. destruct r; reflexivity. Qed.

Lemma py_comp_map_res {A B} (f g : A -> res B) l :
  Forall (fun a => f a = g a) l -> py_comp f l = map_res g l.
Proof.
  induction 1 as [|a r Ha _ IH]; simpl; [reflexivity|].
  rewrite Ha, IH. destruct (g a); simpl; [|reflexivity]. destruct (map_res g r); reflexivity.
Qed.

Lemma py_comp_ok {A B} (f : A -> B) l : py_comp (fun a => Ok (f a)) l = Ok (map f l).
Proof. induction l as [|a r IH]; simpl; [reflexivity|]. rewrite IH. reflexivity. Qed.

Lemma py_comp_ext {A B} (f g : A -> res B) l : (forall a, f a = g a) -> py_comp f l = py_comp g l.
Proof. intro H. induction l as [|a r IH]; simpl; [reflexivity|]. rewrite H, IH. reflexivity. Qed.

(* ================================================================== _sorting.py *)
Lemma py_is_digit_eq c : py_is_digit c = is_digit c.
Proof. reflexivity. Qed.
Lemma py_all_digits_eq s : py_all_digits s = all_digits s.
Proof. induction s as [|c r IH]; simpl; [reflexivity|]. rewrite IH. reflexivity. Qed.
Lemma py_str_isdigit_eq s : py_str_isdigit s = isdigit s.
Proof. destruct s; [reflexivity|]. apply (py_all_digits_eq (String a s)). Qed.

Definition pushs (c : string) (gs : list string) : list string :=
  match gs with [] => [c] | g :: r => (c ++ g) :: r end.

Lemma pushs_char ch gs : pushs (String ch "") gs = py_push ch gs.
Proof. destruct gs; reflexivity. Qed.
Lemma pushs_snoc c ch gs : pushs (snoc c ch) gs = pushs c (py_push ch gs).
Proof. destruct gs as [|g r]; simpl; [reflexivity|]. rewrite snoc_app. reflexivity. Qed.
Lemma py_push_nonempty ch gs : py_push ch gs <> [].
Proof. destruct gs; discriminate. Qed.

Lemma split_scan s : forall a c,
  finish (run s (mk_scan a c false)) = (a ++ pushs c (py_split_text s))%list /\
  finish (run s (mk_scan a c true)) = (a ++ pushs c (py_split_digits s))%list.
Proof.
  induction s as [|ch r IH]; intros a c.
  - unfold finish; simpl. rewrite app_empty_r. split; reflexivity.
  - cbn [run py_split_text py_split_digits]. unfold step. cbn [dig acc cur].
    change (py_is_digit ch) with (is_digit ch). destruct (is_digit ch).
    + split.
      * rewrite (proj2 (IH (a ++ [c])%list (String ch ""))). rewrite pushs_char.
        cbn [pushs]. rewrite app_empty_r, <- app_assoc. reflexivity.
      * rewrite (proj2 (IH a (snoc c ch))). rewrite pushs_snoc. reflexivity.
    + split.
      * rewrite (proj1 (IH a (snoc c ch))). rewrite pushs_snoc. reflexivity.
      * rewrite (proj1 (IH (a ++ [c])%list (String ch ""))). rewrite pushs_char.
        cbn [pushs]. rewrite app_empty_r, <- app_assoc. reflexivity.
Qed.

Lemma py_split_text_nonempty s : py_split_text s <> [].
Proof. destruct s as [|c r]; simpl; [discriminate|]. destruct (py_is_digit c); [discriminate|apply py_push_nonempty]. Qed.

(* re.split(r"(\d+)", s) as the translator reads it is the model's one-pass scan *)
Theorem re_split_is_model s : py_re_split_digit_runs s = split_digits s.
Proof.
  unfold split_digits, py_re_split_digit_runs. rewrite (proj1 (split_scan s [] "")). simpl.
  destruct (py_split_text s) eqn:E; [exfalso; exact (py_split_text_nonempty s E)|reflexivity].
Qed.

Lemma uint_of_digits s : all_digits s = true -> exists d, NilEmpty.uint_of_string s = Some d.
Proof.
  induction s as [|c r IH]; simpl; intro H; [eauto|].
  apply andb_true_iff in H. destruct H as [Hc Hr]. destruct (IH Hr) as [d Hd]. rewrite Hd.
  destruct c as [[] [] [] [] [] [] [] []]; try discriminate Hc; simpl; eauto.
Qed.

Theorem convert_gen_is_model text : convert_string_to_int_if_possible_gen text = Ok (conv text).
Proof.
  unfold convert_string_to_int_if_possible_gen, conv. rewrite py_str_isdigit_eq.
  destruct (isdigit text) eqn:Hd; [|reflexivity].
  unfold py_int_str, to_int. rewrite py_str_isdigit_eq, Hd.
  assert (Ha : all_digits text = true) by (destruct text; [discriminate|exact Hd]).
  destruct (uint_of_digits text Ha) as [d ->]. cbn [bind]. unfold key_of_int.
  destruct (Z.ltb_spec (Z.of_N (N.of_uint d)) 0) as [Hlt|_]; [lia|]. rewrite N2Z.id. reflexivity.
Qed.

Theorem natural_key_gen_is_model symbol : natural_key_gen symbol = Ok (natural_key (attr_name symbol)).
Proof.
  unfold natural_key_gen, natural_key. rewrite re_split_is_model.
  rewrite (py_comp_ext _ (fun g => Ok (conv g))) by (intro; apply convert_gen_is_model).
  apply py_comp_ok.
Qed.

Theorem natural_key_revlex_gen_is_model symbol :
  natural_key_revlex_gen symbol = Ok (natural_key_revlex (attr_name symbol)).
Proof. unfold natural_key_revlex_gen. rewrite natural_key_gen_is_model. reflexivity. Qed.

(* ================================================================== translations.py *)
Definition expr_depth_list (l : list nexpr) : nat := fold_right (fun x d => Nat.max (expr_depth x) d) O l.
Lemma expr_depth_call name args : expr_depth (NCall name args) = S (expr_depth_list args).
Proof.
  reflexivity.
Qed.
Lemma expr_depth_list_le l m : expr_depth_list l <= m -> Forall (fun a => expr_depth a <= m) l.
Proof.
  induction l as [|a r IH]; cbn [expr_depth_list fold_right]; intro H; [constructor|].
  constructor; [lia|apply IH; unfold expr_depth_list; lia].
Qed.

Section TranslateGen.
  Context {T : Type}.
  Variable d : ExpressionDialect_obj T.
  (* the dialect object as the model's three section variables *)
  Definition model_translate : nexpr -> res T :=
    translate (fun s => ExpressionDialect_symbol_factory d (Symbol_new s))
              (ExpressionDialect_number_factory d) (ExpressionDialect_known_functions d).

  Lemma translate_fuel_is_model t : forall n, expr_depth t <= n -> translate_expression_fuel n t d = model_translate t.
  Proof.
    induction t as [k|s|name args IH] using nexpr_ind'; intros n Hn.
    - destruct n; [cbn in Hn; lia|reflexivity].
    - destruct n; [cbn in Hn; lia|reflexivity].
    - rewrite expr_depth_call in Hn. destruct n as [|m]; [lia|].
      cbn [translate_expression_fuel]. unfold translate_expression_step. cbn [py_dispatch_expression].
      unfold translate_function_call_gen. cbn [FunctionCall_name FunctionCall_args].
      unfold model_translate. cbn [translate]. unfold py_dict_contains, py_dict_getitem.
      destruct (ExpressionDialect_known_functions d name) as [f|]; [|reflexivity].
      cbn [negb bind]. unfold translate_tuple_gen.
      rewrite (py_comp_map_res _ model_translate).
      + unfold model_translate. destruct (map_res _ args); reflexivity.
      + apply le_S_n in Hn. apply expr_depth_list_le in Hn.
        rewrite Forall_forall in *. intros a Ha. apply IH; [exact Ha|]. apply Hn. exact Ha.
  Qed.

  (* translate_expression, generated from translations.py, is the model's [translate] for every tree and dialect *)
  Theorem translate_expression_gen_is_model t : translate_expression_gen t d = model_translate t.
  Proof. apply translate_fuel_is_model. apply Nat.le_refl. Qed.
End TranslateGen.

(* ================================================================== sympy_expressions.py *)
Lemma sympy_eq_num_is_model e k : sympy_eq_num e k = num_eq e k.
Proof. destruct e; reflexivity. Qed.

Definition within (m : nat) (e : sexpr) : Prop := sympy_depth e <= m.
Lemma depth_list_le l m : sympy_depth_list l <= m -> Forall (within m) l.
Proof.
  induction l as [|a r IH]; cbn [sympy_depth_list fold_right]; intro H; [constructor|].
  constructor; [unfold within; lia|apply IH; unfold sympy_depth_list; lia].
Qed.
Lemma depth_add l : sympy_depth (SAdd l) = S (sympy_depth_list l). Proof. reflexivity. Qed.
Lemma depth_func n l : sympy_depth (SFunc n l) = S (sympy_depth_list l). Proof. reflexivity. Qed.
Lemma depth_ufunc n l : sympy_depth (SUFunc n l) = S (sympy_depth_list l). Proof. reflexivity. Qed.
Lemma depth_mul l neg : sympy_depth (SMul l neg)
  = S (Nat.max (sympy_depth_list l) (match neg with Some n => sympy_depth n | None => O end)).
Proof. reflexivity. Qed.

Lemma py_len_3 {A} (a b c : A) r : Z.eqb (py_len (a :: b :: c :: r)) 2 = false.
Proof. apply Z.eqb_neq. unfold py_len. cbn [List.length]. lia. Qed.

Lemma py_index_0 {A} (a : A) l : py_index (a :: l) 0 = Ok a. Proof. reflexivity. Qed.
Lemma py_index_1 {A} (a b : A) l : py_index (a :: b :: l) 1 = Ok b. Proof. reflexivity. Qed.

Section FromSympyGen.
  Variable rnd : Q -> Q.
  Notation conv := (from_sympy rnd).
  Variable self : sexpr -> res nexpr.
  Variable m : nat.
  Hypothesis Hself : forall x, within m x -> self x = conv x.

  Lemma tuple_gen l : Forall (within m) l ->
    expression_tuple_from_tuple_of_sympy_args_gen self l = map_res conv l.
  Proof.
    intro H. unfold expression_tuple_from_tuple_of_sympy_args_gen.
    rewrite (py_comp_map_res _ conv).
    - unfold py_list. apply bind_ok.
    - rewrite Forall_forall in *. intros a Ha. apply Hself. apply H. exact Ha.
  Qed.

  Lemma call_gen name l : Forall (within m) l ->
    bind (expression_tuple_from_tuple_of_sympy_args_gen self l)
         (fun x => Ok (FunctionCall_as_expression (FunctionCall_new name x))) = call name (map_res conv l).
  Proof. intro H. rewrite (tuple_gen l H). destruct (map_res conv l); reflexivity. Qed.

  Lemma is_addition_of_negation_spec l :
    is_addition_of_negation_gen (SAdd l) =
    match l with
    | [_; SMul [] _] => Err EIndex
    | [_; SMul (m0 :: _) _] => Ok (num_eq m0 (-1))
    | _ => Ok false
    end.
  Proof.
    unfold is_addition_of_negation_gen. cbn [sympy_args].
    destruct l as [|a0 [|a1 [|a2 r]]]; try reflexivity.
    - destruct a1; try reflexivity. destruct l as [|m0 ml]; [reflexivity|].
      cbn [py_len List.length Z.of_nat Pos.of_succ_nat Pos.succ Z.eqb Pos.eqb]. rewrite !py_index_1. cbn [bind sympy_isinstance sympy_mro existsb sympy_args].
      rewrite py_index_0. cbn [bind]. rewrite sympy_eq_num_is_model. reflexivity.
    - rewrite py_len_3. cbn [bind]. destruct a1; try reflexivity. destruct l; reflexivity.
  Qed.

  Lemma is_multiplication_by_reciprocal_spec l neg :
    is_multiplication_by_reciprocal_gen (SMul l neg) =
    match l with
    | [_; SPow _ x] => Ok (num_eq x (-1))
    | _ => Ok false
    end.
  Proof.
    unfold is_multiplication_by_reciprocal_gen. cbn [sympy_args].
    destruct l as [|a0 [|a1 [|a2 r]]]; try reflexivity.
    - destruct a1; reflexivity.
    - rewrite py_len_3. cbn [bind]. destruct a1; reflexivity.
  Qed.

  Lemma add_gen l : Forall (within m) l -> (forall a0 ml n, l = [a0; SMul ml (Some n)] -> within m n) ->
    addition_from_sympy_add_gen self (SAdd l) = conv (SAdd l).
  Proof.
    intros H Hneg. unfold addition_from_sympy_add_gen. rewrite is_addition_of_negation_spec. cbn [sympy_args].
    assert (Hadd : forall l', l' = l -> bind (Ok false) (fun x1 : bool => if x1
               then bind (py_index l' 0) (fun x2 => bind (self x2) (fun x3 => bind (py_index l' 1) (fun x4 =>
                    bind (negate_sympy_expr_gen x4) (fun x5 => bind (self x5) (fun x6 =>
                    Ok (FunctionCall_as_expression (FunctionCall_new "sub" [x3; x6])))))))
               else bind (expression_tuple_from_tuple_of_sympy_args_gen self l')
                         (fun x7 => Ok (FunctionCall_as_expression (FunctionCall_new "add" x7))))
             = call "add" (map_res conv l')).
    { intros l' ->. cbn [bind]. apply call_gen. exact H. }
    destruct l as [|a0 [|a1 [|a2 r]]]; try (rewrite Hadd by reflexivity; reflexivity).
    - destruct a1; try (rewrite Hadd by reflexivity; reflexivity).
      destruct l as [|m0 ml]; [reflexivity|].
      cbn [from_sympy]. destruct (num_eq m0 (-1)) eqn:Hm.
      + cbn [bind]. rewrite py_index_0. cbn [bind].
        inversion H as [|? ? Ha0 H1]; subst. rewrite (Hself a0 Ha0).
        destruct (conv a0) as [t0|x]; [|reflexivity]. cbn [bind]. rewrite py_index_1. cbn [bind].
        unfold negate_sympy_expr_gen.
        destruct neg as [n|]; [|reflexivity]. cbn [sympy_mul_num].
        change (Qeq_bool (-1 # 1) (-1)) with true. cbn [bind].
        rewrite (Hself n (Hneg _ _ _ eq_refl)). destruct (conv n); reflexivity.
      + rewrite Hadd by reflexivity. reflexivity.
    - destruct a1; try (rewrite Hadd by reflexivity; reflexivity).
      destruct l; rewrite Hadd by reflexivity; reflexivity.
  Qed.

  Lemma mul_gen l neg : Forall (within m) l -> (forall a0 b x, l = [a0; SPow b x] -> within m b) ->
    multiplication_from_sympy_mul_gen self (SMul l neg) = conv (SMul l neg).
  Proof.
    intros H Hb. unfold multiplication_from_sympy_mul_gen. rewrite is_multiplication_by_reciprocal_spec. cbn [sympy_args].
    assert (Hmul : forall l', l' = l -> bind (Ok false) (fun x1 : bool => if x1
               then bind (py_index l' 0) (fun x2 => bind (self x2) (fun x3 => bind (py_index l' 1) (fun x4 =>
                    bind (py_index (sympy_args x4) 0) (fun x5 => bind (self x5) (fun x6 =>
                    Ok (FunctionCall_as_expression (FunctionCall_new "div" [x3; x6])))))))
               else bind (expression_tuple_from_tuple_of_sympy_args_gen self l')
                         (fun x7 => Ok (FunctionCall_as_expression (FunctionCall_new "mul" x7))))
             = call "mul" (map_res conv l')).
    { intros l' ->. cbn [bind]. apply call_gen. exact H. }
    destruct l as [|a0 [|a1 [|a2 r]]]; try (rewrite Hmul by reflexivity; reflexivity).
    - destruct a1; try (rewrite Hmul by reflexivity; reflexivity).
      cbn [from_sympy]. destruct (num_eq a1_2 (-1)) eqn:Hm.
      + cbn [bind]. rewrite py_index_0. cbn [bind].
        inversion H as [|? ? Ha0 H1]; subst. rewrite (Hself a0 Ha0).
        destruct (conv a0) as [t0|x]; [|reflexivity]. cbn [bind]. rewrite py_index_1. cbn [bind sympy_args].
        rewrite py_index_0. cbn [bind].
        rewrite (Hself a1_1 (Hb _ _ _ eq_refl)). destruct (conv a1_1); reflexivity.
      + rewrite Hmul by reflexivity. reflexivity.
    - destruct a1; rewrite Hmul by reflexivity; reflexivity.
  Qed.

  Lemma pow_gen b x : within m b -> within m x ->
    power_from_sympy_pow_gen self (SPow b x) = conv (SPow b x).
  Proof.
    intros Hb Hx. unfold power_from_sympy_pow_gen. rewrite from_sympy_pow. cbn [sympy_args]. rewrite !py_index_1, !py_index_0. cbn [bind].
    rewrite (sympy_eq_num_is_model x (-1 # 1)).
    change (num_eq x (-1 # 1)) with (num_eq x (-1)).
    destruct (num_eq x (-1)).
    - rewrite (Hself b Hb). destruct (conv b); reflexivity.
    - rewrite (sympy_eq_num_is_model x (1 # 2)).
      destruct (num_eq x (1 # 2)).
      + rewrite (Hself b Hb). destruct (conv b); reflexivity.
      + rewrite call_gen by (repeat constructor; assumption). cbn [map_res].
        destruct (conv b); [|reflexivity]. destruct (conv x); reflexivity.
  Qed.

  Lemma func_gen name l : Forall (within m) l ->
    function_call_from_sympy_function_gen self (SFunc name l) = conv (SFunc name l) /\
    function_call_from_sympy_function_gen self (SUFunc name l) = conv (SUFunc name l).
  Proof.
    intro H. unfold function_call_from_sympy_function_gen. cbn [sympy_func sympy_args bind from_sympy].
    unfold sympy_class_str. split; apply call_gen; exact H.
  Qed.
End FromSympyGen.

Lemma within_S m x : within m x -> within (S m) x.
Proof. unfold within. lia. Qed.

Lemma within_mul_neg m a0 ml n l : Forall (within m) l -> l = [a0; SMul ml (Some n)] -> within m n.
Proof.
  intros H ->. inversion H as [|? ? _ H1]; subst. inversion H1 as [|? ? Hm _]; subst.
  unfold within in *. rewrite depth_mul in Hm. lia.
Qed.
Lemma within_pow_base m a0 b x l : Forall (within m) l -> l = [a0; SPow b x] -> within m b.
Proof.
  intros H ->. inversion H as [|? ? _ H1]; subst. inversion H1 as [|? ? Hm _]; subst.
  unfold within in *. cbn [sympy_depth] in Hm. lia.
Qed.

Lemma from_sympy_fuel_is_model rnd : forall n e, sympy_depth e <= n -> expression_from_sympy_fuel rnd n e = from_sympy rnd e.
Proof.
  induction n as [|m IH]; intros e Hn; [destruct e; cbn in Hn; lia|].
  cbn [expression_from_sympy_fuel].
  set (self := expression_from_sympy_fuel rnd m).
  assert (Hself : forall x, within m x -> self x = from_sympy rnd x) by (intros x Hx; apply IH; exact Hx).
  clearbody self. clear IH.
  destruct e as [s|z|q|p d| |t|l|l neg|b x|name l|name l|t l]; try reflexivity.
  - rewrite depth_add in Hn. apply le_S_n, depth_list_le in Hn.
    change (expression_from_sympy_step rnd self (SAdd l)) with (addition_from_sympy_add_gen self (SAdd l)).
    apply (add_gen rnd self m Hself l Hn). intros a0 ml n0 E. exact (within_mul_neg m a0 ml n0 l Hn E).
  - rewrite depth_mul in Hn. apply le_S_n in Hn.
    assert (Hl : Forall (within m) l) by (apply depth_list_le; lia).
    change (expression_from_sympy_step rnd self (SMul l neg)) with (multiplication_from_sympy_mul_gen self (SMul l neg)).
    apply (mul_gen rnd self m Hself l neg Hl). intros a0 b x E. exact (within_pow_base m a0 b x l Hl E).
  - cbn [sympy_depth] in Hn. apply le_S_n in Hn.
    change (expression_from_sympy_step rnd self (SPow b x)) with (power_from_sympy_pow_gen self (SPow b x)).
    apply (pow_gen rnd self m Hself); unfold within; lia.
  - rewrite depth_func in Hn. apply le_S_n, depth_list_le in Hn.
    change (expression_from_sympy_step rnd self (SFunc name l)) with (function_call_from_sympy_function_gen self (SFunc name l)).
    apply (func_gen rnd self m Hself name l Hn).
  - rewrite depth_ufunc in Hn. apply le_S_n, depth_list_le in Hn.
    change (expression_from_sympy_step rnd self (SUFunc name l)) with (function_call_from_sympy_function_gen self (SUFunc name l)).
    apply (func_gen rnd self m Hself name l Hn).
Qed.

(* expression_from_sympy, generated from sympy_expressions.py (singledispatch over the ten registered implementations),
   is the model's [from_sympy] on EVERY observed sympy tree, including its exceptions *)
Theorem expression_from_sympy_gen_is_model rnd e : expression_from_sympy_gen rnd e = from_sympy rnd e.
Proof. apply from_sympy_fuel_is_model. apply Nat.le_refl. Qed.

(* ================================================================== SYMPY_DIALECT and reduction *)
Lemma reduction_gen_is_model (O : Ops) (f : V O -> V O -> V O) l : reduction_gen f l = reduce1 O f l.
Proof. reflexivity. Qed.

(* the table of SYMPY_DIALECT, entry by entry, is the model's [sympy_known] *)
Theorem sympy_dialect_gen_known (O : Ops) (env : string -> V O) name :
  ExpressionDialect_known_functions (SYMPY_DIALECT_gen O env) name = sympy_known O name.
Proof.
  unfold SYMPY_DIALECT_gen, sympy_known. cbn [ExpressionDialect_known_functions py_dict_literal].
  repeat match goal with
         | |- context [String.eqb name ?k] => destruct (String.eqb_spec name k) as [->|_]; [reflexivity|]
         end.
  reflexivity.
Qed.

Lemma translate_ext {T} (symf : string -> T) (numf : num -> T) (k1 k2 : string -> option (list T -> res T)) :
  (forall name, k1 name = k2 name) -> forall t, translate symf numf k1 t = translate symf numf k2 t.
Proof.
  intros Hk t. induction t as [n|s|name args IH] using nexpr_ind'; try reflexivity.
  cbn [translate]. rewrite Hk. destruct (k2 name) as [f|]; [|reflexivity].
  assert (E : map_res (translate symf numf k1) args = map_res (translate symf numf k2) args).
  { induction IH as [|a r Ha _ IHr]; [reflexivity|]. cbn [map_res]. rewrite Ha, IHr. reflexivity. }
  rewrite E. reflexivity.
Qed.

(* translating with the generated SYMPY_DIALECT is the model's [translate_sympy] *)
Theorem translate_with_sympy_dialect_gen_is_model (O : Ops) (env : string -> V O) t :
  translate_expression_gen t (SYMPY_DIALECT_gen O env) = translate_sympy O env t.
Proof.
  rewrite translate_expression_gen_is_model. unfold model_translate, translate_sympy.
  apply (translate_ext env (numv O)). apply sympy_dialect_gen_known.
Qed.

(* the whole pipeline of the round-trip clause, stated about generated code only *)
Theorem generated_roundtrip (O : Ops) (HL : Laws O) (rnd : Q -> Q) (e : sexpr) :
  supported e = true -> neg_ok O e -> rationals_exact rnd e ->
  exists t, expression_from_sympy_gen rnd e = Ok t /\
            forall env : string -> V O, translate_expression_gen t (SYMPY_DIALECT_gen O env) = Ok (ev O env e).
Proof.
  intros Hs Hn Hr. destruct (roundtrip_value_proved O HL rnd e Hs Hn Hr) as [t [Ht Hv]].
  exists t. split; [rewrite expression_from_sympy_gen_is_model; exact Ht|].
  intro env. rewrite translate_with_sympy_dialect_gen_is_model. apply Hv.
Qed.

Theorem generated_refusal (O : Ops) (rnd : Q -> Q) (e : sexpr) :
  unsupported_inside e = true -> neg_keeps e ->
  (exists x, expression_from_sympy_gen rnd e = Err x) \/
  (exists t, expression_from_sympy_gen rnd e = Ok t /\
             forall env : string -> V O, exists x, translate_expression_gen t (SYMPY_DIALECT_gen O env) = Err x).
Proof.
  intros Hu Hk. rewrite expression_from_sympy_gen_is_model.
  destruct (unsupported_refused_proved O rnd e Hu Hk) as [H|[t [Ht Hv]]]; [left; exact H|right].
  exists t. split; [exact Ht|]. intro env. rewrite translate_with_sympy_dialect_gen_is_model. apply Hv.
Qed.
