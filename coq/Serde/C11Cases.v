(* Comparison helpers for the C11 correspondence cases: the artefact models run on Json.num, i.e. on the
   numbers exactly as Python wrote them into the JSON text. *)
Require Import Coq.ZArith.ZArith Coq.Lists.List Coq.Strings.String Coq.Bool.Bool Coq.QArith.QArith.
Require Import OQ.Base.CaseEq OQ.Serde.Json OQ.Serde.Artefacts.
Import ListNotations.
Open Scope string_scope.

Definition J := jt num.

Section Eqb.
  Variable R : Type.
  Variable req : R -> R -> bool.
  Fixpoint jt_eqb (a b : jt R) {struct a} : bool :=
    match a, b with
    | TNull, TNull => true
    | TNum x, TNum y => req x y
    | TStr x, TStr y => String.eqb x y
    | TArr x, TArr y =>
        (fix go (l1 l2 : list (jt R)) : bool :=
           match l1, l2 with
           | [], [] => true
           | u :: r1, v :: r2 => jt_eqb u v && go r1 r2
           | _, _ => false
           end) x y
    | TObj x, TObj y =>
        (fix go (l1 l2 : list (string * jt R)) : bool :=
           match l1, l2 with
           | [], [] => true
           | (k1, u) :: r1, (k2, v) :: r2 => String.eqb k1 k2 && jt_eqb u v && go r1 r2
           | _, _ => false
           end) x y
    | _, _ => false
    end.
End Eqb.
Arguments jt_eqb {R}.

Fixpoint nd_eqb {A} (e : A -> A -> bool) (a b : nd A) {struct a} : bool :=
  match a, b with
  | NLeaf x, NLeaf y => e x y
  | NNode x, NNode y =>
      (fix go (l1 l2 : list (nd A)) : bool :=
         match l1, l2 with
         | [], [] => true
         | u :: r1, v :: r2 => nd_eqb e u v && go r1 r2
         | _, _ => false
         end) x y
  | _, _ => false
  end.

(* the text of a JSON tree must agree exactly *)
Definition jeqb : J -> J -> bool := jt_eqb num_eqb.

(* values read back are compared as Python's == does: -0.0 == 0.0, 2 == 2.0 *)
Definition unsign (s : string) : string := if String.eqb s "-0.0" then "0.0" else s.
Definition num_veqb (a b : num) : bool :=
  match a, b with
  | NInt x, NInt y => Z.eqb x y
  | NFloat x, NFloat y => String.eqb (unsign x) (unsign y)
  | NInt x, NFloat y | NFloat y, NInt x => String.eqb (show_Z x ++ ".0") (unsign y)
  end.
Definition jveqb : J -> J -> bool := jt_eqb num_veqb.

Definition arr_veqb (a b : arr num) : bool :=
  match a, b with
  | AReal x, AReal y => nd_eqb num_veqb x y
  | ACplx x, ACplx y => nd_eqb (peqb num_veqb num_veqb) x y
  | _, _ => false
  end.
Definition frames_veqb := oeqb (leqb arr_veqb).

Definition to_arr := dict_to_arr num_truthy.

(* ---- one comparison per artefact: the tree Python wrote = the model's, and what Python loaded = the model's reading
   of that tree (None = the loader raised) *)
Definition arr_case (a : arr num) (py : J) (loaded : option (arr num)) : bool :=
  jeqb (arr_to_dict a) py && oeqb arr_veqb (to_arr py) loaded.
Definition arr_from_case (py : J) (loaded : option (arr num)) : bool := oeqb arr_veqb (to_arr py) loaded.

Definition tuples_veqb := leqb (leqb jveqb).
Definition meas_case (bs : list (list Z)) (py : J) (loaded : option (list (list J))) : bool :=
  jeqb (meas_to_dict NInt bs) py && oeqb tuples_veqb (meas_from_dict py) loaded.

Definition ev_veqb (a b : expvals num) : bool :=
  arr_veqb (ev_values a) (ev_values b) && frames_veqb (ev_corr a) (ev_corr b) && frames_veqb (ev_cov a) (ev_cov b).
Definition ev_case (e : expvals num) (py : J) (loaded : option (expvals num)) : bool :=
  jeqb (ev_to_dict e) py && oeqb ev_veqb (ev_from_dict num_truthy py) loaded.
Definition ev_from_case (py : J) (loaded : option (expvals num)) : bool :=
  oeqb ev_veqb (ev_from_dict num_truthy py) loaded.

Definition par_veqb (a b : parities num) : bool :=
  arr_veqb (par_values a) (par_values b) && frames_veqb (par_corr a) (par_corr b).
Definition par_case (p : parities num) (py : J) (loaded : option (parities num)) : bool :=
  jeqb (par_to_dict p) py && oeqb par_veqb (par_from_dict num_truthy py) loaded.

Definition ve_veqb (a b : vest num) : bool :=
  num_veqb (ve_value a) (ve_value b) && oeqb num_veqb (ve_prec a) (ve_prec b).
Definition ve_case (v : vest num) (py : J) (loaded : option (vest num)) : bool :=
  jeqb (ve_to_dict v) py && oeqb ve_veqb (ve_from_dict num_to_float py) loaded.
Definition ve_from_case (py : J) (loaded : option (vest num)) : bool :=
  oeqb ve_veqb (ve_from_dict num_to_float py) loaded.

Definition keyed_case (key : string) (l : list J) (py : J) (loaded : option J) : bool :=
  jeqb (keyed_to_dict key l) py && oeqb jveqb (keyed_from_dict key py) loaded.

Definition layers_case (ls : list (list (list Z))) (py : J) (loaded : option (list (list (list J)))) : bool :=
  jeqb (layers_to_dict NInt ls) py && oeqb (leqb tuples_veqb) (layers_from_dict py) loaded.
Definition conn_case (ts : list (list Z)) (py : J) (loaded : option (list (list J))) : bool :=
  jeqb (conn_to_dict NInt ts) py && oeqb tuples_veqb (conn_from_dict py) loaded.

Definition nmeas_veqb (a b : J * J * option (arr num)) : bool :=
  jveqb (fst (fst a)) (fst (fst b)) && jveqb (snd (fst a)) (snd (fst b)) && oeqb arr_veqb (snd a) (snd b).
Definition nmeas_case (k n : num) (fm : option (arr num)) (py : J) (loaded : option (J * J * option (arr num))) : bool :=
  jeqb (nmeas_to_dict k n fm) py && oeqb nmeas_veqb (nmeas_from_dict num_truthy py) loaded.

(* ------------------------------------------------------------------ operators *)
Require Import Coq.QArith.Qcanon.
Require Import OQ.Base.Ring OQ.Pauli.Algebra OQ.Serde.OpSerde.

(* a JSON number of an operator dictionary: the text written and the exact value of the float/int it denotes *)
Definition rtok := (num * Q)%type.
Definition rt_truthy (r : rtok) : bool := num_truthy (fst r).
Definition rt_inj (r : rtok) : GQ := gq_lit (snd r) 0.
Definition rt_of_nat (n : nat) : rtok := (NInt (Z.of_nat n), inject_Z (Z.of_nat n)).
Definition rt_to_nat (r : rtok) : option nat :=
  match fst r with
  | NInt z => if Z.leb 0 z then Some (Z.to_nat z) else None
  | NFloat _ => None
  end.
Definition rt_eqb (a b : rtok) : bool := num_eqb (fst a) (fst b) && Qeq_bool (snd a) (snd b).

(* np.isclose(c, 0.0): |c| <= atol, with atol the double 1e-8 given exactly *)
Definition close0 (tol : Q) (c : GQ) : bool :=
  Qle_bool (this (fst c) * this (fst c) + this (snd c) * this (snd c)) (tol * tol).

Definition gterm_eqb (a b : term GQring) : bool := gq_eqb (coef a) (coef b) && ops_eqb (tops a) (tops b).
Definition gsum_eqb := leqb gterm_eqb.
Definition gt (re im : Q) (l : ops) : term GQring := mk_term (gq_lit re im : GQring) l.

(* [s'] = the terms with their operators in the order the serialiser iterated them; [py] = the tree Python wrote;
   [loaded] = what Python built from it (operators sorted by qubit), None if it raised *)
Definition op_dict_case (tol : Q) (s' : list (sterm rtok)) (py : jt rtok) (loaded : option (list (term GQring))) : bool :=
  jt_eqb rt_eqb (op_to_dict rt_of_nat s') py &&
  oeqb gsum_eqb (dict_to_op (K := GQring) (close0 tol) rt_truthy rt_inj rt_to_nat py) loaded.
Definition op_from_case (tol : Q) (py : jt rtok) (loaded : option (list (term GQring))) : bool :=
  oeqb gsum_eqb (dict_to_op (K := GQring) (close0 tol) rt_truthy rt_inj rt_to_nat py) loaded.
Definition opset_case (tol : Q) (l' : list (list (sterm rtok))) (py : jt rtok) (loaded : option (list (list (term GQring)))) : bool :=
  jt_eqb rt_eqb (opset_to_dict rt_of_nat l') py &&
  oeqb (leqb gsum_eqb) (dict_to_opset (K := GQring) (close0 tol) rt_truthy rt_inj rt_to_nat py) loaded.
(* the iteration order handed to the model is an order of the term's own operators *)
Definition order_ok (iter sorted : list (nat * letter)) : bool := ops_eqb (canon iter) sorted.

(* ---- text: a coefficient is its printed text and its value *)
Definition ccoef := (string * pyc num)%type.
Definition cshow (c : ccoef) : string := fst c.
Definition ctab := list (string * option ccoef).
(* _parse_complex as the table of the calls the harness made on the first factor of every term; a string the model
   asks about that Python did not is answered by a value nothing else carries *)
Definition cread (tab : ctab) (s : string) : option ccoef :=
  match assoc s tab with Some r => r | None => Some ("<no table entry>", PReal (NInt 0)) end.
Definition c_one : ccoef := ("1.0", PReal (NFloat "1.0")).
Definition c_zero : ccoef := ("0", PReal (NInt 0)).

Definition pyc_veqb (a b : pyc num) : bool :=
  match a, b with
  | PReal x, PReal y => num_veqb x y
  | PCplx x1 x2, PCplx y1 y2 => num_veqb x1 y1 && num_veqb x2 y2
  | _, _ => false
  end.
Definition ccoef_eqb (a b : ccoef) : bool := String.eqb (fst a) (fst b) && pyc_veqb (snd a) (snd b).
Definition raw_ops_eqb := leqb (peqb Nat.eqb letter_eqb).
Definition tterm_eqb (a b : tterm ccoef) : bool := ccoef_eqb (fst a) (fst b) && raw_ops_eqb (snd a) (snd b).

Definition repr_term_case (t : tterm ccoef) (py : string) : bool :=
  String.eqb (repr_term cshow t) py && coef_text_ok (cshow (fst t)).
Definition repr_sum_case (s : list (tterm ccoef)) (py : string) : bool :=
  String.eqb (repr_sum cshow c_zero s) py && forallb (fun t => coef_text_ok (cshow (fst t))) s.
Definition parse_term_case (tab : ctab) (s : string) (out : option (tterm ccoef)) : bool :=
  oeqb tterm_eqb (parse_term (cread tab) c_one s) out.
Definition parse_sum_case (tab : ctab) (s : string) (out : option (list (tterm ccoef))) : bool :=
  oeqb (leqb tterm_eqb) (parse_sum (cread tab) c_one s) out.
