(* Concrete instance of the serialiser model and comparison helpers for the C05 correspondence cases.
   A parameter is the pair (str(p), sorted names of p's free symbols); sympify is the finite table of
   the calls the implementation made during the case (names given, text) -> what it returned. *)
Require Import Coq.ZArith.ZArith Coq.NArith.NArith Coq.Lists.List Coq.Strings.String Coq.Bool.Bool.
Require Import OQ.Gen.NamesGen OQ.Serde.Json OQ.Serde.CircuitSerde.
Import ListNotations.
Open Scope string_scope.

Definition cexpr := (string * list string)%type.
Definition cprint (e : cexpr) : string := fst e.
Definition cfree (e : cexpr) : list string := snd e.
Definition lseqb := list_eqb String.eqb.
Definition cexpr_eqb (a b : cexpr) : bool := String.eqb (fst a) (fst b) && lseqb (snd a) (snd b).

Definition ptable := list (list string * string * option cexpr).
(* like deserialize_expr: no locals (TypeError) when the model of _make_symbols_map fails, otherwise
   what the recorded call returned; a call the implementation never made yields a marker, so that a
   reader that skips work is told apart from one that fails *)
Definition cparse (t : ptable) (syms : list string) (s : string) : option cexpr :=
  match make_symbols_map syms with
  | None => None
  | Some _ =>
      match find (fun e => lseqb (fst (fst e)) syms && String.eqb (snd (fst e)) s) t with
      | Some (_, r) => r
      | None => Some ("<call not made by the implementation>", [])     (* never equal to a recorded structure *)
      end
  end.

(* short names for the literals the harness writes *)
Definition B := Builtin cexpr.
Definition U := Custom cexpr.
Definition Ct := Controlled cexpr.
Definition Dg := Dagger cexpr.
Definition Pw := Power cexpr.
Definition Ex := Exponential cexpr.
Definition mkd := mk_gdef cexpr.
Definition mkc := mk_circuit cexpr.
Definition cgate := gate cexpr.
Definition ccircuit := circuit cexpr.

Definition def_eqb' (a b : gdef cexpr) : bool :=
  String.eqb (dname _ a) (dname _ b) && lseqb (dparams _ a) (dparams _ b)
  && list_eqb (list_eqb cexpr_eqb) (dmatrix _ a) (dmatrix _ b).
Fixpoint gate_eqb (a b : cgate) : bool :=
  match a, b with
  | Builtin _ n ps, Builtin _ m qs => String.eqb n m && list_eqb cexpr_eqb ps qs
  | Custom _ d ps, Custom _ e qs => def_eqb' d e && list_eqb cexpr_eqb ps qs
  | Controlled _ g k, Controlled _ h l => gate_eqb g h && Z.eqb k l
  | Dagger _ g, Dagger _ h => gate_eqb g h
  | Power _ g e, Power _ h f => gate_eqb g h && num_eqb e f
  | Exponential _ g, Exponential _ h => gate_eqb g h
  | _, _ => false
  end.
Definition op_eqb (a b : operation cexpr) : bool := gate_eqb (fst a) (fst b) && list_eqb Z.eqb (snd a) (snd b).
Definition circuit_eqb (a b : ccircuit) : bool :=
  list_eqb op_eqb (c_ops _ a) (c_ops _ b) && Z.eqb (c_nq _ a) (c_nq _ b).

(* model outcome vs recorded outcome; where the model makes no claim the case passes, but the harness
   may not claim "outside the model" where the model has an answer *)
Definition res_eqb {A} (e : A -> A -> bool) (model recorded : res A) : bool :=
  match model, recorded with
  | EUnmodelled, _ => true
  | Ok x, Ok y => e x y
  | EKey, EKey => true
  | EErr, EErr => true
  | _, _ => false
  end.
Definition ojson_eqb (a b : option json) : bool :=
  match a, b with Some x, Some y => json_eqb x y | None, None => true | _, _ => false end.

(* to_dict(c) as the implementation wrote it (after real JSON text), None = it raised ValueError *)
Definition to_dict_eqb (c : ccircuit) (py : option json) : bool :=
  ojson_eqb (circuit_to_json cexpr cprint cfree cexpr_eqb c) py.
Definition set_to_dict_eqb (cs : list ccircuit) (py : option json) : bool :=
  ojson_eqb (circuitset_to_json cexpr cprint cfree cexpr_eqb cs) py.
(* circuit_from_dict(py) as the implementation returned it *)
Definition from_dict_eqb (t : ptable) (py : json) (out : res ccircuit) : bool :=
  res_eqb circuit_eqb (circuit_from_json cexpr (cparse t) cfree py) out.
Definition set_from_dict_eqb (t : ptable) (py : json) (out : res (list ccircuit)) : bool :=
  res_eqb (list_eqb circuit_eqb) (circuitset_from_json cexpr (cparse t) cfree py) out.
(* gate name as the implementation computes it *)
Definition name_eqb (g : cgate) (py : string) : bool := String.eqb (name_of cexpr g) py.

(* the generated table against the running module: keys of vars(_builtin_gates), and per gate what it is *)
Definition globals_eqb (names : list string) : bool := lseqb (map fst builtin_globals) names.
Definition gref_eqb (a b : gref) : bool :=
  match a, b with
  | GConst n h, GConst m k => Z.eqb n m && Bool.eqb h k
  | GProto n h, GProto m k => Z.eqb n m && Bool.eqb h k
  | GOther, GOther => true
  | _, _ => false
  end.
Definition global_entry_eqb (name : string) (r : gref) : bool :=
  match assoc name builtin_globals with Some r' => gref_eqb r' r | None => false end.
Definition markers_eqb (dagger control exponential power : string) : bool :=
  String.eqb DAGGER_GATE_NAME dagger && String.eqb CONTROLLED_GATE_NAME control
  && String.eqb EXPONENTIAL_GATE_NAME exponential && String.eqb POWER_GATE_SYMBOL power.

(* _make_symbols_map(names) as the implementation built it (None = it raised TypeError) *)
Definition sment_eqb (a b : sment) : bool :=
  match a, b with
  | SSym x, SSym y => String.eqb x y
  | SDict x, SDict y => list_eqb (fun p q => N.eqb (fst p) (fst q) && String.eqb (snd p) (snd q)) x y
  | _, _ => false
  end.
Definition symmap_eqb (names : list string) (py : option symmap) : bool :=
  match make_symbols_map names, py with
  | Some m, Some m' => list_eqb (fun p q => String.eqb (fst p) (fst q) && sment_eqb (snd p) (snd q)) m m'
  | None, None => true
  | _, _ => false
  end.
