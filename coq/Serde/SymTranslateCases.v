(* Comparison helpers for the C19 correspondence cases. *)
Require Import Coq.ZArith.ZArith Coq.QArith.QArith Coq.Lists.List Coq.Strings.String Coq.Bool.Bool Coq.NArith.NArith.
Require Import OQ.Base.CaseEq OQ.Serde.SymTranslate OQ.Serde.NatKey.
Import ListNotations.
Open Scope string_scope.

Definition err_eqb (a b : err) : bool :=
  match a, b with
  | ENotImpl, ENotImpl | EValue, EValue | EType, EType | EIndex, EIndex | EStuck, EStuck => true
  | _, _ => false
  end.
Definition res_eqb {A} (e : A -> A -> bool) (a b : res A) : bool :=
  match a, b with
  | Ok x, Ok y => e x y
  | Err x, Err y => err_eqb x y
  | _, _ => false
  end.
Definition num_eqb (a b : num) : bool :=
  match a, b with
  | NInt x, NInt y => Z.eqb x y
  | NFloat x, NFloat y => Qeq_bool x y
  | NImag, NImag => true
  | NOtherNum s, NOtherNum t => String.eqb s t
  | _, _ => false
  end.
Fixpoint nexpr_eqb (a b : nexpr) : bool :=
  match a, b with
  | NNum x, NNum y => num_eqb x y
  | NSym s, NSym t => String.eqb s t
  | NCall n l, NCall m k =>
      String.eqb n m &&
      (fix go (l k : list nexpr) : bool :=
         match l, k with
         | [], [] => true
         | x :: r, y :: q => nexpr_eqb x y && go r q
         | _, _ => false
         end) l k
  | _, _ => false
  end.

(* expression_from_sympy on the dumped tree against the neutral tree (or exception class) Python produced,
   and the grammar classification of the dump against the harness's own reading of the object *)
Definition from_sympy_eqb (e : sexpr) (out : res nexpr) (is_supported has_unsupported : bool) : bool :=
  res_eqb nexpr_eqb (from_sympy round53 e) out &&
  Bool.eqb (supported e) is_supported && Bool.eqb (unsupported_inside e) has_unsupported.

(* translate_expression under a recording dialect: symbols and function names are tagged, numbers kept *)
Definition rec_known (names : list string) (name : string) : option (list nexpr -> res nexpr) :=
  if mem name names then Some (fun args => Ok (NCall (name ++ "!") args)) else None.
Definition translate_rec_eqb (names : list string) (t : nexpr) (out : res nexpr) : bool :=
  res_eqb nexpr_eqb (translate (fun s => NSym (s ++ "?")) NNum (rec_known names) t) out.

(* the function table of SYMPY_DIALECT on exact rationals (operators only; integer exponents) *)
Definition QOps : Ops := {|
  V := Q;
  vadd := Qplus; vmul := Qmult; vsub := Qminus; vdiv := Qdiv;
  vpow := fun a e => Qpower a (Qnum e);
  vsqrt := fun _ => 0%Q;
  ofQ := fun q => q; vi := 0%Q; onum := fun _ => 0%Q;
  fnv := fun _ _ => 0%Q; ufn := fun _ _ => 0%Q; oth := fun _ _ => 0%Q
|}.
Definition dialect_eqb (name : string) (args : list Q) (out : res Q) : bool :=
  res_eqb Qeq_bool
    (translate (T:=Q) (fun _ => 0%Q) (numv QOps) (sympy_known QOps)
       (NCall name (map (fun q => NNum (NFloat q)) args))) out.
Definition dialect_keys_eqb (keys : list string) : bool := lseqb keys dialect_names.

(* natural keys *)
Definition kelem_eqb (a b : kelem) : bool :=
  match a, b with
  | KS s, KS t => String.eqb s t
  | KI n, KI m => N.eqb n m
  | _, _ => false
  end.
Definition natkey_eqb (names : list string) (keys : list (list kelem)) (sorted_nat sorted_rev : list string) : bool :=
  leqb (leqb kelem_eqb) (map natural_key names) keys &&
  lseqb (sort_by natural_key names) sorted_nat &&
  lseqb (sort_by natural_key_revlex names) sorted_rev.
