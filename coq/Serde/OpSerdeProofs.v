(* Round-trip proofs for the dictionary and text forms of Pauli operators (property C11). *)
Require Import Coq.setoid_ring.Ring Coq.ZArith.ZArith Coq.NArith.NArith Coq.Lists.List Coq.Strings.String
  Coq.Strings.Ascii Coq.Bool.Bool Coq.Arith.Arith Coq.micromega.Lia Coq.Sorting.Permutation.
Require Import OQ.Base.Ring OQ.Base.Sums OQ.Base.Mat OQ.Pauli.Algebra OQ.Pauli.Den OQ.Pauli.DenProofs OQ.Pauli.SumProofs
  OQ.Pauli.OpsProofs.
Require Import OQ.Serde.Json OQ.Serde.Artefacts OQ.Serde.ArtefactsProofs OQ.Serde.NatKey OQ.Serde.NatKeyProofs
  OQ.Serde.OpSerde.
Import ListNotations.
Open Scope string_scope.

(* ------------------------------------------------------------------ operator dictionaries *)
Lemma existsb_eqb_notin x l : ~ In x l -> existsb (Nat.eqb x) l = false.
Proof.
  induction l as [|y r IH]; intro H; [reflexivity|]. cbn [existsb].
  destruct (Nat.eqb_spec x y) as [->|Hne]; [exfalso; apply H; left; reflexivity|].
  apply IH. intro Hin. apply H. right. exact Hin.
Qed.

Lemma NoDup_prefix {A} (l l' : list A) : NoDup (l ++ l') -> NoDup l.
Proof.
  induction l' as [|a r IH]; intro H; [rewrite app_nil_r in H; exact H|].
  apply IH. apply (NoDup_remove_1 _ _ _ H).
Qed.

Lemma nodupb_NoDup l : NoDup l -> nodupb l = true.
Proof.
  induction 1 as [|x r Hx _ IH]; [reflexivity|]. cbn [nodupb]. rewrite (existsb_eqb_notin x r Hx), IH. reflexivity.
Qed.

Lemma drop_identity_some (l : list (nat * letter)) :
  drop_identity (map (fun ql => (fst ql, Some (snd ql))) l) = l.
Proof.
  induction l as [|[q a] r IH]; [reflexivity|]. unfold drop_identity in *. cbn [map flat_map fst snd app].
  rewrite IH. reflexivity.
Qed.

Lemma lookup_some_in q a (l : ops) : lookup q l = Some a -> In (q, a) l.
Proof.
  induction l as [|[k b] r IH]; cbn [lookup]; [discriminate|].
  destruct (Nat.eqb_spec q k) as [->|Hne]; intro H.
  - inversion H; subst. left. reflexivity.
  - right. apply IH. exact H.
Qed.

Lemma lookup_in q a (l : ops) : NoDup (keys l) -> In (q, a) l -> lookup q l = Some a.
Proof.
  induction l as [|[k b] r IH]; intros Hnd Hin; [destruct Hin|]. cbn [keys map fst] in Hnd.
  inversion Hnd as [|? ? Hk Hr]; subst. cbn [lookup]. destruct Hin as [E|Hin].
  - inversion E; subst. rewrite Nat.eqb_refl. reflexivity.
  - destruct (Nat.eqb_spec q k) as [->|Hne]; [|apply IH; assumption].
    exfalso. apply Hk. change (In k (map fst r)). apply in_map_iff. exists (k, a). split; [reflexivity|exact Hin].
Qed.

Lemma lookup_perm q (l1 l2 : ops) : NoDup (keys l2) -> Permutation l1 l2 -> lookup q l1 = lookup q l2.
Proof.
  intros Hnd Hp.
  assert (Hnd1 : NoDup (keys l1)).
  { unfold keys. eapply Permutation_NoDup; [apply Permutation_map; apply Permutation_sym; exact Hp|exact Hnd]. }
  destruct (lookup q l1) as [a|] eqn:E1.
  - symmetry. apply lookup_in; [exact Hnd|]. eapply Permutation_in; [exact Hp|]. apply lookup_some_in. exact E1.
  - destruct (lookup q l2) as [a|] eqn:E2; [|reflexivity].
    apply lookup_some_in in E2. apply (Permutation_in _ (Permutation_sym Hp)) in E2.
    rewrite (lookup_in q a l1 Hnd1 E2) in E1. discriminate.
Qed.

Lemma fold_set_sorted (l : list (nat * letter)) : forall a, ops_sorted a ->
  ops_sorted (fold_left (fun a ql => set_op (fst ql) (snd ql) a) l a).
Proof. induction l as [|[q b] r IH]; intros a Ha; cbn [fold_left]; [exact Ha|]. apply IH. apply set_op_sorted. exact Ha. Qed.

Lemma canon_sorted l : ops_sorted (canon l).
Proof. apply fold_set_sorted. exact I. Qed.

Lemma lookup_fold_set q (l : list (nat * letter)) : forall a, NoDup (map fst l) ->
  lookup q (fold_left (fun a ql => set_op (fst ql) (snd ql) a) l a)
  = match lookup q l with Some b => Some b | None => lookup q a end.
Proof.
  induction l as [|[k b] r IH]; intros a Hnd; cbn [fold_left]; [reflexivity|].
  cbn [map fst] in Hnd. inversion Hnd as [|? ? Hk Hr]; subst.
  rewrite (IH _ Hr). cbn [lookup fst snd]. rewrite lookup_set.
  destruct (Nat.eqb_spec q k) as [->|Hne]; [|reflexivity].
  rewrite (lookup_notin k r Hk). reflexivity.
Qed.

Lemma lookup_canon q l : NoDup (map fst l) -> lookup q (canon l) = lookup q l.
Proof. intro H. unfold canon. rewrite (lookup_fold_set q l [] H). destruct (lookup q l); reflexivity. Qed.

Lemma sorted_head_lookup q k (a : letter) (r : ops) : ops_sorted ((k, a) :: r) -> (q <= k)%nat -> lookup q r = None.
Proof.
  intros [H _] Hle. apply lookup_notin. intro Hin. specialize (H q Hin). lia.
Qed.

Lemma sorted_ext (l1 : ops) : forall l2 : ops, ops_sorted l1 -> ops_sorted l2 ->
  (forall q, lookup q l1 = lookup q l2) -> l1 = l2.
Proof.
  induction l1 as [|[k1 a1] r1 IH]; intros [|[k2 a2] r2] H1 H2 Hext.
  - reflexivity.
  - specialize (Hext k2). cbn [lookup] in Hext. rewrite Nat.eqb_refl in Hext. discriminate.
  - specialize (Hext k1). cbn [lookup] in Hext. rewrite Nat.eqb_refl in Hext. discriminate.
  - assert (Hk : k1 = k2).
    { destruct (Nat.lt_trichotomy k1 k2) as [Hlt|[E|Hgt]]; [|exact E|]; exfalso.
      - pose proof (Hext k1) as E. cbn [lookup] in E. rewrite Nat.eqb_refl in E.
        destruct (Nat.eqb_spec k1 k2) as [->|_]; [lia|].
        rewrite (sorted_head_lookup k1 k2 a2 r2 H2) in E by lia. discriminate.
      - pose proof (Hext k2) as E. cbn [lookup] in E. rewrite Nat.eqb_refl in E.
        destruct (Nat.eqb_spec k2 k1) as [->|_]; [lia|].
        rewrite (sorted_head_lookup k2 k1 a1 r1 H1) in E by lia. discriminate. }
    subst k2.
    assert (Ha : a1 = a2).
    { pose proof (Hext k1) as E. cbn [lookup] in E. rewrite Nat.eqb_refl in E. inversion E. reflexivity. }
    subst a2. f_equal. apply IH; [apply H1|apply H2|].
    intro q. destruct (Nat.eqb_spec q k1) as [->|Hne].
    + rewrite (sorted_head_lookup k1 k1 a1 r1 H1), (sorted_head_lookup k1 k1 a1 r2 H2) by lia. reflexivity.
    + pose proof (Hext q) as E. cbn [lookup] in E. destruct (Nat.eqb_spec q k1); [contradiction|exact E].
Qed.

(* whatever order the operators of a term are iterated in, the dictionary built from them is the term's *)
Lemma canon_perm (l : ops) (l' : list (nat * letter)) : ops_sorted l -> Permutation l' l -> canon l' = l.
Proof.
  intros Hs Hp. apply sorted_ext; [apply canon_sorted|exact Hs|]. intro q.
  pose proof (ops_sorted_nodup l Hs) as Hnd.
  rewrite lookup_canon.
  - apply lookup_perm; assumption.
  - change (NoDup (keys l')). unfold keys. eapply Permutation_NoDup; [apply Permutation_map; apply Permutation_sym; exact Hp|exact Hnd].
Qed.

Lemma canon_sorted_id (l : ops) : ops_sorted l -> canon l = l.
Proof. intro H. apply canon_perm; [exact H|apply Permutation_refl]. Qed.

Section DictProofs.
  Variable K : cring.
  Add Ring Kring_c11 : (c_ring K).
  Variable is_zero : K -> bool.
  Variable R : Type.
  Variable r_truthy : R -> bool.
  Variable inj : R -> K.
  Variable of_nat : nat -> R.
  Variable to_nat : R -> option nat.
  Hypothesis to_of_nat : forall n, to_nat (of_nat n) = Some n.
  Local Open Scope list_scope.
  Local Open Scope cr_scope.

  Notation sterm := (sterm R).
  Notation to_k := (to_k inj).
  Notation kterm := (kterm inj).
  Notation op_to_dict := (op_to_dict of_nat).
  Notation dict_to_terms := (dict_to_terms r_truthy to_nat).
  Notation dict_to_op := (dict_to_op is_zero r_truthy inj to_nat).
  Notation norm_c := (norm_c r_truthy).

  Lemma read_letter_str a : read_letter (letter_str a) = Some (Some a).
  Proof. destruct a; reflexivity. Qed.

  Lemma read_pauli_op_of (ql : nat * letter) :
    read_pauli_op to_nat (pauli_op_to_jt of_nat ql) = Some (fst ql, Some (snd ql)).
  Proof.
    unfold read_pauli_op, pauli_op_to_jt. cbn [assoc String.eqb Ascii.eqb Bool.eqb].
    rewrite read_letter_str, to_of_nat. reflexivity.
  Qed.

  Lemma read_ops_of (l : list (nat * letter)) : NoDup (map fst l) ->
    read_ops to_nat (TArr (map (pauli_op_to_jt of_nat) l)) = Some (canon l).
  Proof.
    intro Hnd. unfold read_ops. cbn [py_iter py_tuple].
    rewrite (mapM_map (read_pauli_op to_nat) (pauli_op_to_jt of_nat) (fun ql => (fst ql, Some (snd ql))) l)
      by (apply Forall_all; intro ql; apply read_pauli_op_of).
    replace (map fst (map (fun ql : nat * letter => (fst ql, Some (snd ql))) l)) with (map fst l)
      by (rewrite map_map; reflexivity).
    rewrite (nodupb_NoDup _ Hnd), drop_identity_some. reflexivity.
  Qed.

  Lemma read_coef_of (c : pyc R) : read_coef r_truthy (coef_to_jt c) = Some (norm_c c).
  Proof.
    destruct c as [x|a b]; unfold read_coef, coef_to_jt; cbn [assoc String.eqb Ascii.eqb Bool.eqb jt_truthy OpSerde.norm_c];
      [reflexivity|]. destruct (r_truthy b); reflexivity.
  Qed.

  Lemma read_term_of (t : sterm) : NoDup (map fst (snd t)) ->
    read_term r_truthy to_nat (term_to_jt of_nat t) = Some (norm_c (fst t), canon (snd t)).
  Proof.
    intro Hnd. unfold read_term, term_to_jt. cbn [assoc String.eqb Ascii.eqb Bool.eqb].
    rewrite (read_ops_of _ Hnd), read_coef_of. reflexivity.
  Qed.

  (* every term comes back with its operators (as a dictionary), its qubit indices and both coefficient parts *)
  Lemma dict_to_terms_of (s : list sterm) : Forall (fun t => NoDup (map fst (snd t))) s ->
    dict_to_terms (op_to_dict s) = Some (map (fun t => (norm_c (fst t), canon (snd t))) s).
  Proof.
    intro H. unfold OpSerde.dict_to_terms, OpSerde.op_to_dict. cbn [assoc String.eqb Ascii.eqb Bool.eqb py_iter py_tuple].
    apply mapM_map. eapply Forall_impl; [|exact H]. intros t Ht. apply read_term_of. exact Ht.
  Qed.

  (* ---------------------------------------------------------------- += with simplify after every term *)
  Lemma fold_add_fixed (rest : psum K) : forall pre : psum K,
    distinct_ops (pre ++ rest) -> Forall (fun t => is_zero (coef t) = false) (pre ++ rest) ->
    fold_left (fun acc t => sum_add is_zero acc [t]) rest pre = pre ++ rest.
  Proof.
    induction rest as [|t rest IH]; intros pre Hd Hz; cbn [fold_left]; [rewrite app_nil_r; reflexivity|].
    assert (E : pre ++ t :: rest = (pre ++ [t]) ++ rest) by (rewrite <- app_assoc; reflexivity).
    rewrite E in Hd, Hz.
    assert (Hfix : sum_add is_zero pre [t] = pre ++ [t]).
    { unfold sum_add. apply simplify_fixed.
      - unfold distinct_ops in *. rewrite map_app in Hd. apply NoDup_prefix in Hd. exact Hd.
      - apply Forall_app in Hz. apply Hz. }
    rewrite Hfix, (IH (pre ++ [t]) Hd Hz), E. reflexivity.
  Qed.

  Lemma add_all_fixed (ts : psum K) :
    distinct_ops ts -> Forall (fun t => is_zero (coef t) = false) ts -> add_all is_zero ts = ts.
  Proof. intros Hd Hz. unfold add_all. apply (fold_add_fixed ts []); assumption. Qed.

  (* in general the result differs from the sum of the terms exactly by terms whose coefficients test as zero *)
  Lemma fold_add_den n (rest : psum K) : forall pre : psum K,
    exists D : psum K, Forall (fun t => is_zero (coef t) = true) D /\
      forall i j, sden n pre i j + sden n rest i j
                  = sden n (fold_left (fun acc t => sum_add is_zero acc [t]) rest pre) i j + sden n D i j.
  Proof.
    induction rest as [|t rest IH]; intro pre; cbn [fold_left].
    - exists []. split; [constructor|]. intros i j. reflexivity.
    - destruct (IH (sum_add is_zero pre [t])) as [D [HD HE]].
      exists (D ++ dropped is_zero (pre ++ [t])). split.
      + apply Forall_app. split; [exact HD|apply dropped_zero].
      + intros i j. rewrite sden_app. pose proof (HE i j) as H1.
        pose proof (simplify_den K is_zero n (pre ++ [t]) i j) as Hs.
        rewrite sden_app, sden_single in Hs. rewrite sden_cons.
        transitivity ((sden n (sum_add is_zero pre [t]) i j + sden n rest i j)
                      + sden n (dropped is_zero (pre ++ [t])) i j).
        * unfold sum_add.
          transitivity ((sden n pre i j + den n t i j) + sden n rest i j); [ring|]. rewrite Hs. ring.
        * rewrite H1. ring.
  Qed.

  Lemma add_all_den n (ts : psum K) :
    exists D : psum K, Forall (fun t => is_zero (coef t) = true) D /\
      forall i j, sden n ts i j = sden n (add_all is_zero ts) i j + sden n D i j.
  Proof.
    destruct (fold_add_den n ts []) as [D [HD HE]]. exists D. split; [exact HD|].
    intros i j. unfold add_all. rewrite <- (HE i j).
    replace (sden n (@nil (term K)) i j) with (@c0 K) by reflexivity. ring.
  Qed.

  (* ---------------------------------------------------------------- the round trip *)
  Hypothesis falsy_zero : forall r, r_truthy r = false -> inj r = c0.

  Lemma to_k_norm (c : pyc R) : to_k (norm_c c) = to_k c.
  Proof.
    destruct c as [x|a b]; cbn [OpSerde.norm_c]; [reflexivity|]. destruct (r_truthy b) eqn:E; [reflexivity|].
    cbn [OpSerde.to_k]. rewrite (falsy_zero b E). ring.
  Qed.

  (* [t'] is the term [t] with its operators in the order the serialiser happened to iterate them *)
  Definition iter_of (t' t : sterm) : Prop := fst t' = fst t /\ Permutation (snd t') (snd t).
  Definition sorted_terms (s : list sterm) : Prop := Forall (fun t => ops_sorted (snd t)) s.

  Lemma iter_nodup (s s' : list sterm) : sorted_terms s -> Forall2 iter_of s' s ->
    Forall (fun t => NoDup (map fst (snd t))) s'.
  Proof.
    intros Hs H. induction H as [|t' t r' r [_ Hp] _ IH]; [constructor|].
    inversion Hs as [|? ? Ht Hr]; subst. constructor; [|apply IH; exact Hr].
    eapply Permutation_NoDup; [apply Permutation_map; apply Permutation_sym; exact Hp|].
    apply (ops_sorted_nodup _ Ht).
  Qed.

  Lemma read_back_terms (s s' : list sterm) : sorted_terms s -> Forall2 iter_of s' s ->
    map (fun t => (norm_c (fst t), canon (snd t))) s' = map (fun t => (norm_c (fst t), snd t)) s.
  Proof.
    intros Hs H. induction H as [|t' t r' r [Hc Hp] _ IH]; [reflexivity|].
    inversion Hs as [|? ? Ht Hr]; subst. cbn [map]. rewrite Hc, (canon_perm (snd t) (snd t') Ht Hp), (IH Hr). reflexivity.
  Qed.

  Lemma kterm_norm (s : list sterm) : map kterm (map (fun t => (norm_c (fst t), snd t)) s) = map kterm s.
  Proof.
    rewrite map_map. apply map_ext. intros [c l]. unfold OpSerde.kterm. cbn [fst snd]. rewrite to_k_norm. reflexivity.
  Qed.

  (* the terms read back, before they are added up: operators, indices and coefficient parts exactly (a complex
     coefficient with a zero imaginary part is read as the int/float of its real part) *)
  Theorem dict_terms_roundtrip (s s' : list sterm) : sorted_terms s -> Forall2 iter_of s' s ->
    dict_to_terms (op_to_dict s') = Some (map (fun t => (norm_c (fst t), snd t)) s).
  Proof. intros Hs H. rewrite (dict_to_terms_of s' (iter_nodup s s' Hs H)), (read_back_terms s s' Hs H). reflexivity. Qed.

  Lemma dict_to_op_of (s s' : list sterm) : sorted_terms s -> Forall2 iter_of s' s ->
    dict_to_op (op_to_dict s') = Some (add_all is_zero (map kterm s)).
  Proof. intros Hs H. unfold OpSerde.dict_to_op. rewrite (dict_terms_roundtrip s s' Hs H). cbn [option_map]. rewrite kterm_norm. reflexivity. Qed.

  (* simplified operators come back exactly *)
  Theorem dict_roundtrip_exact_gen (s s' : list sterm) : sorted_terms s -> Forall2 iter_of s' s ->
    distinct_ops (map kterm s) -> Forall (fun t => is_zero (coef t) = false) (map kterm s) ->
    dict_to_op (op_to_dict s') = Some (map kterm s).
  Proof. intros Hs H Hd Hz. rewrite (dict_to_op_of s s' Hs H), (add_all_fixed _ Hd Hz). reflexivity. Qed.

  (* every operator comes back denoting the same matrix up to terms whose coefficients test as zero *)
  Theorem dict_roundtrip_den_tol (s s' : list sterm) n : sorted_terms s -> Forall2 iter_of s' s ->
    exists r D, dict_to_op (op_to_dict s') = Some r /\ Forall (fun t => is_zero (coef t) = true) D /\
                forall i j, sden n (map kterm s) i j = sden n r i j + sden n D i j.
  Proof.
    intros Hs H. destruct (add_all_den n (map kterm s)) as [D [HD HE]].
    exists (add_all is_zero (map kterm s)), D. split; [apply dict_to_op_of; assumption|]. split; assumption.
  Qed.

  (* with an exact zero test: the same matrix, which is also the matrix of the simplified operator *)
  Theorem dict_roundtrip_den_gen (s s' : list sterm) n : (forall c, is_zero c = true -> c = c0) ->
    sorted_terms s -> Forall2 iter_of s' s ->
    exists r, dict_to_op (op_to_dict s') = Some r /\
              forall i j, sden n r i j = sden n (map kterm s) i j /\
                          sden n r i j = sden n (simplify is_zero (map kterm s)) i j.
  Proof.
    intros Hz Hs H. destruct (dict_roundtrip_den_tol s s' n Hs H) as [r [D [Hr [HD HE]]]].
    exists r. split; [exact Hr|]. intros i j.
    assert (E : sden n r i j = sden n (map kterm s) i j).
    { rewrite (HE i j), (sden_zero_coefs K is_zero Hz n D i j HD). ring. }
    split; [exact E|]. rewrite (simplify_den_exact K is_zero Hz). exact E.
  Qed.

  (* operator lists (save_operator_set / load_operator_set) *)
  Theorem opset_roundtrip_gen (l l' : list (list sterm)) :
    Forall2 (fun s' s => sorted_terms s /\ Forall2 iter_of s' s) l' l ->
    dict_to_opset is_zero r_truthy inj to_nat (opset_to_dict of_nat l') = Some (map (fun s => add_all is_zero (map kterm s)) l).
  Proof.
    intro H. unfold dict_to_opset, opset_to_dict. cbn [assoc String.eqb Ascii.eqb Bool.eqb py_iter py_tuple].
    induction H as [|s' s r' r [Hs Hi] _ IH]; [reflexivity|].
    cbn [map mapM]. rewrite (dict_to_op_of s s' Hs Hi). fold (mapM dict_to_op). rewrite IH. reflexivity.
  Qed.
End DictProofs.

(* ------------------------------------------------------------------ strings *)
Lemma sapp_assoc (a b c : string) : (a ++ b) ++ c = a ++ (b ++ c).
Proof. induction a as [|x a IH]; simpl; [reflexivity|rewrite IH; reflexivity]. Qed.

Lemma all_chars_app p (a b : string) : all_chars p (a ++ b) = all_chars p a && all_chars p b.
Proof. induction a as [|c a IH]; simpl; [reflexivity|]. rewrite IH, andb_assoc. reflexivity. Qed.

Lemma all_chars_impl (p q : ascii -> bool) (s : string) :
  (forall c, p c = true -> q c = true) -> all_chars p s = true -> all_chars q s = true.
Proof.
  intro H. induction s as [|c s IH]; simpl; [reflexivity|]. intro E. apply andb_true_iff in E.
  destruct E as [E1 E2]. rewrite (H c E1), (IH E2). reflexivity.
Qed.

Lemma all_chars_concat p (sep : string) (l : list string) :
  all_chars p sep = true -> Forall (fun s => all_chars p s = true) l -> all_chars p (String.concat sep l) = true.
Proof.
  intros Hsep H. induction H as [|x r Hx Hr IH]; [reflexivity|].
  destruct r as [|y r']; [exact Hx|].
  change (String.concat sep (x :: y :: r')) with (x ++ sep ++ String.concat sep (y :: r')).
  rewrite !all_chars_app, Hx, Hsep, IH. reflexivity.
Qed.

Lemma all_digits_all_chars (s : string) : all_digits s = all_chars is_digit s.
Proof. induction s as [|c s IH]; simpl; [reflexivity|rewrite IH; reflexivity]. Qed.

Lemma dec_digits (n : N) : all_chars is_digit (dec n) = true.
Proof. rewrite <- all_digits_all_chars. unfold dec. apply all_digits_of_uint. Qed.

(* the characters an operator factor is made of: none of  * + ( ) space *)
Definition plain (c : ascii) : bool :=
  negb (Ascii.eqb c "*") && negb (Ascii.eqb c " ") && negb (Ascii.eqb c "+") && negb (Ascii.eqb c "(") && negb (Ascii.eqb c ")").

Lemma digit_plain c : is_digit c = true -> plain c = true.
Proof.
  unfold is_digit, plain. intro H. apply andb_true_iff in H. destruct H as [H1 H2].
  apply N.leb_le in H1. apply N.leb_le in H2.
  assert (F : forall x : ascii, (N_of_ascii x < 48)%N -> Ascii.eqb c x = false).
  { intros x Hx. destruct (Ascii.eqb_spec c x) as [->|]; [lia|reflexivity]. }
  rewrite !F by (vm_compute; reflexivity). reflexivity.
Qed.

Lemma repr_op_plain ql : all_chars plain (repr_op ql) = true.
Proof.
  unfold repr_op. rewrite all_chars_app.
  rewrite (all_chars_impl is_digit plain _ digit_plain (dec_digits _)).
  destruct (snd ql); reflexivity.
Qed.

Lemma plain_nochar x (s : string) : plain x = false -> all_chars plain s = true -> nochar x s = true.
Proof.
  intros Hx H. unfold nochar. apply (all_chars_impl plain); [|exact H].
  intros c Hc. destruct (Ascii.eqb_spec c x) as [->|]; [rewrite Hx in Hc; discriminate|reflexivity].
Qed.

(* ---------------------------------------------------------------- strip *)
Lemma lstrip_nospace (s : string) : nochar " " s = true -> lstrip s = s.
Proof.
  destruct s as [|c r]; [reflexivity|]. unfold nochar. cbn [all_chars lstrip]. intro H.
  apply andb_true_iff in H. destruct H as [H _]. unfold is_space. apply negb_true_iff in H. rewrite H. reflexivity.
Qed.

Lemma rstrip_nospace (s : string) : nochar " " s = true -> rstrip s = s.
Proof.
  induction s as [|c r IH]; [reflexivity|]. unfold nochar in *. cbn [all_chars rstrip]. intro H.
  apply andb_true_iff in H. destruct H as [H1 H2]. rewrite (IH H2).
  destruct r; [|reflexivity]. unfold is_space. apply negb_true_iff in H1. rewrite H1. reflexivity.
Qed.

Lemma strip_nospace (s : string) : nochar " " s = true -> strip s = s.
Proof. intro H. unfold strip. rewrite (lstrip_nospace s H). apply rstrip_nospace. exact H. Qed.

Lemma rstrip_app_space (s : string) : nochar " " s = true -> rstrip (s ++ " ") = s.
Proof.
  induction s as [|c r IH]; [reflexivity|]. unfold nochar in *. cbn [all_chars]. intro H.
  apply andb_true_iff in H. destruct H as [H1 H2].
  cbn [append]. cbn [rstrip]. rewrite (IH H2). destruct r; [|reflexivity]. unfold is_space. apply negb_true_iff in H1. rewrite H1. reflexivity.
Qed.

Lemma strip_lead_space (s : string) : strip (String " " s) = strip s.
Proof. reflexivity. Qed.

Lemma strip_trail_space (s : string) : nochar " " s = true -> strip (s ++ " ") = s.
Proof.
  intro H. unfold strip. destruct s as [|c r]; [reflexivity|].
  assert (E : lstrip (String c r ++ " ") = String c r ++ " ").
  { unfold nochar in H. cbn [all_chars] in H. apply andb_true_iff in H. destruct H as [H _].
    cbn [append lstrip]. unfold is_space. apply negb_true_iff in H. rewrite H. reflexivity. }
  rewrite E. apply rstrip_app_space. exact H.
Qed.

(* ---------------------------------------------------------------- split on a character *)
Lemma split_on_nochar sep (a : string) : nochar sep a = true -> split_on sep a = [a].
Proof.
  induction a as [|c a IH]; [reflexivity|]. unfold nochar in *. cbn [all_chars split_on]. intro H.
  apply andb_true_iff in H. destruct H as [H1 H2]. apply negb_true_iff in H1. rewrite H1, (IH H2). reflexivity.
Qed.

Lemma split_on_app sep (a b : string) : nochar sep a = true ->
  split_on sep (a ++ String sep b) = a :: split_on sep b.
Proof.
  induction a as [|c a IH]; intro H.
  - cbn [append split_on]. rewrite Ascii.eqb_refl. reflexivity.
  - unfold nochar in *. cbn [all_chars] in H. apply andb_true_iff in H. destruct H as [H1 H2].
    apply negb_true_iff in H1. cbn [append split_on]. rewrite H1, (IH H2). reflexivity.
Qed.

Lemma split_on_concat sep (l : list string) : l <> [] -> Forall (fun s => nochar sep s = true) l ->
  split_on sep (String.concat (String sep EmptyString) l) = l.
Proof.
  intros Hne H. induction H as [|x r Hx Hr IH]; [congruence|].
  destruct r as [|y r']; [apply split_on_nochar; exact Hx|].
  change (String.concat (String sep EmptyString) (x :: y :: r'))
    with (x ++ String sep EmptyString ++ String.concat (String sep EmptyString) (y :: r')).
  change (String sep EmptyString ++ String.concat (String sep EmptyString) (y :: r'))
    with (String sep (String.concat (String sep EmptyString) (y :: r'))).
  rewrite (split_on_app sep x _ Hx), IH by congruence. reflexivity.
Qed.

(* ---------------------------------------------------------------- one operator factor *)
Lemma isdigit_dec_nat q : isdigit (dec (N.of_nat q)) = true.
Proof. apply isdigit_dec. Qed.

Lemma parse_op_repr_op (ql : nat * letter) : parse_op (repr_op ql) = Some (fst ql, Some (snd ql)).
Proof.
  destruct ql as [q a]. unfold repr_op. cbn [fst snd].
  assert (E : forall c, parse_op (String c (dec (N.of_nat q)))
                        = match letter_of_char c with Some b => Some (q, b) | None => None end).
  { intro c. cbn [parse_op]. rewrite isdigit_dec_nat, to_int_dec, Nat2N.id. reflexivity. }
  destruct a; cbn [letter_str append]; rewrite E; reflexivity.
Qed.

Lemma repr_op_not_bare ql : is_bare_I (repr_op ql) = false.
Proof.
  destruct ql as [q a]. unfold repr_op. cbn [fst snd].
  pose proof (isdigit_dec_nat q) as Hd. destruct (dec (N.of_nat q)) as [|d r]; [discriminate|].
  destruct a; reflexivity.
Qed.

Lemma filter_all {A} (p : A -> bool) (l : list A) : Forall (fun x => p x = true) l -> filter p l = l.
Proof. induction 1 as [|x r Hx _ IH]; [reflexivity|]. cbn [filter]. rewrite Hx, IH. reflexivity. Qed.

(* ---------------------------------------------------------------- lookahead and the split on '+' *)
Lemma ahead_close_app (a b : string) : ahead_close (a ++ b) = if paren_free a then ahead_close b else ahead_close a.
Proof.
  induction a as [|c a IH]; [reflexivity|]. cbn [append ahead_close]. unfold paren_free, nochar in *. cbn [all_chars].
  destruct (Ascii.eqb c ")") eqn:E1; [cbn [negb andb]; rewrite andb_false_r; reflexivity|].
  destruct (Ascii.eqb c "(") eqn:E2; [reflexivity|]. cbn [negb andb]. exact IH.
Qed.

Lemma ahead_close_app_true (a b : string) : ahead_close a = true -> ahead_close (a ++ b) = true.
Proof.
  induction a as [|c a IH]; [discriminate|]. cbn [append ahead_close].
  destruct (Ascii.eqb c ")"); [reflexivity|]. destruct (Ascii.eqb c "("); [discriminate|]. exact IH.
Qed.

Lemma paren_free_ahead (a : string) : paren_free a = true -> ahead_close a = false.
Proof.
  induction a as [|c a IH]; [reflexivity|]. unfold paren_free, nochar in *. cbn [all_chars ahead_close]. intro H.
  apply andb_true_iff in H. destruct H as [H1 H2]. apply andb_true_iff in H1, H2.
  destruct H1 as [H1 H1'], H2 as [H2 H2']. apply negb_true_iff in H1, H2. rewrite H2, H1.
  apply IH. rewrite H1', H2'. reflexivity.
Qed.

Lemma split_plus_cons (s : string) : exists p ps, split_plus s = p :: ps.
Proof.
  induction s as [|c r [p [ps IH]]]; [exists EmptyString, []; reflexivity|]. cbn [split_plus].
  destruct (Ascii.eqb c "+" && negb (ahead_close r)); [eexists; eexists; reflexivity|].
  rewrite IH. eexists; eexists; reflexivity.
Qed.

(* a text in which no '+' splits passes through the split as part of the piece that follows *)
Lemma split_plus_pass (w rest : string) p ps : nosplit w = true -> split_plus rest = p :: ps ->
  split_plus (w ++ rest) = (w ++ p) :: ps.
Proof.
  intros Hw Hr. induction w as [|c w IH]; [exact Hr|]. cbn [nosplit] in Hw. apply andb_true_iff in Hw.
  destruct Hw as [Hc Hw]. cbn [append split_plus]. rewrite (IH Hw).
  destruct (Ascii.eqb c "+"); [|reflexivity]. rewrite (ahead_close_app_true w rest Hc). reflexivity.
Qed.

Lemma nosplit_noplus (s : string) : nochar "+" s = true -> nosplit s = true.
Proof.
  induction s as [|c s IH]; [reflexivity|]. unfold nochar in *. cbn [all_chars nosplit]. intro H.
  apply andb_true_iff in H. destruct H as [H1 H2]. apply negb_true_iff in H1. rewrite H1, (IH H2). reflexivity.
Qed.

Lemma nosplit_app (a b : string) : nosplit a = true -> nochar "+" b = true -> nosplit (a ++ b) = true.
Proof.
  intros Ha Hb. induction a as [|c a IH]; [apply nosplit_noplus; exact Hb|]. cbn [nosplit] in Ha.
  apply andb_true_iff in Ha. destruct Ha as [Hc Ha]. cbn [append nosplit]. rewrite (IH Ha), andb_true_r.
  destruct (Ascii.eqb c "+"); [|reflexivity]. apply ahead_close_app_true. exact Hc.
Qed.

(* a well-formed printed term: no space, no splitting '+', does not begin inside a parenthesis *)
Definition wok (w : string) : Prop := nochar " " w = true /\ nosplit w = true /\ ahead_close w = false.

Lemma ahead_close_joined (ws : list string) : Forall wok ws -> ahead_close (String.concat " + " ws) = false.
Proof.
  induction 1 as [|w r [_ [_ Hw]] Hr IH]; [reflexivity|].
  destruct r as [|y r']; [exact Hw|].
  change (String.concat " + " (w :: y :: r')) with (w ++ " + " ++ String.concat " + " (y :: r')).
  rewrite ahead_close_app. destruct (paren_free w); [|exact Hw]. exact IH.
Qed.

Lemma split_plus_joined (ws : list string) : ws <> [] -> Forall wok ws ->
  exists ps, split_plus (String.concat " + " ws) = ps /\ Forall2 (fun p w => strip p = w) ps ws.
Proof.
  intros Hne H. induction H as [|w r [Hsp [Hns Hac]] Hr IH]; [congruence|].
  destruct r as [|y r'].
  - exists [w]. split.
    + cbn [String.concat]. rewrite <- (NatKeyProofs.app_empty_r w) at 1.
      rewrite (split_plus_pass w EmptyString EmptyString [] Hns eq_refl), NatKeyProofs.app_empty_r. reflexivity.
    + constructor; [apply strip_nospace; exact Hsp|constructor].
  - destruct (IH ltac:(congruence)) as [ps [Hps Hf]].
    destruct (split_plus_cons (String.concat " + " (y :: r'))) as [p [ps' Hp]].
    rewrite Hp in Hps. subst ps.
    exists ((w ++ " ") :: String " " p :: ps'). split.
    + change (String.concat " + " (w :: y :: r')) with (w ++ " + " ++ String.concat " + " (y :: r')).
      apply split_plus_pass; [exact Hns|].
      set (X := String.concat " + " (y :: r')) in *.
      change (" + " ++ X) with (String " " (String "+" (String " " X))).
      assert (HX : ahead_close (String " " X) = false) by (cbn [ahead_close]; apply (ahead_close_joined (y :: r') Hr)).
      cbn [split_plus Ascii.eqb Bool.eqb andb]. rewrite HX. cbn [negb]. rewrite Hp. reflexivity.
    + assert (Hpy : strip p = y) by (inversion Hf; assumption).
      assert (Hrest : Forall2 (fun p w => strip p = w) ps' r') by (inversion Hf; assumption).
      constructor; [apply strip_trail_space; exact Hsp|].
      constructor; [rewrite strip_lead_space; exact Hpy|exact Hrest].
Qed.

Lemma mapM_through {A B C} (f : B -> option C) (g : A -> B) (ps : list A) (ws : list B) :
  Forall2 (fun p w => g p = w) ps ws -> mapM (fun p => f (g p)) ps = mapM f ws.
Proof.
  induction 1 as [|p w ps ws Hpw _ IH]; [reflexivity|]. cbn [mapM]. rewrite Hpw.
  fold (mapM (fun p => f (g p))). fold (mapM f). rewrite IH. reflexivity.
Qed.

(* ------------------------------------------------------------------ printed terms and sums parse back *)
Section TextProofs.
  Variable C : Type.
  Variable show_c : C -> string.
  Variable read_c : string -> option C.
  Variable c_one : C.
  Variable c_zero : C.
  Variable cplx : C -> C.                      (* complex(c): what _parse_complex makes of the printed number *)
  Variable dom : C -> Prop.                    (* the coefficients the statement is about (magnitude below 1e15) *)
  Hypothesis read_show : forall c, dom c -> read_c (show_c c) = Some (cplx c).
  Hypothesis show_ok : forall c, dom c -> coef_text_ok (show_c c) = true.

  Notation tterm := (tterm C).
  Notation repr_term := (repr_term show_c).
  Notation repr_sum := (repr_sum show_c c_zero).
  Notation parse_term := (parse_term read_c c_one).
  Notation parse_sum := (parse_sum read_c c_one).

  Lemma op_parts_plain l : Forall (fun s => all_chars plain s = true) (op_parts l).
  Proof.
    destruct l as [|x r]; [repeat constructor|]. unfold op_parts. apply Forall_forall. intros s Hs.
    apply in_map_iff in Hs. destruct Hs as [ql [<- _]]. apply repr_op_plain.
  Qed.

  Lemma op_parts_ne l : op_parts l <> [].
  Proof. destruct l; discriminate. Qed.

  (* a term of the domain: its coefficient is, and no qubit carries two operators *)
  Definition tdom (t : tterm) : Prop := dom (fst t) /\ NoDup (map fst (snd t)).

  Lemma show_parts c : dom c -> nochar "*" (show_c c) = true /\ nochar " " (show_c c) = true /\
                       nosplit (show_c c) = true /\ ahead_close (show_c c) = false.
  Proof.
    intro Hdom. pose proof (show_ok c Hdom) as H. unfold coef_text_ok in H.
    apply andb_true_iff in H. destruct H as [H H4]. apply andb_true_iff in H. destruct H as [H H3].
    apply andb_true_iff in H. destruct H as [H1 H2]. apply negb_true_iff in H4. repeat split; assumption.
  Qed.

  Lemma joined_nochar x l : plain x = false -> Ascii.eqb "*" x = false ->
    nochar x (String.concat "*" (op_parts l)) = true.
  Proof.
    intros Hx Hs. unfold nochar. apply all_chars_concat.
    - cbn [all_chars]. rewrite Hs. reflexivity.
    - eapply Forall_impl; [|apply op_parts_plain]. intros s Hp. apply (plain_nochar x s Hx Hp).
  Qed.

  Lemma repr_term_nospace (t : tterm) : dom (fst t) -> nochar " " (repr_term t) = true.
  Proof.
    destruct t as [c l]. cbn [fst]. intro Hdom. unfold OpSerde.repr_term. cbn [fst snd]. unfold nochar.
    rewrite !all_chars_app. destruct (show_parts c Hdom) as [_ [H2 _]]. unfold nochar in H2. rewrite H2.
    pose proof (joined_nochar " " l eq_refl eq_refl) as H. unfold nochar in H. rewrite H. reflexivity.
  Qed.

  Lemma star_parts_repr (t : tterm) : dom (fst t) -> star_parts (repr_term t) = show_c (fst t) :: op_parts (snd t).
  Proof.
    intro Hdom. unfold star_parts. rewrite (strip_nospace _ (repr_term_nospace t Hdom)).
    destruct t as [c l]. cbn [fst] in Hdom. unfold OpSerde.repr_term. cbn [fst snd].
    destruct (show_parts c Hdom) as [H1 [H2 _]].
    change ("*" ++ String.concat "*" (op_parts l)) with (String "*" (String.concat "*" (op_parts l))).
    rewrite (split_on_app "*" _ _ H1).
    rewrite (split_on_concat "*" (op_parts l) (op_parts_ne l))
      by (eapply Forall_impl; [|apply op_parts_plain]; intros s Hp; apply (plain_nochar "*" s eq_refl Hp)).
    cbn [map]. rewrite (strip_nospace _ H2). f_equal.
    rewrite <- (map_id (op_parts l)) at 2. apply map_ext_in. intros s Hs. apply strip_nospace.
    pose proof (op_parts_plain l) as Hp. rewrite Forall_forall in Hp. apply (plain_nochar " " s eq_refl (Hp s Hs)).
  Qed.

  (* PauliTerm(str(t)): the same operators on the same qubits in the same order, the printed coefficient read back *)
  Theorem parse_repr_term_gen (t : tterm) : tdom t ->
    parse_term (repr_term t) = Some (cplx (fst t), snd t).
  Proof.
    intros [Hdom Hnd]. unfold OpSerde.parse_term. rewrite (star_parts_repr t Hdom). cbn [hd tl].
    rewrite (read_show _ Hdom). cbn [fst snd].
    destruct t as [c l]. cbn [fst snd] in *. destruct l as [|x r].
    - reflexivity.
    - unfold op_parts. set (l := x :: r) in *.
      rewrite (filter_all _ (map repr_op l))
        by (apply Forall_forall; intros s Hs; apply in_map_iff in Hs; destruct Hs as [ql [<- _]];
            rewrite repr_op_not_bare; reflexivity).
      rewrite (mapM_map parse_op repr_op (fun ql => (fst ql, Some (snd ql))) l)
        by (apply Forall_all; intro ql; apply parse_op_repr_op).
      replace (map fst (map (fun ql : nat * letter => (fst ql, Some (snd ql))) l)) with (map fst l)
        by (rewrite map_map; reflexivity).
      rewrite (nodupb_NoDup _ Hnd), drop_identity_some. reflexivity.
  Qed.

  Lemma repr_term_wok (t : tterm) : dom (fst t) -> wok (repr_term t).
  Proof.
    intro Hdom. split; [apply repr_term_nospace; exact Hdom|]. destruct t as [c l]. cbn [fst] in Hdom.
    unfold OpSerde.repr_term. cbn [fst snd].
    destruct (show_parts c Hdom) as [_ [_ [H3 H4]]].
    assert (Hplus : nochar "+" ("*" ++ String.concat "*" (op_parts l)) = true).
    { unfold nochar. rewrite all_chars_app. cbn [all_chars]. apply (joined_nochar "+" l eq_refl eq_refl). }
    assert (Hpf : paren_free ("*" ++ String.concat "*" (op_parts l)) = true).
    { unfold paren_free, nochar. rewrite !all_chars_app. cbn [all_chars].
      pose proof (joined_nochar "(" l eq_refl eq_refl) as Ha. pose proof (joined_nochar ")" l eq_refl eq_refl) as Hb.
      unfold nochar in Ha, Hb. rewrite Ha, Hb. reflexivity. }
    split; [apply nosplit_app; assumption|].
    rewrite ahead_close_app. destruct (paren_free (show_c c)); [apply paren_free_ahead; exact Hpf|exact H4].
  Qed.

  Lemma parse_sum_joined (s : list tterm) : s <> [] -> Forall tdom s ->
    parse_sum (String.concat " + " (map repr_term s)) = Some (map (fun t => (cplx (fst t), snd t)) s).
  Proof.
    intros Hne Hnd. unfold OpSerde.parse_sum.
    destruct (split_plus_joined (map repr_term s)) as [ps [Hps Hf]].
    - destruct s; [congruence|discriminate].
    - apply Forall_forall. intros w Hw. apply in_map_iff in Hw. destruct Hw as [t [<- Ht]]. apply repr_term_wok.
      rewrite Forall_forall in Hnd. apply (Hnd t Ht).
    - rewrite Hps. rewrite (mapM_through parse_term strip ps _ Hf).
      apply mapM_map. eapply Forall_impl; [|exact Hnd]. intros t Ht. apply parse_repr_term_gen. exact Ht.
  Qed.

  (* PauliSum(str(s)), the empty sum (printed "0*I") included *)
  Hypothesis dom_zero : dom c_zero.

  Theorem parse_repr_sum_gen (s : list tterm) : Forall tdom s ->
    parse_sum (repr_sum s)
    = Some (match s with [] => [(cplx c_zero, [])] | _ => map (fun t => (cplx (fst t), snd t)) s end).
  Proof.
    intro Hnd. destruct s as [|t r].
    - unfold OpSerde.repr_sum. change (repr_term (c_zero, [])) with (String.concat " + " (map repr_term [(c_zero, [])])).
      rewrite parse_sum_joined; [reflexivity|discriminate|]. constructor; [split; [exact dom_zero|constructor]|constructor].
    - unfold OpSerde.repr_sum. apply parse_sum_joined; [discriminate|exact Hnd].
  Qed.

  (* ---------------------------------------------------------------- the denoted matrix *)
  Variable K : cring.
  Add Ring Kring_c11_text : (c_ring K).
  Variable val : C -> K.
  Hypothesis val_cplx : forall c, val (cplx c) = val c.
  Hypothesis val_zero : val c_zero = c0.
  Local Open Scope cr_scope.

  Definition tk (t : tterm) : term K := mk_term (val (fst t)) (snd t).

  Theorem text_term_den (t : tterm) n : tdom t ->
    exists t', parse_term (repr_term t) = Some t' /\ forall i j, den n (tk t') i j = den n (tk t) i j.
  Proof.
    intro Hnd. exists (cplx (fst t), snd t). split; [apply parse_repr_term_gen; exact Hnd|].
    intros i j. unfold tk, den. cbn [fst snd coef tops]. rewrite val_cplx. reflexivity.
  Qed.

  Theorem text_sum_den (s : list tterm) n : Forall tdom s ->
    exists s', parse_sum (repr_sum s) = Some s' /\ forall i j, sden n (map tk s') i j = sden n (map tk s) i j.
  Proof.
    intro Hnd. eexists. split; [apply parse_repr_sum_gen; exact Hnd|]. intros i j. destruct s as [|t r].
    - unfold sden, den, tk. cbn [map lsum fst snd coef tops]. rewrite val_cplx, val_zero. ring.
    - f_equal. rewrite <- (map_id (t :: r)) at 2. rewrite !map_map. apply map_ext. intros [c l]. unfold tk. cbn [fst snd].
      rewrite val_cplx. reflexivity.
  Qed.
End TextProofs.

(* F10: the parser as it was rejected every printed constant *)
Lemma parse_old_rejects_constant {C} (show_c : C -> string) (read_c : string -> option C) (c_one : C) (cplx : C -> C)
  (dom : C -> Prop) :
  (forall c, dom c -> read_c (show_c c) = Some (cplx c)) -> (forall c, dom c -> coef_text_ok (show_c c) = true) ->
  forall c, dom c -> parse_term_old read_c c_one (repr_term show_c (c, [])) = None.
Proof.
  intros Hrs Hok c Hc. unfold parse_term_old. rewrite (star_parts_repr C show_c dom Hok (c, []) Hc). cbn [hd tl fst snd].
  rewrite (Hrs c Hc). reflexivity.
Qed.
