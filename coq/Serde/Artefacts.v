(* Model of the dictionary forms of the result artefacts the library persists (property C11):
     utils.convert_array_to_dict / convert_dict_to_array
     measurements.Measurements.save / load_from_file
     measurements.ExpectationValues.to_dict / from_dict, Parities.to_dict / from_dict
     utils.ValueEstimate.to_dict / from_dict, save_list / load_list, save_nmeas_estimate / load_nmeas_estimate
     circuits.layouts.CircuitLayers, CircuitConnectivity (to_dict / from_dict), save/load_circuit_ordering

   Every pair is a function from the object to a JSON tree and a partial function back ([None] = the
   loader raises, or the input is outside the model where a comment says so).  The trees [jt R] are what
   json.loads returns: objects keep insertion order; their leaves are numbers of an arbitrary type [R]
   (the correspondence cases use Json.num: an int, or a float named by the text json wrote for it), so
   that every theorem holds whatever the numbers are.  Three things are needed from [R]:
     [r_truthy r]   Python's bool(r), used by  dictionary.get("imag")
     [of_Z z]       the JSON number of a Python int (bit values, qubit indices, counts)
     [to_float r]   float(r), used by ValueEstimate.__new__
   A numpy array is identified with the nested list [tolist()] returns ([nd]): a leaf for a 0-d array,
   otherwise the list of its sub-arrays.  np.array(nested list) rejects ragged lists, which is the
   [shape] test.  An array with a zero-length axis followed by further axes has the same nested list as
   the array without them (np.zeros((0,2)).tolist() = []): such a shape is not preserved by the library,
   and the harness reports which shapes are. *)
Require Import Coq.ZArith.ZArith Coq.Lists.List Coq.Strings.String Coq.Strings.Ascii Coq.Bool.Bool Coq.Arith.Arith.
Require Import OQ.Serde.Json.
Import ListNotations.
Open Scope string_scope.

(* ------------------------------------------------------------------ trees *)
Inductive jt (R : Type) : Type :=
| TNull
| TNum (r : R)
| TStr (s : string)
| TArr (l : list (jt R))
| TObj (kv : list (string * jt R)).
Arguments TNull {R}. Arguments TNum {R}. Arguments TStr {R}. Arguments TArr {R}. Arguments TObj {R}.

Inductive nd (A : Type) : Type :=
| NLeaf (a : A)
| NNode (l : list (nd A)).
Arguments NLeaf {A}. Arguments NNode {A}.

Definition mapM {A B} (f : A -> option B) : list A -> option (list B) :=
  fix go (l : list A) : option (list B) :=
    match l with
    | [] => Some []
    | x :: r => match f x with
                | None => None
                | Some y => match go r with None => None | Some ys => Some (y :: ys) end
                end
    end.

Fixpoint nd_map {A B} (f : A -> B) (d : nd A) : nd B :=
  match d with
  | NLeaf a => NLeaf (f a)
  | NNode l => NNode (map (nd_map f) l)
  end.

Definition oshape_eqb (a b : option (list nat)) : bool :=
  match a, b with
  | Some x, Some y => list_eqb Nat.eqb x y
  | None, None => true
  | _, _ => false
  end.

(* the shape numpy gives the nested list, None = "inhomogeneous shape" (ValueError) *)
Fixpoint shape {A} (d : nd A) : option (list nat) :=
  match d with
  | NLeaf _ => Some []
  | NNode l => match map shape l with
               | [] => Some [0%nat]
               | Some s :: r => if forallb (oshape_eqb (Some s)) r then Some (List.length l :: s) else None
               | None :: _ => None
               end
  end.
Definition regular {A} (d : nd A) : bool := match shape d with Some _ => true | None => false end.

(* array + 1j * imag on equal shapes.  (numpy would broadcast unequal compatible shapes: outside the model, None) *)
Fixpoint nd_zip {A B} (x : nd A) (y : nd B) : option (nd (A * B)) :=
  match x, y with
  | NLeaf a, NLeaf b => Some (NLeaf (a, b))
  | NNode l, NNode m =>
      (fix go (l : list (nd A)) (m : list (nd B)) : option (nd (A * B)) :=
         match l, m with
         | [], [] => Some (NNode [])
         | u :: l', v :: m' => match nd_zip u v, go l' m' with
                               | Some w, Some (NNode r) => Some (NNode (w :: r))
                               | _, _ => None
                               end
         | _, _ => None
         end) l m
  | _, _ => None
  end.

Section Artefacts.
  Variable R : Type.
  Variable r_truthy : R -> bool.
  Variable of_Z : Z -> R.
  Variable to_float : R -> R.

  Notation jt := (jt R).

  (* bool(x) for a value read from JSON; None (key absent in .get) is handled by the callers *)
  Definition jt_truthy (j : jt) : bool :=
    match j with
    | TNull => false
    | TNum r => r_truthy r
    | TStr s => negb (String.eqb s "")
    | TArr l => match l with [] => false | _ => true end
    | TObj kv => match kv with [] => false | _ => true end
    end.

  (* ---------------------------------------------------------------- arrays *)
  Inductive arr := AReal (d : nd R) | ACplx (d : nd (R * R)).

  (* ndarray.tolist() *)
  Fixpoint nd_to_jt (d : nd R) : jt :=
    match d with
    | NLeaf a => TNum a
    | NNode l => TArr (map nd_to_jt l)
    end.
  (* np.array(value read from JSON): numbers and nested lists of numbers; strings/null/objects are outside
     the model (numpy builds string or object arrays from them) *)
  Fixpoint jt_to_nd_raw (j : jt) : option (nd R) :=
    match j with
    | TNum r => Some (NLeaf r)
    | TArr l => option_map NNode (mapM jt_to_nd_raw l)
    | _ => None
    end.
  Definition jt_to_nd (j : jt) : option (nd R) :=
    match jt_to_nd_raw j with
    | Some d => if regular d then Some d else None
    | None => None
    end.

  (* convert_array_to_dict: "imag" is written exactly when np.iscomplexobj(array) *)
  Definition arr_to_dict (a : arr) : jt :=
    match a with
    | AReal d => TObj [("real", nd_to_jt d)]
    | ACplx d => TObj [("real", nd_to_jt (nd_map fst d)); ("imag", nd_to_jt (nd_map snd d))]
    end.

  (* convert_dict_to_array: "imag" is used only when dictionary.get("imag") is truthy, i.e. present and
     not an empty list / a zero scalar *)
  Definition dict_to_arr (j : jt) : option arr :=
    match j with
    | TObj kv =>
        match assoc "real" kv with
        | None => None                                              (* KeyError *)
        | Some jr =>
            match jt_to_nd jr with
            | None => None
            | Some re =>
                match assoc "imag" kv with
                | None => Some (AReal re)
                | Some ji =>
                    if jt_truthy ji then
                      match jt_to_nd ji with
                      | Some im => option_map ACplx (nd_zip re im)
                      | None => None
                      end
                    else Some (AReal re)
                end
            end
        end
    | _ => None                                                     (* TypeError / AttributeError *)
    end.

  (* what comes back: a complex array whose imaginary part is falsy ([] or a zero scalar) comes back as the
     real array of its real parts; every other array comes back as it was *)
  Definition arr_norm (a : arr) : arr :=
    match a with
    | AReal d => AReal d
    | ACplx d => if jt_truthy (nd_to_jt (nd_map snd d)) then ACplx d else AReal (nd_map fst d)
    end.
  Definition arr_regular (a : arr) : bool :=
    match a with AReal d => regular d | ACplx d => regular d end.
  (* the imaginary part that decides: non-empty outer list, or a non-zero scalar *)
  Definition imag_kept (d : nd (R * R)) : bool :=
    match d with NLeaf ab => r_truthy (snd ab) | NNode l => match l with [] => false | _ => true end end.

  (* ---------------------------------------------------------------- Measurements *)
  Definition zt (z : Z) : jt := TNum (of_Z z).
  (* tuple_to_bitstring: "".join(map(str, tup)) *)
  Definition bit_key (b : list Z) : string := String.concat "" (map show_Z b).
  (* Counter(...) as an insertion-ordered dictionary *)
  Fixpoint count_add (k : string) (d : list (string * Z)) : list (string * Z) :=
    match d with
    | [] => [(k, 1%Z)]
    | (k', c) :: r => if String.eqb k k' then (k', (c + 1)%Z) :: r else (k', c) :: count_add k r
    end.
  Definition get_counts (bs : list (list Z)) : list (string * Z) :=
    fold_left (fun d b => count_add (bit_key b) d) bs [].

  (* Measurements.save *)
  Definition meas_to_dict (bs : list (list Z)) : jt :=
    TObj [("counts", TObj (map (fun kc => (fst kc, zt (snd kc))) (get_counts bs)));
          ("bitstrings", TArr (map (fun b => TArr (map zt b)) bs))].

  (* tuple(x) for a value read from JSON *)
  Definition py_tuple (j : jt) : option (list jt) :=
    match j with
    | TArr l => Some l
    | TStr s => Some (map (fun c => TStr (String c "")) (list_ascii_of_string s))
    | TObj kv => Some (map (fun p => TStr (fst p)) kv)
    | _ => None                                                     (* TypeError: not iterable *)
    end.
  (* iterating a value read from JSON (for ... in data[key]) *)
  Definition py_iter (j : jt) : option (list jt) := py_tuple j.

  (* Measurements.load_from_file: only "bitstrings" is read; the entries are not converted *)
  Definition meas_from_dict (j : jt) : option (list (list jt)) :=
    match j with
    | TObj kv => match assoc "bitstrings" kv with
                 | Some jb => match py_iter jb with
                              | Some l => mapM py_tuple l
                              | None => None
                              end
                 | None => None
                 end
    | _ => None
    end.

  (* ---------------------------------------------------------------- ExpectationValues, Parities *)
  Record expvals := mk_ev { ev_values : arr; ev_corr : option (list arr); ev_cov : option (list arr) }.

  (* "if self.correlations:" - None and [] are both skipped *)
  Definition frames_field (key : string) (o : option (list arr)) : list (string * jt) :=
    match o with
    | Some (x :: r) => [(key, TArr (map arr_to_dict (x :: r)))]
    | _ => []
    end.
  Definition ev_to_dict (e : expvals) : jt :=
    TObj ([("frames", TArr []); ("expectation_values", arr_to_dict (ev_values e))]
          ++ frames_field "correlations" (ev_corr e)
          ++ frames_field "estimator_covariances" (ev_cov e)).

  (* "if dictionary.get(key):" then one array per element *)
  Definition frames_read (key : string) (kv : list (string * jt)) : option (option (list arr)) :=
    match assoc key kv with
    | None => Some None
    | Some j => if jt_truthy j then
                  match py_iter j with
                  | Some l => option_map Some (mapM dict_to_arr l)
                  | None => None
                  end
                else Some None
    end.
  Definition ev_from_dict (j : jt) : option expvals :=
    match j with
    | TObj kv =>
        match assoc "expectation_values" kv with
        | None => None
        | Some jv =>
            match dict_to_arr jv, frames_read "correlations" kv, frames_read "estimator_covariances" kv with
            | Some v, Some c, Some k => Some (mk_ev v c k)
            | _, _, _ => None
            end
        end
    | _ => None
    end.
  Definition frames_norm (o : option (list arr)) : option (list arr) :=
    match o with
    | Some (x :: r) => Some (map arr_norm (x :: r))
    | _ => None
    end.
  Definition ev_norm (e : expvals) : expvals :=
    mk_ev (arr_norm (ev_values e)) (frames_norm (ev_corr e)) (frames_norm (ev_cov e)).
  Definition frames_regular (o : option (list arr)) : bool :=
    match o with Some l => forallb arr_regular l | None => true end.
  Definition ev_regular (e : expvals) : bool :=
    arr_regular (ev_values e) && frames_regular (ev_corr e) && frames_regular (ev_cov e).

  Record parities := mk_par { par_values : arr; par_corr : option (list arr) }.
  Definition par_to_dict (p : parities) : jt :=
    TObj ([("values", arr_to_dict (par_values p))] ++ frames_field "correlations" (par_corr p)).
  Definition par_from_dict (j : jt) : option parities :=
    match j with
    | TObj kv =>
        match assoc "values" kv with
        | None => None
        | Some jv =>
            match dict_to_arr jv, frames_read "correlations" kv with
            | Some v, Some c => Some (mk_par v c)
            | _, _ => None
            end
        end
    | _ => None
    end.
  Definition par_norm (p : parities) : parities := mk_par (arr_norm (par_values p)) (frames_norm (par_corr p)).
  Definition par_regular (p : parities) : bool := arr_regular (par_values p) && frames_regular (par_corr p).

  (* ---------------------------------------------------------------- ValueEstimate *)
  Record vest := mk_ve { ve_value : R; ve_prec : option R }.
  Definition ve_to_dict (v : vest) : jt :=
    TObj [("value", TNum (ve_value v));
          ("precision", match ve_prec v with Some p => TNum p | None => TNull end)].
  (* cls(value, precision): float(value); the precision is stored as read.  A numeric string as value and a
     non-numeric precision are outside the model. *)
  Definition ve_from_dict (j : jt) : option vest :=
    match j with
    | TObj kv =>
        match assoc "value" kv with
        | Some (TNum v) =>
            match assoc "precision" kv with
            | None => Some (mk_ve (to_float v) None)
            | Some TNull => Some (mk_ve (to_float v) None)
            | Some (TNum p) => Some (mk_ve (to_float v) (Some p))
            | Some _ => None
            end
        | _ => None
        end
    | _ => None
    end.

  (* ---------------------------------------------------------------- plain lists, orderings *)
  Definition keyed_to_dict (key : string) (l : list jt) : jt := TObj [(key, TArr l)].
  (* load_list / load_circuit_ordering: data[key] as read *)
  Definition keyed_from_dict (key : string) (j : jt) : option jt :=
    match j with TObj kv => assoc key kv | _ => None end.

  (* ---------------------------------------------------------------- circuit layers and connectivity *)
  Definition tuples_to_jt (ts : list (list Z)) : jt := TArr (map (fun t => TArr (map zt t)) ts).
  Definition layers_to_dict (ls : list (list (list Z))) : jt := TObj [("layers", TArr (map tuples_to_jt ls))].
  Definition tuples_from_jt (j : jt) : option (list (list jt)) :=
    match py_iter j with Some l => mapM py_tuple l | None => None end.
  Definition layers_from_dict (j : jt) : option (list (list (list jt))) :=
    match j with
    | TObj kv => match assoc "layers" kv with
                 | Some jl => match py_iter jl with
                              | Some l => mapM tuples_from_jt l
                              | None => None
                              end
                 | None => None
                 end
    | _ => None
    end.
  Definition conn_to_dict (ts : list (list Z)) : jt := TObj [("connectivity", tuples_to_jt ts)].
  Definition conn_from_dict (j : jt) : option (list (list jt)) :=
    match j with
    | TObj kv => match assoc "connectivity" kv with Some jc => tuples_from_jt jc | None => None end
    | _ => None
    end.

  (* ---------------------------------------------------------------- measurement-count estimate *)
  (* save_nmeas_estimate(nmeas, nterms, filename, frame_meas=None) *)
  Definition nmeas_to_dict (k nterms : R) (fm : option arr) : jt :=
    TObj ([("K", TNum k); ("nterms", TNum nterms)]
          ++ match fm with Some a => [("frame_meas", arr_to_dict a)] | None => [] end).
  (* load_nmeas_estimate (after the fix of F11: "frame_meas" is optional) *)
  Definition nmeas_from_dict (j : jt) : option (jt * jt * option arr) :=
    match j with
    | TObj kv =>
        match (match assoc "frame_meas" kv with
               | Some jf => option_map Some (dict_to_arr jf)
               | None => Some None
               end), assoc "K" kv, assoc "nterms" kv with
        | Some fm, Some k, Some n => Some (k, n, fm)
        | _, _, _ => None
        end
    | _ => None
    end.
  (* the same loader before the fix: data["frame_meas"] unconditionally *)
  Definition nmeas_from_dict_old (j : jt) : option (jt * jt * option arr) :=
    match j with
    | TObj kv =>
        match assoc "frame_meas" kv with
        | Some jf => match dict_to_arr jf, assoc "K" kv, assoc "nterms" kv with
                     | Some fm, Some k, Some n => Some (k, n, Some fm)
                     | _, _, _ => None
                     end
        | None => None                                              (* KeyError: 'frame_meas' *)
        end
    | _ => None
    end.
End Artefacts.

Arguments AReal {R}. Arguments ACplx {R}.
Arguments jt_truthy {R}. Arguments nd_to_jt {R}. Arguments jt_to_nd_raw {R}. Arguments jt_to_nd {R}.
Arguments arr_to_dict {R}. Arguments dict_to_arr {R}. Arguments arr_norm {R}. Arguments arr_regular {R}.
Arguments imag_kept {R}.
Arguments zt {R}. Arguments meas_to_dict {R}. Arguments py_tuple {R}. Arguments py_iter {R}. Arguments meas_from_dict {R}.
Arguments mk_ev {R}. Arguments ev_values {R}. Arguments ev_corr {R}. Arguments ev_cov {R}.
Arguments frames_field {R}. Arguments frames_read {R}. Arguments frames_norm {R}. Arguments frames_regular {R}.
Arguments ev_to_dict {R}. Arguments ev_from_dict {R}. Arguments ev_norm {R}. Arguments ev_regular {R}.
Arguments mk_par {R}. Arguments par_values {R}. Arguments par_corr {R}.
Arguments par_to_dict {R}. Arguments par_from_dict {R}. Arguments par_norm {R}. Arguments par_regular {R}.
Arguments mk_ve {R}. Arguments ve_value {R}. Arguments ve_prec {R}. Arguments ve_to_dict {R}. Arguments ve_from_dict {R}.
Arguments keyed_to_dict {R}. Arguments keyed_from_dict {R}.
Arguments tuples_to_jt {R}. Arguments layers_to_dict {R}. Arguments tuples_from_jt {R}. Arguments layers_from_dict {R}.
Arguments conn_to_dict {R}. Arguments conn_from_dict {R}.
Arguments nmeas_to_dict {R}. Arguments nmeas_from_dict {R}. Arguments nmeas_from_dict_old {R}.

(* ------------------------------------------------------------------ numbers as text
   json.dumps writes a number [v] as the text [show v]; json.loads reads a text back with [read].  What is
   assumed of Python (float.__repr__ and float(), int.__str__ and int()) is [read (show v) = Some v]; the
   tree functions lift it to whole documents. *)
Fixpoint jt_map {A B} (f : A -> B) (j : jt A) : jt B :=
  match j with
  | TNull => TNull
  | TNum r => TNum (f r)
  | TStr s => TStr s
  | TArr l => TArr (map (jt_map f) l)
  | TObj kv => TObj (map (fun p => (fst p, jt_map f (snd p))) kv)
  end.
Fixpoint jt_mapM {A B} (f : A -> option B) (j : jt A) : option (jt B) :=
  match j with
  | TNull => Some TNull
  | TNum r => option_map TNum (f r)
  | TStr s => Some (TStr s)
  | TArr l => option_map TArr (mapM (jt_mapM f) l)
  | TObj kv => option_map TObj (mapM (fun p => option_map (fun v => (fst p, v)) (jt_mapM f (snd p))) kv)
  end.

(* ------------------------------------------------------------------ the instance used by the cases *)
(* bool(x) of a number written by json: an int, or a float named by its repr *)
Definition num_truthy (n : num) : bool :=
  match n with
  | NInt z => negb (Z.eqb z 0)
  | NFloat s => negb (String.eqb s "0.0" || String.eqb s "-0.0")
  end.
(* float(x): repr(float(k)) = str(k) + ".0" for an int below 1e16 in magnitude (the cases stay below) *)
Definition num_to_float (n : num) : num :=
  match n with
  | NInt z => NFloat (show_Z z ++ ".0")
  | NFloat s => NFloat s
  end.
