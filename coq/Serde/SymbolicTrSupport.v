(* Hand-written support for the GENERATED file Gen/SymbolicGen.v (translator tr/tr_symbolic.py, property C19).

   The translator maps every Python construct of circuits/symbolic/_sorting.py, translations.py,
   sympy_expressions.py and expressions.py to a piece of Gallina built from the definitions below; the Python
   fact each definition encodes is written next to it.  This file is the trusted reading of Python (and of what
   the library observes of a sympy object); the agreement of the generated definitions with the hand-written
   models Serde/SymTranslate.v and Serde/NatKey.v is PROVED in Serde/SymbolicGenProofs.v.

   From the model files only DATA TYPES are used here:
     res / err      outcome of evaluating something: a value, or a raised exception
                    (ENotImpl NotImplementedError, EValue ValueError, EType TypeError, EIndex IndexError;
                     EStuck = outside the model: an observation of a sympy object that was not recorded, an
                     exception class the type cannot name (KeyError, AttributeError), a value the model's
                     types cannot hold, or the recursion fuel ran out)
     sexpr          what the library can observe of a sympy object: type(e), e.args, and e*(-1) where recorded
     num / nexpr    Expression = Union[Number, Symbol, FunctionCall] of expressions.py
     kelem          Union[int, str], the elements of a natural-sort key
     Ops            the abstract structure in which sympy's operators are read (for SYMPY_DIALECT only) *)
Require Import Coq.ZArith.ZArith Coq.QArith.QArith Coq.NArith.NArith Coq.Lists.List Coq.Strings.String
        Coq.Strings.Ascii Coq.Bool.Bool.
Require Import Coq.Numbers.DecimalString Coq.Numbers.DecimalN.
Require Import OQ.Serde.SymTranslate OQ.Serde.NatKey.
Import ListNotations.
Open Scope string_scope.

(* ------------------------------------------------------------------ sequencing *)
(* evaluate r, then continue with its value; an exception propagates *)
Definition bind {A B} (r : res A) (f : A -> res B) : res B :=
  match r with Ok a => f a | Err e => Err e end.

(* a function body that ends without `return` (a body that is just `pass`) returns None; None is not a value of
   any type of the model *)
Definition py_returns_None {A} : res A := Err EStuck.

(* ------------------------------------------------------------------ tuples and lists *)
(* tuples, lists and generator expressions are the lists of their elements in iteration order *)
Definition py_len {A} (l : list A) : Z := Z.of_nat (List.length l).

(* l[z]: negative indices count from the end; anything else out of range is an IndexError *)
Definition py_index {A} (l : list A) (z : Z) : res A :=
  let k := if Z.ltb z 0 then Z.add (py_len l) z else z in
  if Z.ltb k 0 then Err EIndex
  else match nth_error l (Z.to_nat k) with Some a => Ok a | None => Err EIndex end.

(* tuple(f(x) for x in l), [f(x) for x in l]: elements are evaluated left to right, the first exception aborts *)
Fixpoint py_comp {A B} (f : A -> res B) (l : list A) : res (list B) :=
  match l with
  | [] => Ok []
  | a :: r => bind (f a) (fun b => bind (py_comp f r) (fun bs => Ok (b :: bs)))
  end.

(* reversed(l) consumed by list(..) / tuple(..) *)
Definition py_reversed {A} (l : list A) : list A := rev l.
(* list(xs) / tuple(xs) of a finite iterable: the same elements in the same order *)
Definition py_list {A} (l : list A) : list A := l.

(* functools.reduce(f, xs) without initial value: TypeError on an empty argument, else f(..f(f(x0,x1),x2)..) *)
Definition py_reduce {A} (f : A -> A -> A) (l : list A) : res A :=
  match l with [] => Err EType | a :: r => Ok (fold_left f r a) end.

(* ------------------------------------------------------------------ strings (ASCII) *)
Definition py_is_digit (c : ascii) : bool :=
  let n := N_of_ascii c in (N.leb 48 n && N.leb n 57)%bool.
Fixpoint py_all_digits (s : string) : bool :=
  match s with EmptyString => true | String c r => py_is_digit c && py_all_digits r end.
(* s.isdigit(): non-empty and every character is a digit (non-ASCII digits are outside the model) *)
Definition py_str_isdigit (s : string) : bool :=
  match s with EmptyString => false | _ => py_all_digits s end.
(* int(s) for a string: the number the decimal numeral denotes when s is a non-empty string of digits; every
   other string (ValueError, or signs / blanks / underscores that int() also accepts) is outside the model *)
Definition py_int_str (s : string) : res Z :=
  if py_str_isdigit s
  then match NilEmpty.uint_of_string s with Some d => Ok (Z.of_N (N.of_uint d)) | None => Err EStuck end
  else Err EStuck.

(* re.split(r"(\d+)", s).  The pattern is one capturing group of one or more digits, so the result alternates
   text, digits, text, .., text: the separators are the MAXIMAL digit runs (regex + is greedy) and are kept
   (capturing group); the text before the first and after the last run is present even when empty.
   Read as an automaton: [py_split_text s] are the groups of s when a text group is being read,
   [py_split_digits s] when a digit group is being read; [py_push c] puts c in front of the first group. *)
Definition py_push (c : ascii) (gs : list string) : list string :=
  match gs with [] => [String c ""] | g :: r => String c g :: r end.
Fixpoint py_split_text (s : string) : list string :=
  match s with
  | EmptyString => [""]
  | String c r => if py_is_digit c then "" :: py_push c (py_split_digits r) else py_push c (py_split_text r)
  end
with py_split_digits (s : string) : list string :=
  match s with
  | EmptyString => [""; ""]
  | String c r => if py_is_digit c then py_push c (py_split_digits r) else "" :: py_push c (py_split_text r)
  end.
Definition py_re_split_digit_runs (s : string) : list string := py_split_text s.

(* an object of which the code reads the attribute .name (a str): the argument of natural_key *)
Record py_named := Named { attr_name : string }.

(* ------------------------------------------------------------------ Union[int, str] (key elements) *)
(* a value of type int or str placed where either may occur; the model's keys hold non-negative ints only *)
Definition key_of_int (z : Z) : res kelem := if Z.ltb z 0 then Err EStuck else Ok (KI (Z.to_N z)).
Definition key_of_str (s : string) : kelem := KS s.

(* ------------------------------------------------------------------ Expression = Union[Number, Symbol, FunctionCall] *)
(* Python numbers: int, float (its exact value), the complex literal 1j *)
Definition num_of_int (z : Z) : num := NInt z.
Definition num_of_float (q : Q) : num := NFloat q.
Definition py_1j : num := NImag.
(* injections into the union; Symbol and FunctionCall are given by their fields (by field NAME) *)
Definition expr_of_num (n : num) : nexpr := NNum n.
Definition expr_of_Symbol (name : string) : nexpr := NSym name.
Definition expr_of_FunctionCall (name : string) (args : list nexpr) : nexpr := NCall name args.

(* functools.singledispatch on a value of the union: the implementation registered for numbers.Number,
   Symbol, FunctionCall is applied to a number, a Symbol (given by its field name), a FunctionCall (fields name,
   args); a class without registration falls back to the undecorated function (the classes are unrelated, so the
   method resolution order has one relevant entry).  bool is not in the model. *)
Definition py_dispatch_expression {R}
  (on_number : option (num -> R)) (on_symbol : option (string -> R))
  (on_call : option (string -> list nexpr -> R)) (default : R) (t : nexpr) : R :=
  match t with
  | NNum n => match on_number with Some f => f n | None => default end
  | NSym s => match on_symbol with Some f => f s | None => default end
  | NCall name args => match on_call with Some f => f name args | None => default end
  end.

(* ------------------------------------------------------------------ dicts with str keys *)
(* a dict is read through lookup *)
Definition py_dict (V : Type) := string -> option V.
(* {k1: v1, ..., kn: vn}: a later duplicate key overrides an earlier one *)
Fixpoint py_dict_literal {V} (l : list (string * V)) : py_dict V :=
  match l with
  | [] => fun _ => None
  | (k, v) :: r => fun key => match py_dict_literal r key with
                              | Some w => Some w
                              | None => if String.eqb key k then Some v else None
                              end
  end.
(* k in d *)
Definition py_dict_contains {V} (d : py_dict V) (k : string) : bool :=
  match d k with Some _ => true | None => false end.
(* d[k]: KeyError when absent *)
Definition py_dict_getitem {V} (d : py_dict V) (k : string) : res V :=
  match d k with Some v => Ok v | None => Err EStuck end.

(* ------------------------------------------------------------------ callables *)
(* a value in a Callable[..., Any] position is called as f( *args ): it is a function of the argument list.
   A function of exactly one / two positional arguments called with another number of arguments: TypeError *)
Definition py_varargs (T : Type) := list T -> res T.
Definition py_call_star {T} (f : py_varargs T) (args : list T) : res T := f args.
Definition py_fn1 {T} (f : T -> T) : py_varargs T :=
  fun args => match args with [a] => Ok (f a) | _ => Err EType end.
Definition py_fn2 {T} (f : T -> T -> T) : py_varargs T :=
  fun args => match args with [a; b] => Ok (f a b) | _ => Err EType end.

(* ------------------------------------------------------------------ what the library observes of a sympy object *)
(* e.args *)
Definition sympy_args (e : sexpr) : list sexpr :=
  match e with
  | SAdd l | SMul l _ | SFunc _ l | SUFunc _ l | SOther _ l => l
  | SPow b x => [b; x]
  | _ => []
  end.

(* the classes of type(e).__mro__ (numbers.Number is a registered virtual base of sympy's Number) among those the
   source may name, most specific first *)
Definition sympy_mro (e : sexpr) : list string :=
  match e with
  | SSym _ => ["sympy.Symbol"]
  | SInt _ => ["sympy.Integer"; "sympy.Rational"; "numbers.Number"]
  | SFloat _ => ["sympy.Float"; "numbers.Number"]
  | SRat _ _ => ["sympy.Rational"; "numbers.Number"]
  | SImag => ["sympy.ImaginaryUnit"]
  | SNumOther _ => ["numbers.Number"]
  | SAdd _ => ["sympy.Add"]
  | SMul _ _ => ["sympy.Mul"]
  | SPow _ _ => ["sympy.Pow"]
  | SFunc _ _ | SUFunc _ _ => ["sympy.Function"]
  | SOther _ _ => []
  end.
Definition sympy_known_classes : list string :=
  ["numbers.Number"; "sympy.Symbol"; "sympy.Integer"; "sympy.Float"; "sympy.Rational"; "sympy.ImaginaryUnit";
   "sympy.Add"; "sympy.Mul"; "sympy.Pow"; "sympy.Function"].

(* isinstance(e, cls) *)
Definition sympy_isinstance (e : sexpr) (cls : string) : bool := existsb (String.eqb cls) (sympy_mro e).

(* functools.singledispatch on a sympy object: the implementation registered for the first class of the method
   resolution order that has one; the undecorated function when there is none.  A later registration for the
   same class replaces an earlier one. *)
Fixpoint py_registry_find {F} (registry : list (string * F)) (cls : string) : option F :=
  match registry with
  | [] => None
  | (c, f) :: r => match py_registry_find r cls with
                   | Some g => Some g
                   | None => if String.eqb cls c then Some f else None
                   end
  end.
Fixpoint py_singledispatch {F} (mro : list string) (registry : list (string * F)) (default : F) : F :=
  match mro with
  | [] => default
  | c :: r => match py_registry_find registry c with Some f => f | None => py_singledispatch r registry default end
  end.

(* e == k for a Python number k: true exactly for sympy numbers of that value *)
Definition sympy_eq_num (e : sexpr) (k : Q) : bool :=
  match e with
  | SInt z => Qeq_bool (inject_Z z) k
  | SFloat q => Qeq_bool q k
  | SRat p d => Qeq_bool (p # d) k
  | _ => false
  end.

(* e * k for a Python number k: known only where the harness recorded it, i.e. for a product and k = -1 *)
Definition sympy_mul_num (e : sexpr) (k : Q) : res sexpr :=
  match e with
  | SMul _ (Some n) => if Qeq_bool k (-1) then Ok n else Err EStuck
  | _ => Err EStuck
  end.

(* str(e): modelled for symbols only *)
Definition sympy_str (e : sexpr) : res string :=
  match e with SSym s => Ok s | _ => Err EStuck end.
(* e.func of an applied function, a class; of a class only str(..) is used, so it is represented by that string *)
Definition sympy_class := string.
Definition sympy_func (e : sexpr) : res sympy_class :=
  match e with SFunc n _ | SUFunc n _ => Ok n | _ => Err EStuck end.
Definition sympy_class_str (c : sympy_class) : string := c.

(* int(e): modelled for Integer *)
Definition sympy_int (e : sexpr) : res Z :=
  match e with SInt z => Ok z | _ => Err EStuck end.
(* float(e): a Float (at most 53 bits, see props/C19.json) gives its exact value; Integer and Rational are rounded
   to a double by [rnd] *)
Definition sympy_float (rnd : Q -> Q) (e : sexpr) : res Q :=
  match e with
  | SFloat q => Ok q
  | SInt z => Ok (rnd (inject_Z z))
  | SRat p d => Ok (rnd (p # d))
  | _ => Err EStuck
  end.
(* a sympy object that is an instance of numbers.Number, used as a number leaf of an Expression: the model names
   only those that are none of Integer / Float / Rational (oo, nan ..) *)
Definition sympy_number_leaf (e : sexpr) : res nexpr :=
  match e with SNumOther t => Ok (NNum (NOtherNum t)) | _ => Err EStuck end.

(* fuel for the recursion of expression_from_sympy: the nesting depth of everything the converter can reach
   from e (arguments and recorded negations).  Running out of fuel is the error value EStuck. *)
Fixpoint sympy_depth (e : sexpr) : nat :=
  let dl := fix dl (l : list sexpr) : nat := match l with [] => O | x :: r => Nat.max (sympy_depth x) (dl r) end in
  match e with
  | SAdd l | SFunc _ l | SUFunc _ l | SOther _ l => S (dl l)
  | SMul l neg => S (Nat.max (dl l) (match neg with Some n => sympy_depth n | None => O end))
  | SPow b x => S (Nat.max (sympy_depth b) (sympy_depth x))
  | _ => S O
  end.
Definition sympy_depth_list (l : list sexpr) : nat := fold_right (fun x d => Nat.max (sympy_depth x) d) O l.
(* the same for Expression trees *)
Fixpoint expr_depth (t : nexpr) : nat :=
  match t with
  | NCall _ args => S ((fix dl (l : list nexpr) : nat := match l with [] => O | x :: r => Nat.max (expr_depth x) (dl r) end) args)
  | _ => S O
  end.

(* ------------------------------------------------------------------ SYMPY_DIALECT: sympy's operators read in [Ops] *)
Section SympyValues.
  Variable O : Ops.
  Variable env : string -> V O.
  (* sympy.Symbol(name) denotes the value the assignment gives to that name *)
  Definition sympy_Symbol (name : string) : V O := env name.
  (* a Python number used as a sympy expression *)
  Definition sympy_of_num (n : num) : V O :=
    match n with
    | NInt z => ofQ O (inject_Z z)
    | NFloat q => ofQ O q
    | NImag => vi O
    | NOtherNum t => onum O t
    end.
  (* operator.add / mul / sub / truediv / pow applied to sympy expressions *)
  Definition operator_add : V O -> V O -> V O := vadd O.
  Definition operator_mul : V O -> V O -> V O := vmul O.
  Definition operator_sub : V O -> V O -> V O := vsub O.
  Definition operator_truediv : V O -> V O -> V O := vdiv O.
  Definition operator_pow : V O -> V O -> V O := vpow O.
  (* sympy.<name>(a) for a function class of sympy (cos, sin, exp, tan ..); sympy.sqrt(a) *)
  Definition sympy_function (name : string) (a : V O) : V O := fnv O name [a].
  Definition sympy_sqrt (a : V O) : V O := vsqrt O a.
End SympyValues.
