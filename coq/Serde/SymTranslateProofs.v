(* Proofs for property C19 about the model in SymTranslate.v. *)
Require Import Coq.ZArith.ZArith Coq.QArith.QArith Coq.Lists.List Coq.Strings.String Coq.Bool.Bool.
Require Import OQ.Serde.SymTranslate.
Import ListNotations.
Open Scope string_scope.

(* ---------------------------------------------------------------- generic facts *)
Lemma allP_Forall {A} (P : A -> Prop) l : allP P l <-> Forall P l.
Proof.
  induction l as [|x r IH]; simpl; split; intro H; auto.
  - destruct H as [H1 H2]. constructor; [exact H1|apply IH; exact H2].
  - inversion H; subst. split; [assumption|apply IH; assumption].
Qed.

Lemma map_res_ok_Forall2 {A B} (f : A -> res B) l ts :
  map_res f l = Ok ts -> Forall2 (fun a t => f a = Ok t) l ts.
Proof.
  revert ts. induction l as [|a r IH]; intros ts H; simpl in H.
  - inversion H. constructor.
  - destruct (f a) as [t|x] eqn:Ha; [|discriminate].
    destruct (map_res f r) as [ts'|x] eqn:Hr; [|discriminate].
    inversion H; subst. constructor; [exact Ha|apply IH; reflexivity].
Qed.

Lemma map_res_of_Forall2 {A B} (f : A -> res B) l ts :
  Forall2 (fun a t => f a = Ok t) l ts -> map_res f l = Ok ts.
Proof.
  induction 1 as [|a t r ts' Ha _ IH]; simpl; [reflexivity|]. rewrite Ha, IH. reflexivity.
Qed.

Lemma map_res_err_in {A B} (f : A -> res B) l a :
  In a l -> (exists x, f a = Err x) -> exists y, map_res f l = Err y.
Proof.
  induction l as [|b r IH]; intros Hin [x Hx]; simpl in *; [contradiction|].
  destruct Hin as [->|Hin].
  - rewrite Hx. eauto.
  - destruct (f b) as [t|y]; [|eauto].
    destruct (IH Hin (ex_intro _ x Hx)) as [y Hy]. rewrite Hy. eauto.
Qed.

Lemma forallb_Forall {A} (f : A -> bool) l : forallb f l = true -> Forall (fun a => f a = true) l.
Proof.
  induction l as [|a r IH]; simpl; intro H; constructor.
  - apply andb_true_iff in H. tauto.
  - apply IH. apply andb_true_iff in H. tauto.
Qed.

Lemma mem_cases s l : mem s l = true -> In s l.
Proof.
  unfold mem. intro H. apply existsb_exists in H. destruct H as [x [Hin Hx]].
  apply String.eqb_eq in Hx. subst. exact Hin.
Qed.

(* ---------------------------------------------------------------- unfolding the converter's special cases *)
Section Conv.
  Variable rnd : Q -> Q.
  Notation conv := (from_sympy rnd).

  Definition sub_result (a0 : sexpr) (neg : option sexpr) : res nexpr :=
    match conv a0 with
    | Err x => Err x
    | Ok t0 => match neg with
               | None => Err EStuck
               | Some n => match conv n with Err x => Err x | Ok t1 => Ok (NCall "sub" [t0; t1]) end
               end
    end.

  Lemma from_sympy_add l :
    (exists a0 m0 ml neg, l = [a0; SMul (m0 :: ml) neg] /\ num_eq m0 (-1) = true /\
                          conv (SAdd l) = sub_result a0 neg) \/
    (exists a0 neg, l = [a0; SMul [] neg] /\ conv (SAdd l) = Err EIndex) \/
    (sub_case l = false /\ conv (SAdd l) = call "add" (map_res conv l)).
  Proof.
    destruct l as [|a0 [|a1 [|a2 r]]].
    1, 2: right; right; split; reflexivity.
    2:{ right; right. destruct a1 as [| | | | | | |ml ng| | | |]; try (split; reflexivity).
        destruct ml; split; reflexivity. }
    destruct a1; try (right; right; split; reflexivity).
    destruct l as [|m0 ml].
    - right; left. exists a0, neg. split; reflexivity.
    - destruct (num_eq m0 (-1)) eqn:Hm.
      + left. exists a0, m0, ml, neg. split; [reflexivity|]. split; [exact Hm|].
        cbn [from_sympy]. rewrite Hm. reflexivity.
      + right; right. split; [cbn [sub_case]; exact Hm|]. cbn [from_sympy]. rewrite Hm. reflexivity.
  Qed.

  Definition div_result (a0 b : sexpr) : res nexpr :=
    match conv a0 with
    | Err x => Err x
    | Ok t0 => match conv b with Err x => Err x | Ok t1 => Ok (NCall "div" [t0; t1]) end
    end.

  Lemma from_sympy_mul l neg :
    (exists a0 b ex, l = [a0; SPow b ex] /\ num_eq ex (-1) = true /\ conv (SMul l neg) = div_result a0 b) \/
    conv (SMul l neg) = call "mul" (map_res conv l).
  Proof.
    destruct l as [|a0 [|a1 [|a2 r]]].
    1, 2: right; reflexivity.
    2:{ right. destruct a1; reflexivity. }
    destruct a1; try (right; reflexivity).
    destruct (num_eq a1_2 (-1)) eqn:Hm.
    - left. exists a0, a1_1, a1_2. split; [reflexivity|]. split; [exact Hm|].
      cbn [from_sympy]. rewrite Hm. reflexivity.
    - right. cbn [from_sympy]. rewrite Hm. reflexivity.
  Qed.

  Lemma from_sympy_pow b ex :
    conv (SPow b ex) =
    if num_eq ex (-1)
    then match conv b with Err x => Err x | Ok t => Ok (NCall "div" [NNum (NInt 1); t]) end
    else if num_eq ex (1 # 2)
    then match conv b with Err x => Err x | Ok t => Ok (NCall "sqrt" [t]) end
    else match conv b with
         | Err x => Err x
         | Ok tb => match conv ex with Err x => Err x | Ok te => Ok (NCall "pow" [tb; te]) end
         end.
  Proof. reflexivity. Qed.
End Conv.

Lemma num_eq_not_inside e k : num_eq e k = true -> unsupported_inside e = false.
Proof. destruct e; simpl; intro H; try discriminate; reflexivity. Qed.

(* ---------------------------------------------------------------- round trip *)
Section RoundTrip.
  Variable O : Ops.
  Variable L : Laws O.
  Variable rnd : Q -> Q.
  Notation conv := (from_sympy rnd).
  Notation tr := (translate_sympy O).
  Notation evl := (ev O).

  Lemma num_eq_ev env e k : num_eq e k = true -> evl env e = ofQ O k.
  Proof.
    destruct e; simpl; intro H; try discriminate; apply (ofQ_ext O L); apply Qeq_bool_iff; exact H.
  Qed.

  Lemma fold_left_right (f : V O -> V O -> V O) (u : V O) :
    (forall a b c, f a (f b c) = f (f a b) c) -> (forall a, f a u = a) ->
    forall r a, fold_left f r a = f a (fold_right f u r).
  Proof.
    intros Hassoc Hu r. induction r as [|b r IH]; intro a; simpl.
    - symmetry. apply Hu.
    - rewrite IH. symmetry. apply Hassoc.
  Qed.

  Lemma tr_call env name f ts vs :
    sympy_known O name = Some f -> map_res (tr env) ts = Ok vs -> tr env (NCall name ts) = f vs.
  Proof.
    intros Hk Hm. unfold translate_sympy in *. cbn [translate]. rewrite Hk.
    change (map_res (translate env (numv O) (sympy_known O)) ts = Ok vs) in Hm. rewrite Hm. reflexivity.
  Qed.

  (* what the round trip establishes for one tree *)
  Definition RT (e : sexpr) : Prop :=
    supported e = true -> neg_ok O e -> rationals_exact rnd e ->
    exists t, conv e = Ok t /\ forall env, tr env t = Ok (evl env e).
  (* .. and for the parts the special cases reach into *)
  Definition RTsub (e : sexpr) : Prop :=
    match e with
    | SMul _ (Some n) => RT n
    | SPow b _ => RT b
    | _ => True
    end.
  Definition RT2 (e : sexpr) : Prop := RT e /\ RTsub e.

  Lemma RT_list l :
    Forall RT l -> forallb supported l = true -> allP (neg_ok O) l -> allP (rationals_exact rnd) l ->
    exists ts, map_res conv l = Ok ts /\ forall env, map_res (tr env) ts = Ok (map (evl env) l).
  Proof.
    induction 1 as [|a r Ha _ IH]; intros Hs Hn Hr; simpl in *.
    - exists []. split; reflexivity.
    - apply andb_true_iff in Hs. destruct Hs as [Hs1 Hs2]. destruct Hn as [Hn1 Hn2]. destruct Hr as [Hr1 Hr2].
      destruct (Ha Hs1 Hn1 Hr1) as [t [Ht Hv]].
      destruct (IH Hs2 Hn2 Hr2) as [ts [Hts Hvs]].
      exists (t :: ts). rewrite Ht, Hts. split; [reflexivity|].
      intro env. simpl. rewrite Hv, Hvs. reflexivity.
  Qed.

  Lemma Forall_RT2_RT l : Forall RT2 l -> Forall RT l.
  Proof. intro H. eapply Forall_impl; [|exact H]. intros a [Ha _]. exact Ha. Qed.

  Lemma known_add : sympy_known O "add" = Some (reduce1 O (vadd O)). Proof. reflexivity. Qed.
  Lemma known_mul : sympy_known O "mul" = Some (reduce1 O (vmul O)). Proof. reflexivity. Qed.
  Lemma known_div : sympy_known O "div" = Some (bin O (vdiv O)). Proof. reflexivity. Qed.
  Lemma known_sub : sympy_known O "sub" = Some (bin O (vsub O)). Proof. reflexivity. Qed.
  Lemma known_pow : sympy_known O "pow" = Some (bin O (vpow O)). Proof. reflexivity. Qed.
  Lemma known_sqrt : sympy_known O "sqrt" = Some (un O (vsqrt O)). Proof. reflexivity. Qed.

  Lemma reduce_add l : l <> [] -> reduce1 O (vadd O) l = Ok (fold_right (vadd O) (ofQ O 0) l).
  Proof.
    destruct l as [|a r]; [congruence|]. intros _. unfold reduce1. f_equal.
    rewrite (fold_left_right (vadd O) (ofQ O 0) (add_assoc O L) (add_0_r O L)). reflexivity.
  Qed.
  Lemma reduce_mul l : l <> [] -> reduce1 O (vmul O) l = Ok (fold_right (vmul O) (ofQ O 1) l).
  Proof.
    destruct l as [|a r]; [congruence|]. intros _. unfold reduce1. f_equal.
    rewrite (fold_left_right (vmul O) (ofQ O 1) (mul_assoc O L) (mul_1_r O L)). reflexivity.
  Qed.

  Lemma RT_add l : Forall RT2 l -> RT (SAdd l).
  Proof.
    intros HF Hs Hn Hr. cbn [supported] in Hs. apply andb_true_iff in Hs. destruct Hs as [Hne Hs].
    cbn [neg_ok] in Hn. destruct Hn as [Hn Hstuck]. cbn [rationals_exact] in Hr.
    destruct (from_sympy_add rnd l) as [(a0 & m0 & ml & neg & -> & Hm & Hc)|[(a0 & neg & -> & Hc)|[Hsc Hc]]].
    - (* x + (-1)*y -> sub *)
      assert (Hsub : sub_case [a0; SMul (m0 :: ml) neg] = true) by (cbn [sub_case]; exact Hm).
      specialize (Hstuck Hsub). destruct neg as [n|]; [|contradiction].
      inversion HF as [|? ? [H0 _] HF1]; subst. inversion HF1 as [|? ? [_ Hnsub] _]; subst. cbn [RTsub] in Hnsub.
      cbn [forallb supported] in Hs. repeat (apply andb_true_iff in Hs; destruct Hs as [? Hs]).
      match goal with H : (_ && supported n)%bool = true |- _ => apply andb_true_iff in H; destruct H as [_ Hsn] end.
      cbn [allP neg_ok] in Hn. destruct Hn as [Hn0 [[_ [Hnn Hval]] _]].
      cbn [allP rationals_exact] in Hr. destruct Hr as [Hr0 [[_ Hrn] _]].
      destruct (H0 H Hn0 Hr0) as [t0 [Ht0 Hv0]].
      destruct (Hnsub Hsn Hnn Hrn) as [t1 [Ht1 Hv1]].
      exists (NCall "sub" [t0; t1]). split.
      + rewrite Hc. unfold sub_result. rewrite Ht0, Ht1. reflexivity.
      + intro env. erewrite tr_call; [|apply known_sub|simpl; rewrite Hv0, Hv1; reflexivity].
        unfold bin. f_equal. rewrite (sub_def O L), Hval, (neg_neg O L).
        cbn [ev map fold_right]. rewrite (add_0_r O L). reflexivity.
    - (* Mul() without arguments does not occur in a supported tree *)
      cbn [forallb supported] in Hs. simpl in Hs. rewrite andb_false_r in Hs. discriminate.
    - destruct (RT_list l (Forall_RT2_RT l HF) Hs Hn Hr) as [ts [Hts Hvs]].
      exists (NCall "add" ts). split; [rewrite Hc, Hts; reflexivity|].
      intro env. erewrite tr_call; [|apply known_add|apply Hvs].
      rewrite reduce_add; [reflexivity|]. destruct l; [discriminate|simpl; congruence].
  Qed.

  Lemma RT_mul l neg : Forall RT2 l -> on_opt RT2 neg -> RT2 (SMul l neg).
  Proof.
    intros HF Hneg. split.
    2:{ destruct neg as [n|]; [exact (proj1 Hneg)|exact I]. }
    intros Hs Hn Hr. cbn [supported] in Hs. apply andb_true_iff in Hs. destruct Hs as [Hs _].
    apply andb_true_iff in Hs. destruct Hs as [Hne Hs].
    cbn [neg_ok] in Hn. destruct Hn as [Hn _]. cbn [rationals_exact] in Hr. destruct Hr as [Hr _].
    destruct (from_sympy_mul rnd l neg) as [(a0 & b & ex & -> & Hm & Hc)|Hc].
    - (* x * y**-1 -> div *)
      inversion HF as [|? ? [H0 _] HF1]; subst. inversion HF1 as [|? ? [_ Hb] _]; subst. cbn [RTsub] in Hb.
      cbn [forallb supported] in Hs. repeat (apply andb_true_iff in Hs; destruct Hs as [? Hs]).
      match goal with H : (supported b && _)%bool = true |- _ => apply andb_true_iff in H; destruct H as [Hsb _] end.
      cbn [allP neg_ok] in Hn. destruct Hn as [Hn0 [[Hnb _] _]].
      cbn [allP rationals_exact] in Hr. destruct Hr as [Hr0 [[Hrb _] _]].
      destruct (H0 H Hn0 Hr0) as [t0 [Ht0 Hv0]].
      destruct (Hb Hsb Hnb Hrb) as [t1 [Ht1 Hv1]].
      exists (NCall "div" [t0; t1]). split.
      + rewrite Hc. unfold div_result. rewrite Ht0, Ht1. reflexivity.
      + intro env. erewrite tr_call; [|apply known_div|simpl; rewrite Hv0, Hv1; reflexivity].
        unfold bin. f_equal. rewrite (div_def O L).
        cbn [ev map fold_right]. rewrite (mul_1_r O L), (num_eq_ev env ex _ Hm). reflexivity.
    - destruct (RT_list l (Forall_RT2_RT l HF) Hs Hn Hr) as [ts [Hts Hvs]].
      exists (NCall "mul" ts). split; [rewrite Hc, Hts; reflexivity|].
      intro env. erewrite tr_call; [|apply known_mul|apply Hvs].
      rewrite reduce_mul; [reflexivity|]. destruct l; [discriminate|simpl; congruence].
  Qed.

  Lemma RT_pow b ex : RT2 b -> RT2 ex -> RT2 (SPow b ex).
  Proof.
    intros [Hb _] [Hex _]. split; [|exact Hb].
    intros Hs Hn Hr. cbn [supported] in Hs. apply andb_true_iff in Hs. destruct Hs as [Hsb Hse].
    cbn [neg_ok] in Hn. destruct Hn as [Hnb Hne]. cbn [rationals_exact] in Hr. destruct Hr as [Hrb Hre].
    destruct (Hb Hsb Hnb Hrb) as [tb [Htb Hvb]].
    rewrite from_sympy_pow, Htb.
    destruct (num_eq ex (-1)) eqn:Hm1; [|destruct (num_eq ex (1 # 2)) eqn:Hh].
    - eexists. split; [reflexivity|]. intro env.
      erewrite tr_call; [|apply known_div|simpl; rewrite Hvb; reflexivity].
      unfold bin. f_equal. cbn [numv]. rewrite (div_def O L).
      change (inject_Z 1) with 1%Q. rewrite (mul_1_l O L). cbn [ev]. rewrite (num_eq_ev env ex _ Hm1). reflexivity.
    - eexists. split; [reflexivity|]. intro env.
      erewrite tr_call; [|apply known_sqrt|simpl; rewrite Hvb; reflexivity].
      unfold un. f_equal. rewrite (sqrt_def O L). cbn [ev]. rewrite (num_eq_ev env ex _ Hh). reflexivity.
    - destruct (Hex Hse Hne Hre) as [te [Hte Hve]]. rewrite Hte.
      eexists. split; [reflexivity|]. intro env.
      erewrite tr_call; [|apply known_pow|simpl; rewrite Hvb, Hve; reflexivity].
      reflexivity.
  Qed.

  Lemma RT_func n l : Forall RT2 l -> RT (SFunc n l).
  Proof.
    intros HF Hs Hn Hr. cbn [supported] in Hs. apply andb_true_iff in Hs. destruct Hs as [Hs Hsl].
    apply andb_true_iff in Hs. destruct Hs as [Hmem Hone].
    destruct l as [|a [|a' r]]; try discriminate.
    inversion HF as [|? ? [Ha _] _]; subst.
    cbn [forallb] in Hsl. rewrite andb_true_r in Hsl.
    cbn [neg_ok allP] in Hn. cbn [rationals_exact allP] in Hr.
    destruct (Ha Hsl (proj1 Hn) (proj1 Hr)) as [t [Ht Hv]].
    exists (NCall n [t]). split; [cbn [from_sympy map_res]; rewrite Ht; reflexivity|].
    intro env. apply mem_cases in Hmem. simpl in Hmem.
    destruct Hmem as [<-|[<-|[<-|[<-|[]]]]];
      (erewrite tr_call; [|reflexivity|simpl; rewrite Hv; reflexivity]); reflexivity.
  Qed.

  Theorem roundtrip_all e : RT2 e.
  Proof.
    induction e using sexpr_ind'; try (split; [|exact I]).
    - intros _ _ _. eexists. split; reflexivity.
    - intros _ _ _. eexists. split; reflexivity.
    - intros _ _ _. eexists. split; reflexivity.
    - intros _ _ Hr. eexists. split; [reflexivity|]. intro env. cbn. f_equal. apply (ofQ_ext O L). exact Hr.
    - intros _ _ _. eexists. split; reflexivity.
    - intros Hs. discriminate.
    - apply RT_add. assumption.
    - apply RT_mul; assumption.
    - apply RT_pow; assumption.
    - apply RT_func. assumption.
    - intros Hs. discriminate.
    - intros Hs. discriminate.
  Qed.

  Theorem roundtrip_value_proved : forall e,
    supported e = true -> neg_ok O e -> rationals_exact rnd e ->
    exists t, from_sympy rnd e = Ok t /\ forall env, translate_sympy O env t = Ok (ev O env e).
  Proof. intro e. exact (proj1 (roundtrip_all e)). Qed.
End RoundTrip.

(* ---------------------------------------------------------------- refusal *)
Section Refusal.
  Variable O : Ops.
  Variable rnd : Q -> Q.
  Notation conv := (from_sympy rnd).
  Notation tr := (translate_sympy O).

  (* refused: an exception in the converter, or in the translation of what the converter produced *)
  Definition refused (e : sexpr) : Prop :=
    (exists x, conv e = Err x) \/
    (exists t, conv e = Ok t /\ forall env, exists x, tr env t = Err x).
  (* the neutral tree cannot be translated *)
  Definition tr_fails (t : nexpr) : Prop := forall env, exists x, tr env t = Err x.

  Lemma tr_call_fails name ts : (exists t, In t ts /\ tr_fails t) -> tr_fails (NCall name ts).
  Proof.
    intros [t [Hin Ht]] env. unfold translate_sympy. cbn [translate].
    destruct (sympy_known O name) as [f|]; [|eauto].
    destruct (map_res_err_in (translate env (numv O) (sympy_known O)) ts t Hin (Ht env)) as [y Hy].
    rewrite Hy. eauto.
  Qed.

  Lemma tr_unknown_fails name ts : mem name dialect_names = false -> tr_fails (NCall name ts).
  Proof.
    intros Hm env. unfold translate_sympy. cbn [translate].
    assert (Hk : sympy_known O name = None).
    { unfold mem, dialect_names in Hm. cbn [existsb] in Hm.
      repeat (apply orb_false_iff in Hm; destruct Hm as [? Hm]).
      unfold sympy_known.
      repeat match goal with H : (name =? _) = false |- _ => rewrite H; clear H end. reflexivity. }
    rewrite Hk. eauto.
  Qed.

  Definition RF (e : sexpr) : Prop := unsupported_inside e = true -> neg_keeps e -> refused e.
  Definition RFsub (e : sexpr) : Prop :=
    match e with
    | SMul _ (Some n) => RF n
    | SPow b _ => RF b
    | _ => True
    end.
  Definition RF2 (e : sexpr) : Prop := RF e /\ RFsub e.

  (* a list with an unsupported member: converting it fails, or some converted member cannot be translated *)
  Lemma RF_list l :
    Forall RF l -> existsb unsupported_inside l = true -> allP neg_keeps l ->
    (exists x, map_res conv l = Err x) \/
    (exists ts, map_res conv l = Ok ts /\ exists t, In t ts /\ tr_fails t).
  Proof.
    induction 1 as [|a r Ha _ IH]; intros Hu Hk; simpl in *; [discriminate|].
    destruct Hk as [Hk1 Hk2].
    destruct (conv a) as [t|x] eqn:Hca; [|left; eauto].
    destruct (map_res conv r) as [ts|x] eqn:Hcr; [|left; eauto].
    right. exists (t :: ts). split; [reflexivity|].
    apply orb_true_iff in Hu. destruct Hu as [Hu|Hu].
    - destruct (Ha Hu Hk1) as [[x Hx]|[t' [Ht' Hf]]]; [congruence|].
      exists t. split; [left; reflexivity|]. rewrite Hca in Ht'. inversion Ht'; subst. exact Hf.
    - destruct (IH Hu Hk2) as [[x Hx]|[ts' [Hts' [t' [Hin Hf]]]]]; [discriminate|].
      inversion Hts'; subst. exists t'. split; [right; exact Hin|exact Hf].
  Qed.

  Lemma refused_call name l :
    Forall RF l -> existsb unsupported_inside l = true -> allP neg_keeps l ->
    forall e, conv e = call name (map_res conv l) -> refused e.
  Proof.
    intros HF Hu Hk e He.
    destruct (RF_list l HF Hu Hk) as [[x Hx]|[ts [Hts Hex]]].
    - left. exists x. rewrite He, Hx. reflexivity.
    - right. exists (NCall name ts). split; [rewrite He, Hts; reflexivity|].
      apply tr_call_fails. exact Hex.
  Qed.

  Lemma Forall_RF2_RF l : Forall RF2 l -> Forall RF l.
  Proof. intro H. eapply Forall_impl; [|exact H]. intros a [Ha _]. exact Ha. Qed.

  (* two-argument call built from two converted parts, one of which is refused *)
  Lemma refused_pair name (ra rb : res nexpr) (e : sexpr) :
    conv e = match ra with
             | Err x => Err x
             | Ok t0 => match rb with Err x => Err x | Ok t1 => Ok (NCall name [t0; t1]) end
             end ->
    ((exists x, ra = Err x) \/ (exists t, ra = Ok t /\ tr_fails t)) \/
    ((exists x, rb = Err x) \/ (exists t, rb = Ok t /\ tr_fails t)) ->
    refused e.
  Proof.
    intros He H.
    destruct ra as [t0|x]; [|left; eauto].
    destruct rb as [t1|x]; [|left; eauto].
    right. exists (NCall name [t0; t1]). split; [exact He|].
    apply tr_call_fails.
    destruct H as [[[x Hx]|[t [Ht Hf]]]|[[x Hx]|[t [Ht Hf]]]]; try discriminate.
    - inversion Ht; subst. exists t. split; [left; reflexivity|exact Hf].
    - inversion Ht; subst. exists t. split; [right; left; reflexivity|exact Hf].
  Qed.

  Lemma RF_add l : Forall RF2 l -> RF (SAdd l).
  Proof.
    intros HF Hu Hk. cbn [unsupported_inside] in Hu. cbn [neg_keeps] in Hk.
    destruct (from_sympy_add rnd l) as [(a0 & m0 & ml & neg & -> & Hm & Hc)|[(a0 & neg & -> & Hc)|[Hsc Hc]]].
    - inversion HF as [|? ? [H0 _] HF1]; subst. inversion HF1 as [|? ? [_ Hnsub] _]; subst. cbn [RFsub] in Hnsub.
      cbn [allP neg_keeps] in Hk. destruct Hk as [Hk0 [[Hkl Hkn] _]].
      destruct neg as [n|].
      2:{ unfold sub_result in Hc. destruct (conv a0); left; eauto. }
      destruct Hkn as [Hkn Hkeep].
      eapply (refused_pair "sub" (conv a0) (conv n)); [exact Hc|].
      cbn [existsb unsupported_inside] in Hu. rewrite orb_false_r in Hu.
      apply orb_true_iff in Hu. destruct Hu as [Hu|Hu].
      + left. exact (H0 Hu Hk0).
      + right. exact (Hnsub (Hkeep Hu) Hkn).
    - left. eauto.
    - eapply refused_call; [apply Forall_RF2_RF; exact HF|exact Hu| |exact Hc].
      exact Hk.
  Qed.

  Lemma RF_mul l neg : Forall RF2 l -> on_opt RF2 neg -> RF2 (SMul l neg).
  Proof.
    intros HF Hneg. split.
    2:{ destruct neg as [n|]; [exact (proj1 Hneg)|exact I]. }
    intros Hu Hk. cbn [unsupported_inside] in Hu. cbn [neg_keeps] in Hk. destruct Hk as [Hk _].
    destruct (from_sympy_mul rnd l neg) as [(a0 & b & ex & -> & Hm & Hc)|Hc].
    - inversion HF as [|? ? [H0 _] HF1]; subst. inversion HF1 as [|? ? [_ Hb] _]; subst. cbn [RFsub] in Hb.
      cbn [allP neg_keeps] in Hk. destruct Hk as [Hk0 [[Hkb _] _]].
      eapply (refused_pair "div" (conv a0) (conv b)); [exact Hc|].
      cbn [existsb unsupported_inside] in Hu. rewrite orb_false_r, (num_eq_not_inside ex _ Hm), orb_false_r in Hu.
      apply orb_true_iff in Hu. destruct Hu as [Hu|Hu].
      + left. exact (H0 Hu Hk0).
      + right. exact (Hb Hu Hkb).
    - eapply refused_call; [apply Forall_RF2_RF; exact HF|exact Hu|exact Hk|exact Hc].
  Qed.

  Lemma RF_pow b ex : RF2 b -> RF2 ex -> RF2 (SPow b ex).
  Proof.
    intros [Hb _] [Hex _]. split; [|exact Hb].
    intros Hu Hk. cbn [unsupported_inside] in Hu. cbn [neg_keeps] in Hk. destruct Hk as [Hkb Hke].
    pose proof (from_sympy_pow rnd b ex) as Hc.
    destruct (num_eq ex (-1)) eqn:Hm1; [|destruct (num_eq ex (1 # 2)) eqn:Hh].
    - rewrite (num_eq_not_inside ex _ Hm1), orb_false_r in Hu.
      destruct (Hb Hu Hkb) as [[x Hx]|[t [Ht Hf]]].
      + left. exists x. rewrite Hc, Hx. reflexivity.
      + right. eexists. split; [rewrite Hc, Ht; reflexivity|].
        apply tr_call_fails. exists t. split; [right; left; reflexivity|exact Hf].
    - rewrite (num_eq_not_inside ex _ Hh), orb_false_r in Hu.
      destruct (Hb Hu Hkb) as [[x Hx]|[t [Ht Hf]]].
      + left. exists x. rewrite Hc, Hx. reflexivity.
      + right. eexists. split; [rewrite Hc, Ht; reflexivity|].
        apply tr_call_fails. exists t. split; [left; reflexivity|exact Hf].
    - eapply (refused_pair "pow" (conv b) (conv ex)); [exact Hc|].
      apply orb_true_iff in Hu. destruct Hu as [Hu|Hu].
      + left. exact (Hb Hu Hkb).
      + right. exact (Hex Hu Hke).
  Qed.

  Lemma RF_named n l (e : sexpr) :
    Forall RF2 l -> conv e = call n (map_res conv l) ->
    (negb (mem n dialect_names) || existsb unsupported_inside l)%bool = true -> allP neg_keeps l -> refused e.
  Proof.
    intros HF Hc Hu Hk.
    destruct (existsb unsupported_inside l) eqn:Hex.
    - eapply refused_call; [apply Forall_RF2_RF; exact HF|exact Hex|exact Hk|exact Hc].
    - rewrite orb_false_r in Hu. apply negb_true_iff in Hu.
      destruct (map_res conv l) as [ts|x] eqn:Hm.
      + right. exists (NCall n ts). split; [exact Hc|]. apply tr_unknown_fails. exact Hu.
      + left. exists x. exact Hc.
  Qed.

  Theorem refusal_all e : RF2 e.
  Proof.
    induction e using sexpr_ind'; try (split; [|exact I]); try (intros Hu; discriminate).
    - apply RF_add. assumption.
    - apply RF_mul; assumption.
    - apply RF_pow; assumption.
    - intros Hu Hk. eapply (RF_named n l); [eassumption|reflexivity|exact Hu|exact Hk].
    - intros Hu Hk. eapply (RF_named n l); [eassumption|reflexivity|exact Hu|exact Hk].
    - intros _ _. left. exists ENotImpl. reflexivity.
  Qed.

  Theorem unsupported_refused_proved : forall e,
    unsupported_inside e = true -> neg_keeps e ->
    (exists x, from_sympy rnd e = Err x) \/
    (exists t, from_sympy rnd e = Ok t /\ forall env, exists x, translate_sympy O env t = Err x).
  Proof. intro e. exact (proj1 (refusal_all e)). Qed.
End Refusal.

(* ---------------------------------------------------------------- the laws are satisfiable: exact rationals *)
Require Import Coq.QArith.Qcanon.

Definition qc_pow (a e : Qc) : Qc := if Qc_eq_dec e (Q2Qc (-1)) then Qcinv a else Q2Qc 1.
Definition QcOps : Ops := {|
  V := Qc;
  vadd := Qcplus; vmul := Qcmult;
  vsub := fun a b => Qcplus a (Qcmult (Q2Qc (-1)) b);
  vdiv := fun a b => Qcmult a (qc_pow b (Q2Qc (-1)));
  vpow := qc_pow;
  vsqrt := fun a => qc_pow a (Q2Qc (1 # 2));
  ofQ := Q2Qc; vi := Q2Qc 0; onum := fun _ => Q2Qc 0;
  fnv := fun _ _ => Q2Qc 0; ufn := fun _ _ => Q2Qc 0; oth := fun _ _ => Q2Qc 0
|}.

Lemma QcLaws : Laws QcOps.
Proof.
  constructor; cbn [V vadd vmul vsub vdiv vpow vsqrt ofQ QcOps]; intros; try reflexivity.
  - apply Qc_is_canon. simpl. rewrite !Qred_correct. assumption.
  - apply Qcplus_assoc.
  - apply Qcplus_0_r.
  - apply Qcmult_assoc.
  - apply Qcmult_1_r.
  - apply Qcmult_1_l.
  - change (Q2Qc (-1)) with (- (1))%Qc. ring.
Qed.

(* x - y as sympy stores it, with the recorded negation of (-1)*y *)
Definition example_sub : sexpr :=
  SAdd [SSym "x"; SMul [SInt (-1); SSym "y"] (Some (SSym "y"))].
Lemma example_sub_neg_ok : neg_ok QcOps example_sub.
Proof.
  cbn. repeat split; try exact I; try discriminate.
  intro env. change (Q2Qc (inject_Z (-1))) with (- (1))%Qc. change (Q2Qc (-1)) with (- (1))%Qc.
  change (Q2Qc 1) with 1%Qc. ring.
Qed.

(* an applied undefined function whose name is an entry of the dialect table is not refused *)
Lemma name_collision_translated :
  exists e, supported e = false /\
    exists t, from_sympy round53 e = Ok t /\
      forall (O : Ops) (env : string -> V O), translate_sympy O env t = Ok (fnv O "cos" [env "x"]).
Proof.
  exists (SUFunc "cos" [SSym "x"]). split; [reflexivity|].
  exists (NCall "cos" [NSym "x"]). split; [reflexivity|]. intros O env. reflexivity.
Qed.
