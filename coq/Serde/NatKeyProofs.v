(* Proofs about the natural sort keys (property C19, third clause). *)
Require Import Coq.Strings.String Coq.Strings.Ascii Coq.NArith.NArith Coq.PArith.PArith Coq.Lists.List Coq.Bool.Bool.
Require Import Coq.Numbers.DecimalString Coq.Numbers.DecimalN Coq.Numbers.DecimalPos.
Require Import OQ.Serde.NatKey.
Import ListNotations.
Open Scope string_scope.

(* ---------------------------------------------------------------- strings *)
Lemma app_empty_r (s : string) : s ++ "" = s.
Proof. induction s as [|c r IH]; simpl; [reflexivity|rewrite IH; reflexivity]. Qed.
Lemma snoc_app (s : string) c r : snoc s c ++ r = s ++ String c r.
Proof. unfold snoc. induction s as [|d s IH]; simpl; [reflexivity|rewrite IH; reflexivity]. Qed.

Lemma string_compare_refl (s : string) : String.compare s s = Eq.
Proof.
  pose proof (String.compare_antisym s s) as H.
  destruct (String.compare s s); simpl in H; try discriminate; reflexivity.
Qed.

(* ---------------------------------------------------------------- the scanner *)
Lemma run_app p d q : run (p ++ d) q = run d (run p q).
Proof. revert q. induction p as [|c r IH]; intro q; simpl; [reflexivity|apply IH]. Qed.

Lemma dig_step q c : dig (step q c) = is_digit c.
Proof. unfold step. destruct (is_digit c), (dig q); reflexivity. Qed.

Lemma dig_run p q : dig (run p q) = match p with EmptyString => dig q | _ => ends_with_digit p end.
Proof.
  revert q. induction p as [|c r IH]; intro q; [reflexivity|].
  cbn [run]. rewrite IH. destruct r; [apply dig_step|reflexivity].
Qed.

Lemma run_digits_in d a c : all_digits d = true -> run d (mk_scan a c true) = mk_scan a (c ++ d) true.
Proof.
  revert c. induction d as [|ch r IH]; intros c H; simpl in *.
  - rewrite app_empty_r. reflexivity.
  - apply andb_true_iff in H. destruct H as [Hc Hr].
    unfold step. cbn [dig acc cur]. rewrite Hc. rewrite (IH _ Hr), snoc_app. reflexivity.
Qed.

Lemma run_digits_start d a c : isdigit d = true -> run d (mk_scan a c false) = mk_scan (a ++ [c]) d true.
Proof.
  destruct d as [|ch r]; [discriminate|]. cbn [isdigit all_digits]. intro H.
  apply andb_true_iff in H. destruct H as [Hc Hr].
  cbn [run]. unfold step. cbn [dig acc cur]. rewrite Hc. rewrite (run_digits_in r _ _ Hr). reflexivity.
Qed.

Lemma run_text p a c : no_digits p = true -> run p (mk_scan a c false) = mk_scan a (c ++ p) false.
Proof.
  revert c. induction p as [|ch r IH]; intros c H; simpl in *.
  - rewrite app_empty_r. reflexivity.
  - apply andb_true_iff in H. destruct H as [Hc Hr]. apply negb_true_iff in Hc.
    unfold step. cbn [dig acc cur]. rewrite Hc. rewrite (IH _ Hr), snoc_app. reflexivity.
Qed.

(* appending a digit group to a name that does not end in a digit appends two groups to the split *)
Theorem split_digits_app p d :
  ends_with_digit p = false -> isdigit d = true ->
  split_digits (p ++ d) = (split_digits p ++ [d; ""])%list.
Proof.
  intros Hp Hd. unfold split_digits. rewrite run_app.
  set (q := run p (mk_scan [] "" false)).
  assert (Hq : dig q = false).
  { unfold q. rewrite dig_run. destruct p; [reflexivity|exact Hp]. }
  destruct q as [a c g]. cbn [dig] in Hq. subst g.
  rewrite (run_digits_start d a c Hd). unfold finish. cbn [dig acc cur].
  rewrite <- app_assoc. reflexivity.
Qed.

Lemma split_digits_text p : no_digits p = true -> split_digits p = [p].
Proof. intro H. unfold split_digits. rewrite (run_text p [] "" H). reflexivity. Qed.

Lemma no_digits_not_isdigit p : no_digits p = true -> isdigit p = false.
Proof.
  destruct p as [|c r]; [reflexivity|]. cbn [no_digits isdigit all_digits]. intro H.
  apply andb_true_iff in H. destruct H as [Hc _]. apply negb_true_iff in Hc. rewrite Hc. reflexivity.
Qed.

Lemma no_digits_no_trailing p : no_digits p = true -> ends_with_digit p = false.
Proof.
  induction p as [|c r IH]; [reflexivity|]. cbn [no_digits ends_with_digit]. intro H.
  apply andb_true_iff in H. destruct H as [Hc Hr]. apply negb_true_iff in Hc.
  destruct r; [exact Hc|apply IH; exact Hr].
Qed.

(* ---------------------------------------------------------------- keys *)
Lemma conv_digits d : isdigit d = true -> conv d = KI (to_int d).
Proof. intro H. unfold conv. rewrite H. reflexivity. Qed.

Theorem natural_key_app p d :
  ends_with_digit p = false -> isdigit d = true ->
  natural_key (p ++ d) = (natural_key p ++ [KI (to_int d); KS ""])%list.
Proof.
  intros Hp Hd. unfold natural_key. rewrite (split_digits_app p d Hp Hd), map_app.
  cbn [map]. rewrite (conv_digits d Hd). reflexivity.
Qed.

Lemma kcmp_refl x : kcmp x x = Some Eq.
Proof. destruct x; simpl; [rewrite string_compare_refl|rewrite N.compare_refl]; reflexivity. Qed.

Lemma key_cmp_app_same l a b : key_cmp (l ++ a)%list (l ++ b)%list = key_cmp a b.
Proof. induction l as [|x r IH]; simpl; [reflexivity|rewrite kcmp_refl; exact IH]. Qed.

(* names that differ only in a final digit group are ordered by the numbers those groups denote *)
Theorem natural_key_numeric_digits p da db :
  ends_with_digit p = false -> isdigit da = true -> isdigit db = true ->
  (to_int da < to_int db)%N ->
  key_cmp (natural_key (p ++ da)) (natural_key (p ++ db)) = Some Lt.
Proof.
  intros Hp Ha Hb Hlt. rewrite (natural_key_app p da Hp Ha), (natural_key_app p db Hp Hb), key_cmp_app_same.
  cbn [key_cmp kcmp]. apply N.compare_lt_iff in Hlt. rewrite Hlt. reflexivity.
Qed.

(* decimal numerals *)
Lemma all_digits_of_uint d : all_digits (NilEmpty.string_of_uint d) = true.
Proof. induction d; simpl; try rewrite IHd; reflexivity. Qed.

Lemma isdigit_dec n : isdigit (dec n) = true.
Proof.
  unfold dec. pose proof (all_digits_of_uint (N.to_uint n)) as H.
  destruct (NilEmpty.string_of_uint (N.to_uint n)) eqn:E; [|exact H].
  exfalso. destruct n as [|p]; [discriminate|].
  cbn [N.to_uint] in E. pose proof (Unsigned.to_uint_nonnil p) as Hn.
  destruct (Pos.to_uint p); try discriminate. apply Hn. reflexivity.
Qed.

Lemma to_int_dec n : to_int (dec n) = n.
Proof. unfold to_int, dec. rewrite NilEmpty.usu. apply DecimalN.Unsigned.of_to. Qed.

Theorem natural_key_numeric_proved p a b :
  ends_with_digit p = false -> (a < b)%N ->
  key_cmp (natural_key (p ++ dec a)) (natural_key (p ++ dec b)) = Some Lt.
Proof.
  intros Hp Hlt. apply natural_key_numeric_digits; try apply isdigit_dec; [exact Hp|].
  rewrite !to_int_dec. exact Hlt.
Qed.

(* reversed keys look at the final number first, whatever the (digit-free) names in front of it *)
Theorem revlex_number_first_proved p q a b :
  no_digits p = true -> no_digits q = true -> (a < b)%N ->
  key_cmp (natural_key_revlex (p ++ dec a)) (natural_key_revlex (q ++ dec b)) = Some Lt.
Proof.
  intros Hp Hq Hlt. unfold natural_key_revlex.
  rewrite (natural_key_app p (dec a) (no_digits_no_trailing p Hp) (isdigit_dec a)).
  rewrite (natural_key_app q (dec b) (no_digits_no_trailing q Hq) (isdigit_dec b)).
  unfold natural_key. rewrite (split_digits_text p Hp), (split_digits_text q Hq).
  cbn [map app rev]. rewrite !to_int_dec. cbn [key_cmp kcmp String.compare].
  apply N.compare_lt_iff in Hlt. rewrite Hlt. reflexivity.
Qed.

(* and with equal numbers the names decide *)
Theorem revlex_then_name_proved p q a :
  no_digits p = true -> no_digits q = true ->
  key_cmp (natural_key_revlex (p ++ dec a)) (natural_key_revlex (q ++ dec a)) = Some (String.compare p q).
Proof.
  intros Hp Hq. unfold natural_key_revlex.
  rewrite (natural_key_app p (dec a) (no_digits_no_trailing p Hp) (isdigit_dec a)).
  rewrite (natural_key_app q (dec a) (no_digits_no_trailing q Hq) (isdigit_dec a)).
  unfold natural_key. rewrite (split_digits_text p Hp), (split_digits_text q Hq).
  cbn [map app rev]. unfold conv. rewrite (no_digits_not_isdigit p Hp), (no_digits_not_isdigit q Hq).
  cbn [key_cmp kcmp String.compare]. rewrite N.compare_refl.
  destruct (String.compare p q); reflexivity.
Qed.

(* ---------------------------------------------------------------- keys never mix int and str at one position *)
Definition kind (b : bool) (g : string) : Prop := if b then isdigit g = true else no_digits g = true.
(* l alternates between text and digit groups, starts with kind b; a further group would have kind e *)
Fixpoint altn (b : bool) (l : list string) (e : bool) : Prop :=
  match l with
  | [] => b = e
  | x :: r => kind b x /\ altn (negb b) r e
  end.

Lemma altn_snoc b l e x : altn b l e -> kind e x -> altn b (l ++ [x])%list (negb e).
Proof.
  revert b. induction l as [|y r IH]; intros b H Hx; simpl in *.
  - subst. split; [exact Hx|reflexivity].
  - destruct H as [Hy Hr]. split; [exact Hy|apply IH; assumption].
Qed.

Lemma all_digits_snoc g c : all_digits g = true -> is_digit c = true -> all_digits (g ++ String c "") = true.
Proof.
  intros Hg Hc. induction g as [|d r IH]; simpl in *.
  - rewrite Hc. reflexivity.
  - apply andb_true_iff in Hg. destruct Hg as [H1 H2]. rewrite H1. simpl. apply IH. exact H2.
Qed.

Lemma isdigit_snoc g c : isdigit g = true -> is_digit c = true -> isdigit (snoc g c) = true.
Proof.
  intros Hg Hc. destruct g as [|d r]; [discriminate|]. cbn [isdigit] in Hg. unfold snoc.
  change (String d r ++ String c "") with (String d (r ++ String c "")). cbn [isdigit].
  change (all_digits (String d r ++ String c "") = true). apply all_digits_snoc; assumption.
Qed.

Lemma no_digits_snoc g c : no_digits g = true -> is_digit c = false -> no_digits (snoc g c) = true.
Proof.
  intros Hg Hc. unfold snoc. induction g as [|d r IH]; simpl in *.
  - rewrite Hc. reflexivity.
  - apply andb_true_iff in Hg. destruct Hg as [H1 H2]. rewrite H1. simpl. apply IH. exact H2.
Qed.

Definition scan_ok (q : scan) : Prop := altn false (acc q) (dig q) /\ kind (dig q) (cur q).

Lemma step_ok q c : scan_ok q -> scan_ok (step q c).
Proof.
  intros [Ha Hc]. unfold step. destruct (is_digit c) eqn:Hd, (dig q) eqn:Hg; unfold scan_ok; cbn [acc cur dig].
  - split; [exact Ha|]. apply isdigit_snoc; assumption.
  - split; [exact (altn_snoc _ _ _ _ Ha Hc)|]. cbn [kind isdigit all_digits]. rewrite Hd. reflexivity.
  - split; [exact (altn_snoc _ _ _ _ Ha Hc)|]. cbn [kind no_digits]. rewrite Hd. reflexivity.
  - split; [exact Ha|]. apply no_digits_snoc; assumption.
Qed.

Lemma run_ok s q : scan_ok q -> scan_ok (run s q).
Proof. revert q. induction s as [|c r IH]; intros q H; simpl; [exact H|apply IH, step_ok, H]. Qed.

Lemma split_digits_alternates s : altn false (split_digits s) true.
Proof.
  unfold split_digits.
  assert (H : scan_ok (run s (mk_scan [] "" false))) by (apply run_ok; split; reflexivity).
  destruct H as [Ha Hc]. unfold finish. destruct (dig (run s (mk_scan [] "" false))).
  - change [cur (run s (mk_scan [] "" false)); ""] with ([cur (run s (mk_scan [] "" false))] ++ [""])%list.
    rewrite app_assoc. apply (altn_snoc false _ false ""); [|reflexivity].
    apply (altn_snoc false _ true); assumption.
  - apply (altn_snoc false _ false); assumption.
Qed.

Lemma altn_rev b l e : altn b l e -> altn (negb e) (rev l) (negb b).
Proof.
  revert b. induction l as [|x r IH]; intros b H; simpl in *.
  - subst. reflexivity.
  - destruct H as [Hx Hr]. apply IH in Hr. rewrite negb_involutive in Hr.
    exact (altn_snoc _ _ _ _ Hr Hx).
Qed.

Lemma key_cmp_alternating b l1 l2 e1 e2 :
  altn b l1 e1 -> altn b l2 e2 -> key_cmp (map conv l1) (map conv l2) <> None.
Proof.
  revert b l2. induction l1 as [|x r IH]; intros b [|y r2] H1 H2; simpl; try discriminate.
  destruct H1 as [Hx Hr1]. destruct H2 as [Hy Hr2].
  assert (Hk : exists c, kcmp (conv x) (conv y) = Some c).
  { unfold conv. destruct b; cbn [kind] in Hx, Hy.
    - rewrite Hx, Hy. simpl. eauto.
    - rewrite (no_digits_not_isdigit x Hx), (no_digits_not_isdigit y Hy). simpl. eauto. }
  destruct Hk as [c Hk]. rewrite Hk. destruct c; try discriminate.
  exact (IH _ _ Hr1 Hr2).
Qed.

(* comparing the keys of two names never raises TypeError, in either ordering *)
Theorem natural_key_comparable_proved s t : key_cmp (natural_key s) (natural_key t) <> None.
Proof.
  unfold natural_key.
  exact (key_cmp_alternating false _ _ true true (split_digits_alternates s) (split_digits_alternates t)).
Qed.

Theorem natural_key_revlex_comparable_proved s t :
  key_cmp (natural_key_revlex s) (natural_key_revlex t) <> None.
Proof.
  unfold natural_key_revlex, natural_key. rewrite <- !map_rev.
  exact (key_cmp_alternating false _ _ true true
           (altn_rev _ _ _ (split_digits_alternates s)) (altn_rev _ _ _ (split_digits_alternates t))).
Qed.
