(* Proofs about substitution, free symbols and evaluation of parameter expressions (C06). *)
Require Import Coq.QArith.QArith Coq.Lists.List Coq.Strings.String Coq.Bool.Bool.
Require Import OQ.Serde.Expr.
Import ListNotations.

Lemma map_ext_Forall {A B} (f g : A -> B) (l : list A) :
  Forall (fun x => f x = g x) l -> map f l = map g l.
Proof. induction 1 as [|x r Hx _ IH]; simpl; [reflexivity|rewrite Hx, IH; reflexivity]. Qed.

Lemma map_id_Forall {A} (f : A -> A) (l : list A) :
  Forall (fun x => f x = x) l -> map f l = l.
Proof. induction 1 as [|x r Hx _ IH]; simpl; [reflexivity|rewrite Hx, IH; reflexivity]. Qed.

Lemma Forall_impl_In {A} (P Q : A -> Prop) (l : list A) :
  Forall P l -> (forall x, In x l -> P x -> Q x) -> Forall Q l.
Proof.
  induction 1 as [|x r Hx _ IH]; intros H; constructor.
  - apply H; [left; reflexivity|exact Hx].
  - apply IH. intros y Hy. apply H. right; exact Hy.
Qed.

Lemma in_flat_map_free (l : list expr) (s : string) :
  In s (flat_map free l) <-> exists x, In x l /\ In s (free x).
Proof. apply in_flat_map. Qed.

(* ---------------------------------------------------------------- substitution alone *)

Lemma subst_ext (m1 m2 : sub) (e : expr) :
  (forall s, In s (free e) -> m1 s = m2 s) -> subst m1 e = subst m2 e.
Proof.
  induction e as [q|s|l IH|l IH|b x IHb IHx|f l IH] using expr_ind'; intros H; simpl in *.
  - reflexivity.
  - rewrite (H s); [reflexivity|left; reflexivity].
  - f_equal. apply map_ext_Forall. eapply Forall_impl_In; [exact IH|].
    intros x Hx Hx'. apply Hx'. intros s Hs. apply H. apply in_flat_map. exists x; split; assumption.
  - f_equal. apply map_ext_Forall. eapply Forall_impl_In; [exact IH|].
    intros x Hx Hx'. apply Hx'. intros s Hs. apply H. apply in_flat_map. exists x; split; assumption.
  - rewrite IHb, IHx; [reflexivity| |]; intros s Hs; apply H; apply in_or_app; [right|left]; exact Hs.
  - f_equal. apply map_ext_Forall. eapply Forall_impl_In; [exact IH|].
    intros x Hx Hx'. apply Hx'. intros s Hs. apply H. apply in_flat_map. exists x; split; assumption.
Qed.

Lemma subst_none (e : expr) : subst (fun _ => None) e = e.
Proof.
  induction e as [q|s|l IH|l IH|b x IHb IHx|f l IH] using expr_ind'; simpl.
  - reflexivity.
  - reflexivity.
  - f_equal. apply map_id_Forall. exact IH.
  - f_equal. apply map_id_Forall. exact IH.
  - rewrite IHb, IHx. reflexivity.
  - f_equal. apply map_id_Forall. exact IH.
Qed.

(* symbols that the map does not mention are untouched *)
Lemma subst_id (m : sub) (e : expr) :
  (forall s, In s (free e) -> m s = None) -> subst m e = e.
Proof.
  intros H. rewrite <- (subst_none e) at 2. apply subst_ext. exact H.
Qed.

Lemma subst_subst (m1 m2 : sub) (e : expr) :
  subst m2 (subst m1 e) = subst (sub_comp m1 m2) e.
Proof.
  induction e as [q|s|l IH|l IH|b x IHb IHx|f l IH] using expr_ind'; simpl.
  - reflexivity.
  - unfold sub_comp. destruct (m1 s) as [v|]; reflexivity.
  - f_equal. rewrite map_map. apply map_ext_Forall. exact IH.
  - f_equal. rewrite map_map. apply map_ext_Forall. exact IH.
  - rewrite IHb, IHx. reflexivity.
  - f_equal. rewrite map_map. apply map_ext_Forall. exact IH.
Qed.

(* when no value of m1 mentions a key of m2, composing is the same as taking the union *)
Lemma sub_comp_union (m1 m2 : sub) (e : expr) :
  (forall s v t, m1 s = Some v -> In t (free v) -> m2 t = None) ->
  subst (sub_comp m1 m2) e = subst (sub_union m1 m2) e.
Proof.
  intros H. apply subst_ext. intros s _. unfold sub_comp, sub_union.
  destruct (m1 s) as [v|] eqn:E; [|reflexivity].
  f_equal. apply subst_id. intros t Ht. exact (H s v t E Ht).
Qed.

(* free symbols after substitution: exactly the untouched ones and those of the values put in *)
Lemma free_subst (m : sub) (e : expr) (t : string) :
  In t (free (subst m e)) <->
  exists s, In s (free e) /\ ((m s = None /\ t = s) \/ (exists v, m s = Some v /\ In t (free v))).
Proof.
  induction e as [q|s|l IH|l IH|b x IHb IHx|f l IH] using expr_ind'; simpl.
  - split; [intros []|intros [s [[] _]]].
  - split.
    + intros H. exists s. split; [left; reflexivity|].
      destruct (m s) as [v|] eqn:E.
      * right. exists v. split; [reflexivity|exact H].
      * left. simpl in H. destruct H as [H|[]]. split; [reflexivity|symmetry; exact H].
    + intros [s' [[Hs|[]] H]]. subst s'. destruct H as [[E Ht]|[v [E Ht]]]; rewrite E.
      * left. symmetry; exact Ht.
      * exact Ht.
  - rewrite in_flat_map. split.
    + intros [y [Hy Ht]]. apply in_map_iff in Hy. destruct Hy as [x [Hx Hxl]]. subst y.
      rewrite Forall_forall in IH. apply (IH x Hxl) in Ht. destruct Ht as [s [Hs H]].
      exists s. split; [apply in_flat_map; exists x; split; assumption|exact H].
    + intros [s [Hs H]]. apply in_flat_map in Hs. destruct Hs as [x [Hxl Hs]].
      exists (subst m x). split; [apply in_map; exact Hxl|].
      rewrite Forall_forall in IH. apply (IH x Hxl). exists s. split; assumption.
  - rewrite in_flat_map. split.
    + intros [y [Hy Ht]]. apply in_map_iff in Hy. destruct Hy as [x [Hx Hxl]]. subst y.
      rewrite Forall_forall in IH. apply (IH x Hxl) in Ht. destruct Ht as [s [Hs H]].
      exists s. split; [apply in_flat_map; exists x; split; assumption|exact H].
    + intros [s [Hs H]]. apply in_flat_map in Hs. destruct Hs as [x [Hxl Hs]].
      exists (subst m x). split; [apply in_map; exact Hxl|].
      rewrite Forall_forall in IH. apply (IH x Hxl). exists s. split; assumption.
  - rewrite in_app_iff, IHb, IHx. split.
    + intros [[s [Hs H]]|[s [Hs H]]]; exists s; (split; [apply in_or_app|exact H]); [left|right]; exact Hs.
    + intros [s [Hs H]]. apply in_app_or in Hs. destruct Hs as [Hs|Hs]; [left|right]; exists s; split; assumption.
  - rewrite in_flat_map. split.
    + intros [y [Hy Ht]]. apply in_map_iff in Hy. destruct Hy as [x [Hx Hxl]]. subst y.
      rewrite Forall_forall in IH. apply (IH x Hxl) in Ht. destruct Ht as [s [Hs H]].
      exists s. split; [apply in_flat_map; exists x; split; assumption|exact H].
    + intros [s [Hs H]]. apply in_flat_map in Hs. destruct Hs as [x [Hxl Hs]].
      exists (subst m x). split; [apply in_map; exact Hxl|].
      rewrite Forall_forall in IH. apply (IH x Hxl). exists s. split; assumption.
Qed.

Lemma closed_iff (e : expr) : closed e = true <-> free e = [].
Proof. unfold closed. destruct (free e); split; intros H; try reflexivity; discriminate. Qed.

(* ---------------------------------------------------------------- evaluation *)
Section EvalProofs.
  Variable R : Type.
  Variable ofQ : Q -> R.
  Variables radd rmul rpow : R -> R -> R.
  Variables rzero rone : R.
  Variable rfun : string -> list R -> R.

  Notation ev := (ev R ofQ radd rmul rpow rzero rone rfun).
  Notation env_comp := (env_comp R ofQ radd rmul rpow rzero rone rfun).

  (* substitute-then-evaluate = evaluate in the composed environment *)
  Lemma subst_ev (en : env R) (m : sub) (e : expr) :
    ev en (subst m e) = ev (env_comp en m) e.
  Proof.
    induction e as [q|s|l IH|l IH|b x IHb IHx|f l IH] using expr_ind'; simpl.
    - reflexivity.
    - unfold Expr.env_comp. destruct (m s) as [v|]; reflexivity.
    - f_equal. rewrite map_map. apply map_ext_Forall. exact IH.
    - f_equal. rewrite map_map. apply map_ext_Forall. exact IH.
    - rewrite IHb, IHx. reflexivity.
    - f_equal. rewrite map_map. apply map_ext_Forall. exact IH.
  Qed.

  (* the value depends on the environment only through the free symbols *)
  Lemma ev_ext (en1 en2 : env R) (e : expr) :
    (forall s, In s (free e) -> en1 s = en2 s) -> ev en1 e = ev en2 e.
  Proof.
    induction e as [q|s|l IH|l IH|b x IHb IHx|f l IH] using expr_ind'; intros H; simpl in *.
    - reflexivity.
    - apply H. left; reflexivity.
    - f_equal. apply map_ext_Forall. eapply Forall_impl_In; [exact IH|].
      intros x Hx Hx'. apply Hx'. intros s Hs. apply H. apply in_flat_map. exists x; split; assumption.
    - f_equal. apply map_ext_Forall. eapply Forall_impl_In; [exact IH|].
      intros x Hx Hx'. apply Hx'. intros s Hs. apply H. apply in_flat_map. exists x; split; assumption.
    - rewrite IHb, IHx; [reflexivity| |]; intros s Hs; apply H; apply in_or_app; [right|left]; exact Hs.
    - f_equal. apply map_ext_Forall. eapply Forall_impl_In; [exact IH|].
      intros x Hx Hx'. apply Hx'. intros s Hs. apply H. apply in_flat_map. exists x; split; assumption.
  Qed.

  Lemma ev_closed (en1 en2 : env R) (e : expr) : free e = [] -> ev en1 e = ev en2 e.
  Proof. intros H. apply ev_ext. rewrite H. intros s []. Qed.

  Lemma env_comp_comp (en : env R) (m1 m2 : sub) (s : string) :
    env_comp (env_comp en m2) m1 s = env_comp en (sub_comp m1 m2) s.
  Proof.
    unfold Expr.env_comp, sub_comp. destruct (m1 s) as [v|]; [|reflexivity].
    symmetry. apply subst_ev.
  Qed.
End EvalProofs.

(* ---------------------------------------------------------------- association lists *)
Lemma alookup_app {A} (s : string) (l1 l2 : list (string * A)) :
  alookup s (l1 ++ l2) = match alookup s l1 with Some v => Some v | None => alookup s l2 end.
Proof.
  induction l1 as [|[k v] r IH]; simpl; [reflexivity|].
  destruct (String.eqb s k); [reflexivity|exact IH].
Qed.

Lemma alookup_none {A} (s : string) (l : list (string * A)) :
  alookup s l = None <-> ~ In s (map fst l).
Proof.
  induction l as [|[k v] r IH]; simpl.
  - split; [intros _ []|reflexivity].
  - destruct (String.eqb s k) eqn:E.
    + apply String.eqb_eq in E. split; [discriminate|]. intros H. exfalso. apply H. left. symmetry; exact E.
    + apply String.eqb_neq in E. rewrite IH. split.
      * intros H [H1|H1]; [apply E; symmetry; exact H1|exact (H H1)].
      * intros H H1. apply H. right; exact H1.
Qed.

Lemma alookup_in {A} (s : string) (v : A) (l : list (string * A)) :
  alookup s l = Some v -> In (s, v) l.
Proof.
  induction l as [|[k w] r IH]; simpl; [discriminate|].
  destruct (String.eqb s k) eqn:E.
  - apply String.eqb_eq in E. intros H; inversion H; subst. left; reflexivity.
  - intros H. right. apply IH; exact H.
Qed.
