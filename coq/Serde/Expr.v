(* Symbolic parameter expressions (property C06): the fragment of sympy expressions that gate
   parameters are built from, with simultaneous substitution, free symbols and evaluation
   into an arbitrary carrier.  Symbols are identified by their printed name. *)
Require Import Coq.QArith.QArith Coq.Lists.List Coq.Strings.String Coq.Bool.Bool.
Import ListNotations.

Inductive expr : Type :=
| Num (q : Q)                          (* Integer / Rational / exactly representable Float *)
| Sym (s : string)
| Add (l : list expr)
| Mul (l : list expr)
| Pow (b e : expr)
| Fun (f : string) (l : list expr).    (* applied function, e.g. sin, cos, undefined f *)

(* induction principle that reaches through the argument lists *)
Section ExprInd.
  Variable P : expr -> Prop.
  Hypothesis HNum : forall q, P (Num q).
  Hypothesis HSym : forall s, P (Sym s).
  Hypothesis HAdd : forall l, Forall P l -> P (Add l).
  Hypothesis HMul : forall l, Forall P l -> P (Mul l).
  Hypothesis HPow : forall b e, P b -> P e -> P (Pow b e).
  Hypothesis HFun : forall f l, Forall P l -> P (Fun f l).
  Fixpoint expr_ind' (e : expr) : P e :=
    let fix go (l : list expr) : Forall P l :=
      match l with
      | [] => Forall_nil P
      | x :: r => Forall_cons x (expr_ind' x) (go r)
      end in
    match e with
    | Num q => HNum q
    | Sym s => HSym s
    | Add l => HAdd l (go l)
    | Mul l => HMul l (go l)
    | Pow b e => HPow b e (expr_ind' b) (expr_ind' e)
    | Fun f l => HFun f l (go l)
    end.
End ExprInd.

(* a substitution: partial map from symbol names to expressions *)
Definition sub := string -> option expr.

(* simultaneous substitution (what Basic.subs(simultaneous=True) does; equal to the sequential
   subs(dict) whenever the values mention no key) *)
Fixpoint subst (m : sub) (e : expr) : expr :=
  match e with
  | Num q => Num q
  | Sym s => match m s with Some v => v | None => Sym s end
  | Add l => Add (map (subst m) l)
  | Mul l => Mul (map (subst m) l)
  | Pow b x => Pow (subst m b) (subst m x)
  | Fun f l => Fun f (map (subst m) l)
  end.

(* free symbols in traversal order, with repetitions *)
Fixpoint free (e : expr) : list string :=
  match e with
  | Num _ => []
  | Sym s => [s]
  | Add l => flat_map free l
  | Mul l => flat_map free l
  | Pow b x => free b ++ free x
  | Fun _ l => flat_map free l
  end.

Definition mem (s : string) (l : list string) : bool := existsb (String.eqb s) l.
Definition closed (e : expr) : bool := match free e with [] => true | _ => false end.

(* composition of substitutions: first m1, then m2 *)
Definition sub_comp (m1 m2 : sub) : sub :=
  fun s => match m1 s with Some v => Some (subst m2 v) | None => m2 s end.
(* union, m1 taking precedence *)
Definition sub_union (m1 m2 : sub) : sub :=
  fun s => match m1 s with Some v => Some v | None => m2 s end.
Definition sub_dom (m : sub) (s : string) : Prop := m s <> None.

(* evaluation into an arbitrary carrier; no law of the carrier is used anywhere *)
Section Eval.
  Variable R : Type.
  Variable ofQ : Q -> R.
  Variables radd rmul rpow : R -> R -> R.
  Variables rzero rone : R.
  Variable rfun : string -> list R -> R.       (* uninterpreted function symbols *)

  Definition env := string -> R.

  Fixpoint rsum (l : list R) : R := match l with [] => rzero | x :: r => radd x (rsum r) end.
  Fixpoint rprod (l : list R) : R := match l with [] => rone | x :: r => rmul x (rprod r) end.

  Fixpoint ev (en : env) (e : expr) : R :=
    match e with
    | Num q => ofQ q
    | Sym s => en s
    | Add l => rsum (map (ev en) l)
    | Mul l => rprod (map (ev en) l)
    | Pow b x => rpow (ev en b) (ev en x)
    | Fun f l => rfun f (map (ev en) l)
    end.

  (* the environment "first substitute m, then look up in en" *)
  Definition env_comp (en : env) (m : sub) : env :=
    fun s => match m s with Some v => ev en v | None => en s end.
  Definition env_upd (en : env) (s : string) (v : R) : env :=
    fun t => if String.eqb t s then v else en t.
End Eval.

(* association lists as substitutions (a Python dict in insertion order, keys unique) *)
Fixpoint alookup {A} (s : string) (l : list (string * A)) : option A :=
  match l with
  | [] => None
  | (k, v) :: r => if String.eqb s k then Some v else alookup s r
  end.
