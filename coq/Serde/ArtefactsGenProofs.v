(* Agreement of the GENERATED definitions of Gen/ArtefactsGen.v (translated from the Python source on every run by
   tr/tr_artefacts.py; meaning of the building blocks: Serde/ArtefactsTrSupport.v) with the hand-written models
   Serde/Artefacts.v and Serde/OpSerde.v that the C11 theorems are about.

   Dictionary level: the generated function equals the model function on ALL inputs ([res_opt] forgets which exception
   was raised, as the models do).  File level (the save and load functions): the generated wrapper is the model function composed
   with the abstract JSON codec and the file system ([saved], [load_via]).  Text level: __repr__ equals the model on
   every dict (distinct keys; [PauliTerm_repr_gen_spec] says what it is otherwise), _parse_operator equals parse_op,
   and _parse_operators_and_coefficient followed by the hand-written reading of PauliTerm.__init__ equals parse_term. *)
Require Import Coq.ZArith.ZArith Coq.NArith.NArith Coq.Lists.List Coq.Strings.String Coq.Strings.Ascii Coq.Bool.Bool
  Coq.micromega.Lia.
Require Import OQ.Base.Ring OQ.Pauli.Algebra OQ.Serde.Json OQ.Serde.Artefacts OQ.Serde.NatKey OQ.Serde.OpSerde
  OQ.Serde.ArtefactsTrSupport OQ.Gen.ArtefactsGen.
Import ListNotations.
Open Scope string_scope.
Open Scope list_scope.

Lemma res_opt_bind : forall A B (r : pyres A) (k : A -> pyres B),
  res_opt (bind r k) = match res_opt r with Some a => res_opt (k a) | None => None end.
Proof. intros A B [a|e] k; reflexivity. Qed.

Theorem convert_dict_to_array_gen_eq : forall (R : Type) (rt : R -> bool) (j : jt R),
  res_opt (convert_dict_to_array_gen R rt j) = dict_to_arr rt j.
Proof.
  intros R rt j. unfold convert_dict_to_array_gen, dict_to_arr.
  destruct j as [| r | s | l | kv]; try reflexivity.
  cbn [py_getitem py_get bind].
  destruct (assoc "real" kv) as [jr|]; [|reflexivity].
  cbn [bind]. unfold np_array at 1, jt_to_nd at 1.
  destruct (jt_to_nd_raw jr) as [re|]; [|reflexivity].
  destruct (regular re); [|reflexivity].
  cbn [bind]. destruct (assoc "imag" kv) as [ji|]; [|reflexivity].
  cbn [py_truthy_ojson]. destruct (jt_truthy rt ji); [|reflexivity].
  cbn [bind]. unfold np_array, jt_to_nd.
  destruct (jt_to_nd_raw ji) as [im|]; [|reflexivity].
  destruct (regular im); [|reflexivity].
  cbn [bind np_add_imag]. destruct (nd_zip re im); reflexivity.
Qed.

Theorem convert_array_to_dict_gen_eq : forall (R : Type) (a : arr R),
  convert_array_to_dict_gen R a = Val (arr_to_dict a).
Proof. intros R [d|d]; reflexivity. Qed.

Lemma assoc_dict_set_same : forall R (k : string) (v : jt R) kv, assoc k (dict_set k v kv) = Some v.
Proof.
  intros R k v kv. induction kv as [|[k' w] kv IH]; cbn.
  - rewrite String.eqb_refl. reflexivity.
  - destruct (String.eqb k k') eqn:E; cbn; rewrite E; [reflexivity|exact IH].
Qed.

Lemma dict_set_twice : forall R (k : string) (v1 v2 : jt R) kv, dict_set k v2 (dict_set k v1 kv) = dict_set k v2 kv.
Proof.
  intros R k v1 v2 kv. induction kv as [|[k' w] kv IH]; cbn.
  - rewrite String.eqb_refl. reflexivity.
  - destruct (String.eqb k k') eqn:E; cbn; rewrite E; [reflexivity|rewrite IH; reflexivity].
Qed.

Lemma dict_set_id : forall R (k : string) (v : jt R) kv, assoc k kv = Some v -> dict_set k v kv = kv.
Proof.
  intros R k v kv. induction kv as [|[k' w] kv IH]; [discriminate|]. cbn.
  destruct (String.eqb k k'); intro H; [congruence|]. f_equal. apply IH, H.
Qed.

(* for x in xs: d[k].append(f(x)) *)
Lemma append_loop : forall R A (f : A -> pyres (jt R)) (g : A -> jt R) (k : string) (l : list A) kv acc,
  (forall a, f a = Val (g a)) -> assoc k kv = Some (TArr acc) ->
  py_for l (TObj kv)
    (fun x d => bind (py_getitem d k) (fun x13 => bind (py_list_of x13) (fun x14 => bind (f x) (fun x15 =>
                bind (py_setitem d k (TArr (py_append x14 x15))) (fun d => Val d)))))
  = Val (TObj (dict_set k (TArr (acc ++ map g l)) kv)).
Proof.
  intros R A f g k l kv acc Hf. revert kv acc. induction l as [|x l IH]; intros kv acc Hk; cbn [py_for map].
  - rewrite app_nil_r, dict_set_id by exact Hk. reflexivity.
  - cbn [py_getitem]. rewrite Hk. cbn [bind py_list_of]. rewrite Hf. cbn [bind py_setitem].
    rewrite (IH _ (py_append acc (g x))) by apply assoc_dict_set_same.
    rewrite dict_set_twice. unfold py_append. rewrite <- app_assoc. reflexivity.
Qed.

Theorem ExpectationValues_to_dict_gen_eq : forall (R : Type) (e : expvals R),
  ExpectationValues_to_dict_gen R e = Val (ev_to_dict e).
Proof.
  intros R [v c k]. unfold ExpectationValues_to_dict_gen, ev_to_dict. cbn [ev_values ev_corr ev_cov].
  rewrite convert_array_to_dict_gen_eq.
  destruct c as [[|x r]|]; destruct k as [[|y s]|]; cbn [bind py_setitem dict_set String.eqb Ascii.eqb Bool.eqb py_truthy_olist py_iter_olist];
    repeat (erewrite (append_loop R _ (convert_array_to_dict_gen R) (arr_to_dict (R:=R)) _ _ _ [] (convert_array_to_dict_gen_eq R)) by reflexivity;
            cbn [bind py_setitem dict_set String.eqb Ascii.eqb Bool.eqb]);
    reflexivity.
Qed.

Lemma mapM_ext : forall A B (f g : A -> option B) l, (forall a, f a = g a) -> mapM f l = mapM g l.
Proof. intros A B f g l H. induction l as [|x l IH]; cbn; [reflexivity|]. rewrite H, IH. reflexivity. Qed.

(* for x in xs: acc.append(f(x)) *)
Lemma collect_loop : forall A B (f : A -> pyres B) l acc,
  res_opt (py_for l acc (fun x st => bind (f x) (fun y => Val (py_append st y))))
  = option_map (app acc) (mapM (fun x => res_opt (f x)) l).
Proof.
  intros A B f l. induction l as [|x l IH]; intro acc; cbn [py_for mapM].
  - cbn. rewrite app_nil_r. reflexivity.
  - destruct (f x) as [y|e]; cbn [bind res_opt]; [|reflexivity]. rewrite IH. unfold py_append.
    destruct (mapM (fun x0 => res_opt (f x0)) l); cbn; [rewrite <- app_assoc|]; reflexivity.
Qed.

Lemma frames_block_eq : forall R (rt : R -> bool) key kv,
  res_opt (if py_truthy_ojson rt (assoc key kv)
           then bind (py_iter_ojson (assoc key kv)) (fun x9 =>
                bind (py_for x9 [] (fun m st => bind (convert_dict_to_array_gen R rt m) (fun y => Val (py_append st y))))
                     (fun st => Val (Some st)))
           else Val None) = frames_read rt key kv.
Proof.
  intros R rt key kv. unfold frames_read. destruct (assoc key kv) as [j|]; [|reflexivity].
  cbn [py_truthy_ojson]. destruct (jt_truthy rt j); [|reflexivity].
  cbn [py_iter_ojson]. unfold py_iter_json. destruct (py_iter j) as [l|]; [|reflexivity].
  cbn [bind]. rewrite res_opt_bind, collect_loop.
  rewrite (mapM_ext _ _ _ (dict_to_arr rt) l (convert_dict_to_array_gen_eq R rt)).
  destruct (mapM (dict_to_arr rt) l); reflexivity.
Qed.

Theorem ExpectationValues_from_dict_gen_eq : forall (R : Type) (rt : R -> bool) (j : jt R),
  res_opt (ExpectationValues_from_dict_gen R rt j) = ev_from_dict rt j.
Proof.
  intros R rt j. unfold ExpectationValues_from_dict_gen, ev_from_dict.
  destruct j as [| r | s | l | kv]; try reflexivity.
  cbn [py_getitem]. destruct (assoc "expectation_values" kv) as [jv|]; [|reflexivity].
  cbn [bind]. rewrite res_opt_bind, convert_dict_to_array_gen_eq.
  destruct (dict_to_arr rt jv) as [v|]; [|reflexivity].
  cbv zeta. cbn [py_get bind].
  rewrite res_opt_bind.
  match goal with |- context [res_opt (if ?c then ?a else ?b)] =>
    replace (res_opt (if c then a else b)) with (frames_read rt "correlations" kv) by (symmetry; apply frames_block_eq) end.
  destruct (frames_read rt "correlations" kv) as [c|]; [|reflexivity].
  rewrite res_opt_bind.
  match goal with |- context [res_opt (if ?c then ?a else ?b)] =>
    replace (res_opt (if c then a else b)) with (frames_read rt "estimator_covariances" kv) by (symmetry; apply frames_block_eq) end.
  destruct (frames_read rt "estimator_covariances" kv) as [k|]; reflexivity.
Qed.

(* ---------------------------------------------------------------- files: what the wrappers are compared with *)
(* the text a LoadSource delivers: the file at the path, or what the open file holds *)
Definition src_text (fs : pyfs) (x : loadsrc) : option string :=
  match x with SrcPath p => fs p | SrcFile t => Some t end.
(* load: read the text, parse it, hand the tree to the dictionary-level loader f *)
Definition load_via {R A} (loads : string -> option (jt R)) (fs : pyfs) (x : loadsrc) (f : jt R -> option A) : option A :=
  match src_text fs x with
  | Some t => match loads t with Some j => f j | None => None end
  | None => None
  end.
(* save: afterwards the file at p holds exactly the text t, every other file is as before *)
Definition saved (fs : pyfs) (p t : string) (r : pyres pyfs) : Prop :=
  exists fs', r = Val fs' /\ forall q, fs' q = if String.eqb q p then Some t else fs q.

Lemma saved_intro : forall fs p t, saved fs p t (Val (py_fwrite (py_open_w fs p) p t)).
Proof.
  intros fs p t. eexists. split; [reflexivity|]. intro q. unfold py_fwrite, py_open_w.
  destruct (String.eqb q p); [|reflexivity]. rewrite String.eqb_refl. reflexivity.
Qed.

Lemma load_block_eq : forall R (loads : string -> option (jt R)) fs file,
  res_opt (if py_is_pathlike file
           then bind (py_open_r fs file) (fun f => bind (py_json_load loads f) (fun x => Val x))
           else bind (py_json_load loads file) (fun x => Val x))
  = load_via loads fs file Some.
Proof.
  intros R loads fs [p|t]; unfold load_via; cbn.
  - destruct (fs p) as [t|]; cbn; [|reflexivity]. destruct (loads t); reflexivity.
  - destruct (loads t); reflexivity.
Qed.

Lemma load_via_bind : forall R A (loads : string -> option (jt R)) fs file (f : jt R -> option A),
  load_via loads fs file f = match load_via loads fs file Some with Some j => f j | None => None end.
Proof. intros. unfold load_via. destruct (src_text fs file) as [t|]; [|reflexivity]. destruct (loads t); reflexivity. Qed.

Ltac load_step :=
  rewrite res_opt_bind;
  match goal with |- context [res_opt (if ?c then ?a else ?b)] =>
    replace (res_opt (if c then a else b)) with (load_via (A:=_) _ _ _ Some) by (symmetry; apply load_block_eq) end.

Theorem load_list_gen_eq : forall (R : Type) (loads : string -> option (jt R)) (file : loadsrc) (fs : pyfs),
  res_opt (load_list_gen R loads file fs) = load_via loads fs file (keyed_from_dict "list").
Proof.
  intros R loads file fs. unfold load_list_gen. rewrite res_opt_bind.
  rewrite (load_via_bind _ _ loads fs file (keyed_from_dict "list")).
  replace (load_via loads fs file Some) with
    (res_opt (if py_is_pathlike file
              then bind (py_open_r fs file) (fun f => bind (py_json_load loads f) (fun x => Val x))
              else bind (py_json_load loads file) (fun x => Val x))) by apply load_block_eq.
  match goal with |- match ?x with _ => _ end = match ?y with _ => _ end => change y with x; destruct x as [j|] end; [|reflexivity].
  destruct j as [| r | s | l | kv]; try reflexivity. cbn. destruct (assoc "list" kv); reflexivity.
Qed.

Theorem save_list_gen_eq : forall (R : Type) (dumps : jt R -> string) (l : list (jt R)) (p : string) (fs : pyfs),
  saved fs p (dumps (keyed_to_dict "list" l)) (save_list_gen R dumps l p fs).
Proof. intros. apply saved_intro. Qed.

Theorem save_nmeas_estimate_gen_eq : forall (R : Type) (dumps : jt R -> string) (k n : R) (p : string)
  (fm : option (arr R)) (fs : pyfs),
  saved fs p (dumps (nmeas_to_dict k n fm)) (save_nmeas_estimate_gen R dumps k n p fm fs).
Proof.
  intros. unfold save_nmeas_estimate_gen, nmeas_to_dict. destruct fm as [a|]; cbn [bind py_setitem dict_set String.eqb Ascii.eqb Bool.eqb].
  - rewrite convert_array_to_dict_gen_eq. apply saved_intro.
  - apply saved_intro.
Qed.

Theorem load_nmeas_estimate_gen_eq : forall (R : Type) (rt : R -> bool) (loads : string -> option (jt R)) (p : string) (fs : pyfs),
  res_opt (load_nmeas_estimate_gen R rt loads p fs) = load_via loads fs (SrcPath p) (nmeas_from_dict rt).
Proof.
  intros. unfold load_nmeas_estimate_gen, load_via. cbn [py_open_r src_text].
  destruct (fs p) as [t|]; [|reflexivity]. cbn [bind py_json_load]. destruct (loads t) as [j|]; [|reflexivity].
  cbn [bind]. cbv zeta. unfold nmeas_from_dict.
  destruct j as [| r | s | l | kv]; try reflexivity.
  cbn [py_contains_key bind py_getitem]. destruct (assoc "frame_meas" kv) as [jf|]; cbn [bind].
  - rewrite 2 res_opt_bind, convert_dict_to_array_gen_eq. destruct (dict_to_arr rt jf) as [a|]; [|reflexivity].
    cbn [bind option_map]. destruct (assoc "K" kv), (assoc "nterms" kv); reflexivity.
  - destruct (assoc "K" kv), (assoc "nterms" kv); reflexivity.
Qed.

(* the same loop with any body that does this *)
Lemma append_loop_ext : forall R A (g : A -> jt R) (k : string) (body : A -> jt R -> pyres (jt R)) (l : list A) kv acc,
  (forall x d, body x d = bind (py_getitem d k) (fun x13 => bind (py_list_of x13) (fun x14 =>
                          bind (py_setitem d k (TArr (py_append x14 (g x)))) (fun d => Val d)))) ->
  assoc k kv = Some (TArr acc) ->
  py_for l (TObj kv) body = Val (TObj (dict_set k (TArr (acc ++ map g l)) kv)).
Proof.
  intros R A g k body l kv acc Hb. revert kv acc. induction l as [|x l IH]; intros kv acc Hk; cbn [py_for map].
  - rewrite app_nil_r, dict_set_id by exact Hk. reflexivity.
  - rewrite Hb. cbn [py_getitem]. rewrite Hk. cbn [bind py_list_of py_setitem].
    rewrite (IH _ (py_append acc (g x))) by apply assoc_dict_set_same.
    rewrite dict_set_twice. unfold py_append. rewrite <- app_assoc. reflexivity.
Qed.

Theorem convert_op_to_dict_gen_eq : forall (R : Type) (of_nat : nat -> R) (s : list (sterm R)),
  convert_op_to_dict_gen R of_nat s = Val (op_to_dict of_nat s).
Proof.
  intros R of_nat s. unfold convert_op_to_dict_gen, op_to_dict, op_terms.
  cbn [bind py_setitem dict_set]. cbv zeta.
  erewrite (append_loop_ext R _ (term_to_jt of_nat) "terms" _ s _ []); [reflexivity| |reflexivity].
  intros [c ops] d. destruct c; reflexivity.
Qed.

(* a loop that folds the values it computes into an accumulator *)
Lemma fold_loop : forall A B S (r : A -> option B) (h : S -> B -> S) (body : A -> S -> pyres S) (l : list A) (acc : S),
  (forall x st, res_opt (body x st) = option_map (h st) (r x)) ->
  res_opt (py_for l acc body) = option_map (fun ys => fold_left h ys acc) (mapM r l).
Proof.
  intros A B S r h body l acc Hb. revert acc. induction l as [|x l IH]; intro acc; cbn [py_for mapM]; [reflexivity|].
  rewrite res_opt_bind, Hb. destruct (r x) as [y|]; cbn [option_map]; [|reflexivity].
  rewrite IH. destruct (mapM r l); reflexivity.
Qed.

Lemma mapM_compose : forall A B C (g : A -> option B) (h : B -> option C) (l : list A),
  mapM (fun x => match g x with Some y => h y | None => None end) l
  = match mapM g l with Some ys => mapM h ys | None => None end.
Proof.
  intros A B C g h l. induction l as [|x l IH]; cbn [mapM]; [reflexivity|].
  destruct (g x) as [y|]; [|reflexivity]. rewrite IH. destruct (mapM g l) as [ys|]; cbn [mapM]; [|destruct (h y); reflexivity].
  reflexivity.
Qed.

(* the (op, qubit) pair read from one entry of "pauli_ops" *)
Definition pair_of {R} (j : jt R) : option (jt R * jt R) :=
  match j with
  | TObj kv => match assoc "op" kv, assoc "qubit" kv with Some a, Some b => Some (a, b) | _, _ => None end
  | _ => None
  end.

Lemma pairs_loop_eq : forall R (l : list (jt R)) acc,
  res_opt (py_for l acc (fun p st => bind (py_getitem p "op") (fun a => bind (py_getitem p "qubit") (fun b =>
                                     Val (py_append st (a, b))))))
  = option_map (app acc) (mapM pair_of l).
Proof.
  intros R l. induction l as [|p l IH]; intro acc; cbn [py_for mapM].
  - cbn. rewrite app_nil_r. reflexivity.
  - destruct p as [| r | s | l' | kv]; try reflexivity. cbn [py_getitem pair_of].
    destruct (assoc "op" kv) as [a|]; [|reflexivity]. cbn [bind].
    destruct (assoc "qubit" kv) as [b|]; [|reflexivity]. cbn [bind]. rewrite IH. unfold py_append.
    destruct (mapM pair_of l); cbn; [rewrite <- app_assoc|]; reflexivity.
Qed.

Lemma read_pauli_op_split : forall R (to_nat : R -> option nat) (j : jt R),
  read_pauli_op to_nat j = match pair_of j with Some p => py_read_factor to_nat p | None => None end.
Proof.
  intros R to_nat j. destruct j as [| r | s | l | kv]; try reflexivity. cbn [read_pauli_op pair_of].
  destruct (assoc "op" kv) as [a|]; [|reflexivity]. destruct (assoc "qubit" kv) as [b|].
  - destruct a; reflexivity.
  - destruct a; reflexivity.
Qed.

Lemma fold_left_map : forall A B S (f : A -> B) (h : S -> B -> S) l acc,
  fold_left h (map f l) acc = fold_left (fun a x => h a (f x)) l acc.
Proof. intros A B S f h l. induction l as [|x l IH]; intro acc; cbn; [reflexivity|apply IH]. Qed.

Section DictToOp.
  Variable R : Type.
  Variable rt : R -> bool.
  Variable to_nat : R -> option nat.
  Variable K : cring.
  Variable is_zero : K -> bool.
  Variable inj : R -> K.

  Theorem convert_dict_to_op_gen_eq : forall j : jt R,
    res_opt (convert_dict_to_op_gen R rt to_nat K is_zero inj j) = dict_to_op is_zero rt inj to_nat j.
  Proof.
    intro j. unfold convert_dict_to_op_gen, dict_to_op, dict_to_terms.
    destruct j as [| r | s | l | kv]; try reflexivity.
    cbn [py_getitem]. destruct (assoc "terms" kv) as [jl|]; [|reflexivity].
    cbn [bind]. unfold py_iter_json. destruct (py_iter jl) as [l|]; [|reflexivity].
    cbn [bind]. rewrite res_opt_bind.
    erewrite (fold_loop _ _ _ (read_term rt to_nat) (fun acc t => py_sum_iadd is_zero inj acc t)).
    - destruct (mapM (read_term rt to_nat) l) as [ts|]; [|reflexivity]. cbn [option_map res_opt].
      unfold add_all. rewrite fold_left_map. reflexivity.
    - intros td acc. cbv zeta. unfold read_term.
      destruct td as [| r | s | l' | kvt]; try reflexivity.
      cbn [py_getitem]. destruct (assoc "pauli_ops" kvt) as [jo|]; [|reflexivity].
      cbn [bind]. unfold read_ops. destruct (py_iter jo) as [lo|]; [|destruct (assoc "coefficient" kvt); reflexivity].
      cbn [bind]. rewrite res_opt_bind.
      match goal with |- context [res_opt (py_for lo [] ?B)] =>
        replace (res_opt (py_for lo [] B)) with (option_map (app []) (mapM pair_of lo)) by (symmetry; apply pairs_loop_eq) end.
      rewrite (mapM_ext _ _ _ _ lo (read_pauli_op_split R to_nat)), mapM_compose.
      destruct (mapM pair_of lo) as [pairs|]; [|destruct (assoc "coefficient" kvt); reflexivity].
      cbn [option_map app].
      destruct (assoc "coefficient" kvt) as [jc|]; [|reflexivity]. cbn [bind].
      unfold read_coef.
      destruct jc as [| r | s | l' | kvc]; try (destruct (mapM (py_read_factor to_nat) pairs) as [qs|]; [destruct (nodupb (map fst qs))|]; reflexivity).
      cbn [py_getitem py_get]. destruct (assoc "real" kvc) as [ja|];
        [|destruct (mapM (py_read_factor to_nat) pairs) as [qs|]; [destruct (nodupb (map fst qs))|]; reflexivity].
      cbn [bind]. destruct (assoc "imag" kvc) as [ji|]; cbn [py_truthy_ojson].
      + destruct (jt_truthy rt ji); cbn [bind].
        * unfold py_from_iterable.
          destruct ja, ji; cbn [py_add_imag bind]; try (destruct (mapM (py_read_factor to_nat) pairs) as [qs|]; [destruct (nodupb (map fst qs))|]; reflexivity).
        * unfold py_from_iterable.
          destruct ja; cbn [bind]; destruct (mapM (py_read_factor to_nat) pairs) as [qs|]; try reflexivity; destruct (nodupb (map fst qs)); reflexivity.
      + unfold py_from_iterable.
        destruct ja; cbn [bind]; destruct (mapM (py_read_factor to_nat) pairs) as [qs|]; try reflexivity; destruct (nodupb (map fst qs)); reflexivity.
  Qed.
End DictToOp.

Theorem save_operator_gen_eq : forall (R : Type) (of_nat : nat -> R) (dumps : jt R -> string) (s : list (sterm R))
  (p : string) (fs : pyfs),
  saved fs p (dumps (op_to_dict of_nat s)) (save_operator_gen R of_nat dumps s p fs).
Proof. intros. unfold save_operator_gen. cbv zeta. rewrite convert_op_to_dict_gen_eq. apply saved_intro. Qed.

Theorem save_operator_set_gen_eq : forall (R : Type) (of_nat : nat -> R) (dumps : jt R -> string)
  (l : list (list (sterm R))) (p : string) (fs : pyfs),
  saved fs p (dumps (opset_to_dict of_nat l)) (save_operator_set_gen R of_nat dumps l p fs).
Proof.
  intros. unfold save_operator_set_gen, opset_to_dict. cbv zeta. cbn [bind py_setitem dict_set].
  erewrite (append_loop R _ (convert_op_to_dict_gen R of_nat) (op_to_dict of_nat) "operators" l _ []
              (convert_op_to_dict_gen_eq R of_nat)) by reflexivity.
  apply saved_intro.
Qed.

Section Load.
  Variable R : Type.
  Variable rt : R -> bool.
  Variable to_nat : R -> option nat.
  Variable K : cring.
  Variable is_zero : K -> bool.
  Variable inj : R -> K.
  Variable loads : string -> option (jt R).

  Theorem load_operator_gen_eq : forall (file : loadsrc) (fs : pyfs),
    res_opt (load_operator_gen R rt to_nat K is_zero inj loads file fs)
    = load_via loads fs file (dict_to_op is_zero rt inj to_nat).
  Proof.
    intros file fs. unfold load_operator_gen. rewrite res_opt_bind.
    rewrite (load_via_bind _ _ loads fs file).
    match goal with |- context [res_opt (if ?c then ?a else ?b)] =>
      replace (res_opt (if c then a else b)) with (load_via loads fs file Some) by (symmetry; apply load_block_eq) end.
    destruct (load_via loads fs file Some) as [j|]; [|reflexivity].
    rewrite res_opt_bind, convert_dict_to_op_gen_eq. destruct (dict_to_op is_zero rt inj to_nat j); reflexivity.
  Qed.

  Theorem load_operator_set_gen_eq : forall (file : loadsrc) (fs : pyfs),
    res_opt (load_operator_set_gen R rt to_nat K is_zero inj loads file fs)
    = load_via loads fs file (dict_to_opset is_zero rt inj to_nat).
  Proof.
    intros file fs. unfold load_operator_set_gen. rewrite res_opt_bind.
    rewrite (load_via_bind _ _ loads fs file).
    match goal with |- context [res_opt (if ?c then ?a else ?b)] =>
      replace (res_opt (if c then a else b)) with (load_via loads fs file Some) by (symmetry; apply load_block_eq) end.
    destruct (load_via loads fs file Some) as [j|]; [|reflexivity].
    cbv zeta. unfold dict_to_opset. destruct j as [| r | s | l | kv]; try reflexivity.
    cbn [py_getitem]. destruct (assoc "operators" kv) as [jo|]; [|reflexivity].
    cbn [bind]. unfold py_iter_json. destruct (py_iter jo) as [l|]; [|reflexivity].
    cbn [bind]. rewrite res_opt_bind, collect_loop.
    rewrite (mapM_ext _ _ _ _ l (convert_dict_to_op_gen_eq R rt to_nat K is_zero inj)).
    change (psum K) with (list (term K)).
    generalize (@mapM (jt R) (list (term K)) (dict_to_op is_zero rt inj to_nat) l). intros [x|]; reflexivity.
  Qed.
End Load.

Lemma py_comp_val : forall A B (f : A -> pyres B) (g : A -> B) l,
  (forall a, In a l -> f a = Val (g a)) -> py_comp f l = Val (map g l).
Proof.
  intros A B f g l. induction l as [|x l IH]; intro H; cbn [py_comp map]; [reflexivity|].
  rewrite H by (left; reflexivity). cbn [bind]. rewrite IH by (intros a Ha; apply H; right; exact Ha). reflexivity.
Qed.

Lemma py_ops_get_in : forall (l : list (nat * letter)) q a d,
  NoDup (map fst l) -> In (q, a) l -> py_ops_get l q d = letter_str a.
Proof.
  intros l q a d. induction l as [|[k b] l IH]; intros Hnd Hin; [destruct Hin|].
  cbn [py_ops_get]. inversion Hnd as [|? ? Hk Hnd']; subst. destruct Hin as [E|Hin].
  - inversion E; subst. rewrite Nat.eqb_refl. reflexivity.
  - destruct (Nat.eqb q k) eqn:E.
    + apply Nat.eqb_eq in E. subst k. exfalso. apply Hk. apply (in_map fst) in Hin. exact Hin.
    + apply IH; assumption.
Qed.

Section Repr.
  Variable C : Type.
  Variable show_c : C -> string.
  Variable c_zero : C.

  (* what the translated __repr__ computes on every input: the letter is looked up by index (first entry wins) *)
  Theorem PauliTerm_repr_gen_spec : forall t : tterm C,
    PauliTerm_repr_gen C show_c t
    = Val ((show_c (fst t) ++ "*" ++ String.concat "*"
             (match snd t with
              | [] => ["I"]
              | l => map (fun ql => (py_ops_get l (fst ql) "I" ++ dec (N.of_nat (fst ql)))%string) l
              end))%string).
  Proof.
    intros [c l]. unfold PauliTerm_repr_gen. cbn [tterm_ops tterm_coefficient fst snd].
    rewrite (py_comp_val _ _ _ (fun i => (py_ops_get l i "I" ++ dec (N.of_nat i))%string)).
    - cbn [bind]. cbv zeta. rewrite map_map. destruct l as [|ql l]; reflexivity.
    - intros i _. unfold PauliTerm_getitem_gen. cbn [tterm_ops snd].
      destruct (negb (py_ops_contains i l)); reflexivity.
  Qed.

  (* on a dict (distinct keys) this is the model's repr_term *)
  Theorem PauliTerm_repr_gen_eq : forall t : tterm C, NoDup (map fst (snd t)) ->
    PauliTerm_repr_gen C show_c t = Val (repr_term show_c t).
  Proof.
    intros [c l] Hnd. rewrite PauliTerm_repr_gen_spec. unfold repr_term, op_parts. cbn [fst snd] in *.
    destruct l as [|ql l]; [reflexivity|]. do 4 f_equal.
    apply map_ext_in. intros [q a] Hin. unfold repr_op. cbn [fst snd].
    rewrite (py_ops_get_in _ q a "I" Hnd Hin). reflexivity.
  Qed.

  Theorem PauliSum_repr_gen_eq : forall s : list (tterm C), Forall (fun t => NoDup (map fst (snd t))) s ->
    PauliSum_repr_gen C show_c c_zero s = Val (repr_sum show_c c_zero s).
  Proof.
    intros s Hs. unfold PauliSum_repr_gen, PauliSum_len_gen, tsum_terms. cbn [bind].
    destruct s as [|t s].
    - cbn [py_len List.length Z.of_nat Z.eqb]. cbv zeta. unfold py_PauliTerm_factor. cbn [letter_of_str String.eqb Ascii.eqb Bool.eqb].
      rewrite PauliTerm_repr_gen_eq by constructor. reflexivity.
    - unfold py_len. cbn [List.length Z.of_nat Z.eqb].
      rewrite (py_comp_val _ _ _ (repr_term show_c)).
      + reflexivity.
      + intros a Ha. rewrite PauliTerm_repr_gen_eq; [reflexivity|]. rewrite Forall_forall in Hs. apply Hs, Ha.
  Qed.
End Repr.

(* the str a factor's letter is returned as: "X" "Y" "Z", or "I" *)
Definition oletter_str (a : option letter) : string := match a with Some l => letter_str l | None => "I" end.

Lemma pauli_char_facts : forall c a, letter_of_char c = Some a ->
  plain_char c = true /\ String (upper_char c) EmptyString = oletter_str a.
Proof.
  intros c a. destruct c as [[] [] [] [] [] [] [] []]; cbn; intro H; inversion H; subst; split; reflexivity.
Qed.

Lemma digit_plain_char : forall c, is_digit c = true -> plain_char c = true.
Proof. intro c. destruct c as [[] [] [] [] [] [] [] []]; cbn; intro H; try discriminate; reflexivity. Qed.

Lemma all_digits_plain : forall r, all_digits r = true -> all_chars plain_char r = true.
Proof.
  induction r as [|c r IH]; cbn; [reflexivity|]. intro H. apply andb_true_iff in H. destruct H as [H1 H2].
  rewrite (digit_plain_char c H1), (IH H2). reflexivity.
Qed.

Theorem parse_operator_gen_eq : forall s : string,
  res_opt (parse_operator_gen s) = option_map (fun qa => (fst qa, oletter_str (snd qa))) (parse_op s).
Proof.
  intro s. unfold parse_operator_gen, parse_op, re_match_factor.
  destruct s as [|c r].
  - reflexivity.
  - unfold is_pauli_char. destruct (letter_of_char c) as [a|] eqn:Ec.
    + destruct (pauli_char_facts c a Ec) as [Hp Hu].
      cbn [all_chars]. rewrite Hp. cbn [andb].
      destruct (isdigit r) eqn:Ed.
      * assert (Hr : all_chars plain_char r = true).
        { apply all_digits_plain. unfold isdigit in Ed. destruct r; [discriminate|exact Ed]. }
        rewrite Hr. cbn [bind]. cbv zeta. cbn [py_is_some negb py_match_group bind]. unfold py_int_of_str. rewrite Ed.
        cbn [bind py_upper res_opt option_map fst snd]. rewrite Hu. reflexivity.
      * destruct (all_chars plain_char r); reflexivity.
    + cbn [andb]. destruct (all_chars plain_char (String c r)); reflexivity.
Qed.

Lemma split_on_cons : forall sep s, exists p ps, split_on sep s = p :: ps.
Proof.
  intros sep s. induction s as [|c r IH]; cbn; [eauto|].
  destruct (Ascii.eqb c sep); [eauto|]. destruct IH as [p [ps E]]. rewrite E. eauto.
Qed.

Lemma upper_char_I : forall c, Ascii.eqb (upper_char c) "I" = (Ascii.eqb c "I" || Ascii.eqb c "i")%bool.
Proof. intro c. destruct c as [[] [] [] [] [] [] [] []]; reflexivity. Qed.

Lemma upper_bare_I : forall p, String.eqb (py_upper p) "I" = is_bare_I p.
Proof.
  intro p. unfold is_bare_I. destruct p as [|c r]; [reflexivity|]. cbn [py_upper String.eqb].
  rewrite upper_char_I. destruct r as [|d r]; cbn [py_upper String.eqb].
  - destruct (Ascii.eqb c "I"), (Ascii.eqb c "i"); reflexivity.
  - destruct (Ascii.eqb c "I"), (Ascii.eqb c "i"); reflexivity.
Qed.

Lemma py_comp_mapM : forall A B (f : A -> pyres B) l, res_opt (py_comp f l) = mapM (fun x => res_opt (f x)) l.
Proof.
  intros A B f l. induction l as [|x l IH]; cbn [py_comp mapM]; [reflexivity|].
  destruct (f x) as [y|e]; cbn [bind res_opt]; [|reflexivity].
  rewrite res_opt_bind, IH. destruct (mapM (fun x0 => res_opt (f x0)) l); reflexivity.
Qed.

Lemma mapM_option_map : forall A B C (h : A -> option B) (g : B -> C) l,
  mapM (fun x => option_map g (h x)) l = option_map (map g) (mapM h l).
Proof.
  intros A B C h g l. induction l as [|x l IH]; cbn [mapM]; [reflexivity|].
  destruct (h x) as [y|]; cbn [option_map]; [|reflexivity]. rewrite IH. destruct (mapM h l); reflexivity.
Qed.

Lemma res_opt_some : forall A (r : pyres A) a, res_opt r = Some a -> r = Val a.
Proof. intros A [x|e] a H; inversion H; reflexivity. Qed.

Lemma bind_val_r : forall A (r : pyres A), bind r (fun x => Val x) = r.
Proof. intros A [x|e]; reflexivity. Qed.

(* ---- dict(pairs): no key twice <-> nothing is lost *)
Lemma nodupb_true_iff : forall l, nodupb l = true <-> NoDup l.
Proof.
  induction l as [|x l IH]; cbn; [split; [constructor|reflexivity]|].
  rewrite andb_true_iff, negb_true_iff, IH. split.
  - intros [H1 H2]. constructor; [|exact H2]. intro Hin. assert (existsb (Nat.eqb x) l = true).
    { apply existsb_exists. exists x. split; [exact Hin|apply Nat.eqb_refl]. } congruence.
  - intro H. inversion H as [|? ? Hn Hd]; subst. split; [|exact Hd].
    destruct (existsb (Nat.eqb x) l) eqn:E; [|reflexivity]. apply existsb_exists in E. destruct E as [y [Hy Ey]].
    apply Nat.eqb_eq in Ey. subst y. contradiction.
Qed.

Lemma idict_set_new : forall k v d, ~ In k (map fst d) -> idict_set k v d = d ++ [(k, v)].
Proof.
  intros k v d. induction d as [|[k' v'] d IH]; cbn; intro H; [reflexivity|].
  destruct (Nat.eqb k k') eqn:E; [apply Nat.eqb_eq in E; subst; exfalso; apply H; left; reflexivity|].
  rewrite IH by (intro Hin; apply H; right; exact Hin). reflexivity.
Qed.

Lemma idict_set_old : forall k v d, In k (map fst d) -> List.length (idict_set k v d) = List.length d.
Proof.
  intros k v d. induction d as [|[k' v'] d IH]; cbn; intro H; [destruct H|].
  destruct (Nat.eqb k k') eqn:E; [reflexivity|]. cbn. f_equal. apply IH. destruct H as [H|H]; [|exact H].
  subst k'. rewrite Nat.eqb_refl in E. discriminate.
Qed.

Lemma idict_set_len : forall k v d, (List.length (idict_set k v d) <= S (List.length d))%nat.
Proof.
  intros k v d. induction d as [|[k' v'] d IH]; cbn; [lia|]. destruct (Nat.eqb k k'); cbn; lia.
Qed.

Lemma fold_dict_len : forall l d,
  (List.length (fold_left (fun d kv => idict_set (fst kv) (snd kv) d) l d) <= List.length d + List.length l)%nat.
Proof.
  induction l as [|[k v] l IH]; intro d; cbn [fold_left List.length fst snd]; [lia|].
  specialize (IH (idict_set k v d)). pose proof (idict_set_len k v d). lia.
Qed.

Lemma NoDup_app_snoc : forall (l : list nat) k, ~ In k l -> NoDup l -> NoDup (l ++ [k]).
Proof.
  induction l as [|x l IH]; cbn; intros k Hk Hd; [constructor; [intros []|constructor]|].
  inversion Hd as [|? ? Hx Hd']; subst. constructor.
  - intro Hin. apply in_app_or in Hin. destruct Hin as [Hin|[E|[]]]; [contradiction|]. subst. apply Hk. left. reflexivity.
  - apply IH; [intro Hin; apply Hk; right; exact Hin|exact Hd'].
Qed.

Lemma fold_dict : forall (l d : list (nat * string)),
  (NoDup (map fst d ++ map fst l) -> fold_left (fun d kv => idict_set (fst kv) (snd kv) d) l d = d ++ l) /\
  (~ NoDup (map fst d ++ map fst l) -> NoDup (map fst d) ->
   (List.length (fold_left (fun d kv => idict_set (fst kv) (snd kv) d) l d) < List.length d + List.length l)%nat).
Proof.
  induction l as [|[k v] l IH]; intro d; cbn [fold_left map fst snd List.length].
  - rewrite !app_nil_r. split; [reflexivity|]. intros H1 H2. contradiction.
  - split.
    + intro H. assert (Hk : ~ In k (map fst d)).
      { intro Hin. apply NoDup_remove_2 in H. apply H. apply in_or_app. left. exact Hin. }
      rewrite (idict_set_new k v d Hk). destruct (IH (d ++ [(k, v)])) as [IH1 _].
      rewrite IH1; [rewrite <- app_assoc; reflexivity|]. rewrite map_app, <- app_assoc. exact H.
    + intros H Hd. destruct (in_dec Nat.eq_dec k (map fst d)) as [Hin|Hnin].
      * pose proof (fold_dict_len l (idict_set k v d)) as Hl. rewrite (idict_set_old k v d Hin) in Hl. lia.
      * rewrite (idict_set_new k v d Hnin). destruct (IH (d ++ [(k, v)])) as [_ IH2].
        assert (Hd' : NoDup (map fst (d ++ [(k, v)]))).
        { rewrite map_app. cbn. apply NoDup_app_snoc; assumption. }
        specialize (IH2 (fun Hn => H ltac:(rewrite map_app, <- app_assoc in Hn; exact Hn)) Hd').
        rewrite app_length in IH2. cbn in IH2. lia.
Qed.

(* hand-written reading of what PauliTerm.__init__ does with the result of _parse_operators_and_coefficient
   (its string branch; __init__ itself is not translated): every operator must be one of "X" "Y" "Z" "I"
   (ValueError otherwise), identities are dropped, a missing coefficient is 1.0 *)
Definition init_from_parsed {C} (c_one : C) (r : option C * list (nat * string)) : option (tterm C) :=
  option_map (fun qs => (match fst r with Some c => c | None => c_one end, drop_identity qs))
             (mapM (fun kv => option_map (fun a => (fst kv, a)) (read_letter (snd kv))) (snd r)).

Definition conv (qa : nat * option letter) : nat * string := (fst qa, oletter_str (snd qa)).

Lemma read_back : forall qs : list (nat * option letter),
  mapM (fun kv => option_map (fun a => (fst kv, a)) (read_letter (snd kv))) (map conv qs) = Some qs.
Proof.
  induction qs as [|[q a] qs IH]; cbn [map mapM]; [reflexivity|].
  rewrite IH. destruct a as [[]|]; reflexivity.
Qed.

Lemma dict_of_pairs_nodup : forall l : list (nat * string), NoDup (map fst l) -> py_dict_of_pairs l = l.
Proof. intros l H. unfold py_dict_of_pairs. destruct (fold_dict l []) as [H1 _]. apply H1. exact H. Qed.

Lemma dict_of_pairs_dup : forall l : list (nat * string), ~ NoDup (map fst l) ->
  Z.eqb (py_len (py_dict_of_pairs l)) (py_len l) = false.
Proof.
  intros l H. unfold py_dict_of_pairs, py_len. destruct (fold_dict l []) as [_ H2].
  specialize (H2 H (NoDup_nil _)). cbn [List.length] in H2. apply Z.eqb_neq. lia.
Qed.

Section Parse.
  Variable C : Type.
  Variable read_c : string -> option C.
  Variable c_one : C.

  Theorem parse_operators_and_coefficient_gen_eq : forall s : string,
    parse_term read_c c_one s
    = match res_opt (parse_operators_and_coefficient_gen C read_c s) with
      | Some r => init_from_parsed c_one r
      | None => None
      end.
  Proof.
    intro s. unfold parse_operators_and_coefficient_gen, parse_term. cbv zeta.
    change (re_split_star (py_strip_spaces s)) with (star_parts s).
    assert (Hp : exists p ps, star_parts s = p :: ps).
    { unfold star_parts. destruct (split_on_cons "*" (strip s)) as [p [ps E]]. rewrite E. cbn. eauto. }
    destruct Hp as [p [ps E]]. rewrite E. cbn [hd tl py_list_head py_list_from1 bind]. unfold py_parse_complex.
    assert (T : forall (co : option C) (strs : list string),
      match mapM parse_op (filter (fun p0 => negb (is_bare_I p0)) strs) with
      | Some qs => if nodupb (map fst qs) then Some (match co with Some c => c | None => c_one end, drop_identity qs) else None
      | None => None
      end
      = match res_opt
          (bind (py_comp (fun v => bind (parse_operator_gen v) (fun x => Val x))
                   (map (fun v => v) (py_filter (fun v => negb (String.eqb (py_upper v) "I")) strs))) (fun x6 =>
           if negb (Z.eqb (py_len (py_dict_of_pairs x6))
                          (py_len (map (fun v => v) (py_filter (fun v => negb (String.eqb (py_upper v) "I")) strs))))
           then Raise ValueError
           else bind (py_comp (fun v => bind (parse_operator_gen v) (fun x => Val x))
                        (map (fun v => v) (py_filter (fun v => negb (String.eqb (py_upper v) "I")) strs))) (fun x8 =>
                Val (co, py_dict_of_pairs x8)))) with
        | Some r => init_from_parsed c_one r
        | None => None
        end).
    { intros co strs. rewrite map_id. unfold py_filter.
      rewrite (filter_ext (fun v => negb (String.eqb (py_upper v) "I")) (fun p0 => negb (is_bare_I p0)))
        by (intro a; rewrite upper_bare_I; reflexivity).
      set (opstrs := filter (fun p0 => negb (is_bare_I p0)) strs).
      assert (Hc : res_opt (py_comp (fun v => bind (parse_operator_gen v) (fun x => Val x)) opstrs)
                   = option_map (map conv) (mapM parse_op opstrs)).
      { rewrite py_comp_mapM. rewrite <- mapM_option_map. apply mapM_ext. intro a. rewrite bind_val_r.
        apply parse_operator_gen_eq. }
      destruct (mapM parse_op opstrs) as [qs|] eqn:Eq.
      - apply res_opt_some in Hc. rewrite !Hc. cbn [bind].
        assert (Hlen : py_len opstrs = py_len (map conv qs)).
        { unfold py_len. rewrite map_length. f_equal.
          clear -Eq. revert qs Eq. induction opstrs as [|x l IH]; cbn [mapM]; intros qs Eq.
          - inversion Eq. reflexivity.
          - destruct (parse_op x); [|discriminate]. destruct (mapM parse_op l) as [ys|]; [|discriminate].
            inversion Eq. cbn. f_equal. apply IH. reflexivity. }
        rewrite Hlen.
        assert (Hf : map fst (map conv qs) = map fst qs) by (rewrite map_map; reflexivity).
        destruct (nodupb (map fst qs)) eqn:En.
        + apply nodupb_true_iff in En. rewrite dict_of_pairs_nodup by (rewrite Hf; exact En).
          rewrite Z.eqb_refl. cbn [negb res_opt]. unfold init_from_parsed. cbn [fst snd]. rewrite read_back. reflexivity.
        + rewrite dict_of_pairs_dup; [reflexivity|]. rewrite Hf. intro Hn. apply nodupb_true_iff in Hn. congruence.
      - rewrite res_opt_bind, Hc. reflexivity. }
    destruct (read_c p) as [c|]; cbn [bind py_try pyexn_eqb fst snd]; [exact (T (Some c) ps)|exact (T None (p :: ps))].
  Qed.
End Parse.

(* ---------------------------------------------------------------- an end-to-end consequence, about the generated code *)
(* whatever json codec is used, if reading what it wrote is the identity, load_list(save_list(l, p)) returns l *)
Theorem list_file_roundtrip : forall (R : Type) (dumps : jt R -> string) (loads : string -> option (jt R)),
  (forall j, loads (dumps j) = Some j) ->
  forall (l : list (jt R)) (p : string) (fs : pyfs),
  exists fs', save_list_gen R dumps l p fs = Val fs' /\
              res_opt (load_list_gen R loads (SrcPath p) fs') = Some (TArr l).
Proof.
  intros R dumps loads H l p fs. destruct (save_list_gen_eq R dumps l p fs) as [fs' [E Hfs]].
  exists fs'. split; [exact E|]. rewrite load_list_gen_eq. unfold load_via. cbn [src_text].
  rewrite Hfs, String.eqb_refl, H. reflexivity.
Qed.
