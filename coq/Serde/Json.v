(* JSON trees as json.loads returns them (property C05), and the string tests the circuit
   deserialiser dispatches with.  Objects keep insertion order, like Python dictionaries. *)
Require Import Coq.ZArith.ZArith Coq.NArith.NArith Coq.Lists.List Coq.Strings.String Coq.Strings.Ascii Coq.Bool.Bool.
Import ListNotations.
Open Scope string_scope.

(* a JSON / Python number: an int, or a float named by its repr (shortest text that reads back
   to the same double: float(repr(x)) == x, and json writes floats with repr) *)
Inductive num := NInt (z : Z) | NFloat (repr : string).

Inductive json :=
| JNull
| JBool (b : bool)
| JNum (n : num)
| JStr (s : string)
| JArr (l : list json)
| JObj (kv : list (string * json)).

(* ---------- str(int) ---------- *)
Definition digit_char (d : N) : ascii := ascii_of_N (48 + d).
Fixpoint show_N_aux (fuel : nat) (n : N) (acc : string) : string :=
  match fuel with
  | O => acc
  | S f => if N.eqb n 0 then acc else show_N_aux f (N.div n 10) (String (digit_char (N.modulo n 10)) acc)
  end.
Definition show_N (n : N) : string :=
  show_N_aux (N.to_nat (N.size n)) (N.div n 10) (String (digit_char (N.modulo n 10)) "").
Definition show_Z (z : Z) : string :=
  match z with
  | Zneg p => String "-" (show_N (Npos p))
  | _ => show_N (Z.to_N z)
  end.
Definition show_num (n : num) : string :=
  match n with NInt z => show_Z z | NFloat r => r end.

(* ---------- string tests ---------- *)
Definition chars (s : string) : list ascii := list_ascii_of_string s.
Fixpoint lprefix (p l : list ascii) : bool :=
  match p, l with
  | [], _ => true
  | a :: p', b :: l' => Ascii.eqb a b && lprefix p' l'
  | _ :: _, [] => false
  end.
(* str.endswith *)
Definition ends_with (suffix s : string) : bool := lprefix (rev (chars suffix)) (rev (chars s)).
(* sub in s *)
Fixpoint lcontains (sub l : list ascii) : bool :=
  lprefix sub l || match l with [] => false | _ :: r => lcontains sub r end.
Definition contains (sub s : string) : bool := lcontains (chars sub) (chars s).
Definition last_char (s : string) : option ascii :=
  match rev (chars s) with [] => None | c :: _ => Some c end.
Definition oascii_eqb (a b : option ascii) : bool :=
  match a, b with Some x, Some y => Ascii.eqb x y | None, None => true | _, _ => false end.

(* ---------- access ---------- *)
Fixpoint assoc {A} (k : string) (kv : list (string * A)) : option A :=
  match kv with
  | [] => None
  | (k', v) :: r => if String.eqb k k' then Some v else assoc k r
  end.

(* ---------- sizes (fuel for the recursive gate reader) ---------- *)
Fixpoint jdepth (j : json) : nat :=
  match j with
  | JArr l => S (fold_right Nat.max 0%nat (map jdepth l))
  | JObj kv => S (fold_right Nat.max 0%nat (map (fun p => jdepth (snd p)) kv))
  | _ => 0%nat
  end.

(* ---------- equality ---------- *)
Definition num_eqb (a b : num) : bool :=
  match a, b with
  | NInt x, NInt y => Z.eqb x y
  | NFloat x, NFloat y => String.eqb x y
  | _, _ => false
  end.
Fixpoint list_eqb {A} (e : A -> A -> bool) (l1 l2 : list A) : bool :=
  match l1, l2 with
  | [], [] => true
  | x :: r1, y :: r2 => e x y && list_eqb e r1 r2
  | _, _ => false
  end.
Fixpoint json_eqb (a b : json) {struct a} : bool :=
  match a, b with
  | JNull, JNull => true
  | JBool x, JBool y => Bool.eqb x y
  | JNum x, JNum y => num_eqb x y
  | JStr x, JStr y => String.eqb x y
  | JArr x, JArr y =>
      (fix go (l1 l2 : list json) : bool :=
         match l1, l2 with
         | [], [] => true
         | u :: r1, v :: r2 => json_eqb u v && go r1 r2
         | _, _ => false
         end) x y
  | JObj x, JObj y =>
      (fix go (l1 l2 : list (string * json)) : bool :=
         match l1, l2 with
         | [], [] => true
         | (k1, u) :: r1, (k2, v) :: r2 => String.eqb k1 k2 && json_eqb u v && go r1 r2
         | _, _ => false
         end) x y
  | _, _ => false
  end.
