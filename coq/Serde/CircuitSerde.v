(* Model of circuits/_serde.py (property C05): to_dict / circuit_from_dict on gate circuits, with the
   name properties of _gates.py and collect_custom_gate_definitions of _circuit.py.
   The table of module-level names of _builtin_gates.py (what `globals()[name]` finds) and the wrapper
   markers are generated from the source on every run (Gen/NamesGen.v).
   The text of gate arguments is abstract: [print] is sympy's str, [parse names text] is
   sympify(text, locals=_make_symbols_map(names)), [free] the names of an expression's free symbols. *)
Require Import Coq.ZArith.ZArith Coq.NArith.NArith Coq.Lists.List Coq.Strings.String Coq.Strings.Ascii Coq.Bool.Bool.
Require Import OQ.Gen.NamesGen OQ.Serde.Json.
Import ListNotations.
Open Scope string_scope.

(* outcome of a piece of the deserialiser: a value, KeyError (which _gate_from_dict catches to try the
   next reader), any other exception, or "outside the model" (Python goes on with an object that is not
   a gate / of a type the model does not represent; no claim is made) *)
Inductive res (A : Type) := Ok (a : A) | EKey | EErr | EUnmodelled.
Arguments Ok {A} a.
Arguments EKey {A}.
Arguments EErr {A}.
Arguments EUnmodelled {A}.
Definition bind {A B} (r : res A) (f : A -> res B) : res B :=
  match r with Ok a => f a | EKey => EKey | EErr => EErr | EUnmodelled => EUnmodelled end.
Notation "x <- r ;; k" := (bind r (fun x => k)) (at level 61, r at next level, right associativity).
(* a list comprehension: elements in order, the first exception wins *)
Fixpoint mapM {A B} (f : A -> res B) (l : list A) : res (list B) :=
  match l with
  | [] => Ok []
  | x :: r => y <- f x ;; ys <- mapM f r ;; Ok (y :: ys)
  end.

(* dict_[k] and dict_.get(k) *)
Definition jfield (k : string) (j : json) : res json :=
  match j with
  | JObj kv => match assoc k kv with Some v => Ok v | None => EKey end
  | _ => EErr
  end.
Definition jget (k : string) (j : json) : res (option json) :=
  match j with
  | JObj kv => Ok (assoc k kv)
  | _ => EErr
  end.
Definition as_list (o : option json) : res (list json) :=       (* .get(k, []) iterated *)
  match o with
  | None => Ok []
  | Some (JArr l) => Ok l
  | Some _ => EUnmodelled
  end.
Definition as_strings (l : list json) : res (list string) :=
  mapM (fun x => match x with JStr s => Ok s | _ => EUnmodelled end) l.
Definition as_ints (l : list json) : res (list Z) :=
  mapM (fun x => match x with JNum (NInt z) => Ok z | _ => EUnmodelled end) l.

(* sorted(set(names)) on str *)
Fixpoint insert_uniq (s : string) (l : list string) : list string :=
  match l with
  | [] => [s]
  | x :: r => if String.eqb s x then l else if String.ltb s x then s :: l else x :: insert_uniq s r
  end.
Definition sort_uniq (l : list string) : list string := fold_right insert_uniq [] l.

Definition is_pow2 (n : nat) : bool :=
  let m := N.of_nat n in negb (N.eqb m 0) && N.eqb (N.land m (m - 1)) 0.

(* ---------- _make_symbols_map: the locals handed to sympify ---------- *)
(* the pattern of _make_symbols_map - anything, then [digits] at the very end, greedy - gives the text
   before the last opening bracket and the int of the digits (names without line breaks) *)
Definition is_digit_char (c : ascii) : bool := let n := N_of_ascii c in N.leb 48 n && N.leb n 57.
Fixpoint span_digits (l : list ascii) : list ascii * list ascii :=
  match l with
  | c :: r => if is_digit_char c then let (d, rest) := span_digits r in (c :: d, rest) else ([], l)
  | [] => ([], [])
  end.
(* value of a digit string given least significant digit first *)
Fixpoint digits_value_rev (l : list ascii) : N :=
  match l with
  | [] => 0
  | c :: r => (N_of_ascii c - 48) + 10 * digits_value_rev r
  end%N.
Definition indexed_name (s : string) : option (string * N) :=
  match rev (chars s) with
  | c :: r =>
      if Ascii.eqb c "]"%char then
        match span_digits r with
        | (d :: ds, b :: base) =>
            if Ascii.eqb b "["%char then Some (string_of_list_ascii (rev base), digits_value_rev (d :: ds)) else None
        | _ => None
        end
      else None
  | [] => None
  end.

(* value stored under a key: a Symbol, or a dictionary index -> Symbol (by symbol name) *)
Inductive sment := SSym (name : string) | SDict (items : list (N * string)).
Definition symmap := list (string * sment).
Fixpoint set_key {A} (k : string) (v : A) (m : list (string * A)) : list (string * A) :=   (* d[k] = v *)
  match m with
  | [] => [(k, v)]
  | (k', v') :: r => if String.eqb k k' then (k, v) :: r else (k', v') :: set_key k v r
  end.
Fixpoint set_index (i : N) (v : string) (m : list (N * string)) : list (N * string) :=
  match m with
  | [] => [(i, v)]
  | (i', v') :: r => if N.eqb i i' then (i, v) :: r else (i', v') :: set_index i v r
  end.
Definition symmap_step (m : symmap) (name : string) : option symmap :=
  match indexed_name name with
  | Some (base, i) =>
      match assoc base m with                                    (* setdefault(base, {})[i] = Symbol(name) *)
      | None => Some (m ++ [(base, SDict [(i, name)])])%list
      | Some (SDict items) => Some (set_key base (SDict (set_index i name items)) m)
      | Some (SSym _) => None                                    (* TypeError: Symbol does not support item assignment *)
      end
  | None => Some (set_key name (SSym name) m)
  end.
Fixpoint make_symbols_map_from (m : symmap) (names : list string) : option symmap :=
  match names with
  | [] => Some m
  | n :: r => match symmap_step m n with Some m' => make_symbols_map_from m' r | None => None end
  end.
Definition make_symbols_map (names : list string) : option symmap := make_symbols_map_from [] names.
(* every given name is still reachable in the finished map: x -> Symbol x, b[i] -> map[b][i] = Symbol b[i] *)
Fixpoint assocN {A} (k : N) (kv : list (N * A)) : option A :=
  match kv with
  | [] => None
  | (k', v) :: r => if N.eqb k k' then Some v else assocN k r
  end.
Definition resolves (m : symmap) (name : string) : bool :=
  match indexed_name name with
  | Some (base, i) =>
      match assoc base m with
      | Some (SDict items) => match assocN i items with Some n => String.eqb n name | None => false end
      | _ => false
      end
  | None => match assoc name m with Some (SSym n) => String.eqb n name | _ => false end
  end.
Definition symbols_usable (names : list string) : bool :=
  match make_symbols_map names with
  | Some m => forallb (resolves m) names
  | None => false
  end.

(* deserialize_expr = sympify(text, locals=_make_symbols_map(names)); [sympify] stays abstract,
   [idents_ok]: the names are identifiers (or identifier[int]) other than Python keywords *)
Definition parse_via_map {expr} (sympify : symmap -> string -> option expr) (syms : list string) (s : string) : option expr :=
  match make_symbols_map syms with Some m => sympify m s | None => None end.
Definition syms_usable (idents_ok : list string -> bool) (syms : list string) : bool :=
  symbols_usable syms && idents_ok syms.

Section Model.
  Variable expr : Type.
  Variable print : expr -> string.
  Variable parse : list string -> string -> option expr.
  Variable free : expr -> list string.
  Variable expr_eqb : expr -> expr -> bool.

  (* CustomGateDefinition(gate_name, matrix, params_ordering); params_ordering by symbol name *)
  Record gdef := mk_gdef { dname : string; dmatrix : list (list expr); dparams : list string }.

  (* Builtin: MatrixFactoryGate built by a global of _builtin_gates (factory, width, hermiticity are
     those of the table entry for the name); Custom: MatrixFactoryGate made by calling a definition *)
  Inductive gate :=
  | Builtin (name : string) (params : list expr)
  | Custom (d : gdef) (params : list expr)
  | Controlled (g : gate) (k : Z)
  | Dagger (g : gate)
  | Power (g : gate) (e : num)
  | Exponential (g : gate).

  Definition operation := (gate * list Z)%type.
  Record circuit := mk_circuit { c_ops : list operation; c_nq : Z }.

  (* ---------- the name / params / free_symbols properties ---------- *)
  Fixpoint name_of (g : gate) : string :=
    match g with
    | Builtin n _ => n
    | Custom d _ => dname d
    | Controlled _ _ => CONTROLLED_GATE_NAME
    | Dagger w => name_of w ++ "_" ++ DAGGER_GATE_NAME
    | Power w e => name_of w ++ POWER_GATE_SYMBOL ++ show_num e
    | Exponential _ => EXPONENTIAL_GATE_NAME
    end.
  Fixpoint params_of (g : gate) : list expr :=
    match g with
    | Builtin _ ps => ps
    | Custom _ ps => ps
    | Controlled w _ => params_of w
    | Dagger w => params_of w
    | Power w _ => params_of w
    | Exponential w => params_of w
    end.
  Definition free_of_params (ps : list expr) : list string := sort_uniq (flat_map free ps).
  Definition gate_free (g : gate) : list string := free_of_params (params_of g).
  Fixpoint innermost (g : gate) : gate :=
    match g with
    | Controlled w _ => innermost w
    | Dagger w => innermost w
    | Power w _ => innermost w
    | Exponential w => innermost w
    | _ => g
    end.
  Fixpoint gate_depth (g : gate) : nat :=
    match g with
    | Controlled w _ => S (gate_depth w)
    | Dagger w => S (gate_depth w)
    | Power w _ => S (gate_depth w)
    | Exponential w => S (gate_depth w)
    | _ => 0%nat
    end.

  (* ---------- serialisation ---------- *)
  Definition basic_to_json (n : string) (ps : list expr) : json :=
    JObj ([("name", JStr n)]
          ++ (match ps with [] => [] | _ => [("params", JArr (map (fun p => JStr (print p)) ps))] end)
          ++ (match free_of_params ps with [] => [] | fs => [("free_symbols", JArr (map JStr fs))] end)).
  Fixpoint gate_to_json (g : gate) : json :=
    match g with
    | Builtin n ps => basic_to_json n ps
    | Custom d ps => basic_to_json (dname d) ps
    | Controlled w k =>
        JObj [("name", JStr (name_of g)); ("wrapped_gate", gate_to_json w); ("num_control_qubits", JNum (NInt k))]
    | Dagger w => JObj [("name", JStr (name_of g)); ("wrapped_gate", gate_to_json w)]
    | Exponential w => JObj [("name", JStr (name_of g)); ("wrapped_gate", gate_to_json w)]
    | Power w e => JObj [("name", JStr (name_of g)); ("wrapped_gate", gate_to_json w); ("exponent", JNum e)]
    end.
  Definition op_to_json (op : operation) : json :=
    JObj [("type", JStr "gate_operation"); ("gate", gate_to_json (fst op));
          ("qubit_indices", JArr (map (fun q => JNum (NInt q)) (snd op)))].
  Definition def_to_json (d : gdef) : json :=
    JObj [("gate_name", JStr (dname d));
          ("matrix", JArr (map (fun row => JArr (map (fun e => JStr (print e)) row)) (dmatrix d)));
          ("params_ordering", JArr (map JStr (dparams d)))].

  (* Circuit.collect_custom_gate_definitions: first definition per name, a different one under the
     same name is a ValueError (None), result sorted by name *)
  Definition op_def (op : operation) : option gdef :=
    match innermost (fst op) with Custom d _ => Some d | _ => None end.
  Fixpoint op_defs (ops : list operation) : list gdef :=
    match ops with
    | [] => []
    | op :: r => match op_def op with Some d => d :: op_defs r | None => op_defs r end
    end.
  Definition def_eqb (a b : gdef) : bool :=
    String.eqb (dname a) (dname b) && list_eqb String.eqb (dparams a) (dparams b)
    && list_eqb (list_eqb expr_eqb) (dmatrix a) (dmatrix b).
  Definition find_def (name : string) (defs : list gdef) : option gdef :=
    find (fun d => String.eqb (dname d) name) defs.
  Fixpoint collect_unique (ds acc : list gdef) : option (list gdef) :=
    match ds with
    | [] => Some acc
    | d :: r => match find_def (dname d) acc with
                | None => collect_unique r (acc ++ [d])
                | Some d0 => if def_eqb d0 d then collect_unique r acc else None
                end
    end.
  Fixpoint insert_def (d : gdef) (l : list gdef) : list gdef :=
    match l with
    | [] => [d]
    | x :: r => if String.ltb (dname d) (dname x) then d :: l else x :: insert_def d r
    end.
  Definition sort_defs (l : list gdef) : list gdef := fold_right insert_def [] (rev l).
  Definition collect_custom_defs (ops : list operation) : option (list gdef) :=
    option_map sort_defs (collect_unique (op_defs ops) []).

  Definition circuit_to_json (c : circuit) : option json :=
    match collect_custom_defs (c_ops c) with
    | None => None                               (* ValueError: conflicting definitions *)
    | Some defs =>
        Some (JObj ([("n_qubits", JNum (NInt (c_nq c)))]
                    ++ (match c_ops c with [] => [] | ops => [("operations", JArr (map op_to_json ops))] end)
                    ++ (match defs with [] => [] | _ => [("custom_gate_definitions", JArr (map def_to_json defs))] end)))
    end.
  Fixpoint all_some {A} (l : list (option A)) : option (list A) :=
    match l with
    | [] => Some []
    | None :: _ => None
    | Some x :: r => match all_some r with Some xs => Some (x :: xs) | None => None end
    end.
  Definition circuitset_to_json (cs : list circuit) : option json :=
    match all_some (map circuit_to_json cs) with
    | Some js => Some (JObj [("circuits", JArr js)])
    | None => None
    end.

  (* ---------- deserialisation ---------- *)
  Definition parse_param (syms : list string) (p : json) : res expr :=
    match p with
    | JStr s => match parse syms s with Some e => Ok e | None => EErr end
    | _ => EUnmodelled          (* sympify of a JSON number; to_dict never writes one *)
    end.
  Definition symbol_names (j : json) : res (list string) :=      (* dict_.get("free_symbols", []) *)
    o <- jget "free_symbols" j ;; l <- as_list o ;; as_strings l.
  Definition params_json (j : json) : res (list json) :=         (* dict_.get("params", []) *)
    o <- jget "params" j ;; as_list o.

  (* _builtin_gate_from_dict *)
  Definition builtin_from_json (j : json) : res gate :=
    n <- jfield "name" j ;;
    match n with
    | JStr name =>
        match assoc name builtin_globals with
        | None => EKey                                            (* globals()[name] *)
        | Some ref =>
            p <- jget "params" j ;;
            match p with
            | None | Some JNull | Some (JArr []) =>               (* gate_is_parametric = False: the global itself *)
                match ref with GConst _ _ => Ok (Builtin name []) | _ => EUnmodelled end
            | Some (JArr ps) =>
                match ref with
                | GProto _ _ => syms <- symbol_names j ;; ps' <- mapM (parse_param syms) ps ;; Ok (Builtin name ps')
                | _ => EUnmodelled                                (* calling a gate object / a non-gate *)
                end
            | Some _ => EUnmodelled
            end
        end
    | JArr _ | JObj _ => EErr                                   (* globals()[name]: unhashable key, TypeError *)
    | _ => EKey                                                 (* None, a bool, a number: no such key, KeyError;
                                                                   _gate_from_dict then goes on to the next reader *)
    end.

  (* _special_gate_from_dict; [rec] is _gate_from_dict on the wrapped dictionary *)
  Definition special_from_json (rec : json -> res gate) (j : json) : res gate :=
    n <- jfield "name" j ;;
    match n with
    | JStr name =>
        if String.eqb name CONTROLLED_GATE_NAME then
          wj <- jfield "wrapped_gate" j ;; w <- rec wj ;;
          k <- jfield "num_control_qubits" j ;;
          match k with
          | JNum (NInt z) => if Z.ltb z 1 then EErr else Ok (Controlled w z)
          | _ => EUnmodelled
          end
        else if ends_with DAGGER_GATE_NAME name then
          wj <- jfield "wrapped_gate" j ;; w <- rec wj ;; Ok (Dagger w)
        else if String.eqb name EXPONENTIAL_GATE_NAME then
          wj <- jfield "wrapped_gate" j ;; w <- rec wj ;;
          match gate_free w with [] => Ok (Exponential w) | _ => EErr end
        else if contains POWER_GATE_SYMBOL name then
          wj <- jfield "wrapped_gate" j ;; w <- rec wj ;;
          e <- jfield "exponent" j ;;
          match e with
          | JNum x => match gate_free w with [] => Ok (Power w x) | _ => EErr end
          | _ => EUnmodelled
          end
        else EKey
    | _ => EErr
    end.

  (* _custom_gate_instance_from_dict *)
  Definition custom_from_json (defs : list gdef) (j : json) : res gate :=
    n <- jfield "name" j ;;
    match n with
    | JStr name =>
        match find_def name defs with
        | None => EErr                                            (* ValueError: definition missing *)
        | Some d => syms <- symbol_names j ;; ps <- params_json j ;;
                    ps' <- mapM (parse_param syms) ps ;; Ok (Custom d ps')
        end
    | _ => EUnmodelled
    end.

  (* _gate_from_dict: each reader is tried when the previous one raised KeyError *)
  Fixpoint gate_from_json (fuel : nat) (defs : list gdef) (j : json) : res gate :=
    match fuel with
    | O => EUnmodelled
    | S f =>
        match builtin_from_json j with
        | EKey => match special_from_json (gate_from_json f defs) j with
                  | EKey => custom_from_json defs j
                  | r => r
                  end
        | r => r
        end
    end.

  Definition op_from_json (fuel : nat) (defs : list gdef) (j : json) : res operation :=
    gj <- jfield "gate" j ;; g <- gate_from_json fuel defs gj ;;
    q <- jfield "qubit_indices" j ;;
    match q with
    | JArr l => qs <- as_ints l ;; Ok (g, qs)
    | _ => EUnmodelled
    end.

  (* custom_gate_def_from_dict; CustomGateDefinition.__post_init__ wants a 2^n x 2^n matrix *)
  Definition def_from_json (j : json) : res gdef :=
    o <- jget "params_ordering" j ;; l <- as_list o ;; po <- as_strings l ;;
    n <- jfield "gate_name" j ;;
    m <- jfield "matrix" j ;;
    match n, m with
    | JStr name, JArr rows =>
        mat <- mapM (fun row => match row with JArr es => mapM (parse_param po) es | _ => EUnmodelled end) rows ;;
        if is_pow2 (List.length mat) && forallb (fun row => Nat.eqb (List.length row) (List.length mat)) mat
        then Ok (mk_gdef name mat po) else EErr
    | _, _ => EUnmodelled
    end.

  (* _circuit_size_by_operations *)
  Definition size_by_ops (ops : list operation) : res Z :=
    match ops with
    | [] => Ok 0%Z
    | _ => match flat_map snd ops with
           | [] => EErr                                           (* max() of an empty sequence *)
           | q :: r => Ok (fold_left Z.max r q + 1)%Z
           end
    end.

  Definition circuit_from_json (j : json) : res circuit :=
    let fuel := jdepth j in
    o <- jget "custom_gate_definitions" j ;; dl <- as_list o ;; defs <- mapM def_from_json dl ;;
    o2 <- jget "operations" j ;; ol <- as_list o2 ;; ops <- mapM (op_from_json fuel defs) ol ;;
    n <- jfield "n_qubits" j ;;
    match n with
    | JNum (NInt z) =>
        if Z.eqb z 0 then (s <- size_by_ops ops ;; Ok (mk_circuit ops s))
        else if Z.ltb z 0 then EErr else Ok (mk_circuit ops z)
    | JNull => s <- size_by_ops ops ;; Ok (mk_circuit ops s)
    | _ => EUnmodelled
    end.

  Definition circuitset_from_json (j : json) : res (list circuit) :=
    cs <- jfield "circuits" j ;;
    match cs with
    | JArr l => mapM circuit_from_json l
    | _ => EUnmodelled
    end.

  (* ---------- which reader a name selects, and which kind a gate is ---------- *)
  Inductive kind := KBuiltin | KControlled | KDagger | KExponential | KPower | KCustom.
  Definition classify (name : string) : kind :=
    match assoc name builtin_globals with
    | Some _ => KBuiltin
    | None =>
        if String.eqb name CONTROLLED_GATE_NAME then KControlled
        else if ends_with DAGGER_GATE_NAME name then KDagger
        else if String.eqb name EXPONENTIAL_GATE_NAME then KExponential
        else if contains POWER_GATE_SYMBOL name then KPower
        else KCustom
    end.
  Definition kind_of (g : gate) : kind :=
    match g with
    | Builtin _ _ => KBuiltin
    | Custom _ _ => KCustom
    | Controlled _ _ => KControlled
    | Dagger _ => KDagger
    | Power _ _ => KPower
    | Exponential _ => KExponential
    end.

  (* ---------- well-formedness: what the round trip needs ---------- *)
  (* exponent text does not end in the last character of the dagger marker (true of every int and
     of every float repr: they end in a digit, or in "f"/"n" for inf/nan) *)
  Definition num_ok (e : num) : bool :=
    match last_char (show_num e) with
    | Some c => negb (oascii_eqb (Some c) (last_char DAGGER_GATE_NAME))
    | None => false
    end.
  (* a custom gate name the strict dispatch theorem accepts *)
  Definition custom_name_ok (n : string) : bool :=
    match classify n with KCustom => true | _ => false end.

  Variable syms_ok : list string -> bool.     (* names sympify can take as locals, see CircuitSerdeProofs *)

  Definition params_ok (ps : list expr) : Prop := syms_ok (free_of_params ps) = true.
  Definition def_ok (d : gdef) : Prop :=
    assoc (dname d) builtin_globals = None /\
    is_pow2 (List.length (dmatrix d)) = true /\
    Forall (fun row => List.length row = List.length (dmatrix d)) (dmatrix d) /\
    syms_ok (dparams d) = true /\
    Forall (fun row => Forall (fun e => incl (free e) (dparams d)) row) (dmatrix d).
  (* [P d]: what is asked of the definition of a custom gate *)
  Fixpoint gate_okP (P : gdef -> Prop) (g : gate) : Prop :=
    match g with
    | Builtin n ps =>
        params_ok ps /\
        match assoc n builtin_globals with
        | Some (GConst _ _) => ps = []          (* X, CNOT, ...: the global is the gate *)
        | Some (GProto _ _) => ps <> []         (* RX, U3, ...: the global is called with the arguments *)
        | _ => False
        end
    | Custom d ps => params_ok ps /\ assoc (dname d) builtin_globals = None /\ P d
    | Controlled w k => gate_okP P w /\ (1 <= k)%Z
    | Dagger w => gate_okP P w
    | Power w e => gate_okP P w /\ gate_free w = [] /\ num_ok e = true
    | Exponential w => gate_okP P w /\ gate_free w = []
    end.
  (* relative to the definitions written into the dictionary: the name finds the gate's own definition *)
  Definition gate_ok (defs : list gdef) : gate -> Prop := gate_okP (fun d => find_def (dname d) defs = Some d).
  (* on its own *)
  Definition gate_wf : gate -> Prop := gate_okP def_ok.
  (* every Circuit object has a positive width or the width computed from its operations *)
  Definition width_ok (c : circuit) : Prop :=
    (0 < c_nq c)%Z \/ (c_nq c = 0%Z /\ size_by_ops (c_ops c) = Ok 0%Z).
  Definition circuit_ok (c : circuit) : Prop :=
    width_ok c /\
    exists defs, collect_custom_defs (c_ops c) = Some defs /\
                 Forall def_ok defs /\ Forall (fun op => gate_ok defs (fst op)) (c_ops c).
  (* the same without mentioning the collected definitions *)
  Definition circuit_wf (c : circuit) : Prop :=
    width_ok c /\ Forall (fun op => gate_wf (fst op)) (c_ops c).
  (* only the outermost layer matters for which reader a name selects *)
  Definition names_wf (g : gate) : Prop :=
    match g with
    | Builtin n _ => assoc n builtin_globals <> None
    | Custom d _ => custom_name_ok (dname d) = true
    | Power _ e => num_ok e = true
    | _ => True
    end.
End Model.
