(* Agreement of the GENERATED serialiser / deserialiser (Gen/SerdeGen.v, translated from circuits/_serde.py on every
   run by tr/tr_serde.py) with the hand-written model Serde/CircuitSerde.v that the C05 theorems are about.
   The model's abstract expression type, print, sympify, free and expr_eqb are turned into a world [MS] / [ME] for the
   generated code; model gates, operations, definitions and circuits are embedded into the generated object types
   ([emb_gate] ..).  Serialiser: generated = model, for all inputs.  Deserialiser: [agrees]: wherever the model makes
   a claim (a value, KeyError, another exception) the generated function returns exactly that; the model's
   EUnmodelled makes no claim. *)
Require Import Coq.ZArith.ZArith Coq.NArith.NArith Coq.Lists.List Coq.Strings.String Coq.Strings.Ascii Coq.Bool.Bool
        Coq.micromega.Lia Coq.Sorting.Sorted.
Require OQ.Circ.GatesTrSupport OQ.Gen.GateModsGen.
Require Import OQ.Gen.NamesGen OQ.Serde.Json OQ.Serde.SerdeTrSupport OQ.Gen.SerdeGen OQ.Serde.CircuitSerde
        OQ.Serde.CircuitSerdeProofs.
Import ListNotations.
Open Scope string_scope.

(* ------------------------------------------------------------------ code-point order on strings *)
Lemma ascii_cmp_refl : forall a, Ascii.compare a a = Eq.
Proof. intro a. unfold Ascii.compare. apply N.compare_refl. Qed.

Lemma str_cmp_refl : forall s, String.compare s s = Eq.
Proof. induction s as [|a s IH]; simpl; [reflexivity|]. rewrite ascii_cmp_refl. exact IH. Qed.

Lemma str_lt_trans : forall a b c, String.compare a b = Lt -> String.compare b c = Lt -> String.compare a c = Lt.
Proof.
  induction a as [|x a IH]; intros [|y b] [|z c]; simpl; try discriminate; try reflexivity.
  destruct (Ascii.compare x y) eqn:Hxy; destruct (Ascii.compare y z) eqn:Hyz; try discriminate; intros H1 H2.
  - apply Ascii.compare_eq_iff in Hxy. apply Ascii.compare_eq_iff in Hyz. subst. rewrite ascii_cmp_refl. eapply IH; eassumption.
  - apply Ascii.compare_eq_iff in Hxy. subst. rewrite Hyz. reflexivity.
  - apply Ascii.compare_eq_iff in Hyz. subst. rewrite Hxy. reflexivity.
  - unfold Ascii.compare in *. rewrite N.compare_lt_iff in *. replace (N_of_ascii x ?= N_of_ascii z)%N with Lt; [reflexivity|].
    symmetry. apply N.compare_lt_iff. lia.
Qed.

Lemma ltb_trans : forall a b c, String.ltb a b = true -> String.ltb b c = true -> String.ltb a c = true.
Proof.
  unfold String.ltb. intros a b c H1 H2.
  destruct (String.compare a b) eqn:E1; try discriminate. destruct (String.compare b c) eqn:E2; try discriminate.
  rewrite (str_lt_trans _ _ _ E1 E2). reflexivity.
Qed.

Lemma ltb_asym : forall a b, String.ltb a b = true -> String.ltb b a = false.
Proof.
  unfold String.ltb. intros a b H. rewrite String.compare_antisym. destruct (String.compare a b); try discriminate. reflexivity.
Qed.

Lemma ltb_total : forall a b, String.eqb a b = false -> String.ltb a b = false -> String.ltb b a = true.
Proof.
  unfold String.ltb. intros a b He Hl. rewrite String.compare_antisym. destruct (String.compare a b) eqn:E; simpl; try reflexivity; try discriminate.
  apply String.compare_eq_iff in E. subst. rewrite String.eqb_refl in He. discriminate.
Qed.

Definition slt (a b : string) : Prop := String.ltb a b = true.

Lemma insert_uniq_sorted : forall s l, StronglySorted slt l -> StronglySorted slt (insert_uniq s l).
Proof.
  intros s l H. induction H as [|x r Hr IH Hx]; simpl.
  - constructor; constructor.
  - destruct (String.eqb s x) eqn:He; [constructor; assumption|].
    destruct (String.ltb s x) eqn:Hl.
    + constructor; [constructor; assumption|]. constructor; [exact Hl|].
      rewrite Forall_forall in *. intros y Hy. eapply ltb_trans; [exact Hl|]. apply Hx. exact Hy.
    + constructor; [exact IH|]. rewrite Forall_forall in *. intros y Hy. apply insert_uniq_in in Hy. destruct Hy as [->|Hy].
      * apply ltb_total; assumption.
      * apply Hx. exact Hy.
Qed.

Lemma sort_uniq_sorted : forall l, StronglySorted slt (sort_uniq l).
Proof. induction l as [|a l IH]; simpl; [constructor|]. apply insert_uniq_sorted. exact IH. Qed.

Lemma insert_by_last : forall (acc : list string) x, Forall (fun y => slt y x) acc ->
  py_insert_by (fun y => y) x acc = (acc ++ [x])%list.
Proof.
  induction acc as [|y acc IH]; intros x H; simpl; [reflexivity|].
  inversion H as [|? ? Hy Hr]; subst. rewrite (ltb_asym _ _ Hy). rewrite IH by assumption. reflexivity.
Qed.

Lemma sorted_app_inv : forall (acc : list string) x l, StronglySorted slt (acc ++ x :: l) -> Forall (fun y => slt y x) acc.
Proof.
  induction acc as [|y acc IH]; intros x l H; simpl in *; [constructor|].
  inversion H as [|? ? Hs Hf]; subst. constructor.
  - rewrite Forall_forall in Hf. apply Hf. apply in_or_app. right. left. reflexivity.
  - eapply IH. eassumption.
Qed.

Lemma sorted_fold_id : forall (l acc : list string), StronglySorted slt (acc ++ l) ->
  fold_left (fun acc x => py_insert_by (fun y => y) x acc) l acc = (acc ++ l)%list.
Proof.
  induction l as [|x l IH]; intros acc H; simpl; [rewrite app_nil_r; reflexivity|].
  rewrite insert_by_last by (eapply sorted_app_inv; eassumption).
  rewrite IH; rewrite <- app_assoc; simpl; [reflexivity | exact H].
Qed.

Lemma py_sorted_sort_uniq : forall l, py_sorted_by (fun y => y) (sort_uniq l) = sort_uniq l.
Proof. intro l. unfold py_sorted_by. rewrite sorted_fold_id; [reflexivity|]. simpl. apply sort_uniq_sorted. Qed.

(* the wrapper markers generated from _gates.py by the two translators are the same strings *)
Lemma markers_agree :
  GateModsGen.CONTROLLED_GATE_NAME = CONTROLLED_GATE_NAME /\ GateModsGen.DAGGER_GATE_NAME = DAGGER_GATE_NAME /\
  GateModsGen.EXPONENTIAL_GATE_NAME = EXPONENTIAL_GATE_NAME /\ GateModsGen.POWER_GATE_SYMBOL = POWER_GATE_SYMBOL.
Proof. repeat split; reflexivity. Qed.

(* ------------------------------------------------------------------ the model as a world for the generated code *)
Section Agreement.
  Variable expr : Type.
  Variable print : expr -> string.
  Variable sympify : symmap -> string -> option expr.
  Variable free : expr -> list string.
  Variable expr_eqb : expr -> expr -> bool.

  Notation parse := (parse_via_map sympify).

  (* the dictionary handed to sympify, as the model's symbols map *)
  Definition decode_symdict (d : pysymdict string) : symmap :=
    map (fun kv => (fst kv, match snd kv with
                            | inl s => SSym s
                            | inr items => SDict (map (fun p => (Z.to_N (fst p), snd p)) items)
                            end)) d.

  Definition mat_ok (m : list (list expr)) : bool :=
    is_pow2 (List.length m) && forallb (fun row => Nat.eqb (List.length row) (List.length m)) m.
  Definition nq_of (m : list (list expr)) : Z := Z.of_nat (Nat.log2 (List.length m)).

  (* expressions are the model's, symbols are their names, a matrix is the list of its rows *)
  Definition MS : sworld :=
    mk_sworld expr string (list (list expr)) unit unit
      (fun ps => sort_uniq (flat_map free ps)) (fun p _ => p) (fun _ _ => []) (fun m => m) (fun m => m) (fun m _ => m)
      (fun _ m => m)
      print (fun s => s) (fun s => s)
      (fun text d => match sympify (decode_symdict d) text with Some e => Val e | None => Exn SympyError end)
      (fun rows => Val rows)
      (fun m => (Z.of_nat (List.length m), Z.of_nat (List.length (hd [] m))))
      (fun m i => match nth_error m (Z.to_nat i) with Some r => Val r | None => Exn IndexError end)
      (fun m => if mat_ok m then Val (nq_of m) else Exn ValueError).

  Definition emb_def (d : gdef expr) : pydef MS :=
    @GateModsGen.CustomGateDefinition (gw MS) (dname expr d) (dmatrix expr d) (dparams expr d) (nq_of (dmatrix expr d)).
  Definition unemb_def (d : pydef MS) : gdef expr :=
    match d with GateModsGen.CustomGateDefinition n m po _ => mk_gdef expr n m po end.
  Lemma unemb_emb_def : forall d, unemb_def (emb_def d) = d.
  Proof. intros [n m po]. reflexivity. Qed.

  (* width and hermiticity of a built-in gate: those of the table entry for its name *)
  Definition builtin_shape (n : string) : Z * bool :=
    match assoc n builtin_globals with
    | Some (GConst q h) | Some (GProto q h) => (q, h)
    | _ => (0%Z, false)
    end.

  Fixpoint emb_gate (g : gate expr) : GateModsGen.pygate (gw MS) :=
    match g with
    | Builtin _ n ps => @GateModsGen.MatrixFactoryGate (gw MS) n (FBuiltin n) ps (fst (builtin_shape n)) (snd (builtin_shape n))
    | Custom _ d ps =>
        @GateModsGen.MatrixFactoryGate (gw MS) (dname expr d)
          (FCustom (dname expr d) (dmatrix expr d) (dparams expr d) (nq_of (dmatrix expr d))) ps (nq_of (dmatrix expr d)) false
    | Controlled _ w k => @GateModsGen.ControlledGate (gw MS) (emb_gate w) k
    | Dagger _ w => @GateModsGen.Dagger (gw MS) (emb_gate w)
    | Power _ w e => @GateModsGen.Power (gw MS) (emb_gate w) e
    | Exponential _ w => @GateModsGen.Exponential (gw MS) (emb_gate w)
    end.
  Definition emb_op (op : operation expr) : GateModsGen.GateOperation_obj (gw MS) :=
    @GateModsGen.GateOperation (gw MS) (emb_gate (fst op)) (snd op).
  Definition emb_pyop (op : operation expr) : pyop MS := OpGate (emb_op op).
  Definition emb_circ (c : circuit expr) : pycircuit MS := mk_pycircuit (map emb_pyop (c_ops expr c)) (c_nq expr c).

  (* Circuit(operations, n_qubits): the width rule of Circuit.__init__ as the model has it *)
  Definition op_qubits (o : pyop MS) : list Z :=
    match o with OpGate (GateModsGen.GateOperation _ q) => q | OpOther _ => [] end.
  Definition py_size (ops : list (pyop MS)) : pyres Z :=
    match ops with
    | [] => Val 0%Z
    | _ => match flat_map op_qubits ops with
           | [] => Exn ValueError
           | q :: r => Val (fold_left Z.max r q + 1)%Z
           end
    end.
  Definition ME : senv MS :=
    mk_senv MS
      (fun ops nq =>
         match nq with
         | Some z => if Z.eqb z 0 then pbind (py_size ops) (fun s => Val (mk_pycircuit ops s))
                     else if Z.ltb z 0 then Exn ValueError else Val (mk_pycircuit ops z)
         | None => pbind (py_size ops) (fun s => Val (mk_pycircuit ops s))
         end)
      (fun a b => def_eqb expr expr_eqb (unemb_def a) (unemb_def b)).

  (* back from the generated object types to the model's (used to display results without the world record) *)
  Fixpoint unemb_gate (g : GateModsGen.pygate (gw MS)) : gate expr :=
    match g with
    | GateModsGen.MatrixFactoryGate n f ps _ _ =>
        match f with
        | FBuiltin _ => Builtin expr n ps
        | FCustom dn m po _ => Custom expr (mk_gdef expr dn m po) ps
        end
    | GateModsGen.ControlledGate w k => Controlled expr (unemb_gate w) k
    | GateModsGen.Dagger w => Dagger expr (unemb_gate w)
    | GateModsGen.Exponential w => Exponential expr (unemb_gate w)
    | GateModsGen.Power w e => Power expr (unemb_gate w) e
    end.
  Definition unemb_circ (c : pycircuit MS) : circuit expr :=
    mk_circuit expr
      (flat_map (fun o => match o with OpGate (GateModsGen.GateOperation g q) => [(unemb_gate g, q)] | OpOther _ => [] end) (pc_operations c))
      (pc_n_qubits c).
  Lemma unemb_emb_gate : forall g, unemb_gate (emb_gate g) = g.
  Proof. induction g as [n ps|[dn m po] ps|w IH k|w IH|w IH e|w IH]; simpl; try rewrite IH; reflexivity. Qed.
  Lemma unemb_emb_circ : forall c, unemb_circ (emb_circ c) = c.
  Proof.
    intros [ops nq]. unfold unemb_circ, emb_circ. cbn [pc_operations pc_n_qubits c_ops c_nq]. f_equal.
    induction ops as [|[g q] ops IH]; [reflexivity|]. cbn [map flat_map emb_pyop emb_op fst snd app]. rewrite unemb_emb_gate, IH. reflexivity.
  Qed.

  (* ---------------------------------------------------------------- the properties of gates (Gen/GateModsGen.v) *)
  Lemma app_empty_r : forall s : string, s ++ "" = s.
  Proof. induction s as [|a s IH]; simpl; [reflexivity|]. rewrite IH. reflexivity. Qed.

  Theorem name_gen_is_model : forall g, GateModsGen.Gate_name_gen (emb_gate g) = name_of expr g.
  Proof.
    induction g as [n ps|d ps|w IH k|w IH|w IH e|w IH]; simpl; try reflexivity.
    - unfold GatesTrSupport.py_str_add. rewrite IH. rewrite <- sapp_assoc. reflexivity.
    - unfold GatesTrSupport.py_fstring, GatesTrSupport.py_format_str. simpl. rewrite IH, app_empty_r. reflexivity.
  Qed.

  Theorem params_gen_is_model : forall g, GateModsGen.Gate_params_gen (emb_gate g) = params_of expr g.
  Proof. induction g; simpl; auto. Qed.

  Theorem free_symbols_gen_is_model : forall g, GateModsGen.Gate_free_symbols_gen (emb_gate g) = gate_free expr free g.
  Proof.
    intro g. unfold gate_free, free_of_params. destruct g; simpl; try rewrite params_gen_is_model; reflexivity.
  Qed.

  (* ---------------------------------------------------------------- to_dict on gates *)
  Lemma basic_gate_gen : forall n f ps q h,
    basic_gate_to_dict_gen MS (@GateModsGen.MatrixFactoryGate (gw MS) n f ps q h) = basic_to_json expr print free n ps.
  Proof.
    intros n f ps q h. unfold basic_gate_to_dict_gen, basic_to_json, map_eager_gen, serialize_expr_gen. simpl.
    rewrite map_id, py_sorted_sort_uniq. unfold free_of_params.
    destruct ps as [|p ps]; [reflexivity|].
    cbn [py_truth_list]. rewrite map_map.
    destruct (sort_uniq (flat_map free (p :: ps))) as [|s l] eqn:Ef; reflexivity.
  Qed.

  Theorem to_dict_gate_gen_is_model : forall g fuel, (gate_depth expr g < fuel)%nat ->
    to_dict_gen MS ME fuel (Obj_Gate (emb_gate g)) = Val (gate_to_json expr print free g).
  Proof.
    induction g as [n ps|d ps|w IH k|w IH|w IH e|w IH]; intros [|fuel] Hf; try (exfalso; simpl in Hf; lia);
      cbn [to_dict_gen to_dict_body emb_gate].
    - rewrite basic_gate_gen. reflexivity.
    - rewrite basic_gate_gen. reflexivity.
    - unfold controlled_gate_to_dict_gen. cbn [Gate_attr_wrapped_gate Gate_attr_num_control_qubits pbind].
      rewrite IH by (simpl in Hf; lia). reflexivity.
    - unfold dagger_gate_to_dict_gen. cbn [Gate_attr_wrapped_gate pbind].
      rewrite IH by (simpl in Hf; lia). cbn [pbind]. pose proof (name_gen_is_model (Dagger expr w)) as Hn. cbn [emb_gate] in Hn. rewrite Hn. reflexivity.
    - unfold power_gate_to_dict_gen. cbn [Gate_attr_wrapped_gate Gate_attr_exponent pbind].
      rewrite IH by (simpl in Hf; lia). cbn [pbind]. pose proof (name_gen_is_model (Power expr w e)) as Hn. cbn [emb_gate] in Hn. rewrite Hn. reflexivity.
    - unfold exponential_gate_to_dict_gen. cbn [Gate_attr_wrapped_gate pbind].
      rewrite IH by (simpl in Hf; lia). reflexivity.
  Qed.

  (* ---------------------------------------------------------------- lists *)
  Lemma py_each_map : forall A B (f : A -> pyres B) (g : A -> B) l,
    (forall x, In x l -> f x = Val (g x)) -> py_each f l = Val (map g l).
  Proof.
    induction l as [|a l IH]; intros H; simpl; [reflexivity|].
    rewrite (H a) by (left; reflexivity). simpl. rewrite IH by (intros; apply H; right; assumption). reflexivity.
  Qed.

  Lemma flat_map_single : forall A B (g : A -> B) l, flat_map (fun x => [g x]) l = map g l.
  Proof. induction l as [|a l IH]; simpl; [reflexivity|]. rewrite IH. reflexivity. Qed.

  Lemma pbind_val_r : forall A (r : pyres A), pbind r (fun x => Val x) = r.
  Proof. intros A [a|e]; reflexivity. Qed.

  (* ---------------------------------------------------------------- to_dict on operations and definitions *)
  Theorem to_dict_operation_gen_is_model : forall op fuel, (gate_depth expr (fst op) + 1 < fuel)%nat ->
    to_dict_gen MS ME fuel (Obj_Operation (emb_pyop op)) = Val (op_to_json expr print free op).
  Proof.
    intros [g qs] [|fuel] Hf; [exfalso; lia|]. simpl in Hf.
    unfold emb_pyop, emb_op. cbn [to_dict_gen to_dict_body fst snd].
    unfold gate_operation_to_dict_gen, GateOperation_attr_gate, GateOperation_attr_qubit_indices.
    rewrite to_dict_gate_gen_is_model by lia. reflexivity.
  Qed.

  Lemma matrix_rows_gen : forall (B : Type) (f : list expr -> B) (m pre : list (list expr)),
    py_comp (map Z.of_nat (seq (List.length pre) (List.length m)))
            (fun i => pbind (s_matrix_row MS (pre ++ m)%list i) (fun row => Val [f row])) = Val (map f m).
  Proof.
    intros B f. induction m as [|r m IH]; intros pre; [reflexivity|].
    cbn [List.length seq map py_comp]. cbn [s_matrix_row MS]. rewrite Nat2Z.id.
    rewrite nth_error_app2 by lia. rewrite Nat.sub_diag. cbn [nth_error pbind].
    specialize (IH (pre ++ [r])%list). rewrite app_length in IH. cbn [List.length] in IH.
    rewrite Nat.add_1_r in IH. rewrite <- app_assoc in IH. cbn [app] in IH. cbn [s_matrix_row MS] in IH.
    rewrite IH. reflexivity.
  Qed.

  Lemma matrix_to_json_gen_is_model : forall m, matrix_to_json_gen MS m = Val (map (map print) m).
  Proof.
    intro m. unfold matrix_to_json_gen. cbn [s_matrix_shape MS fst]. unfold py_range. rewrite Nat2Z.id.
    pose proof (matrix_rows_gen (list string) (fun row => flat_map (fun e => [serialize_expr_gen MS e]) row) m []) as H.
    cbn [List.length app] in H. rewrite H. apply f_equal. apply map_ext. intro row. apply (flat_map_single _ _ print).
  Qed.

  Theorem to_dict_definition_gen_is_model : forall d fuel, (0 < fuel)%nat ->
    to_dict_gen MS ME fuel (Obj_CustomGateDefinition (emb_def d)) = Val (def_to_json expr print d).
  Proof.
    intros [n m po] [|fuel] Hf; [exfalso; lia|].
    unfold emb_def. cbn [to_dict_gen to_dict_body dname dmatrix dparams]. unfold custom_gate_def_to_dict_gen,
      CustomGateDefinition_attr_matrix, CustomGateDefinition_attr_gate_name, CustomGateDefinition_attr_params_ordering.
    rewrite matrix_to_json_gen_is_model. cbn [pbind]. unfold def_to_json, map_eager_gen_5, serialize_expr_gen_2.
    cbn [dname dmatrix dparams s_str_symbol MS]. rewrite map_id, map_map.
    assert (Hm : map (fun x : list expr => JArr (map (fun y : string => JStr y) (map print x))) m
                 = map (fun row : list expr => JArr (map (fun e : expr => JStr (print e)) row)) m)
      by (apply map_ext; intro; rewrite map_map; reflexivity).
    rewrite Hm. reflexivity.
  Qed.

  (* ---------------------------------------------------------------- collect_custom_gate_definitions *)
  Lemma innermost_gate_gen_is_model : forall g fuel, (gate_depth expr g < fuel)%nat ->
    innermost_gate_gen MS fuel (emb_gate g) = Val (emb_gate (innermost expr g)).
  Proof.
    unfold innermost_gate_gen. intros g fuel Hf. rewrite pbind_val_r. revert fuel Hf.
    induction g as [n ps|d ps|w IH k|w IH|w IH e|w IH]; intros [|fuel] Hf; try (exfalso; simpl in Hf; lia);
      cbn [py_while emb_gate Gate_attr_wrapped_gate py_hasattr pbind innermost]; try reflexivity;
      apply IH; simpl in Hf; lia.
  Qed.

  Lemma innermost_base : forall g, (exists n ps, innermost expr g = Builtin expr n ps) \/ (exists d ps, innermost expr g = Custom expr d ps).
  Proof. induction g; simpl; eauto. Qed.

  Lemma uses_custom_gen_is_model : forall op fuel, (gate_depth expr (fst op) < fuel)%nat ->
    operation_uses_custom_gate_gen MS fuel (emb_pyop op) = Val (match op_def expr op with Some _ => true | None => false end).
  Proof.
    intros [g qs] fuel Hf. unfold operation_uses_custom_gate_gen, emb_pyop, emb_op, Operation_attr_gate, GateOperation_attr_gate, op_def.
    cbn [fst snd pbind] in *. rewrite innermost_gate_gen_is_model by exact Hf. cbn [pbind].
    destruct (innermost_base g) as [[n [ps E]]|[d [ps E]]]; rewrite E; reflexivity.
  Qed.

  Definition dict_of (acc : list (gdef expr)) : list (string * pydef MS) := map (fun d => (dname expr d, emb_def d)) acc.

  Lemma assoc_dict_of : forall k acc, assoc k (dict_of acc) = option_map emb_def (find_def expr k acc).
  Proof.
    intros k. induction acc as [|d acc IH]; simpl; [reflexivity|].
    rewrite (String.eqb_sym (dname expr d) k). destruct (String.eqb k (dname expr d)); [reflexivity|exact IH].
  Qed.

  Lemma dict_set_new : forall V (d : list (string * V)) k v, assoc k d = None -> py_dict_set d k v = (d ++ [(k, v)])%list.
  Proof.
    induction d as [|[k' v'] d IH]; intros k v H; simpl in *; [reflexivity|].
    destruct (String.eqb k k'); [discriminate|]. rewrite IH by exact H. reflexivity.
  Qed.

  Lemma collect_loop_gen : forall fuel ops acc, Forall (fun op => gate_depth expr (fst op) < fuel)%nat ops ->
    py_for (map emb_pyop ops) (dict_of acc)
      (fun v_operation v_unique_operation_dict =>
         pbind (operation_uses_custom_gate_gen MS fuel v_operation) (fun x6 =>
         if x6 then
           pbind (Operation_attr_gate MS v_operation) (fun x1 =>
           pbind (innermost_gate_gen MS fuel x1) (fun x2 =>
           pbind (Gate_attr_matrix_factory MS x2) (fun x3 =>
           pbind (py_factory_definition x3) (fun x4 =>
           let v_gate_def := x4 in
           if negb (py_dict_has v_unique_operation_dict (CustomGateDefinition_attr_gate_name MS v_gate_def)) then
             let v_unique_operation_dict : list (string * pydef MS) :=
               py_dict_set v_unique_operation_dict (CustomGateDefinition_attr_gate_name MS v_gate_def) v_gate_def in
             Val v_unique_operation_dict
           else
             pbind (py_dict_getitem v_unique_operation_dict (CustomGateDefinition_attr_gate_name MS v_gate_def)) (fun x5 =>
             if negb (e_def_eq ME x5 v_gate_def) then Exn ValueError else Val v_unique_operation_dict)))))
         else Val v_unique_operation_dict))
    = match collect_unique expr expr_eqb (op_defs expr ops) acc with Some out => Val (dict_of out) | None => Exn ValueError end.
  Proof.
    intros fuel. induction ops as [|[g qs] ops IH]; intros acc Hd; [reflexivity|].
    inversion Hd as [|? ? Hg Hr]; subst. cbn [map py_for op_defs].
    rewrite uses_custom_gen_is_model by exact Hg. cbn [pbind]. unfold op_def. cbn [fst].
    destruct (innermost_base g) as [[n [ps E]]|[d [ps E]]].
    - rewrite E. cbn [pbind]. apply IH. exact Hr.
    - rewrite E. unfold emb_pyop, emb_op, Operation_attr_gate, GateOperation_attr_gate. cbn [fst snd pbind] in *.
      rewrite innermost_gate_gen_is_model by exact Hg. rewrite E.
      cbn [pbind emb_gate Gate_attr_matrix_factory py_factory_definition CustomGateDefinition_attr_gate_name collect_unique].
      unfold py_dict_has, py_dict_getitem. rewrite assoc_dict_of.
      destruct (find_def expr (dname expr d) acc) as [d0|] eqn:Ef; cbn [option_map negb pbind].
      + change (@GateModsGen.CustomGateDefinition (gw MS) (dname expr d) (dmatrix expr d) (dparams expr d) (nq_of (dmatrix expr d))) with (emb_def d).
        cbn [e_def_eq ME]. rewrite !unemb_emb_def.
        destruct (def_eqb expr expr_eqb d0 d); cbn [negb pbind]; [apply IH; exact Hr|reflexivity].
      + rewrite dict_set_new by (rewrite assoc_dict_of, Ef; reflexivity).
        change (dict_of acc ++ [(dname expr d, @GateModsGen.CustomGateDefinition (gw MS) (dname expr d) (dmatrix expr d) (dparams expr d) (nq_of (dmatrix expr d)))])%list
          with (dict_of acc ++ dict_of [d])%list.
        unfold dict_of at 1 2. rewrite <- map_app. apply IH. exact Hr.
  Qed.

  Lemma insert_by_emb : forall x l,
    py_insert_by (CustomGateDefinition_attr_gate_name MS) (emb_def x) (map emb_def l) = map emb_def (insert_def expr x l).
  Proof.
    intros x. induction l as [|y l IH]; simpl; [reflexivity|].
    destruct (String.ltb (dname expr x) (dname expr y)); [reflexivity|]. simpl. rewrite IH. reflexivity.
  Qed.

  Lemma sorted_by_emb : forall l, py_sorted_by (CustomGateDefinition_attr_gate_name MS) (map emb_def l) = map emb_def (sort_defs expr l).
  Proof.
    intro l. unfold py_sorted_by, sort_defs. rewrite fold_left_rev_right.
    change (@nil (pydef MS)) with (map emb_def []). generalize (@nil (gdef expr)).
    induction l as [|x l IH]; intros acc; simpl; [reflexivity|]. rewrite insert_by_emb. apply IH.
  Qed.

  Theorem collect_gen_is_model : forall c fuel, Forall (fun op => gate_depth expr (fst op) < fuel)%nat (c_ops expr c) ->
    Circuit_collect_custom_gate_definitions_gen MS ME fuel (emb_circ c)
    = match collect_custom_defs expr expr_eqb (c_ops expr c) with Some defs => Val (map emb_def defs) | None => Exn ValueError end.
  Proof.
    intros c fuel Hd. unfold Circuit_collect_custom_gate_definitions_gen, emb_circ, collect_custom_defs. cbn [pc_operations].
    pose proof (collect_loop_gen fuel (c_ops expr c) [] Hd) as H. cbn [dict_of map] in H. rewrite H.
    destruct (collect_unique expr expr_eqb (op_defs expr (c_ops expr c)) []) as [out|]; cbn [pbind option_map]; [|reflexivity].
    unfold py_dict_values, dict_of. rewrite map_map. cbn [snd]. rewrite sorted_by_emb. reflexivity.
  Qed.

  (* ---------------------------------------------------------------- to_dict on circuits and lists of circuits *)
  Lemma py_each_map2 : forall A B C (h : A -> B) (f : B -> pyres C) (g : A -> C) l,
    (forall x, In x l -> f (h x) = Val (g x)) -> py_each f (map h l) = Val (map g l).
  Proof.
    induction l as [|a l IH]; intros H; simpl; [reflexivity|].
    rewrite (H a) by (left; reflexivity). simpl. rewrite IH by (intros; apply H; right; assumption). reflexivity.
  Qed.

  (* fuel that suffices for a circuit: the deepest gate, the operation, the circuit, the list *)
  Definition ops_depth (ops : list (operation expr)) : nat := fold_right Nat.max 0%nat (map (fun op => gate_depth expr (fst op)) ops).
  Lemma ops_depth_in : forall op ops, In op ops -> (gate_depth expr (fst op) <= ops_depth ops)%nat.
  Proof.
    intros op ops. unfold ops_depth. induction ops as [|a l IH]; intros H; [destruct H|]. simpl. destruct H as [->|H]; [lia|].
    specialize (IH H). lia.
  Qed.

  Definition out_of (o : option json) : pyres json := match o with Some j => Val j | None => Exn ValueError end.

  Lemma circuit_to_dict_gen_is_model : forall c fuel, (ops_depth (c_ops expr c) + 1 < fuel)%nat ->
    circuit_to_dict_gen MS ME fuel (to_dict_gen MS ME fuel) (emb_circ c) = out_of (circuit_to_json expr print free expr_eqb c).
  Proof.
    intros c fuel Hd. unfold circuit_to_dict_gen, circuit_to_json.
    rewrite collect_gen_is_model
      by (apply Forall_forall; intros op Hop; pose proof (ops_depth_in op _ Hop); lia).
    destruct (collect_custom_defs expr expr_eqb (c_ops expr c)) as [defs|]; cbn [pbind out_of]; [|reflexivity].
    unfold emb_circ. cbn [pc_operations pc_n_qubits]. unfold map_eager_gen_2, map_eager_gen_3, py_list_map.
    assert (Hops : py_each (fun y => to_dict_gen MS ME fuel (Obj_Operation y)) (map emb_pyop (c_ops expr c))
                   = Val (map (op_to_json expr print free) (c_ops expr c))).
    { apply py_each_map2. intros op Hop. apply to_dict_operation_gen_is_model. pose proof (ops_depth_in op _ Hop). lia. }
    assert (Hdefs : py_each (fun y => to_dict_gen MS ME fuel (Obj_CustomGateDefinition y)) (map emb_def defs)
                    = Val (map (def_to_json expr print) defs)).
    { apply py_each_map2. intros d _. apply to_dict_definition_gen_is_model. lia. }
    rewrite Hops, Hdefs.
    destruct (c_ops expr c) as [|op ops]; destruct defs as [|d defs]; reflexivity.
  Qed.

  Theorem to_dict_circuit_gen_is_model : forall c fuel, (ops_depth (c_ops expr c) + 2 < fuel)%nat ->
    to_dict_gen MS ME fuel (Obj_Circuit (emb_circ c)) = out_of (circuit_to_json expr print free expr_eqb c).
  Proof.
    intros c [|fuel] Hd; [exfalso; lia|]. cbn [to_dict_gen to_dict_body]. apply circuit_to_dict_gen_is_model. lia.
  Qed.

  Definition set_depth (cs : list (circuit expr)) : nat := fold_right Nat.max 0%nat (map (fun c => ops_depth (c_ops expr c)) cs).

  Theorem to_dict_circuitset_gen_is_model : forall cs fuel, (set_depth cs + 2 < fuel)%nat ->
    to_dict_gen MS ME fuel (Obj_list (map emb_circ cs)) = out_of (circuitset_to_json expr print free expr_eqb cs).
  Proof.
    intros cs [|fuel] Hd; [exfalso; lia|]. cbn [to_dict_gen to_dict_body].
    unfold circuitset_to_dict_gen, map_eager_gen_4, py_list_map, circuitset_to_json.
    assert (H : py_each (fun y => circuit_to_dict_gen MS ME fuel (to_dict_gen MS ME fuel) y) (map emb_circ cs)
                = match all_some (map (circuit_to_json expr print free expr_eqb) cs) with Some js => Val js | None => Exn ValueError end).
    { revert Hd. unfold set_depth. induction cs as [|c cs IH]; intros Hd; [reflexivity|]. cbn [map py_each all_some fold_right] in *.
      rewrite circuit_to_dict_gen_is_model by lia.
      destruct (circuit_to_json expr print free expr_eqb c) as [j|]; cbn [out_of pbind]; [|reflexivity].
      rewrite IH by lia. destruct (all_some (map (circuit_to_json expr print free expr_eqb) cs)); reflexivity. }
    rewrite H. destruct (all_some (map (circuit_to_json expr print free expr_eqb) cs)); reflexivity.
  Qed.

  (* ---------------------------------------------------------------- _make_symbols_map and deserialize_expr *)
  Definition emb_sment (v : sment) : string + list (Z * string) :=
    match v with SSym s => inl s | SDict items => inr (map (fun p => (Z.of_N (fst p), snd p)) items) end.
  Definition emb_symmap (m : symmap) : pysymdict string := map (fun kv => (fst kv, emb_sment (snd kv))) m.

  Lemma decode_emb_symmap : forall m, decode_symdict (emb_symmap m) = m.
  Proof.
    unfold decode_symdict, emb_symmap. intro m. rewrite map_map. rewrite <- (map_id m) at 2. apply map_ext.
    intros [k [s|items]]; cbn [fst snd emb_sment]; [reflexivity|]. rewrite map_map. f_equal. f_equal.
    rewrite <- (map_id items) at 2. apply map_ext. intros [i n]. cbn [fst snd]. rewrite N2Z.id. reflexivity.
  Qed.

  Lemma take_digits_span : forall l, take_digits l = span_digits l.
  Proof. induction l as [|c l IH]; simpl; [reflexivity|]. rewrite IH. reflexivity. Qed.

  Lemma take_digits_all : forall l d r, take_digits l = (d, r) -> forallb is_digit_ascii d = true.
  Proof.
    induction l as [|c l IH]; simpl; intros d r H; [inversion H; reflexivity|].
    destruct (is_digit_ascii c) eqn:Ec; [|inversion H; reflexivity].
    destruct (take_digits l) as [d' r'] eqn:Et. inversion H; subst. simpl. rewrite Ec. eapply IH. reflexivity.
  Qed.

  Lemma digits_value_fold : forall l,
    fold_right (fun c acc => (10 * acc + Z.of_N (N_of_ascii c - 48))%Z) 0%Z l = Z.of_N (digits_value_rev l).
  Proof.
    induction l as [|c l IH]; cbn [fold_right digits_value_rev]; [reflexivity|]. rewrite IH. rewrite N2Z.inj_add, N2Z.inj_mul. change (Z.of_N 10) with 10%Z. lia.
  Qed.

  Lemma int_of_digits : forall l, l <> [] -> forallb is_digit_ascii l = true ->
    py_int_of_str (string_of_list_ascii (rev l)) = Val (Z.of_N (digits_value_rev l)).
  Proof.
    intros l Hne Hd. unfold py_int_of_str. rewrite list_ascii_of_string_of_list_ascii.
    assert (Hr : forallb is_digit_ascii (rev l) = true).
    { apply forallb_forall. intros x Hx. rewrite forallb_forall in Hd. apply Hd. apply in_rev. exact Hx. }
    rewrite Hr. destruct (rev l) as [|c r] eqn:Er.
    - exfalso. apply Hne. rewrite <- (rev_involutive l), Er. reflexivity.
    - rewrite <- Er. rewrite <- digits_value_fold. rewrite <- (rev_involutive l) at 2. rewrite fold_left_rev_right. reflexivity.
  Qed.

  Lemma re_indexed_is_model : forall name,
    match py_re_indexed name with
    | Some (b, ds) => exists i, indexed_name name = Some (b, i) /\ py_int_of_str ds = Val (Z.of_N i)
    | None => indexed_name name = None
    end.
  Proof.
    intro name. unfold py_re_indexed, indexed_name, chars.
    destruct (rev (list_ascii_of_string name)) as [|c r]; [reflexivity|].
    destruct (Ascii.eqb c "]"); [|reflexivity]. rewrite (take_digits_span r).
    destruct (span_digits r) as [d rest] eqn:Et. rewrite <- take_digits_span in Et. destruct d as [|d ds]; [reflexivity|]. destruct rest as [|b base]; [reflexivity|].
    destruct (Ascii.eqb b "["); [|reflexivity].
    eexists. split; [reflexivity|]. apply int_of_digits; [discriminate|]. eapply take_digits_all. exact Et.
  Qed.

  Lemma assoc_emb_symmap : forall k m, assoc k (emb_symmap m) = option_map emb_sment (assoc k m).
  Proof.
    intros k. induction m as [|[k' v] m IH]; simpl; [reflexivity|]. destruct (String.eqb k k'); [reflexivity|exact IH].
  Qed.

  Lemma dict_set_emb_symmap : forall k v m, py_dict_set (emb_symmap m) k (emb_sment v) = emb_symmap (set_key k v m).
  Proof.
    intros k v. induction m as [|[k' v'] m IH]; simpl; [reflexivity|]. destruct (String.eqb k k'); simpl; [reflexivity|].
    rewrite IH. reflexivity.
  Qed.

  Lemma idict_set_emb : forall i n items,
    py_idict_set (map (fun p : N * string => (Z.of_N (fst p), snd p)) items) (Z.of_N i) n
    = map (fun p : N * string => (Z.of_N (fst p), snd p)) (set_index i n items).
  Proof.
    intros i n. induction items as [|[i' n'] items IH]; simpl; [reflexivity|].
    replace (Z.of_N i =? Z.of_N i')%Z with (N.eqb i i').
    - destruct (N.eqb i i'); simpl; [reflexivity|]. rewrite IH. reflexivity.
    - destruct (N.eqb_spec i i') as [->|Hn]; [rewrite Z.eqb_refl; reflexivity|].
      symmetry. apply Z.eqb_neq. intro H. apply Hn. apply N2Z.inj. exact H.
  Qed.

  Lemma symmap_step_gen : forall m name,
    (pbind (py_as_str (JStr name)) (fun x2 =>
     let v_match := py_re_indexed x2 in
     match v_match with
     | Some v_match =>
         pbind (py_as_str (JStr name)) (fun x3 =>
         pbind (py_int_of_str (snd v_match)) (fun x4 =>
         pbind (py_setdefault_setitem (emb_symmap m) (fst v_match) x4 (s_Symbol MS x3)) (fun x5 => Val x5)))
     | None =>
         pbind (py_as_str (JStr name)) (fun x6 =>
         pbind (py_as_str (JStr name)) (fun x7 => Val (py_dict_set (emb_symmap m) x7 (inl (s_Symbol MS x6)))))
     end))
    = match symmap_step m name with Some m' => Val (emb_symmap m') | None => Exn TypeError end.
  Proof.
    intros m name. cbn [py_as_str pbind s_Symbol MS]. unfold symmap_step.
    pose proof (re_indexed_is_model name) as H. destruct (py_re_indexed name) as [[b ds]|].
    - destruct H as [i [Hi Hv]]. rewrite Hi. cbn [fst snd]. rewrite Hv. cbn [pbind]. unfold py_setdefault_setitem.
      rewrite assoc_emb_symmap. destruct (assoc b m) as [[s|items]|] eqn:Ea; cbn [option_map emb_sment pbind].
      + reflexivity.
      + rewrite idict_set_emb. rewrite (dict_set_emb_symmap b (SDict (set_index i name items))). reflexivity.
      + rewrite dict_set_new by (rewrite assoc_emb_symmap, Ea; reflexivity).
        unfold emb_symmap. rewrite map_app. reflexivity.
    - rewrite H. rewrite (dict_set_emb_symmap name (SSym name)). reflexivity.
  Qed.

  Theorem make_symbols_map_gen_is_model : forall names,
    make_symbols_map_gen MS (JArr (map JStr names))
    = match make_symbols_map names with Some m => Val (emb_symmap m) | None => Exn TypeError end.
  Proof.
    intro names. unfold make_symbols_map_gen, make_symbols_map. cbn [py_iter_json pbind]. rewrite pbind_val_r.
    change (@nil (string * (s_symbol MS + list (Z * s_symbol MS)))) with (emb_symmap []).
    generalize (@nil (string * sment)). induction names as [|n names IH]; intros m; [reflexivity|].
    cbn [map py_for make_symbols_map_from].
    pose proof (symmap_step_gen m n) as Hs. cbv zeta in Hs. cbv zeta.
    match goal with |- pbind ?X _ = _ => match type of Hs with ?Y = _ => replace X with Y end end.
    - rewrite Hs. destruct (symmap_step m n) as [m'|]; cbn [pbind]; [apply IH|reflexivity].
    - f_equal. destruct (py_re_indexed n); reflexivity.
  Qed.

  Theorem deserialize_expr_gen_is_model : forall s syms,
    deserialize_expr_gen MS (JStr s) (JArr (map JStr syms))
    = match make_symbols_map syms with
      | Some m => match sympify m s with Some e => Val e | None => Exn SympyError end
      | None => Exn TypeError
      end.
  Proof.
    intros s syms. unfold deserialize_expr_gen. rewrite make_symbols_map_gen_is_model.
    destruct (make_symbols_map syms) as [m|]; cbn [pbind py_as_str]; [|reflexivity].
    cbn [s_sympify MS]. rewrite decode_emb_symmap. reflexivity.
  Qed.

  (* ---------------------------------------------------------------- the readers: what agreement means *)
  (* wherever the model makes a claim the generated function returns exactly that: the embedded value, KeyError, or
     an exception of Python other than KeyError; where the model says "outside the model" nothing is claimed *)
  Definition agrees {A B} (emb : B -> A) (g : pyres A) (m : res B) : Prop :=
    match m with
    | Ok b => g = Val (emb b)
    | EKey => g = Exn KeyError
    | EErr => exists e, g = Exn e /\ e <> KeyError /\ e <> NotModelled
    | EUnmodelled => True
    end.

  Lemma agrees_err : forall A B (emb : B -> A) e, e <> KeyError -> e <> NotModelled -> agrees emb (Exn e) EErr.
  Proof. intros. exists e. auto. Qed.

  Ltac err := first [ apply agrees_err; discriminate
                    | eexists; split; [reflexivity | split; discriminate] ].

  Lemma as_strings_inv : forall l syms, as_strings l = Ok syms -> l = map JStr syms.
  Proof.
    unfold as_strings. induction l as [|x l IH]; intros syms H; simpl in H.
    - inversion H. reflexivity.
    - destruct x; try discriminate. destruct (mapM _ l) as [ys| | |] eqn:E; try discriminate. inversion H; subst.
      simpl. rewrite (IH ys eq_refl). reflexivity.
  Qed.

  Lemma free_syms_gen : forall kv syms, symbol_names (JObj kv) = Ok syms ->
    py_get (JObj kv) "free_symbols" (JArr []) = Val (JArr (map JStr syms)).
  Proof.
    intros kv syms. unfold symbol_names. cbn [jget bind py_get]. destruct (assoc "free_symbols" kv) as [[| | | |l|]|]; cbn [as_list bind]; try discriminate.
    - intro H. apply as_strings_inv in H. rewrite H. reflexivity.
    - intro H. inversion H. reflexivity.
  Qed.

  Lemma py_comp_ext : forall A B (f g : A -> pyres (list B)) l, (forall x, f x = g x) -> py_comp l f = py_comp l g.
  Proof. intros A B f g l H. induction l as [|a l IH]; simpl; [reflexivity|]. rewrite H, IH. reflexivity. Qed.

  Lemma params_agree : forall syms ps,
    agrees (fun x => x)
      (py_comp ps (fun p => pbind (deserialize_expr_gen MS p (JArr (map JStr syms))) (fun x => Val [x])))
      (mapM (parse_param expr parse syms) ps).
  Proof.
    intros syms. induction ps as [|p ps IH]; [cbn [py_comp mapM agrees]; reflexivity|]. cbn [py_comp mapM].
    destruct p as [| | |s| |]; try exact I. cbn [parse_param]. rewrite deserialize_expr_gen_is_model.
    remember (mapM (parse_param expr parse syms) ps) as r eqn:Er. clear Er. unfold parse_via_map.
    destruct (make_symbols_map syms) as [m|]; [|cbn [bind pbind]; err].
    destruct (sympify m s) as [e|]; [|cbn [bind pbind]; err]. cbn [bind pbind].
    destruct r as [es| | |]; cbn [agrees bind] in *.
    - rewrite IH. reflexivity.
    - rewrite IH. reflexivity.
    - destruct IH as [e' [-> [H1 H2]]]. exists e'. auto.
    - exact I.
  Qed.

  (* ---------------------------------------------------------------- _builtin_gate_from_dict *)
  Lemma as_strings_cases : forall l, (exists syms, as_strings l = Ok syms) \/ as_strings l = EUnmodelled.
  Proof.
    unfold as_strings. induction l as [|x l IH]; simpl; [left; eexists; reflexivity|].
    destruct x; try (right; reflexivity). destruct IH as [[ys ->]| ->]; [left; eexists; reflexivity|right; reflexivity].
  Qed.

  Lemma symbol_names_cases : forall kv, (exists syms, symbol_names (JObj kv) = Ok syms) \/ symbol_names (JObj kv) = EUnmodelled.
  Proof.
    intro kv. unfold symbol_names. cbn [jget bind]. destruct (assoc "free_symbols" kv) as [[| | | |l|]|]; cbn [as_list bind];
      try (right; reflexivity); [apply as_strings_cases | left; eexists; reflexivity].
  Qed.

  (* the comprehension over the parameters of a dictionary whose free_symbols are the strings syms *)
  Lemma params_comp_agree : forall kv syms ps, symbol_names (JObj kv) = Ok syms ->
    agrees (fun x => x)
      (py_comp ps (fun v_param =>
         pbind (py_get (JObj kv) "free_symbols" (JArr [])) (fun x7 =>
         pbind (deserialize_expr_gen MS v_param x7) (fun x8 => Val [x8]))))
      (mapM (parse_param expr parse syms) ps).
  Proof.
    intros kv syms ps Es. rewrite (free_syms_gen kv syms Es).
    erewrite py_comp_ext; [apply params_agree|]. intro x. reflexivity.
  Qed.

  Theorem builtin_gate_from_dict_gen_agrees : forall j,
    agrees emb_gate (builtin_gate_from_dict_gen MS j) (builtin_from_json expr parse j).
  Proof.
    intro j. unfold builtin_gate_from_dict_gen, builtin_from_json, builtin_gate_by_name_gen.
    destruct j as [| | | | |kv]; try (cbn [jfield bind py_getitem_str pbind]; err).
    cbn [jfield py_getitem_str]. destruct (assoc "name" kv) as [n|]; [|reflexivity]. cbn [bind pbind].
    destruct n as [|b|x|name|l|o]; try (cbn [py_builtin_gate_by_name pbind]; first [reflexivity | err]).
    cbn [py_builtin_gate_by_name]. destruct (assoc name builtin_globals) as [ref|] eqn:Eg; [|reflexivity].
    cbn [jget bind].
    assert (Hconst : forall nq h, ref = GConst nq h ->
              @GateModsGen.MatrixFactoryGate (gw MS) name (FBuiltin name) [] nq h = emb_gate (Builtin expr name [])).
    { intros nq h ->. cbn [emb_gate]. unfold builtin_shape. rewrite Eg. reflexivity. }
    pose proof (params_comp_agree kv) as Hcomp.
    destruct (assoc "params" kv) as [[|b|x|s|[|p ps]|o]|] eqn:Ep; cbn [py_get] in *; rewrite ?Ep;
      destruct ref as [nq h|nq h|]; try exact I;
      cbn [pbind py_ref_is_None gate_is_parametric_gen py_truth_json negb py_gate_of_ref agrees];
      try (rewrite (Hconst nq h eq_refl); reflexivity).
    (* a prototype called with the parameters *)
    cbn [py_iter_json pbind]. destruct (symbol_names_cases kv) as [[syms Es]|Es]; rewrite Es; [|exact I].
    specialize (Hcomp syms (p :: ps) Es). cbn [bind]. cbn [pbind] in Hcomp.
    destruct (mapM (parse_param expr parse syms) (p :: ps)) as [es| | |]; cbn [agrees bind] in *.
    - rewrite Hcomp. cbn [pbind py_call_ref emb_gate]. unfold builtin_shape. rewrite Eg. reflexivity.
    - rewrite Hcomp. reflexivity.
    - destruct Hcomp as [e [-> [H1 H2]]]. exists e. auto.
    - exact I.
  Qed.

  (* ---------------------------------------------------------------- _special_gate_from_dict *)
  Lemma free_check_gen : forall w,
    (0 <? GatesTrSupport.py_len (GateModsGen.Gate_free_symbols_gen (emb_gate w)))%Z
    = match gate_free expr free w with [] => false | _ => true end.
  Proof.
    intro w. rewrite free_symbols_gen_is_model. destruct (gate_free expr free w); reflexivity.
  Qed.

  Theorem special_gate_from_dict_gen_agrees : forall rec_g rec_m j defs,
    (forall wj, agrees emb_gate (rec_g wj (map emb_def defs)) (rec_m wj)) ->
    agrees emb_gate (special_gate_from_dict_gen MS rec_g j (map emb_def defs)) (special_from_json expr free rec_m j).
  Proof.
    intros rec_g rec_m j defs Hrec. unfold special_gate_from_dict_gen, special_from_json.
    destruct j as [| | | | |kv]; try (cbn [jfield bind py_getitem_str pbind]; err).
    cbn [jfield py_getitem_str]. destruct (assoc "name" kv) as [n|] eqn:En; [|reflexivity]. cbn [bind pbind].
    destruct n as [|b|x|name|l|o]; try (cbn [py_eq_json_str py_endswith_json pbind]; err).
    cbn [py_eq_json_str py_endswith_json py_in_str_json pbind].
    change GateModsGen.CONTROLLED_GATE_NAME with CONTROLLED_GATE_NAME. change GateModsGen.DAGGER_GATE_NAME with DAGGER_GATE_NAME.
    change GateModsGen.EXPONENTIAL_GATE_NAME with EXPONENTIAL_GATE_NAME. change GateModsGen.POWER_GATE_SYMBOL with POWER_GATE_SYMBOL.
    assert (Hw : forall (kg : GateModsGen.pygate (gw MS) -> pyres (GateModsGen.pygate (gw MS))) (km : gate expr -> res (gate expr)),
               (forall w, agrees emb_gate (kg (emb_gate w)) (km w)) ->
               agrees emb_gate
                 (pbind (match assoc "wrapped_gate" kv with Some v => Val v | None => Exn KeyError end)
                        (fun x2 => pbind (rec_g x2 (map emb_def defs)) kg))
                 (bind (match assoc "wrapped_gate" kv with Some v => Ok v | None => EKey end) (fun wj => bind (rec_m wj) km))).
    { intros kg km Hk. destruct (assoc "wrapped_gate" kv) as [wj|]; [|reflexivity]. cbn [bind pbind].
      specialize (Hrec wj). destruct (rec_m wj) as [w| | |]; cbn [agrees bind] in *.
      - rewrite Hrec. apply Hk.
      - rewrite Hrec. reflexivity.
      - destruct Hrec as [e [-> [H1 H2]]]. exists e. auto.
      - exact I. }
    destruct (String.eqb name CONTROLLED_GATE_NAME).
    { apply Hw. intro w. destruct (assoc "num_control_qubits" kv) as [k|]; [|reflexivity]. cbn [bind pbind].
      destruct k as [|b|[z|r]|s|l|o]; try exact I. cbn [py_as_int pbind].
      unfold GateModsGen.ControlledGate_new, GateModsGen.ControlledGate_post_init_gen.
      destruct (z <? 1)%Z; cbn [GatesTrSupport.bind of_gates]; [err|reflexivity]. }
    destruct (ends_with DAGGER_GATE_NAME name).
    { apply Hw. intro w. reflexivity. }
    destruct (String.eqb name EXPONENTIAL_GATE_NAME).
    { apply Hw. intro w. unfold GateModsGen.Exponential_new, GateModsGen.Exponential_post_init_gen. rewrite free_check_gen.
      destruct (gate_free expr free w); cbn [GatesTrSupport.bind of_gates]; [reflexivity|err]. }
    destruct (contains POWER_GATE_SYMBOL name); [|reflexivity].
    apply Hw. intro w. destruct (assoc "exponent" kv) as [e|]; [|reflexivity]. cbn [bind pbind].
    destruct e as [|b|x|s|l|o]; try exact I. cbn [py_as_float pbind].
    unfold GateModsGen.Power_new, GateModsGen.Power_post_init_gen. rewrite free_check_gen.
    destruct (gate_free expr free w); cbn [GatesTrSupport.bind of_gates]; [reflexivity|err].
  Qed.

  (* ---------------------------------------------------------------- _custom_gate_instance_from_dict *)
  Lemma first_def_gen : forall name kv defs, assoc "name" kv = Some (JStr name) ->
    py_first (map emb_def defs) (fun gd =>
      pbind (py_getitem_str (JObj kv) "name") (fun x1 =>
      if py_eq_json_str x1 (CustomGateDefinition_attr_gate_name MS gd) then Val [gd] else Val []))
    = Val (option_map emb_def (find_def expr name defs)).
  Proof.
    intros name kv defs Hn. cbn [py_getitem_str]. rewrite Hn. cbn [pbind py_eq_json_str].
    induction defs as [|d defs IH]; [reflexivity|].
    cbn [map py_first find_def find]. unfold emb_def at 1. cbn [CustomGateDefinition_attr_gate_name].
    rewrite (String.eqb_sym (dname expr d) name).
    destruct (String.eqb name (dname expr d)); cbn [pbind]; [reflexivity|]. exact IH.
  Qed.

  Lemma first_def_exn : forall j e (defs : list (pydef MS)) (k : option (pydef MS) -> pyres (GateModsGen.pygate (gw MS))),
    py_getitem_str j "name" = Exn e -> k None = pbind (py_getitem_str j "name") (fun _ => Exn ValueError) ->
    pbind (py_first defs (fun gd =>
      pbind (py_getitem_str j "name") (fun x1 =>
      if py_eq_json_str x1 (CustomGateDefinition_attr_gate_name MS gd) then Val [gd] else Val []))) k = Exn e.
  Proof.
    intros j e defs k He Hk. destruct defs as [|d defs]; cbn [py_first pbind]; [rewrite Hk|]; rewrite He; reflexivity.
  Qed.

  Theorem custom_gate_instance_from_dict_gen_agrees : forall j defs,
    agrees emb_gate (custom_gate_instance_from_dict_gen MS j (map emb_def defs)) (custom_from_json expr parse defs j).
  Proof.
    intros j defs. unfold custom_gate_instance_from_dict_gen, custom_from_json.
    destruct j as [| | | | |kv]; try (cbn [jfield bind]; rewrite (first_def_exn _ TypeError) by reflexivity; err).
    cbn [jfield]. destruct (assoc "name" kv) as [n|] eqn:En.
    2:{ cbn [bind agrees]. apply first_def_exn; cbn [py_getitem_str]; rewrite En; reflexivity. }
    cbn [bind]. destruct n as [|b|x|name|l|o]; try exact I.
    rewrite (first_def_gen name kv defs En). cbn [pbind].
    destruct (find_def expr name defs) as [d|]; cbn [option_map].
    2:{ cbn [py_getitem_str]. rewrite En. cbn [pbind]. err. }
    destruct (symbol_names_cases kv) as [[syms Es]|Es]; rewrite Es; [|exact I]. cbn [bind].
    rewrite (free_syms_gen kv syms Es). cbn [pbind]. unfold params_json. cbn [jget bind py_get].
    assert (Hfin : forall ps, agrees emb_gate
              (pbind (py_comp ps (fun v_param => pbind (deserialize_expr_gen MS v_param (JArr (map JStr syms))) (fun x7 => Val [x7])))
                     (fun x8 => Val (GateModsGen.CustomGateDefinition_call_gen py_custom_factory (emb_def d) x8)))
              (ps' <- mapM (parse_param expr parse syms) ps ;; Ok (Custom expr d ps'))).
    { intro ps. pose proof (params_agree syms ps) as Hp.
      destruct (mapM (parse_param expr parse syms) ps) as [es| | |]; cbn [agrees bind] in *.
      - rewrite Hp. reflexivity.
      - rewrite Hp. reflexivity.
      - destruct Hp as [e [-> [H1 H2]]]. exists e. auto.
      - exact I. }
    destruct (assoc "params" kv) as [[|b|x|s|l|o]|]; cbn [as_list bind]; try exact I; cbn [py_iter_json pbind]; apply Hfin.
  Qed.

  (* ---------------------------------------------------------------- _gate_from_dict *)
  Lemma pyx_eqb_key : forall e, e <> KeyError -> pyx_eqb e KeyError = false.
  Proof. intros [] H; try reflexivity. exfalso. apply H. reflexivity. Qed.

  Theorem gate_from_dict_gen_agrees : forall fuel j defs,
    agrees emb_gate (gate_from_dict_gen MS fuel j (map emb_def defs)) (gate_from_json expr parse free fuel defs j).
  Proof.
    induction fuel as [|fuel IH]; intros j defs; [exact I|].
    cbn [gate_from_dict_gen gate_from_json]. unfold gate_from_dict_body.
    pose proof (builtin_gate_from_dict_gen_agrees j) as Hb.
    destruct (builtin_from_json expr parse j) as [g| | |]; cbn [agrees] in Hb.
    - rewrite Hb. reflexivity.
    - rewrite Hb. cbn [py_try pyx_eqb].
      pose proof (special_gate_from_dict_gen_agrees (gate_from_dict_gen MS fuel) (gate_from_json expr parse free fuel defs) j defs
                    (fun wj => IH wj defs)) as Hs.
      destruct (special_from_json expr free (gate_from_json expr parse free fuel defs) j) as [g| | |]; cbn [agrees] in Hs.
      + rewrite Hs. reflexivity.
      + rewrite Hs. cbn [py_try pyx_eqb]. apply custom_gate_instance_from_dict_gen_agrees.
      + destruct Hs as [e [-> [H1 H2]]]. cbn [py_try]. rewrite (pyx_eqb_key e H1). exists e. auto.
      + exact I.
    - destruct Hb as [e [-> [H1 H2]]]. cbn [py_try]. rewrite (pyx_eqb_key e H1). exists e. auto.
    - exact I.
  Qed.

  (* ---------------------------------------------------------------- comprehensions over lists of dictionaries *)
  Lemma comp_agrees : forall A B (emb : B -> A) (f : json -> pyres A) (m : json -> res B) l,
    (forall x, agrees emb (f x) (m x)) ->
    agrees (map emb) (py_comp l (fun x => pbind (f x) (fun y => Val [y]))) (mapM m l).
  Proof.
    intros A B emb f m l H. induction l as [|x l IH]; [cbn [py_comp mapM agrees]; reflexivity|]. cbn [py_comp mapM].
    specialize (H x). destruct (m x) as [b| | |]; cbn [agrees bind] in *.
    - rewrite H. cbn [pbind]. destruct (mapM m l) as [bs| | |]; cbn [agrees bind] in *.
      + rewrite IH. reflexivity.
      + rewrite IH. reflexivity.
      + destruct IH as [e [-> [H1 H2]]]. exists e. auto.
      + exact I.
    - rewrite H. reflexivity.
    - destruct H as [e [-> [H1 H2]]]. exists e. auto.
    - exact I.
  Qed.

  Lemma as_ints_gen : forall l qs, as_ints l = Ok qs -> py_each py_as_int l = Val qs.
  Proof.
    unfold as_ints. induction l as [|x l IH]; intros qs H; simpl in H; [inversion H; reflexivity|].
    destruct x as [| |[z|r]| | |]; try discriminate. destruct (mapM _ l) as [ys| | |] eqn:E; try discriminate. inversion H; subst.
    cbn [py_each py_as_int pbind]. rewrite (IH ys eq_refl). reflexivity.
  Qed.
  Lemma as_ints_cases : forall l, (exists qs, as_ints l = Ok qs) \/ as_ints l = EUnmodelled.
  Proof.
    unfold as_ints. induction l as [|x l IH]; simpl; [left; eexists; reflexivity|].
    destruct x as [| |[z|r]| | |]; try (right; reflexivity). destruct IH as [[ys ->]| ->]; [left; eexists; reflexivity|right; reflexivity].
  Qed.

  Theorem gate_operation_from_dict_gen_agrees : forall fuel j defs,
    agrees emb_op (gate_operation_from_dict_gen MS fuel j (map emb_def defs)) (op_from_json expr parse free fuel defs j).
  Proof.
    intros fuel j defs. unfold gate_operation_from_dict_gen, op_from_json.
    destruct j as [| | | | |kv]; try (cbn [jfield bind py_getitem_str pbind]; err).
    cbn [jfield py_getitem_str]. destruct (assoc "gate" kv) as [gj|]; [|reflexivity]. cbn [bind pbind].
    pose proof (gate_from_dict_gen_agrees fuel gj defs) as Hg.
    destruct (gate_from_json expr parse free fuel defs gj) as [g| | |]; cbn [agrees bind] in *.
    2:{ rewrite Hg. reflexivity. }
    2:{ destruct Hg as [e [-> [H1 H2]]]. exists e. auto. }
    2:{ exact I. }
    rewrite Hg. cbn [pbind]. destruct (assoc "qubit_indices" kv) as [q|]; [|reflexivity]. cbn [bind pbind].
    destruct q as [|b|x|s|l|o]; try exact I. cbn [py_iter_json pbind].
    destruct (as_ints_cases l) as [[qs Eq]|Eq]; rewrite Eq; [|exact I]. rewrite (as_ints_gen l qs Eq). reflexivity.
  Qed.

  (* ---------------------------------------------------------------- custom_gate_def_from_dict *)
  Lemma symbols_comp_gen : forall po,
    py_comp (map JStr po) (fun v_term => pbind (py_as_str v_term) (fun x3 => Val [s_Symbol MS x3])) = Val po.
  Proof. induction po as [|s po IH]; [reflexivity|]. cbn [map py_comp py_as_str pbind]. rewrite IH. reflexivity. Qed.

  Lemma rows_agree : forall po rows,
    agrees (fun x => x)
      (py_comp rows (fun v_json_row =>
         pbind (py_iter_json v_json_row) (fun x2 =>
         pbind (py_comp x2 (fun v_element =>
                  pbind (deserialize_expr_gen MS v_element (JArr (map JStr po))) (fun x3 => Val [x3]))) (fun x4 => Val [x4]))))
      (mapM (fun row => match row with JArr es => mapM (parse_param expr parse po) es | _ => EUnmodelled end) rows).
  Proof.
    intros po. induction rows as [|row rows IH]; [cbn [py_comp mapM agrees]; reflexivity|]. cbn [py_comp mapM].
    destruct row as [|b|x|s|es|o]; try exact I. cbn [py_iter_json pbind].
    pose proof (params_agree po es) as Hp.
    destruct (mapM (parse_param expr parse po) es) as [r| | |]; cbn [agrees bind] in *.
    - rewrite Hp. cbn [pbind].
      destruct (mapM (fun row => match row with JArr es0 => mapM (parse_param expr parse po) es0 | _ => EUnmodelled end) rows)
        as [rs| | |]; cbn [agrees bind] in *.
      + rewrite IH. reflexivity.
      + rewrite IH. reflexivity.
      + destruct IH as [e [-> [H1 H2]]]. exists e. auto.
      + exact I.
    - rewrite Hp. reflexivity.
    - destruct Hp as [e [-> [H1 H2]]]. exists e. auto.
    - exact I.
  Qed.

  Theorem custom_gate_def_from_dict_gen_agrees : forall j,
    agrees emb_def (custom_gate_def_from_dict_gen MS j) (def_from_json expr parse j).
  Proof.
    intro j. unfold custom_gate_def_from_dict_gen, def_from_json.
    destruct j as [| | | | |kv]; try (cbn [jget bind py_get pbind]; err).
    cbn [jget bind py_get pbind].
    assert (Hmain : forall po, match assoc "params_ordering" kv with Some v => v | None => JArr [] end = JArr (map JStr po) ->
      agrees emb_def
        (pbind (py_iter_json (JArr (map JStr po))) (fun x2 =>
         pbind (py_comp x2 (fun v_term => pbind (py_as_str v_term) (fun x3 => Val [s_Symbol MS x3]))) (fun x4 =>
         pbind (py_getitem_str (JObj kv) "gate_name") (fun x5 =>
         pbind (py_getitem_str (JObj kv) "matrix") (fun x6 =>
         pbind (Val (JArr (map JStr po))) (fun x7 =>
         pbind (matrix_from_json_gen MS x6 x7) (fun x8 =>
         pbind (py_as_str x5) (fun x9 => CustomGateDefinition_new x9 x8 x4))))))))
        (n <- jfield "gate_name" (JObj kv) ;; m <- jfield "matrix" (JObj kv) ;;
         match n, m with
         | JStr name, JArr rows =>
             mat <- mapM (fun row => match row with JArr es => mapM (parse_param expr parse po) es | _ => EUnmodelled end) rows ;;
             if is_pow2 (List.length mat) && forallb (fun row => Nat.eqb (List.length row) (List.length mat)) mat
             then Ok (mk_gdef expr name mat po) else EErr
         | _, _ => EUnmodelled
         end)).
    { intros po _. cbn [py_iter_json pbind]. rewrite symbols_comp_gen. cbn [pbind jfield py_getitem_str].
      destruct (assoc "gate_name" kv) as [n|]; [|reflexivity]. cbn [bind pbind].
      destruct (assoc "matrix" kv) as [m|]; [|reflexivity]. cbn [bind pbind].
      destruct n as [|b|x|name|l|o]; try exact I. destruct m as [|b|x|s|rows|o]; try exact I.
      unfold matrix_from_json_gen. cbn [py_iter_json pbind].
      pose proof (rows_agree po rows) as Hr.
      destruct (mapM (fun row => match row with JArr es => mapM (parse_param expr parse po) es | _ => EUnmodelled end) rows)
        as [mat| | |]; cbn [agrees bind] in *.
      - rewrite Hr. cbn [pbind s_Matrix MS py_as_str]. unfold CustomGateDefinition_new. cbn [s_n_qubits MS]. unfold mat_ok.
        destruct (is_pow2 (List.length mat) && forallb (fun row => Nat.eqb (List.length row) (List.length mat)) mat);
          cbn [pbind agrees]; [reflexivity|err].
      - rewrite Hr. reflexivity.
      - destruct Hr as [e [-> [H1 H2]]]. exists e. auto.
      - exact I. }
    destruct (assoc "params_ordering" kv) as [[|b|x|s|l|o]|] eqn:Ep; cbn [as_list bind]; try exact I.
    - destruct (as_strings_cases l) as [[po Es]|Es]; rewrite Es; [|exact I]. cbn [bind].
      apply as_strings_inv in Es. subst l. apply (Hmain po). reflexivity.
    - apply (Hmain []). reflexivity.
  Qed.

  (* ---------------------------------------------------------------- more fuel does not change what the model claims *)
  Definition le_res {A} (r r' : res A) : Prop := r = EUnmodelled \/ r' = r.
  Lemma le_refl : forall A (r : res A), le_res r r.
  Proof. intros. right. reflexivity. Qed.
  Lemma le_bind : forall A B (a a' : res A) (k k' : A -> res B), le_res a a' -> (forall x, le_res (k x) (k' x)) -> le_res (bind a k) (bind a' k').
  Proof.
    intros A B a a' k k' [->| ->] Hk; [left; reflexivity|]. destruct a as [x| | |]; cbn [bind]; try apply le_refl. apply Hk.
  Qed.
  Lemma le_mapM : forall A B (f f' : A -> res B) l, (forall x, le_res (f x) (f' x)) -> le_res (mapM f l) (mapM f' l).
  Proof.
    intros A B f f' l H. induction l as [|x l IH]; [apply le_refl|]. cbn [mapM].
    apply le_bind; [apply H|]. intro y. apply le_bind; [exact IH|]. intro ys. apply le_refl.
  Qed.
  Lemma agrees_le : forall A B (emb : B -> A) g (r r' : res B), agrees emb g r' -> le_res r r' -> agrees emb g r.
  Proof. intros A B emb g r r' H [->| ->]; [exact I|exact H]. Qed.

  Lemma special_le : forall (rec rec' : json -> res (gate expr)) j, (forall x, le_res (rec x) (rec' x)) ->
    le_res (special_from_json expr free rec j) (special_from_json expr free rec' j).
  Proof.
    intros rec rec' j H. unfold special_from_json. apply le_bind; [apply le_refl|]. intros n.
    destruct n as [|b|x|name|l|o]; try apply le_refl.
    assert (Hw : forall K : gate expr -> res (gate expr),
              le_res (wj <- jfield "wrapped_gate" j ;; w <- rec wj ;; K w) (wj <- jfield "wrapped_gate" j ;; w <- rec' wj ;; K w)).
    { intro K. apply le_bind; [apply le_refl|]. intro wj. apply le_bind; [apply H|]. intro w. apply le_refl. }
    destruct (String.eqb name CONTROLLED_GATE_NAME); [apply Hw|].
    destruct (ends_with DAGGER_GATE_NAME name); [apply Hw|].
    destruct (String.eqb name EXPONENTIAL_GATE_NAME); [apply Hw|].
    destruct (contains POWER_GATE_SYMBOL name); [apply Hw|apply le_refl].
  Qed.

  Lemma gate_from_json_le : forall f f' defs j, (f <= f')%nat ->
    le_res (gate_from_json expr parse free f defs j) (gate_from_json expr parse free f' defs j).
  Proof.
    induction f as [|f IH]; intros f' defs j Hf; [left; reflexivity|].
    destruct f' as [|f']; [exfalso; lia|]. cbn [gate_from_json].
    destruct (builtin_from_json expr parse j); try apply le_refl.
    destruct (special_le (gate_from_json expr parse free f defs) (gate_from_json expr parse free f' defs) j
                (fun x => IH f' defs x ltac:(lia))) as [->| ->]; [left; reflexivity|apply le_refl].
  Qed.

  Lemma op_from_json_le : forall f f' defs j, (f <= f')%nat ->
    le_res (op_from_json expr parse free f defs j) (op_from_json expr parse free f' defs j).
  Proof.
    intros f f' defs j Hf. unfold op_from_json. apply le_bind; [apply le_refl|]. intro gj.
    apply le_bind; [apply gate_from_json_le; exact Hf|]. intro g. apply le_refl.
  Qed.

  (* the model of circuit_from_dict with the fuel as an argument (the model takes the depth of the dictionary) *)
  Definition circuit_model (fuel : nat) (j : json) : res (circuit expr) :=
    o <- jget "custom_gate_definitions" j ;; dl <- as_list o ;; defs <- mapM (def_from_json expr parse) dl ;;
    o2 <- jget "operations" j ;; ol <- as_list o2 ;; ops <- mapM (op_from_json expr parse free fuel defs) ol ;;
    n <- jfield "n_qubits" j ;;
    match n with
    | JNum (NInt z) =>
        if Z.eqb z 0 then (s <- size_by_ops expr ops ;; Ok (mk_circuit expr ops s))
        else if Z.ltb z 0 then EErr else Ok (mk_circuit expr ops z)
    | JNull => s <- size_by_ops expr ops ;; Ok (mk_circuit expr ops s)
    | _ => EUnmodelled
    end.
  Lemma circuit_model_self : forall j, circuit_from_json expr parse free j = circuit_model (jdepth j) j.
  Proof. reflexivity. Qed.
  Lemma circuit_model_le : forall f f' j, (f <= f')%nat -> le_res (circuit_model f j) (circuit_model f' j).
  Proof.
    intros f f' j Hf. unfold circuit_model.
    apply le_bind; [apply le_refl|]. intro o. apply le_bind; [apply le_refl|]. intro dl. apply le_bind; [apply le_refl|]. intro defs.
    apply le_bind; [apply le_refl|]. intro o2. apply le_bind; [apply le_refl|]. intro ol.
    apply le_bind; [apply le_mapM; intro x; apply op_from_json_le; exact Hf|]. intro ops. apply le_refl.
  Qed.

  (* ---------------------------------------------------------------- circuit_from_dict, circuitset_from_dict *)
  Lemma agrees_bind : forall A B C D (embA : B -> A) (embC : D -> C) g m (kg : A -> pyres C) (km : B -> res D),
    agrees embA g m -> (forall b, agrees embC (kg (embA b)) (km b)) -> agrees embC (pbind g kg) (bind m km).
  Proof.
    intros A B C D embA embC g m kg km H Hk. destruct m as [b| | |]; cbn [agrees bind] in *.
    - rewrite H. apply Hk.
    - rewrite H. reflexivity.
    - destruct H as [e [-> [H1 H2]]]. exists e. auto.
    - exact I.
  Qed.

  Lemma as_list_iter : forall C D (embC : D -> C) kv key (kg : list json -> pyres C) (km : list json -> res D),
    (forall l, agrees embC (kg l) (km l)) ->
    agrees embC (pbind (py_get (JObj kv) key (JArr [])) (fun x => pbind (py_iter_json x) kg))
                (o <- jget key (JObj kv) ;; l <- as_list o ;; km l).
  Proof.
    intros C D embC kv key kg km H. cbn [py_get jget pbind bind].
    destruct (assoc key kv) as [[|b|x|s|l|o]|]; cbn [as_list bind]; try exact I; cbn [py_iter_json pbind]; apply H.
  Qed.

  Lemma size_gen : forall ops,
    py_size (map OpGate (map emb_op ops)) = match size_by_ops expr ops with Ok s => Val s | _ => Exn ValueError end.
  Proof.
    intro ops. unfold py_size, size_by_ops. destruct ops as [|op ops]; [reflexivity|].
    assert (Hq : forall l, flat_map op_qubits (map OpGate (map emb_op l)) = flat_map snd l).
    { induction l as [|[g q] l IH]; [reflexivity|]. cbn [map flat_map op_qubits emb_op snd]. rewrite IH. reflexivity. }
    cbn [map]. change (OpGate (emb_op op) :: map OpGate (map emb_op ops)) with (map OpGate (map emb_op (op :: ops))).
    rewrite Hq. destruct (flat_map snd (op :: ops)); reflexivity.
  Qed.

  Lemma circuit_from_dict_gen_agrees_model : forall fuel j,
    agrees emb_circ (circuit_from_dict_gen MS ME fuel j) (circuit_model fuel j).
  Proof.
    intros fuel j. unfold circuit_from_dict_gen, circuit_model.
    destruct j as [| | | | |kv]; try (cbn [jget bind py_get pbind]; err).
    apply as_list_iter. intro dl.
    apply (agrees_bind _ _ _ _ (map emb_def)); [apply comp_agrees; apply custom_gate_def_from_dict_gen_agrees|]. intro defs. cbv zeta.
    apply as_list_iter. intro ol.
    apply (agrees_bind _ _ _ _ (map emb_op)); [apply comp_agrees; intro x; apply gate_operation_from_dict_gen_agrees|]. intro ops.
    cbn [jfield py_getitem_str]. destruct (assoc "n_qubits" kv) as [n|]; [|reflexivity]. cbn [bind pbind].
    assert (Hsz : agrees emb_circ
              (pbind (py_size (map OpGate (map emb_op ops))) (fun s => Val (mk_pycircuit (map OpGate (map emb_op ops)) s)))
              (s <- size_by_ops expr ops ;; Ok (mk_circuit expr ops s))).
    { rewrite size_gen. unfold size_by_ops. destruct ops as [|op ops]; [reflexivity|].
      destruct (flat_map snd (op :: ops)); cbn [bind pbind agrees]; [err|].
      unfold emb_circ, emb_pyop. cbn [c_ops c_nq]. rewrite map_map. reflexivity. }
    destruct n as [|b|[z|r]|s|l|o]; try exact I; cbn [py_as_optint pbind e_Circuit ME].
    - exact Hsz.
    - destruct (Z.eqb z 0); [exact Hsz|]. destruct (Z.ltb z 0); [err|].
      cbn [agrees]. unfold emb_circ, emb_pyop. cbn [c_ops c_nq]. rewrite map_map. reflexivity.
  Qed.

  Theorem circuit_from_dict_gen_agrees : forall fuel j, (jdepth j <= fuel)%nat ->
    agrees emb_circ (circuit_from_dict_gen MS ME fuel j) (circuit_from_json expr parse free j).
  Proof.
    intros fuel j Hf. rewrite circuit_model_self. eapply agrees_le; [apply circuit_from_dict_gen_agrees_model|].
    apply circuit_model_le. exact Hf.
  Qed.

  Lemma jdepth_in_arr : forall x l, In x l -> (jdepth x < jdepth (JArr l))%nat.
  Proof.
    intros x l H. cbn [jdepth]. apply Nat.lt_succ_r. induction l as [|a l IH]; [destruct H|]. cbn [map fold_right].
    destruct H as [->|H]; [lia|]. specialize (IH H). lia.
  Qed.
  Lemma jdepth_in_obj : forall k v kv, assoc k kv = Some v -> (jdepth v < jdepth (JObj kv))%nat.
  Proof.
    intros k v kv H. cbn [jdepth]. apply Nat.lt_succ_r. induction kv as [|[k' v'] kv IH]; [discriminate|]. cbn [map fold_right snd assoc] in *.
    destruct (String.eqb k k'); [inversion H; subst; lia|]. specialize (IH H). lia.
  Qed.

  Theorem circuitset_from_dict_gen_agrees : forall fuel j, (jdepth j <= fuel)%nat ->
    agrees (map emb_circ) (circuitset_from_dict_gen MS ME fuel j) (circuitset_from_json expr parse free j).
  Proof.
    intros fuel j Hf. unfold circuitset_from_dict_gen, circuitset_from_json, map_eager_gen_6, py_list_map.
    destruct j as [| | | | |kv]; try (cbn [jfield bind py_getitem_str pbind]; err).
    cbn [jfield py_getitem_str]. destruct (assoc "circuits" kv) as [cs|] eqn:Ec; [|reflexivity]. cbn [bind pbind].
    destruct cs as [|b|x|s|l|o]; try exact I. cbn [py_iter_json pbind].
    pose proof (jdepth_in_obj _ _ _ Ec) as Hd.
    assert (Hl : forall x, In x l -> (jdepth x <= fuel)%nat) by (intros x Hx; pose proof (jdepth_in_arr x l Hx); lia).
    clear Hd Ec Hf. induction l as [|c l IH]; [reflexivity|]. cbn [py_each mapM].
    pose proof (circuit_from_dict_gen_agrees fuel c (Hl c (or_introl eq_refl))) as Hc.
    specialize (IH (fun x Hx => Hl x (or_intror Hx))).
    destruct (circuit_from_json expr parse free c) as [cc| | |]; cbn [agrees bind] in *.
    - rewrite Hc. cbn [pbind]. destruct (mapM (circuit_from_json expr parse free) l) as [ccs| | |]; cbn [agrees bind] in *.
      + rewrite IH. reflexivity.
      + rewrite IH. reflexivity.
      + destruct IH as [e [-> [H1 H2]]]. exists e. auto.
      + exact I.
    - rewrite Hc. reflexivity.
    - destruct Hc as [e [-> [H1 H2]]]. exists e. auto.
    - exact I.
  Qed.
End Agreement.

(* ------------------------------------------------------------------ the generated functions round-trip *)
(* the C05 theorem about the model, carried over to the generated code: what the generated to_dict writes for a
   well-formed circuit is read back by the generated circuit_from_dict as the same circuit object *)
Theorem generated_round_trip :
  forall (expr : Type) (print : expr -> string) (sympify : symmap -> string -> option expr)
         (free : expr -> list string) (idents_ok : list string -> bool),
  (forall syms m e, make_symbols_map syms = Some m -> forallb (resolves m) syms = true ->
                    idents_ok syms = true -> incl (free e) syms -> sympify m (print e) = Some e) ->
  forall (expr_eqb : expr -> expr -> bool), (forall a b, expr_eqb a b = true -> a = b) ->
  forall c j fuel fuel', circuit_wf expr free (syms_usable idents_ok) c ->
  (ops_depth expr (c_ops expr c) + 2 < fuel)%nat -> (jdepth j <= fuel')%nat ->
  to_dict_gen (MS expr print sympify free) (ME expr print sympify free expr_eqb) fuel
              (Obj_Circuit (emb_circ expr print sympify free c)) = Val j ->
  circuit_from_dict_gen (MS expr print sympify free) (ME expr print sympify free expr_eqb) fuel' j
  = Val (emb_circ expr print sympify free c).
Proof.
  intros expr print sympify free idents_ok Hsp expr_eqb Heq c j fuel fuel' Hwf Hf Hf' Hto.
  rewrite to_dict_circuit_gen_is_model in Hto by exact Hf.
  destruct (circuit_to_json expr print free expr_eqb c) as [j0|] eqn:Ej; cbn [out_of] in Hto; [|discriminate].
  injection Hto as ->.
  pose proof (circuit_round_trip_sympify expr print sympify free idents_ok Hsp expr_eqb Heq c j Hwf Ej) as Hrt.
  pose proof (circuit_from_dict_gen_agrees expr print sympify free expr_eqb fuel' j Hf') as Ha.
  rewrite Hrt in Ha. exact Ha.
Qed.
