(* Round-trip proofs for the artefact dictionaries (property C11). *)
Require Import Coq.ZArith.ZArith Coq.Lists.List Coq.Strings.String Coq.Strings.Ascii Coq.Bool.Bool Coq.Arith.Arith.
Require Import OQ.Serde.Json OQ.Serde.Artefacts.
Import ListNotations.
Open Scope string_scope.

(* ------------------------------------------------------------------ induction over nested trees *)
Section NdInd.
  Variables (A : Type) (P : nd A -> Prop).
  Hypothesis Hleaf : forall a, P (NLeaf a).
  Hypothesis Hnode : forall l, Forall P l -> P (NNode l).
  Fixpoint nd_ind' (d : nd A) : P d :=
    match d with
    | NLeaf a => Hleaf a
    | NNode l => Hnode l ((fix go (l : list (nd A)) : Forall P l :=
                             match l with
                             | [] => Forall_nil P
                             | x :: r => Forall_cons x (nd_ind' x) (go r)
                             end) l)
    end.
End NdInd.

Section JtInd.
  Variables (R : Type) (P : jt R -> Prop).
  Hypothesis Hnull : P TNull.
  Hypothesis Hnum : forall r, P (TNum r).
  Hypothesis Hstr : forall s, P (TStr s).
  Hypothesis Harr : forall l, Forall P l -> P (TArr l).
  Hypothesis Hobj : forall kv, Forall (fun p => P (snd p)) kv -> P (TObj kv).
  Fixpoint jt_ind' (j : jt R) : P j :=
    match j with
    | TNull => Hnull
    | TNum r => Hnum r
    | TStr s => Hstr s
    | TArr l => Harr l ((fix go (l : list (jt R)) : Forall P l :=
                           match l with
                           | [] => Forall_nil P
                           | x :: r => Forall_cons x (jt_ind' x) (go r)
                           end) l)
    | TObj kv => Hobj kv ((fix go (l : list (string * jt R)) : Forall (fun p => P (snd p)) l :=
                             match l with
                             | [] => Forall_nil _
                             | x :: r => Forall_cons x (jt_ind' (snd x)) (go r)
                             end) kv)
    end.
End JtInd.

(* ------------------------------------------------------------------ mapM *)
Lemma mapM_map {A B C} (f : B -> option C) (g : A -> B) (h : A -> C) (l : list A) :
  Forall (fun x => f (g x) = Some (h x)) l -> mapM f (map g l) = Some (map h l).
Proof.
  induction 1 as [|x r Hx _ IH]; [reflexivity|].
  cbn [map mapM]. rewrite Hx. fold (mapM f). rewrite IH. reflexivity.
Qed.

Lemma mapM_map_id {A B} (f : B -> option A) (g : A -> B) (l : list A) :
  Forall (fun x => f (g x) = Some x) l -> mapM f (map g l) = Some l.
Proof. intro H. rewrite (mapM_map f g (fun x => x)); [rewrite map_id; reflexivity|exact H]. Qed.

Lemma Forall_all {A} (P : A -> Prop) (l : list A) : (forall x, P x) -> Forall P l.
Proof. intro H. induction l; constructor; auto. Qed.

(* ------------------------------------------------------------------ nested lists *)
Lemma shape_map {A B} (f : A -> B) (d : nd A) : shape (nd_map f d) = shape d.
Proof.
  induction d as [a|l IH] using nd_ind'; [reflexivity|].
  cbn [nd_map shape]. rewrite map_map, map_length.
  assert (E : map (fun x => shape (nd_map f x)) l = map shape l).
  { induction IH as [|x r Hx _ IHr]; [reflexivity|]. cbn [map]. rewrite Hx, IHr. reflexivity. }
  rewrite E. reflexivity.
Qed.

Lemma regular_map {A B} (f : A -> B) (d : nd A) : regular (nd_map f d) = regular d.
Proof. unfold regular. rewrite shape_map. reflexivity. Qed.

Lemma nd_zip_split {A B} (d : nd (A * B)) : nd_zip (nd_map fst d) (nd_map snd d) = Some d.
Proof.
  induction d as [[a b]|l IH] using nd_ind'; [reflexivity|].
  cbn [nd_map nd_zip].
  induction IH as [|x r Hx _ IHr]; [reflexivity|].
  cbn [map]. rewrite Hx. rewrite IHr. reflexivity.
Qed.

Section Proofs.
  Variable R : Type.
  Variable r_truthy : R -> bool.
  Variable of_Z : Z -> R.
  Variable to_float : R -> R.

  Notation jt_truthy := (jt_truthy r_truthy).
  Notation dict_to_arr := (dict_to_arr r_truthy).
  Notation arr_norm := (arr_norm r_truthy).
  Notation imag_kept := (imag_kept r_truthy).
  Notation zt := (zt of_Z).

  (* ---------------------------------------------------------------- arrays *)
  Lemma raw_of_nd (d : nd R) : jt_to_nd_raw (nd_to_jt d) = Some d.
  Proof.
    induction d as [a|l IH] using nd_ind'; [reflexivity|].
    cbn [nd_to_jt jt_to_nd_raw]. rewrite (mapM_map_id _ _ l IH). reflexivity.
  Qed.

  Lemma jt_of_nd (d : nd R) : regular d = true -> jt_to_nd (nd_to_jt d) = Some d.
  Proof. intro H. unfold jt_to_nd. rewrite raw_of_nd, H. reflexivity. Qed.

  Lemma truthy_imag (d : nd (R * R)) : jt_truthy (nd_to_jt (nd_map snd d)) = imag_kept d.
  Proof. destruct d as [[a b]|[|x r]]; reflexivity. Qed.

  (* convert_dict_to_array (convert_array_to_dict a) *)
  Lemma array_roundtrip_gen (a : arr R) : arr_regular a = true -> dict_to_arr (arr_to_dict a) = Some (arr_norm a).
  Proof.
    destruct a as [d|d]; cbn [arr_regular arr_to_dict arr_norm]; intro H.
    - unfold Artefacts.dict_to_arr. cbn [assoc String.eqb Ascii.eqb Bool.eqb].
      rewrite (jt_of_nd d H). reflexivity.
    - unfold Artefacts.dict_to_arr. cbn [assoc String.eqb Ascii.eqb Bool.eqb].
      rewrite (jt_of_nd (nd_map fst d)) by (rewrite regular_map; exact H).
      destruct (jt_truthy (nd_to_jt (nd_map snd d))) eqn:E; [|reflexivity].
      rewrite (jt_of_nd (nd_map snd d)) by (rewrite regular_map; exact H).
      rewrite nd_zip_split. reflexivity.
  Qed.

  Definition arr_canon (a : arr R) : bool :=
    match a with AReal _ => true | ACplx d => imag_kept d end.

  Lemma arr_norm_canon (a : arr R) : arr_canon a = true -> arr_norm a = a.
  Proof. destruct a as [d|d]; cbn [arr_canon arr_norm]; [reflexivity|]. rewrite truthy_imag. intros ->. reflexivity. Qed.

  Lemma arr_norm_is_canon (a : arr R) : arr_canon (arr_norm a) = true.
  Proof.
    destruct a as [d|d]; cbn [arr_norm]; [reflexivity|]. rewrite truthy_imag.
    destruct (imag_kept d) eqn:E; [exact E|reflexivity].
  Qed.

  Lemma arr_norm_regular (a : arr R) : arr_regular (arr_norm a) = arr_regular a.
  Proof.
    destruct a as [d|d]; cbn [arr_norm]; [reflexivity|].
    destruct (jt_truthy _); cbn [arr_regular]; [reflexivity|apply regular_map].
  Qed.

  (* every leaf satisfies p *)
  Fixpoint nd_all {A} (p : A -> bool) (d : nd A) : bool :=
    match d with NLeaf a => p a | NNode l => forallb (nd_all p) l end.

  (* a complex array that comes back real had no non-zero imaginary entry: the two arrays have equal entries *)
  Lemma arr_norm_same_values (a : arr R) :
    arr_norm a = a \/
    exists d, a = ACplx d /\ arr_norm a = AReal (nd_map fst d) /\ nd_all (fun ab => negb (r_truthy (snd ab))) d = true.
  Proof.
    destruct a as [d|d]; [left; reflexivity|]. cbn [arr_norm]. rewrite truthy_imag.
    destruct (imag_kept d) eqn:E; [left; reflexivity|]. right. exists d. repeat split.
    destruct d as [[a b]|[|x r]]; cbn [imag_kept snd] in E; [|reflexivity|discriminate].
    cbn [nd_all snd]. rewrite E. reflexivity.
  Qed.

  Lemma mapM_arrays (l : list (arr R)) : forallb arr_regular l = true ->
    mapM dict_to_arr (map arr_to_dict l) = Some (map arr_norm l).
  Proof.
    intro H. apply mapM_map. apply Forall_forall. intros a Ha. apply array_roundtrip_gen.
    rewrite forallb_forall in H. apply H. exact Ha.
  Qed.

  (* ---------------------------------------------------------------- Measurements *)
  Lemma meas_roundtrip_gen (bs : list (list Z)) :
    meas_from_dict (meas_to_dict of_Z bs) = Some (map (map zt) bs).
  Proof.
    unfold meas_from_dict, meas_to_dict. cbn [assoc String.eqb Ascii.eqb Bool.eqb py_iter py_tuple].
    apply (mapM_map py_tuple (fun b => TArr (map zt b)) (map zt)). apply Forall_all. intro b. reflexivity.
  Qed.

  Lemma count_add_total k d : fold_right Z.add 0%Z (map snd (count_add k d)) = (fold_right Z.add 0%Z (map snd d) + 1)%Z.
  Proof.
    induction d as [|[k' c] r IH]; cbn [count_add]; [reflexivity|].
    destruct (String.eqb k k'); cbn [map snd fold_right]; [|rewrite IH]; ring.
  Qed.

  (* the written histogram accounts for every shot *)
  Lemma counts_total (bs : list (list Z)) :
    fold_right Z.add 0%Z (map snd (get_counts bs)) = Z.of_nat (List.length bs).
  Proof.
    unfold get_counts.
    assert (G : forall d, fold_right Z.add 0%Z (map snd (fold_left (fun d b => count_add (bit_key b) d) bs d))
                          = (fold_right Z.add 0%Z (map snd d) + Z.of_nat (List.length bs))%Z).
    { induction bs as [|b r IH]; intro d; cbn [fold_left List.length]; [ring|].
      rewrite IH, count_add_total, Nat2Z.inj_succ. ring. }
    rewrite G. reflexivity.
  Qed.

  (* ---------------------------------------------------------------- frames *)
  Lemma frames_read_field key (o : option (list (arr R))) (rest : list (string * jt R)) :
    frames_regular o = true ->
    frames_read r_truthy key (frames_field key o ++ rest)
    = match o with Some (_ :: _) => Some (frames_norm r_truthy o) | _ => frames_read r_truthy key rest end.
  Proof.
    intro H. destruct o as [[|x r]|]; cbn [frames_field app]; try reflexivity.
    unfold frames_read at 1. cbn [assoc]. rewrite String.eqb_refl.
    cbn [map Artefacts.jt_truthy py_iter py_tuple]. fold (map (@arr_to_dict R) r).
    change (arr_to_dict x :: map (@arr_to_dict R) r) with (map (@arr_to_dict R) (x :: r)).
    rewrite (mapM_arrays (x :: r) H). reflexivity.
  Qed.

  Lemma frames_read_skip key k' (o : option (list (arr R))) (rest : list (string * jt R)) :
    String.eqb key k' = false ->
    frames_read r_truthy key (frames_field k' o ++ rest) = frames_read r_truthy key rest.
  Proof.
    intro H. destruct o as [[|x r]|]; cbn [frames_field app]; try reflexivity.
    unfold frames_read. cbn [assoc]. rewrite H. reflexivity.
  Qed.

  Lemma frames_norm_absent (o : option (list (arr R))) :
    match o with Some (_ :: _) => Some (frames_norm r_truthy o) | _ => Some None end = Some (frames_norm r_truthy o).
  Proof. destruct o as [[|x r]|]; reflexivity. Qed.

  (* ---------------------------------------------------------------- ExpectationValues *)
  Lemma ev_roundtrip_gen (e : expvals R) : ev_regular e = true ->
    ev_from_dict r_truthy (ev_to_dict e) = Some (ev_norm r_truthy e).
  Proof.
    destruct e as [v c k]. unfold ev_regular. cbn [ev_values ev_corr ev_cov]. intro H.
    apply andb_true_iff in H. destruct H as [H Hk]. apply andb_true_iff in H. destruct H as [Hv Hc].
    unfold ev_from_dict, ev_to_dict, ev_norm. cbn [ev_values ev_corr ev_cov].
    cbn [app assoc String.eqb Ascii.eqb Bool.eqb].
    rewrite (array_roundtrip_gen v Hv).
    assert (E1 : forall rest, frames_read r_truthy "correlations"
                   ([("frames", TArr []); ("expectation_values", arr_to_dict v)] ++ rest)
                 = frames_read r_truthy "correlations" rest) by reflexivity.
    assert (E2 : forall rest, frames_read r_truthy "estimator_covariances"
                   ([("frames", TArr []); ("expectation_values", arr_to_dict v)] ++ rest)
                 = frames_read r_truthy "estimator_covariances" rest) by reflexivity.
    cbn [app] in E1, E2. rewrite E1, E2. clear E1 E2.
    rewrite (frames_read_field "correlations" c _ Hc).
    rewrite (frames_read_skip "estimator_covariances" "correlations" c _ eq_refl).
    rewrite <- (app_nil_r (frames_field "estimator_covariances" k)).
    rewrite (frames_read_field "estimator_covariances" k [] Hk).
    rewrite (frames_read_skip "correlations" "estimator_covariances" k [] eq_refl).
    change (frames_read r_truthy "correlations" []) with (@Some (option (list (arr R))) None).
    change (frames_read r_truthy "estimator_covariances" []) with (@Some (option (list (arr R))) None).
    rewrite !frames_norm_absent. reflexivity.
  Qed.

  Definition frames_canon (o : option (list (arr R))) : bool :=
    match o with None => true | Some [] => false | Some l => forallb arr_canon l end.
  Definition ev_canon (e : expvals R) : bool :=
    arr_canon (ev_values e) && frames_canon (ev_corr e) && frames_canon (ev_cov e).

  Lemma map_norm_canon (l : list (arr R)) : forallb arr_canon l = true -> map arr_norm l = l.
  Proof.
    induction l as [|x r IH]; [reflexivity|]. cbn [forallb map]. intro H. apply andb_true_iff in H.
    destruct H as [H1 H2]. rewrite (arr_norm_canon x H1), (IH H2). reflexivity.
  Qed.

  Lemma frames_norm_canon (o : option (list (arr R))) : frames_canon o = true -> frames_norm r_truthy o = o.
  Proof.
    destruct o as [[|x r]|]; cbn [frames_canon frames_norm]; try reflexivity; try discriminate.
    intro H. rewrite (map_norm_canon (x :: r) H). reflexivity.
  Qed.

  Lemma ev_norm_canon (e : expvals R) : ev_canon e = true -> ev_norm r_truthy e = e.
  Proof.
    destruct e as [v c k]. unfold ev_canon, ev_norm. cbn [ev_values ev_corr ev_cov]. intro H.
    apply andb_true_iff in H. destruct H as [H Hk]. apply andb_true_iff in H. destruct H as [Hv Hc].
    rewrite (arr_norm_canon v Hv), (frames_norm_canon c Hc), (frames_norm_canon k Hk). reflexivity.
  Qed.

  Lemma map_norm_is_canon (l : list (arr R)) : forallb arr_canon (map arr_norm l) = true.
  Proof. induction l as [|x r IH]; [reflexivity|]. cbn [map forallb]. rewrite arr_norm_is_canon, IH. reflexivity. Qed.

  Lemma frames_norm_is_canon (o : option (list (arr R))) : frames_canon (frames_norm r_truthy o) = true.
  Proof.
    destruct o as [[|x r]|]; cbn [frames_norm frames_canon]; try reflexivity.
    change (arr_norm x :: map arr_norm r) with (map arr_norm (x :: r)). apply map_norm_is_canon.
  Qed.

  Lemma ev_norm_is_canon (e : expvals R) : ev_canon (ev_norm r_truthy e) = true.
  Proof.
    destruct e as [v c k]. unfold ev_canon, ev_norm. cbn [ev_values ev_corr ev_cov].
    rewrite arr_norm_is_canon, !frames_norm_is_canon. reflexivity.
  Qed.

  (* what "absent" means: None, [] and a missing key are the same after a round trip *)
  Lemma frames_absent_equiv : frames_norm r_truthy (Some []) = None /\ frames_norm r_truthy None = None /\
    @frames_field R "correlations" (Some []) = frames_field "correlations" None.
  Proof. repeat split. Qed.

  (* ---------------------------------------------------------------- Parities *)
  Lemma par_roundtrip_gen (p : parities R) : par_regular p = true ->
    par_from_dict r_truthy (par_to_dict p) = Some (par_norm r_truthy p).
  Proof.
    destruct p as [v c]. unfold par_regular. cbn [par_values par_corr]. intro H.
    apply andb_true_iff in H. destruct H as [Hv Hc].
    unfold par_from_dict, par_to_dict, par_norm. cbn [par_values par_corr].
    cbn [app assoc String.eqb Ascii.eqb Bool.eqb].
    rewrite (array_roundtrip_gen v Hv).
    assert (E1 : forall rest, frames_read r_truthy "correlations" (("values", arr_to_dict v) :: rest)
                 = frames_read r_truthy "correlations" rest) by reflexivity.
    rewrite E1. clear E1.
    rewrite <- (app_nil_r (frames_field "correlations" c)).
    rewrite (frames_read_field "correlations" c [] Hc).
    change (frames_read r_truthy "correlations" []) with (@Some (option (list (arr R))) None).
    rewrite frames_norm_absent. reflexivity.
  Qed.

  (* ---------------------------------------------------------------- ValueEstimate *)
  Lemma ve_roundtrip_gen (v : vest R) : to_float (ve_value v) = ve_value v ->
    ve_from_dict to_float (ve_to_dict v) = Some v.
  Proof.
    destruct v as [x [p|]]; cbn [ve_value]; intro H; unfold ve_from_dict, ve_to_dict;
      cbn [assoc String.eqb Ascii.eqb Bool.eqb ve_value ve_prec]; rewrite H; reflexivity.
  Qed.

  (* a dictionary without "precision" (files written by other tools) loads with precision None *)
  Lemma ve_missing_precision (x : R) :
    ve_from_dict to_float (TObj [("value", TNum x)]) = Some (mk_ve (to_float x) None).
  Proof. reflexivity. Qed.

  (* ---------------------------------------------------------------- lists, orderings *)
  Lemma keyed_roundtrip_gen key (l : list (jt R)) : keyed_from_dict key (keyed_to_dict key l) = Some (TArr l).
  Proof. unfold keyed_from_dict, keyed_to_dict. cbn [assoc]. rewrite String.eqb_refl. reflexivity. Qed.

  (* ---------------------------------------------------------------- layers, connectivity *)
  Lemma tuples_roundtrip (ts : list (list Z)) : tuples_from_jt (tuples_to_jt of_Z ts) = Some (map (map zt) ts).
  Proof.
    unfold tuples_from_jt, tuples_to_jt. cbn [py_iter py_tuple].
    apply (mapM_map py_tuple (fun t => TArr (map zt t)) (map zt)). apply Forall_all. intro t. reflexivity.
  Qed.

  Lemma layers_roundtrip_gen (ls : list (list (list Z))) :
    layers_from_dict (layers_to_dict of_Z ls) = Some (map (map (map zt)) ls).
  Proof.
    unfold layers_from_dict, layers_to_dict. cbn [assoc String.eqb Ascii.eqb Bool.eqb py_iter py_tuple].
    apply (mapM_map tuples_from_jt (tuples_to_jt of_Z) (map (map zt))). apply Forall_all. intro ts. apply tuples_roundtrip.
  Qed.

  Lemma conn_roundtrip_gen (ts : list (list Z)) : conn_from_dict (conn_to_dict of_Z ts) = Some (map (map zt) ts).
  Proof. unfold conn_from_dict, conn_to_dict. cbn [assoc String.eqb Ascii.eqb Bool.eqb]. apply tuples_roundtrip. Qed.

  (* ---------------------------------------------------------------- measurement-count estimate *)
  Lemma nmeas_roundtrip_gen (k n : R) (fm : option (arr R)) :
    match fm with Some a => arr_regular a = true | None => True end ->
    nmeas_from_dict r_truthy (nmeas_to_dict k n fm) = Some (TNum k, TNum n, option_map arr_norm fm).
  Proof.
    destruct fm as [a|]; intro H; unfold nmeas_from_dict, nmeas_to_dict;
      cbn [app assoc String.eqb Ascii.eqb Bool.eqb]; [rewrite (array_roundtrip_gen a H)|]; reflexivity.
  Qed.

  (* F11: the loader as it was before the fix rejected every file saved without frame_meas *)
  Lemma nmeas_old_rejects (k n : R) : nmeas_from_dict_old r_truthy (nmeas_to_dict k n None) = None.
  Proof. reflexivity. Qed.
End Proofs.

(* ------------------------------------------------------------------ numbers as text *)
Lemma jt_text_roundtrip {V T} (show : V -> T) (read : T -> option V) :
  (forall v, read (show v) = Some v) -> forall j : jt V, jt_mapM read (jt_map show j) = Some j.
Proof.
  intros Hrs j. induction j as [|r|s|l IH|kv IH] using jt_ind'; cbn [jt_map jt_mapM]; try reflexivity.
  - rewrite Hrs. reflexivity.
  - rewrite (mapM_map_id _ _ l IH). reflexivity.
  - rewrite (mapM_map_id (fun p => option_map (fun v => (fst p, v)) (jt_mapM read (snd p)))
                         (fun p => (fst p, jt_map show (snd p))) kv); [reflexivity|].
    apply Forall_forall. intros [k v] Hin. rewrite Forall_forall in IH. specialize (IH _ Hin).
    cbn [fst snd] in *. rewrite IH. reflexivity.
Qed.
