(* Model for property C19: circuits/symbolic/sympy_expressions.py (expression_from_sympy, SYMPY_DIALECT),
   translations.py (translate_expression / translate_tuple), expressions.py (reduction).

   [sexpr] is the tree a sympy object exposes through type(e) and e.args, as the converter sees it.
   One observable of a sympy object is not in (type, args): the converter calls [expr * (-1)]
   (_negate_sympy_expr) on a product; what sympy returns for that is recorded in the [neg] field of the
   product node (None when the harness did not record it - the converter never asks for it then).
   [nexpr] is the library's neutral tree (Python number | Symbol | FunctionCall).
   Errors are modelled as values: [Err ENotImpl] = NotImplementedError, [EValue] = ValueError,
   [EType] = TypeError, [EIndex] = IndexError, [EStuck] = the model was not given a recorded negation. *)
Require Import Coq.ZArith.ZArith Coq.QArith.QArith Coq.Lists.List Coq.Strings.String Coq.Bool.Bool.
Import ListNotations.
Open Scope string_scope.

Inductive err := ENotImpl | EValue | EType | EIndex | EStuck.
Inductive res (A : Type) := Ok (a : A) | Err (e : err).
Arguments Ok {A} a.
Arguments Err {A} e.

Inductive sexpr :=
| SSym (s : string)                              (* sympy.Symbol, s = str(symbol) *)
| SInt (z : Z)                                   (* sympy.Integer *)
| SFloat (q : Q)                                 (* sympy.Float, exact value of its mantissa/exponent *)
| SRat (p : Z) (d : positive)                    (* sympy.Rational that is not an Integer *)
| SImag                                          (* sympy.I *)
| SNumOther (tag : string)                       (* other instances of sympy Number (oo, nan): numbers.Number entry *)
| SAdd (l : list sexpr)
| SMul (l : list sexpr) (neg : option sexpr)     (* neg = what sympy returns for this * (-1) *)
| SPow (b e : sexpr)
| SFunc (name : string) (l : list sexpr)         (* instance of a sympy.Function class of the library (cos, log, Abs ..) *)
| SUFunc (name : string) (l : list sexpr)        (* applied undefined function Function('name')(..) *)
| SOther (tag : string) (l : list sexpr).        (* any other type: no dispatch entry *)

Inductive num := NInt (z : Z) | NFloat (q : Q) | NImag | NOtherNum (tag : string).
Inductive nexpr :=
| NNum (n : num)
| NSym (s : string)
| NCall (name : string) (args : list nexpr).

(* ---------------------------------------------------------------- induction principles (nested lists) *)
Definition on_opt (P : sexpr -> Prop) (o : option sexpr) : Prop := match o with Some n => P n | None => True end.
Section SexprInd.
  Variable P : sexpr -> Prop.
  Hypothesis HSym : forall s, P (SSym s).
  Hypothesis HInt : forall z, P (SInt z).
  Hypothesis HFloat : forall q, P (SFloat q).
  Hypothesis HRat : forall p d, P (SRat p d).
  Hypothesis HImag : P SImag.
  Hypothesis HNumOther : forall t, P (SNumOther t).
  Hypothesis HAdd : forall l, Forall P l -> P (SAdd l).
  Hypothesis HMul : forall l neg, Forall P l -> on_opt P neg -> P (SMul l neg).
  Hypothesis HPow : forall b e, P b -> P e -> P (SPow b e).
  Hypothesis HFunc : forall n l, Forall P l -> P (SFunc n l).
  Hypothesis HUFunc : forall n l, Forall P l -> P (SUFunc n l).
  Hypothesis HOther : forall t l, Forall P l -> P (SOther t l).

  Fixpoint sexpr_ind' (e : sexpr) : P e :=
    let all := fix all (l : list sexpr) : Forall P l :=
      match l with [] => Forall_nil P | x :: r => Forall_cons x (sexpr_ind' x) (all r) end in
    match e with
    | SSym s => HSym s | SInt z => HInt z | SFloat q => HFloat q | SRat p d => HRat p d
    | SImag => HImag | SNumOther t => HNumOther t
    | SAdd l => HAdd l (all l)
    | SMul l neg => HMul l neg (all l)
        (match neg as o return on_opt P o with
         | Some m => sexpr_ind' m
         | None => I
         end)
    | SPow b e => HPow b e (sexpr_ind' b) (sexpr_ind' e)
    | SFunc n l => HFunc n l (all l)
    | SUFunc n l => HUFunc n l (all l)
    | SOther t l => HOther t l (all l)
    end.
End SexprInd.

Section NexprInd.
  Variable P : nexpr -> Prop.
  Hypothesis HNum : forall n, P (NNum n).
  Hypothesis HSym : forall s, P (NSym s).
  Hypothesis HCall : forall n l, Forall P l -> P (NCall n l).
  Fixpoint nexpr_ind' (t : nexpr) : P t :=
    match t with
    | NNum n => HNum n
    | NSym s => HSym s
    | NCall n l => HCall n l ((fix all (l : list nexpr) : Forall P l :=
        match l with [] => Forall_nil P | x :: r => Forall_cons x (nexpr_ind' x) (all r) end) l)
    end.
End NexprInd.

(* ---------------------------------------------------------------- expression_from_sympy *)
(* tuple(f(a) for a in args): left to right, the first exception wins *)
Section MapRes.
  Context {A B : Type}.
  Variable f : A -> res B.
  Fixpoint map_res (l : list A) : res (list B) :=
    match l with
    | [] => Ok []
    | a :: r => match f a with
                | Err x => Err x
                | Ok t => match map_res r with Err x => Err x | Ok ts => Ok (t :: ts) end
                end
    end.
End MapRes.
Definition call (name : string) (r : res (list nexpr)) : res nexpr :=
  match r with Ok ts => Ok (NCall name ts) | Err x => Err x end.

(* sympy's [e == k] for a Python number k: true exactly for sympy numbers of that value *)
Definition num_eq (e : sexpr) (k : Q) : bool :=
  match e with
  | SInt z => Qeq_bool (inject_Z z) k
  | SFloat q => Qeq_bool q k
  | SRat p d => Qeq_bool (p # d) k
  | _ => false
  end.

Section FromSympy.
  Variable rnd : Q -> Q.          (* float(Rational): rounding of an exact rational to a double *)

  Fixpoint from_sympy (e : sexpr) : res nexpr :=
    match e with
    | SSym s => Ok (NSym s)
    | SInt z => Ok (NNum (NInt z))
    | SFloat q => Ok (NNum (NFloat q))
    | SRat p d => Ok (NNum (NFloat (rnd (p # d))))
    | SImag => Ok (NNum NImag)
    | SNumOther t => Ok (NNum (NOtherNum t))
    | SAdd l =>
        match l with
        | [a0; SMul ml neg] =>                    (* len(args) == 2 and isinstance(args[1], Mul) *)
            match ml with
            | [] => Err EIndex                     (* args[1].args[0] *)
            | m0 :: _ =>
                if num_eq m0 (-1)
                then match from_sympy a0 with
                     | Err x => Err x
                     | Ok t0 => match neg with
                                | None => Err EStuck
                                | Some n => match from_sympy n with
                                            | Err x => Err x
                                            | Ok t1 => Ok (NCall "sub" [t0; t1])
                                            end
                                end
                     end
                else call "add" (map_res from_sympy l)
            end
        | _ => call "add" (map_res from_sympy l)
        end
    | SMul l _ =>
        match l with
        | [a0; SPow b ex] =>                      (* len(args) == 2 and isinstance(args[1], Pow) and exponent == -1 *)
            if num_eq ex (-1)
            then match from_sympy a0 with
                 | Err x => Err x
                 | Ok t0 => match from_sympy b with
                            | Err x => Err x
                            | Ok t1 => Ok (NCall "div" [t0; t1])
                            end
                 end
            else call "mul" (map_res from_sympy l)
        | _ => call "mul" (map_res from_sympy l)
        end
    | SPow b ex =>
        if num_eq ex (-1)
        then match from_sympy b with Err x => Err x | Ok t => Ok (NCall "div" [NNum (NInt 1); t]) end
        else if num_eq ex (1 # 2)
        then match from_sympy b with Err x => Err x | Ok t => Ok (NCall "sqrt" [t]) end
        else match from_sympy b with
             | Err x => Err x
             | Ok tb => match from_sympy ex with Err x => Err x | Ok te => Ok (NCall "pow" [tb; te]) end
             end
    | SFunc name l => call name (map_res from_sympy l)
    | SUFunc name l => call name (map_res from_sympy l)
    | SOther _ _ => Err ENotImpl
    end.
End FromSympy.

(* float(p/q) for a Python/sympy rational: correctly rounded (nearest, ties to even) to 53 bits.
   Subnormals and overflow are outside the model. *)
Definition round53 (x : Q) : Q :=
  let p := Qnum x in
  let d := Zpos (Qden x) in
  if (p =? 0)%Z then 0%Q else
  let a := Z.abs p in
  let e0 := (Z.log2 a - Z.log2 d - 53)%Z in
  let scaled := fun e : Z => if (e <? 0)%Z then (a * 2 ^ (- e), d)%Z else (a, d * 2 ^ e)%Z in
  let e := if (fst (scaled e0) / snd (scaled e0) <? 2 ^ 53)%Z then e0 else (e0 + 1)%Z in
  let n := fst (scaled e) in
  let dd := snd (scaled e) in
  let qt := (n / dd)%Z in
  let r := (n mod dd)%Z in
  let m := if (2 * r <? dd)%Z then qt else if (dd <? 2 * r)%Z then (qt + 1)%Z
           else if Z.even qt then qt else (qt + 1)%Z in
  let sm := (Z.sgn p * m)%Z in
  if (e <? 0)%Z then Qmake sm (Z.to_pos (2 ^ (- e))) else inject_Z (sm * 2 ^ e).

(* ---------------------------------------------------------------- translate_expression, generic in the dialect *)
Section Translate.
  Variable T : Type.
  Variable symf : string -> T.                              (* dialect.symbol_factory *)
  Variable numf : num -> T.                                 (* dialect.number_factory *)
  Variable known : string -> option (list T -> res T).      (* dialect.known_functions *)

  Fixpoint translate (t : nexpr) : res T :=
    match t with
    | NNum n => Ok (numf n)
    | NSym s => Ok (symf s)
    | NCall name args =>
        match known name with
        | None => Err EValue                                 (* Function .. is unknown in this dialect *)
        | Some f => match map_res translate args with
                    | Err x => Err x
                    | Ok vs => f vs
                    end
        end
    end.
End Translate.
Arguments translate {T} symf numf known t.

(* ---------------------------------------------------------------- values *)
(* The operations sympy's expressions denote, in an abstract structure. *)
Record Ops := {
  V : Type;
  vadd : V -> V -> V;  vmul : V -> V -> V;  vsub : V -> V -> V;  vdiv : V -> V -> V;
  vpow : V -> V -> V;  vsqrt : V -> V;
  ofQ : Q -> V;                              (* exact rational and float constants *)
  vi : V;                                    (* imaginary unit *)
  onum : string -> V;                        (* other sympy numbers *)
  fnv : string -> list V -> V;               (* sympy function classes by name *)
  ufn : string -> list V -> V;               (* interpretations of undefined functions *)
  oth : string -> list V -> V                (* other node types (pi, relational ..) *)
}.

(* The laws used: these are sympy's own definitions of -, /, sqrt and the monoid laws of + and *. *)
Record Laws (O : Ops) : Prop := {
  ofQ_ext : forall a b, (a == b)%Q -> ofQ O a = ofQ O b;
  add_assoc : forall a b c, vadd O a (vadd O b c) = vadd O (vadd O a b) c;
  add_0_r : forall a, vadd O a (ofQ O 0) = a;
  mul_assoc : forall a b c, vmul O a (vmul O b c) = vmul O (vmul O a b) c;
  mul_1_r : forall a, vmul O a (ofQ O 1) = a;
  mul_1_l : forall a, vmul O (ofQ O 1) a = a;
  neg_neg : forall a, vmul O (ofQ O (-1)) (vmul O (ofQ O (-1)) a) = a;
  sub_def : forall a b, vsub O a b = vadd O a (vmul O (ofQ O (-1)) b);      (* a - b is Add(a, Mul(-1, b)) *)
  div_def : forall a b, vdiv O a b = vmul O a (vpow O b (ofQ O (-1)));      (* a / b is Mul(a, Pow(b, -1)) *)
  sqrt_def : forall a, vsqrt O a = vpow O a (ofQ O (1 # 2))                 (* sqrt(a) is Pow(a, 1/2) *)
}.

Section Eval.
  Variable O : Ops.
  Variable env : string -> V O.

  Fixpoint ev (e : sexpr) : V O :=
    match e with
    | SSym s => env s
    | SInt z => ofQ O (inject_Z z)
    | SFloat q => ofQ O q
    | SRat p d => ofQ O (p # d)
    | SImag => vi O
    | SNumOther t => onum O t
    | SAdd l => fold_right (vadd O) (ofQ O 0) (map ev l)
    | SMul l _ => fold_right (vmul O) (ofQ O 1) (map ev l)
    | SPow b e => vpow O (ev b) (ev e)
    | SFunc n l => fnv O n (map ev l)
    | SUFunc n l => ufn O n (map ev l)
    | SOther t l => oth O t (map ev l)
    end.

  (* SYMPY_DIALECT, read through the denotation of the sympy expressions it builds *)
  Definition numv (n : num) : V O :=
    match n with
    | NInt z => ofQ O (inject_Z z)
    | NFloat q => ofQ O q
    | NImag => vi O
    | NOtherNum t => onum O t
    end.
  (* reduction(op) applied to the arguments = functools.reduce(op, args): TypeError on no arguments *)
  Definition reduce1 (f : V O -> V O -> V O) (l : list (V O)) : res (V O) :=
    match l with [] => Err EType | a :: r => Ok (fold_left f r a) end.
  Definition bin (f : V O -> V O -> V O) (l : list (V O)) : res (V O) :=
    match l with [a; b] => Ok (f a b) | _ => Err EType end.
  Definition un (f : V O -> V O) (l : list (V O)) : res (V O) :=
    match l with [a] => Ok (f a) | _ => Err EType end.
  Definition sympy_known (name : string) : option (list (V O) -> res (V O)) :=
    if name =? "add" then Some (reduce1 (vadd O))
    else if name =? "mul" then Some (reduce1 (vmul O))
    else if name =? "div" then Some (bin (vdiv O))
    else if name =? "sub" then Some (bin (vsub O))
    else if name =? "pow" then Some (bin (vpow O))
    else if name =? "cos" then Some (un (fun a => fnv O "cos" [a]))
    else if name =? "sin" then Some (un (fun a => fnv O "sin" [a]))
    else if name =? "exp" then Some (un (fun a => fnv O "exp" [a]))
    else if name =? "sqrt" then Some (un (vsqrt O))
    else if name =? "tan" then Some (un (fun a => fnv O "tan" [a]))
    else None.
  Definition translate_sympy (t : nexpr) : res (V O) := translate env numv sympy_known t.
End Eval.

Definition dialect_names : list string :=
  ["add"; "mul"; "div"; "sub"; "pow"; "cos"; "sin"; "exp"; "sqrt"; "tan"].
Definition elementary_names : list string := ["cos"; "sin"; "exp"; "tan"].
Definition mem (s : string) (l : list string) : bool := existsb (String.eqb s) l.

(* conjunction over a list, usable inside nested recursive definitions *)
Section AllP.
  Context {A : Type}.
  Variable P : A -> Prop.
  Fixpoint allP (l : list A) : Prop := match l with [] => True | x :: r => P x /\ allP r end.
End AllP.

(* ---------------------------------------------------------------- the supported grammar *)
Definition is_nil {A} (l : list A) : bool := match l with [] => true | _ => false end.
Definition is_one {A} (l : list A) : bool := match l with [_] => true | _ => false end.

Fixpoint supported (e : sexpr) : bool :=
  match e with
  | SSym _ | SInt _ | SFloat _ | SRat _ _ | SImag => true
  | SNumOther _ => false
  | SAdd l => negb (is_nil l) && forallb supported l
  | SMul l neg => negb (is_nil l) && forallb supported l &&
                  match neg with Some n => supported n | None => true end
  | SPow b e => supported b && supported e
  | SFunc n l => mem n elementary_names && is_one l && forallb supported l
  | SUFunc _ _ => false
  | SOther _ _ => false
  end.

(* contains a construct the converter or the dialect has no entry for (the recorded negations are not looked at).
   Functions whose NAME is an entry of the dialect table but which are not the supported elementary functions
   (undefined functions called cos, add ..) are neither supported nor counted here: see finding F30. *)
Fixpoint unsupported_inside (e : sexpr) : bool :=
  match e with
  | SSym _ | SInt _ | SFloat _ | SRat _ _ | SImag | SNumOther _ => false
  | SAdd l => existsb unsupported_inside l
  | SMul l _ => existsb unsupported_inside l
  | SPow b e => unsupported_inside b || unsupported_inside e
  | SFunc n l => negb (mem n dialect_names) || existsb unsupported_inside l
  | SUFunc n l => negb (mem n dialect_names) || existsb unsupported_inside l
  | SOther _ _ => true
  end.

(* the converter takes the subtraction branch on this argument list *)
Definition sub_case (l : list sexpr) : bool :=
  match l with
  | [_; SMul (m0 :: _) _] => num_eq m0 (-1)
  | _ => false
  end.

Section NegFaithful.
  Variable O : Ops.
  (* What is trusted about sympy's [expr * (-1)]: wherever a negation is recorded it has the value
     -1 * product for every assignment, and it is recorded wherever the converter asks for it. *)
  Fixpoint neg_ok (e : sexpr) : Prop :=
    match e with
    | SAdd l => allP (neg_ok) l
                /\ (sub_case l = true -> match l with [_; SMul _ None] => False | _ => True end)
    | SMul l neg => allP (neg_ok) l
                    /\ match neg with
                       | Some n => neg_ok n /\
                                   forall env, ev O env n = vmul O (ofQ O (-1)) (ev O env (SMul l neg))
                       | None => True
                       end
    | SPow b e => neg_ok b /\ neg_ok e
    | SFunc _ l | SUFunc _ l | SOther _ l =>
        allP (neg_ok) l
    | _ => True
    end.
End NegFaithful.

(* multiplying by -1 does not make an unsupported construct disappear *)
Fixpoint neg_keeps (e : sexpr) : Prop :=
  match e with
  | SAdd l | SFunc _ l | SUFunc _ l | SOther _ l =>
      allP (neg_keeps) l
  | SMul l neg => allP (neg_keeps) l
                  /\ match neg with
                     | Some n => neg_keeps n /\ (existsb unsupported_inside l = true -> unsupported_inside n = true)
                     | None => True
                     end
  | SPow b e => neg_keeps b /\ neg_keeps e
  | _ => True
  end.

(* every Rational in the tree is exactly a double *)
Fixpoint rationals_exact (rnd : Q -> Q) (e : sexpr) : Prop :=
  match e with
  | SRat p d => (rnd (p # d) == p # d)%Q
  | SAdd l | SFunc _ l | SUFunc _ l | SOther _ l =>
      allP (rationals_exact rnd) l
  | SMul l neg => allP (rationals_exact rnd) l
                  /\ match neg with Some n => rationals_exact rnd n | None => True end
  | SPow b e => rationals_exact rnd b /\ rationals_exact rnd e
  | _ => True
  end.
