(* Model of the dictionary and text forms of Pauli operators (property C11):
     operators/_io.py             convert_op_to_dict, convert_dict_to_op, save/load_operator(_set)
     operators/_pauli_operators.py PauliTerm.__repr__, PauliSum.__repr__, _parse_operators_and_coefficient,
                                   _parse_operator, PauliTerm(str), PauliSum(str)
   built on the operator model of Pauli/Algebra.v (terms, sums, [simplify]) so that "denotes the same matrix"
   is a statement about Pauli/Den.v.

   Dictionary form.  A coefficient is a Python int/float ([PReal]) or a Python complex ([PCplx]); its parts are
   JSON numbers of an arbitrary type [R] whose value in the scalar ring is [inj].  The operators of a term are
   written in the iteration order of the frozenset [term.operations], which depends on string hashing: the model
   takes the term with its operators in that order, the theorems hold for every order.  Reading goes through
   PauliTerm.from_iterable (duplicate-index check, "I" dropped) and [full_operator += term], i.e.
   PauliSum.__add__ with [simplify] after every term.

   Text form.  The text of a coefficient is abstract: [show_c] is str(coefficient), [read_c] is _parse_complex
   (None = ValueError).  Everything else is a string function mirroring the regular expressions of the parser:
     re.split(r"\ *\*\ *", s.strip(" "))      [star_parts]   split on '*', spaces around the parts dropped
     re.match(r"([XYZI])([0-9]+)$", p, re.I)  [parse_op]
     re.split(r"\+(?![^(]*\))", s)            [split_plus]   a '+' splits unless a ')' follows before any '('
   ASCII only (str.upper() and \d of other alphabets are outside the model); strip() is modelled on spaces. *)
Require Import Coq.ZArith.ZArith Coq.NArith.NArith Coq.Lists.List Coq.Strings.String Coq.Strings.Ascii Coq.Bool.Bool
  Coq.Arith.Arith.
Require Import OQ.Base.Ring OQ.Pauli.Algebra OQ.Serde.Json OQ.Serde.Artefacts OQ.Serde.NatKey.
Import ListNotations.
Open Scope string_scope.

(* ------------------------------------------------------------------ shared *)
Inductive pyc (R : Type) : Type := PReal (x : R) | PCplx (re im : R).
Arguments PReal {R}. Arguments PCplx {R}.

(* the dict {idx: op ...} as the sorted association list of Pauli/Algebra.v *)
Definition canon (l : list (nat * letter)) : ops :=
  fold_left (fun a ql => set_op (fst ql) (snd ql) a) l [].

(* len(set(idx_list)) == len(idx_list) *)
Fixpoint nodupb (l : list nat) : bool :=
  match l with
  | [] => true
  | x :: r => negb (existsb (Nat.eqb x) r) && nodupb r
  end.

(* {idx: op for ... if op != "I"} *)
Definition drop_identity (l : list (nat * option letter)) : list (nat * letter) :=
  flat_map (fun qa => match snd qa with Some a => [(fst qa, a)] | None => [] end) l.

(* ------------------------------------------------------------------ dictionary form *)
Section OpDict.
  Variable K : cring.
  Variable is_zero : K -> bool.
  Variable R : Type.
  Variable r_truthy : R -> bool.
  Variable inj : R -> K.
  Variable of_nat : nat -> R.
  Variable to_nat : R -> option nat.          (* a non-negative int; anything else is outside the model / ValueError *)
  Local Open Scope cr_scope.

  (* a term as the serialiser sees it: coefficient, operators in iteration order *)
  Definition sterm := (pyc R * list (nat * letter))%type.

  (* the value of a coefficient; for PCplx this is what  real + 1j * imag  evaluates to *)
  Definition to_k (c : pyc R) : K :=
    match c with PReal x => inj x | PCplx a b => inj a + ci * inj b end.
  Definition kterm (t : sterm) : term K := mk_term (to_k (fst t)) (snd t).

  (* convert_op_to_dict *)
  Definition pauli_op_to_jt (ql : nat * letter) : jt R :=
    TObj [("qubit", TNum (of_nat (fst ql))); ("op", TStr (letter_str (snd ql)))].
  Definition coef_to_jt (c : pyc R) : jt R :=
    match c with
    | PReal x => TObj [("real", TNum x)]
    | PCplx a b => TObj [("real", TNum a); ("imag", TNum b)]
    end.
  Definition term_to_jt (t : sterm) : jt R :=
    TObj [("pauli_ops", TArr (map pauli_op_to_jt (snd t))); ("coefficient", coef_to_jt (fst t))].
  Definition op_to_dict (s : list sterm) : jt R := TObj [("terms", TArr (map term_to_jt s))].

  (* convert_dict_to_op, the part before  full_operator += ... *)
  Definition read_letter (s : string) : option (option letter) :=
    if String.eqb s "I" then Some None else option_map Some (letter_of_str s).
  Definition read_pauli_op (j : jt R) : option (nat * option letter) :=
    match j with
    | TObj kv =>
        match assoc "op" kv, assoc "qubit" kv with
        | Some (TStr s), Some (TNum r) =>
            match read_letter s, to_nat r with
            | Some a, Some q => Some (q, a)
            | _, _ => None
            end
        | _, _ => None
        end
    | _ => None
    end.
  (* PauliTerm.from_iterable: duplicate indices rejected (identities included), identities dropped *)
  Definition read_ops (j : jt R) : option ops :=
    match py_iter j with
    | Some l => match mapM read_pauli_op l with
                | Some qs => if nodupb (map fst qs) then Some (canon (drop_identity qs)) else None
                | None => None
                end
    | None => None
    end.
  (* coefficient = d["real"]; if d.get("imag"): coefficient += 1j * d["imag"] *)
  Definition read_coef (j : jt R) : option (pyc R) :=
    match j with
    | TObj kv =>
        match assoc "real" kv with
        | Some (TNum a) =>
            match assoc "imag" kv with
            | None => Some (PReal a)
            | Some ji => if jt_truthy r_truthy ji
                         then match ji with TNum b => Some (PCplx a b) | _ => None end
                         else Some (PReal a)
            end
        | _ => None
        end
    | _ => None
    end.
  Definition read_term (j : jt R) : option (pyc R * ops) :=
    match j with
    | TObj kv =>
        match assoc "pauli_ops" kv, assoc "coefficient" kv with
        | Some jo, Some jc => match read_ops jo, read_coef jc with
                              | Some o, Some c => Some (c, o)
                              | _, _ => None
                              end
        | _, _ => None
        end
    | _ => None
    end.
  Definition dict_to_terms (j : jt R) : option (list (pyc R * ops)) :=
    match j with
    | TObj kv => match assoc "terms" kv with
                 | Some jl => match py_iter jl with Some l => mapM read_term l | None => None end
                 | None => None
                 end
    | _ => None
    end.

  (* full_operator = PauliSum(); for each term: full_operator += term *)
  Definition add_all (ts : list (term K)) : psum K :=
    fold_left (fun acc t => sum_add is_zero acc [t]) ts [].
  Definition dict_to_op (j : jt R) : option (psum K) :=
    option_map (fun ts => add_all (map kterm ts)) (dict_to_terms j).

  (* what reading does to a coefficient: a complex one with a falsy imaginary part comes back as int/float *)
  Definition norm_c (c : pyc R) : pyc R :=
    match c with
    | PReal x => PReal x
    | PCplx a b => if r_truthy b then PCplx a b else PReal a
    end.

  (* save_operator_set / load_operator_set *)
  Definition opset_to_dict (l : list (list sterm)) : jt R := TObj [("operators", TArr (map op_to_dict l))].
  Definition dict_to_opset (j : jt R) : option (list (psum K)) :=
    match j with
    | TObj kv => match assoc "operators" kv with
                 | Some jo => match py_iter jo with Some l => mapM dict_to_op l | None => None end
                 | None => None
                 end
    | _ => None
    end.
End OpDict.

Arguments to_k {K R}. Arguments kterm {K R}. Arguments pauli_op_to_jt {R}. Arguments coef_to_jt {R}.
Arguments term_to_jt {R}. Arguments op_to_dict {R}. Arguments read_pauli_op {R}. Arguments read_ops {R}.
Arguments read_coef {R}. Arguments read_term {R}. Arguments dict_to_terms {R}. Arguments add_all {K}.
Arguments dict_to_op {K} is_zero {R}. Arguments norm_c {R}. Arguments opset_to_dict {R}. Arguments dict_to_opset {K} is_zero {R}.

(* ------------------------------------------------------------------ strings *)
Fixpoint all_chars (p : ascii -> bool) (s : string) : bool :=
  match s with EmptyString => true | String c r => p c && all_chars p r end.
Definition nochar (x : ascii) (s : string) : bool := all_chars (fun c => negb (Ascii.eqb c x)) s.

Definition is_space (c : ascii) : bool := Ascii.eqb c " ".
(* s.lstrip(" "), s.rstrip(" "), s.strip(" ") *)
Fixpoint lstrip (s : string) : string :=
  match s with
  | EmptyString => EmptyString
  | String c r => if is_space c then lstrip r else s
  end.
Fixpoint rstrip (s : string) : string :=
  match s with
  | EmptyString => EmptyString
  | String c r => match rstrip r with
                  | EmptyString => if is_space c then EmptyString else String c EmptyString
                  | r' => String c r'
                  end
  end.
Definition strip (s : string) : string := rstrip (lstrip s).

(* s.split(sep) for a one-character separator *)
Fixpoint split_on (sep : ascii) (s : string) : list string :=
  match s with
  | EmptyString => [EmptyString]
  | String c r => if Ascii.eqb c sep then EmptyString :: split_on sep r
                  else match split_on sep r with
                       | p :: ps => String c p :: ps
                       | [] => [String c EmptyString]
                       end
  end.

(* re.split(r"\ *\*\ *", s.strip(" ")) *)
Definition star_parts (s : string) : list string := map strip (split_on "*" (strip s)).

(* (?![^(]*\)) : does a ')' come before any '(' in the rest? *)
Fixpoint ahead_close (s : string) : bool :=
  match s with
  | EmptyString => false
  | String c r => if Ascii.eqb c ")" then true else if Ascii.eqb c "(" then false else ahead_close r
  end.
(* re.split(r"\+(?![^(]*\))", s) *)
Fixpoint split_plus (s : string) : list string :=
  match s with
  | EmptyString => [EmptyString]
  | String c r => if Ascii.eqb c "+" && negb (ahead_close r) then EmptyString :: split_plus r
                  else match split_plus r with
                       | p :: ps => String c p :: ps
                       | [] => [String c EmptyString]
                       end
  end.

(* what the theorems ask of the text of a coefficient (checked in Coq on every coefficient the harness prints):
   no '*', no space, every '+' is followed by a ')' before any '(' (so it never splits a sum), and the text does
   not itself start a lookahead match (its first parenthesis, if any, is an opening one) *)
Fixpoint nosplit (s : string) : bool :=
  match s with
  | EmptyString => true
  | String c r => (if Ascii.eqb c "+" then ahead_close r else true) && nosplit r
  end.
Definition coef_text_ok (s : string) : bool :=
  nochar "*" s && nochar " " s && nosplit s && negb (ahead_close s).
Definition paren_free (s : string) : bool := nochar "(" s && nochar ")" s.

(* op_str.upper() == "I" *)
Definition is_bare_I (p : string) : bool := String.eqb p "I" || String.eqb p "i".

(* ([XYZI]) with re.I, upper-cased; None for "I" *)
Definition letter_of_char (c : ascii) : option (option letter) :=
  if Ascii.eqb c "X" || Ascii.eqb c "x" then Some (Some PX)
  else if Ascii.eqb c "Y" || Ascii.eqb c "y" then Some (Some PY)
  else if Ascii.eqb c "Z" || Ascii.eqb c "z" then Some (Some PZ)
  else if Ascii.eqb c "I" || Ascii.eqb c "i" then Some None
  else None.
(* _parse_operator: None = ValueError("Badly formatted string representation passed.") *)
Definition parse_op (s : string) : option (nat * option letter) :=
  match s with
  | EmptyString => None
  | String c r => match letter_of_char c with
                  | Some a => if isdigit r then Some (N.to_nat (to_int r), a) else None
                  | None => None
                  end
  end.

(* f"{self[index]}{index}" *)
Definition repr_op (ql : nat * letter) : string := letter_str (snd ql) ++ dec (N.of_nat (fst ql)).

(* the factors after the coefficient: "I" for a constant term *)
Definition op_parts (l : list (nat * letter)) : list string :=
  match l with [] => ["I"] | _ => map repr_op l end.

Section Text.
  Variable C : Type.
  Variable show_c : C -> string.               (* str(coefficient) *)
  Variable read_c : string -> option C.        (* _parse_complex; None = ValueError *)
  Variable c_one : C.                          (* the default coefficient 1.0 *)
  Variable c_zero : C.                         (* the int 0 of PauliTerm("I0", 0) *)

  Definition tterm := (C * list (nat * letter))%type.     (* operators in the order of the dict _ops *)

  (* PauliTerm.__repr__ *)
  Definition repr_term (t : tterm) : string :=
    show_c (fst t) ++ "*" ++ String.concat "*" (op_parts (snd t)).
  (* PauliSum.__repr__ *)
  Definition repr_sum (s : list tterm) : string :=
    match s with
    | [] => repr_term (c_zero, [])
    | _ => String.concat " + " (map repr_term s)
    end.

  (* PauliTerm(str): _parse_operators_and_coefficient, then __init__ *)
  Definition parse_term (s : string) : option tterm :=
    let parts := star_parts s in
    let co := match read_c (hd EmptyString parts) with
              | Some c => (Some c, tl parts)
              | None => (None, parts)
              end in
    let opstrs := filter (fun p => negb (is_bare_I p)) (snd co) in
    match mapM parse_op opstrs with
    | None => None
    | Some qs => if nodupb (map fst qs)
                 then Some (match fst co with Some c => c | None => c_one end, drop_identity qs)
                 else None                      (* Duplicate qubit index in a term detected. *)
    end.

  (* PauliSum(str) *)
  Definition parse_sum (s : string) : option (list tterm) :=
    mapM (fun p => parse_term (strip p)) (split_plus s).
End Text.

Arguments repr_term {C}. Arguments repr_sum {C}. Arguments parse_term {C}. Arguments parse_sum {C}.

(* ------------------------------------------------------------------ the parser before the fix of F10 *)
(* the same without the filter on a bare "I": _parse_operator("I") fails *)
Definition parse_term_old {C} (read_c : string -> option C) (c_one : C) (s : string) : option (C * list (nat * letter)) :=
  let parts := star_parts s in
  let co := match read_c (hd EmptyString parts) with
            | Some c => (Some c, tl parts)
            | None => (None, parts)
            end in
  match mapM parse_op (snd co) with
  | None => None
  | Some qs => if nodupb (map fst qs)
               then Some (match fst co with Some c => c | None => c_one end, drop_identity qs)
               else None
  end.
