"""C13 correspondence harness: shot splitting / batching / recombining."""
import random
import numpy as np
from hlib import *
from orquestra.quantum.circuits._itertools import (expand_sample_sizes, combine_bitstrings,
    combine_measurement_counts, split_into_batches)
from orquestra.quantum.utils import scale_and_discretize
from orquestra.quantum.measurements import Measurements
from orquestra.quantum.distributions import MeasurementOutcomeDistribution

H = Harness("C13", ["OQ.Base.CaseEq", "OQ.Stats.Shots", "OQ.Stats.ShotsCases", "OQ.Stats.Represent", "OQ.Stats.RepresentFeasibility"],
            "kinds: expand (incl. counts up to 2^70 near divisibility boundaries, max=1), combine_bitstrings / "
            "combine_measurement_counts (valid and mismatched multiplicities), split_into_batches (valid, wrong length, "
            "non-positive size), scale_and_discretize (integer weights with power-of-two sum: exact; float weights: laws "
            "only), represent-distribution (count and support), expand-run-combine pipeline; non-trivial = at least two "
            "circuits/groups/weights or a count that needs more than one copy")

def lz(xs): return clist(xs, cz)

def gen(rng, tier):
    n = 400 if tier == "quick" else 8000
    # fixed invalid inputs: a negative multiplicity while the sum still equals the number of lists (the length guard
    # passes; islice raises ValueError) - before or after the groups it steals from
    yield dict(kind="combine_bs", all=[[5]], mults=[-1, 2])
    yield dict(kind="combine_bs", all=[[1, 2], [3]], mults=[3, -1])
    yield dict(kind="combine_bs", all=[[7], [8, 9]], mults=[1, -2, 3])
    yield dict(kind="combine_mc", all=[[["0", 1]]], mults=[-1, 2])
    yield dict(kind="combine_mc", all=[[["0", 1]], [["1", 2]]], mults=[2, -1, 1])
    # fixed sparse representations (independent of the seed): many outcomes, few shots - the rounding overshoots by several
    # shots and the elimination loop needs more than one offender per scan
    fr = random.Random(20261001)
    for w, N in ((5, 12), (5, 16), (5, 20), (5, 24), (4, 7), (4, 10)):
        for _ in range(3):
            keys = list(range(2 ** w))
            S = 2 ** 12
            yield dict(kind="represent", width=w, keys=keys, ps=[S // len(keys)] * len(keys), S=S, N=N, npseed=fr.randint(0, 2 ** 31))
    for _ in range(4):       # a peak with a long tail of small weights
        keys = list(range(32))
        ps = [2048] + [66] * 30 + [68]
        yield dict(kind="represent", width=5, keys=keys, ps=ps, S=4096, N=fr.choice([60, 100, 140]), npseed=fr.randint(0, 2 ** 31))
    for _ in range(n):
        r = rng.random()
        if r < 0.25:
            k = rng.randint(0, 6)
            if rng.random() < 0.3:
                m = rng.choice([2 ** 53, 2 ** 60, 2 ** 64 + 1, 10 ** 18, 3 * 2 ** 50])
                ns = [max(0, m * rng.randint(0, 4) + rng.choice([-1, 0, 1, 2, m // 2])) for _ in range(k)]
            else:
                m = rng.choice([1, 1, 2, 3, 4, 5, 7, 10, 100])
                ns = [rng.choice([0, 1, m, m + 1, 2 * m, 2 * m - 1, rng.randint(1, 40)]) for _ in range(k)]
            yield dict(kind="expand", cs=[rng.randint(0, 99) for _ in range(k)], ns=ns, m=m)
        elif r < 0.4:
            mults = [rng.randint(1, 4) if rng.random() < 0.9 else 0 for _ in range(rng.randint(0, 5))]
            total = sum(mults) + (rng.choice([-1, 1, 2]) if rng.random() < 0.15 else 0)
            allb = [[rng.randint(0, 15) for _ in range(rng.randint(0, 4))] for _ in range(max(0, total))]
            if rng.random() < 0.12 and total >= 0:
                # invalid stream: a negative multiplicity compensated elsewhere, so that the length guard passes and
                # only islice's own ValueError stops the call
                neg = -rng.randint(1, 2)
                pos = rng.randint(0, len(mults))
                mults = mults[:pos] + [neg] + mults[pos:]
                tgt = rng.randint(0, len(mults) - 1)
                if tgt == pos and len(mults) > 1: tgt = (pos + 1) % len(mults)
                if tgt == pos: mults.append(-neg)
                else: mults[tgt] -= neg
            yield dict(kind="combine_bs", all=allb, mults=mults)
        elif r < 0.55:
            mults = [rng.randint(1, 3) if rng.random() < 0.93 else 0 for _ in range(rng.randint(0, 4))]
            total = sum(mults) + (rng.choice([-1, 1]) if rng.random() < 0.15 else 0)
            w = rng.randint(1, 3)
            allc = []
            for _ in range(max(0, total)):
                keys = rng.sample([format(i, f"0{w}b") for i in range(2 ** w)], rng.randint(1, min(4, 2 ** w)))
                allc.append([[k, rng.randint(1, 50)] for k in keys])
            if rng.random() < 0.12 and total >= 0:
                neg = -rng.randint(1, 2)
                pos = rng.randint(0, len(mults))
                mults = mults[:pos] + [neg] + mults[pos:]
                tgt = rng.randint(0, len(mults) - 1)
                if tgt == pos and len(mults) > 1: tgt = (pos + 1) % len(mults)
                if tgt == pos: mults.append(-neg)
                else: mults[tgt] -= neg
            yield dict(kind="combine_mc", all=allc, mults=mults)
        elif r < 0.7:
            k = rng.randint(0, 9)
            ns = [rng.randint(1, 1000) for _ in range(k)]
            cs = list(range(100, 100 + k))
            if rng.random() < 0.1 and k:
                ns = ns[:-1]
            size = rng.choice([1, 2, 3, 4, 10]) if rng.random() < 0.9 else rng.choice([0, -1])
            yield dict(kind="batches", cs=cs, ns=ns, k=size)
        elif r < 0.85:
            e = rng.randint(1, 8)
            S = 2 ** e
            k = rng.randint(1, min(6, S))
            cuts = sorted(rng.sample(range(1, S), k - 1)) if k > 1 else []
            ws = [b - a for a, b in zip([0] + cuts, cuts + [S])]
            if rng.random() < 0.3:
                ws.append(0)
                rng.shuffle(ws)
            yield dict(kind="scale", ws=ws, T=rng.randint(0, 300))
        elif r < 0.88:
            ws = [rng.uniform(0.01, 10) for _ in range(rng.randint(1, 7))]
            yield dict(kind="scale_float", ws=ws, T=rng.randint(0, 500))
        elif r < 0.94:
            # many outcomes, few shots: rounding overshoots and the elimination loop has to resample
            w = rng.randint(3, 5)
            keys = list(range(2 ** w))
            rng.shuffle(keys)
            keys = keys[:rng.randint(2 ** w // 2, 2 ** w)]
            S = 2 ** 12
            base = S // len(keys)
            ps = [base + rng.randint(-base // 8, base // 8) for _ in keys]
            ps[-1] += S - sum(ps)
            if ps[-1] <= 0:            # the correction must not produce a negative weight (an invalid distribution)
                ps = [base] * len(keys)
                ps[-1] += S - sum(ps)
            yield dict(kind="represent", width=w, keys=keys, ps=ps, S=S, N=rng.randint(max(1, len(keys) // 2), len(keys) + 2), npseed=rng.randint(0, 2 ** 31))
        elif r < 0.97:
            w = rng.randint(1, 3)
            keys = rng.sample(range(2 ** w), rng.randint(1, 2 ** w))
            e = rng.randint(1, 6)
            S = 2 ** e
            cuts = sorted(rng.choice(range(S + 1)) for _ in range(len(keys) - 1))
            ps = [b - a for a, b in zip([0] + cuts, cuts + [S])]
            yield dict(kind="represent", width=w, keys=keys, ps=ps, S=S, N=rng.randint(1, 200), npseed=rng.randint(0, 2 ** 31))
        else:
            k = rng.randint(1, 5)
            m = rng.randint(1, 6)
            yield dict(kind="pipeline", ns=[rng.randint(1, 20) for _ in range(k)], m=m, tag=rng.randint(0, 10 ** 6))

def run_case(inp):
    kind = inp["kind"]
    if kind == "expand":
        cs, ns, m = inp["cs"], inp["ns"], inp["m"]
        st, out = outcome(expand_sample_sizes, cs, ns, m)
        if st != "ok":
            return dict(chk="false", oracle_ok=False, oracle_msg=f"expand_sample_sizes raised {out}", kind=kind)
        new_c, new_n, mults = [list(x) for x in out]
        ok, msg = True, ""
        pos, it = 0, iter(new_n)
        if len(new_c) != len(new_n) or len(mults) != len(ns):
            ok, msg = False, f"lengths: circuits {len(new_c)} samples {len(new_n)} multiplicities {len(mults)}"
        else:
            for c, n, mu in zip(cs, ns, mults):
                chunk = new_n[pos:pos + mu]
                if sum(chunk) != n or any(not (1 <= x <= m) for x in chunk) or new_c[pos:pos + mu] != [c] * mu:
                    ok, msg = False, f"circuit {c} requested {n} max {m}: copies {chunk} of {new_c[pos:pos+mu]}"
                    break
                pos += mu
            if ok and pos != len(new_n):
                ok, msg = False, "extra copies at the end"
        big = any(mu > 2000 for mu in mults)
        chk = None if big else f"expand_eqb {lz(cs)} {lz(ns)} {cz(m)} {lz(new_c)} {lz(new_n)} {lz(mults)}"
        return dict(chk=chk, oracle_ok=ok, oracle_msg=msg, kind=kind + ("-big" if m > 2 ** 40 else ""),
                    nontrivial=len(ns) >= 2 or any(mu > 1 for mu in mults))
    if kind == "combine_bs":
        allb, mults = inp["all"], inp["mults"]
        st, out = outcome(combine_bitstrings, allb, mults)
        ok, msg = True, ""
        if st == "ok":
            flat_in = [x for l in allb for x in l]
            flat_out = [x for l in out for x in l]
            if flat_in != flat_out or len(out) != len(mults):
                ok, msg = False, f"combined {out} from {allb} with {mults}"
            coq = "(Some " + clist(out, lz) + ")"
        else:
            if len(allb) == sum(mults) and all(mu >= 0 for mu in mults):
                ok, msg = False, f"raised {out} although lengths match and no multiplicity is negative"
            coq = "None"
        return dict(chk=f"combine_bs_eqb {clist(allb, lz)} {lz(mults)} {coq}", oracle_ok=ok, oracle_msg=msg,
                    kind=kind + ("-negative" if any(mu < 0 for mu in mults) else ""),
                    nontrivial=len(mults) >= 2)
    if kind == "combine_mc":
        allc = [dict((k, v) for k, v in d) for d in inp["all"]]
        mults = inp["mults"]
        st, out = outcome(combine_measurement_counts, allc, mults)
        cc = lambda d: clist(list(d.items()), lambda kv: cpair(cstring(kv[0]), cz(kv[1])))
        ok, msg = True, ""
        if st == "ok":
            pos = 0
            for mu, res in zip(mults, out):
                grp = allc[pos:pos + mu]
                pos += mu
                keys = set(k for d in grp for k in d)
                if set(res) != keys or any(res[k] != sum(d.get(k, 0) for d in grp) for k in keys):
                    ok, msg = False, f"group {grp} combined to {res}"
            coq = "(Some " + clist(out, cc) + ")"
        else:
            if len(allc) == sum(mults) and all(mu > 0 for mu in mults):
                ok, msg = False, f"raised {out} on matching input"
            coq = "None"
        return dict(chk=f"combine_mc_eqb {clist(allc, cc)} {lz(mults)} {coq}", oracle_ok=ok, oracle_msg=msg,
                    kind=kind + ("-negative" if any(mu < 0 for mu in mults) else ""),
                    nontrivial=len(mults) >= 2)
    if kind == "batches":
        cs, ns, k = inp["cs"], inp["ns"], inp["k"]
        st, out = outcome(lambda: [(list(c), n) for c, n in split_into_batches(cs, ns, k)])
        ok, msg = True, ""
        if st == "ok":
            flat = [c for b, _ in out for c in b]
            if flat != cs or any(len(b) > k or not b for b, _ in out):
                ok, msg = False, f"batches {out}"
            pos = 0
            for b, n in out:
                if any(n < x for x in ns[pos:pos + len(b)]):
                    ok, msg = False, f"batch {b} asks {n} < member request {ns[pos:pos+len(b)]}"
                pos += len(b)
            coq = "(Some " + clist(out, lambda bn: cpair(lz(bn[0]), cz(bn[1]))) + ")"
        else:
            if len(cs) == len(ns) and k > 0:
                ok, msg = False, f"raised {out} on valid input"
            coq = "None"
        return dict(chk=f"batches_eqb {lz(cs)} {lz(ns)} {cz(k)} {coq}", oracle_ok=ok, oracle_msg=msg,
                    kind=kind + ("" if st == "ok" else "-rejected"), nontrivial=len(cs) >= 2)
    if kind in ("scale", "scale_float"):
        ws, T = inp["ws"], inp["T"]
        st, out = outcome(scale_and_discretize, ws, T)
        if st != "ok":
            return dict(chk=None, oracle_ok=False, oracle_msg=f"scale_and_discretize raised {out}", kind=kind)
        S = sum(ws)
        ok = sum(out) == T and all(isinstance(x, int) for x in out) and \
            all(abs(Fraction(r) - Fraction(w) * T / Fraction(S)) < 1 + (Fraction(1, 10 ** 6) if kind == "scale_float" else 0)
                for r, w in zip(out, ws))
        msg = "" if ok else f"weights {ws} total {T} -> {out}"
        chk = None
        if kind == "scale":
            scale = T / S
            rem = [v * scale - np.floor(v * scale) for v in ws]
            order = [int(i) for i in np.argsort(rem)[::-1]]
            chk = f"scale_eqb {lz(ws)} {cz(T)} {clist(order, cnat)} {lz(out)} && order_sorted {lz(ws)} {cz(T)} {clist(order, cnat)}"
        return dict(chk=chk, oracle_ok=ok, oracle_msg=msg, kind=kind, nontrivial=len(ws) >= 2)
    if kind == "represent":
        import collections
        import orquestra.quantum.measurements.measurements as mm
        w = inp["width"]
        keys = [tuple(int(b) for b in format(k, f"0{w}b")) for k in inp["keys"]]
        d = {k: p / inp["S"] for k, p in zip(keys, inp["ps"])}
        pos = {k: i for i, k in enumerate(keys)}
        draws = []
        orig = mm.sample_from_probability_distribution
        def recording(dist, n):
            res = orig(dist, n)
            draws.append([(pos[tuple(int(x) for x in key)], int(cnt)) for key, cnt in res.items()])
            return res
        np.random.seed(inp["npseed"])
        mm.sample_from_probability_distribution = recording
        try:
            st, out = outcome(lambda: Measurements.get_measurements_representing_distribution(
                MeasurementOutcomeDistribution(d), inp["N"]), timeout=20)
        finally:
            mm.sample_from_probability_distribution = orig
        if st != "ok":
            return dict(chk="false", oracle_ok=False, oracle_msg=f"raised {out}", kind=kind)
        bs = out.bitstrings
        support = {k for k, p in d.items() if p > 0}
        ok = len(bs) == inp["N"] and all(tuple(b) in support for b in bs)
        cnt = collections.Counter(tuple(b) for b in bs)
        res = [cnt.get(k, 0) for k in keys]
        cd = clist(draws, lambda dr: clist(dr, lambda kv: cpair(cnat(kv[0]), cz(kv[1]))))
        chk = f"represent_eqb {lz(inp['ps'])} {cz(inp['N'])} {cd} {lz(res)} && run_avoidb {lz(inp['ps'])} {cz(inp['N'])} {cd}"
        branch = "exact" if not draws else ("add" if sum(int(round(p / inp['S'] * inp['N'])) for p in inp['ps']) < inp["N"] else f"eliminate-{len(draws)}")
        return dict(chk=chk, oracle_ok=ok, oracle_msg="" if ok else f"{len(bs)} shots for N={inp['N']}, off-support: {[b for b in bs if tuple(b) not in support][:3]}",
                    kind=kind + "-" + branch + ("-sparse" if inp["N"] <= len(d) + 2 and len(d) >= 4 else ""), nontrivial=len(d) >= 2)
    if kind == "pipeline":
        ns, m = inp["ns"], inp["m"]
        cs = list(range(len(ns)))
        new_c, new_n, mults = expand_sample_sizes(cs, ns, m)
        res = [[f"{c}:{i}" for i in range(n)] for c, n in zip(new_c, new_n)]
        st, out = outcome(combine_bitstrings, res, mults)
        ok = st == "ok" and [len(g) for g in out] == ns and all(all(s.startswith(f"{c}:") for s in g) for c, g in zip(cs, out))
        return dict(chk=None, oracle_ok=ok, oracle_msg="" if ok else f"per-circuit totals {[len(g) for g in out] if st=='ok' else out} vs requested {ns}",
                    kind=kind, nontrivial=len(ns) >= 2)
    raise ValueError(kind)

def w_f13():
    _, new_n, mults = expand_sample_sizes(["a"], [2 ** 60 + 1], 2 ** 60)
    bad = list(new_n) != [2 ** 60, 1]
    return bad, f"expand_sample_sizes(['a'],[2**60+1],2**60) -> {list(new_n)}, {list(mults)}"

H.main(gen, run_case, {"F13": w_f13})
