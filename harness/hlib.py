"""Common library for the correspondence harnesses (run with /venv/bin/python,
PYTHONPATH=/repo/src, PYTHONHASHSEED=0).

A harness module supplies

  gen(rng, tier)      -> iterable of JSON-able inputs (``inp``)
  run_case(inp)       -> dict with keys
        chk        Coq term of type bool: "model(inp) agrees with what the implementation returned"
                   (None when the case has no model side)
        goal       optional Coq text of a Lemma...Qed (for `interval` goals); compiled in a goal shard
        oracle_ok  bool: the independent property oracle accepted the implementation's behaviour
        oracle_msg str
        sig        id of the known finding whose signature the input falls in, or None
        nontrivial bool
        kind       short label for the input-distribution histogram
  WITNESSES           {finding id: function returning (still_fails, message)}

and calls Harness(...).main(gen, run_case, WITNESSES).  Everything random derives from
one random.Random(seed); every case is a pure function of its ``inp`` so that a replay
file reproduces it exactly.
"""
import re
import argparse, hashlib, json, os, random, signal, sys, time, traceback
from fractions import Fraction

SHARD = 250

# ----------------------------------------------------------------------------- Coq literals

def cz(n):
    n = int(n)
    return f"({n})%Z"

def cnat(n):
    n = int(n)
    assert 0 <= n <= 5000, n
    return f"{n}%nat"

def cN(n):
    n = int(n)
    assert n >= 0
    return f"{n}%N"

def cbool(b):
    return "true" if b else "false"

def clist(xs, f=lambda x: x):
    return "[" + "; ".join(f(x) for x in xs) + "]"

def cpair(a, b):
    return f"({a}, {b})"

def copt(x, f=lambda x: x):
    return "None" if x is None else f"(Some {f(x)})"

def cstring(s):
    out = []
    for ch in s:
        o = ord(ch)
        if ch == '"':
            out.append('""')
        elif 32 <= o < 127:
            out.append(ch)
        else:
            raise ValueError(f"non-printable character in Coq string literal: {s!r}")
    return '"' + "".join(out) + '"%string'

def cq(x):
    """Fraction / int / exactly-representable float -> Q literal (Qmake num den)."""
    fr = Fraction(x)
    return f"(Qmake ({fr.numerator})%Z {fr.denominator}%positive)"

def cgq(z):
    """complex with exactly representable parts -> pair of Q (Gaussian rational)."""
    z = complex(z)
    return f"({cq(Fraction(z.real))}, {cq(Fraction(z.imag))})"

def dyadic(rng, maxnum=64, maxexp=4, allow_zero=True):
    while True:
        k = rng.randint(-maxnum, maxnum)
        if k != 0 or allow_zero:
            return Fraction(k, 2 ** rng.randint(0, maxexp))

# ----------------------------------------------------------------------------- outcomes

ERR_ENUM = ("ValueError", "NotImplementedError", "RuntimeError", "TypeError", "KeyError",
            "IndexError", "AssertionError", "ZeroDivisionError", "Timeout")

class CaseTimeout(Exception):
    pass

def outcome(fn, *a, timeout=None, **kw):
    """Run the implementation defensively: ('ok', value) or ('err', class-name)."""
    def _alarm(signum, frame):
        raise CaseTimeout()
    old = None
    if timeout:
        old = signal.signal(signal.SIGALRM, _alarm)
        signal.setitimer(signal.ITIMER_REAL, timeout)
    try:
        return ("ok", fn(*a, **kw))
    except CaseTimeout:
        return ("err", "Timeout")
    except Exception as e:  # noqa
        n = type(e).__name__
        for base in type(e).__mro__:
            if base.__name__ in ERR_ENUM:
                n = base.__name__
                break
        return ("err", n if n in ERR_ENUM else "Other:" + n)
    finally:
        if timeout:
            signal.setitimer(signal.ITIMER_REAL, 0)
            signal.signal(signal.SIGALRM, old)

# ----------------------------------------------------------------------------- harness driver

class Harness:
    def __init__(self, pid, imports, rule, preamble="", rerun=True):
        self.pid = pid
        self.rerun = rerun
        self.imports = imports
        self.rule = rule
        self.preamble = preamble

    def main(self, gen, run_case, witnesses=None, quick_n=None, thorough_n=None):
        ap = argparse.ArgumentParser()
        ap.add_argument("--seed", type=int, default=0)
        ap.add_argument("--tier", default="quick")
        ap.add_argument("--out", required=True)
        ap.add_argument("--replay")
        ap.add_argument("--max-cases", type=int, default=0)
        a = ap.parse_args()
        os.makedirs(a.out, exist_ok=True)
        t0 = time.time()
        rng = random.Random(a.seed)
        try:
            import numpy as _np
            _np.random.seed(a.seed % (2 ** 32))
        except Exception:
            pass
        inputs = []
        if a.replay:
            rp = json.load(open(a.replay))
            inputs.append(("replay", rp["input"] if "input" in rp else rp))
        else:
            cdir = os.path.join(os.path.dirname(os.path.abspath(__file__)), "..", "corpus", self.pid)
            if os.path.isdir(cdir):
                for fn in sorted(os.listdir(cdir)):
                    if fn.endswith(".json"):
                        c = json.load(open(os.path.join(cdir, fn)))
                        inputs.append(("corpus", c["input"] if isinstance(c, dict) and "input" in c else c))
            for inp in gen(rng, a.tier):
                inputs.append(("gen", inp))
                if a.max_cases and len(inputs) >= a.max_cases:
                    break
        cases, seen, hist = [], set(), {}
        distinct_nontrivial = 0
        for i, (src, inp) in enumerate(inputs):
            try:
                if isinstance(inp, dict) and "witness" in inp and len(inp) == 1:
                    still, msg = (witnesses or {})[inp["witness"]]()
                    r = dict(chk=None, oracle_ok=not still, oracle_msg=msg, kind="witness")
                else:
                    r = run_case(inp)
            except Exception as e:  # harness-level failure: reported like an oracle failure
                r = dict(chk=None, oracle_ok=False,
                         oracle_msg="harness exception: " + "".join(traceback.format_exception_only(type(e), e)).strip()
                         + " @ " + traceback.format_tb(e.__traceback__)[-1].strip().replace("\n", " | "),
                         sig=None, nontrivial=False, kind="harness-exception")
            r.setdefault("goal", None); r.setdefault("sig", None); r.setdefault("kind", "case")
            r.setdefault("nontrivial", True); r.setdefault("oracle_ok", True); r.setdefault("oracle_msg", "")
            # numpy booleans would be written as the strings "True"/"False" by json (default=str): coerce here
            r["oracle_ok"] = bool(r["oracle_ok"]); r["nontrivial"] = bool(r["nontrivial"]); r["oracle_msg"] = str(r["oracle_msg"])
            key = hashlib.sha1(json.dumps(inp, sort_keys=True, default=str).encode()).hexdigest()
            if key not in seen:
                seen.add(key)
                if r["nontrivial"]:
                    distinct_nontrivial += 1
            hist[r["kind"]] = hist.get(r["kind"], 0) + 1
            r["id"] = i; r["src"] = src; r["input"] = inp
            cases.append(r)
        # re-execution pass: an answer must be a function of the input alone.  A sample of the cases is run a second
        # time, in reverse order, after everything else has run in this process; a different answer means that state
        # leaks between calls (a cache keyed too coarsely, an argument or a shared table modified in place).
        if not a.replay and self.rerun and os.environ.get("VERIF_RERUN", "1") != "0":
            pool = [c for c in cases if c["kind"] not in ("witness", "harness-exception") and c.get("rerun", True)]
            rr = random.Random(a.seed * 7919 + 17)
            k = min(len(pool), 60 if a.tier == "quick" else 600)
            for c in sorted(rr.sample(pool, k), key=lambda c: -c["id"]):
                try:
                    r2 = run_case(c["input"])
                except Exception as e:
                    r2 = dict(chk=None, goal=None, oracle_ok=False, oracle_msg=f"raised {type(e).__name__}: {e}")
                ng = lambda g: None if g is None else re.sub(r"\b(G|case_)\d+\b", r"\1#", g)   # running counters in goal names
                na = lambda t: None if t is None else re.sub(r"0x[0-9a-fA-F]{6,}", "0x#", t)      # memory addresses in reprs
                a1 = (na(c["chk"]), ng(c["goal"]), c["oracle_ok"])
                a2 = (na(r2.get("chk")), ng(r2.get("goal")), bool(r2.get("oracle_ok", True)))
                if any(isinstance(t, str) and "Timeout" in t for t in (a1[0], a2[0], c["oracle_msg"], str(r2.get("oracle_msg", "")))):
                    hist["rerun-timeout-skipped"] = hist.get("rerun-timeout-skipped", 0) + 1     # a wall-clock guard fired:
                    continue                                                                       # not an answer of the code
                hist["rerun"] = hist.get("rerun", 0) + 1
                if a1 != a2:
                    what = "chk" if a1[0] != a2[0] else ("goal" if a1[1] != a2[1] else "oracle verdict")
                    d1, d2 = str(a1[0] if what == "chk" else (a1[1] if what == "goal" else c["oracle_msg"])), \
                        str(a2[0] if what == "chk" else (a2[1] if what == "goal" else r2.get("oracle_msg")))
                    j = next((t for t in range(min(len(d1), len(d2))) if d1[t] != d2[t]), min(len(d1), len(d2)))
                    cases.append(dict(chk=None, goal=None, sig=None, kind="rerun-differs", nontrivial=False, oracle_ok=False,
                                      oracle_msg=f"the same input (case {c['id']}) gives a different answer when asked again after other calls "
                                                 f"({what} differs: first ...{d1[max(0, j - 60):j + 80]}... then ...{d2[max(0, j - 60):j + 80]}...): "
                                                 f"state leaks between calls; reproduce with the whole run (same seed and tier)",
                                      id=len(cases), src="rerun", input=c["input"]))
                    hist["rerun-differs"] = hist.get("rerun-differs", 0) + 1
        # shards
        shards = []
        chk_cases = [c for c in cases if c["chk"] is not None]
        for s in range(0, len(chk_cases), SHARD):
            part = chk_cases[s:s + SHARD]
            name = f"shard_{len(shards)}"
            with open(os.path.join(a.out, name + ".v"), "w") as f:
                for imp in self.imports:
                    f.write(f"Require Import {imp}.\n")
                f.write("Require Import Coq.Lists.List Coq.ZArith.ZArith Coq.QArith.QArith Coq.Strings.String Coq.NArith.NArith.\nImport ListNotations.\nOpen Scope list_scope.\n")
                f.write(self.preamble + "\n")
                for k, c in enumerate(part):
                    f.write(f"Definition c{k} : bool := {c['chk']}.\n")
                f.write("Definition verif_cases : list (nat * bool) := [" +
                        "; ".join(f"({k}%nat, c{k})" for k in range(len(part))) + "].\n")
                f.write("Definition verif_bad := map fst (filter (fun c => negb (snd c)) verif_cases).\n")
                f.write("Eval vm_compute in verif_bad.\n")
            shards.append(dict(file=name + ".v", kind="bool", ids=[c["id"] for c in part]))
        goal_cases = [c for c in cases if c["goal"] is not None]
        for s in range(0, len(goal_cases), 40):
            part = goal_cases[s:s + 40]
            name = f"goals_{s // 40}"
            with open(os.path.join(a.out, name + ".v"), "w") as f:
                for imp in self.imports:
                    f.write(f"Require Import {imp}.\n")
                f.write(self.preamble + "\n")
                for k, c in enumerate(part):
                    # the same input may be generated twice: make the statement's name unique within the file
                    g = re.sub(r"^(\s*(?:Lemma|Theorem|Example)\s+)([A-Za-z0-9_']+)", lambda m: f"{m.group(1)}{m.group(2)}_n{c['id']}", c["goal"], count=1)
                    f.write(f"(* VERIF-CASE {c['id']} *)\n{g}\n")
            shards.append(dict(file=name + ".v", kind="goal", ids=[c["id"] for c in part]))
        known = []
        if not a.replay:
            for fid, fn in (witnesses or {}).items():
                try:
                    still, msg = fn()
                except Exception as e:
                    still, msg = True, f"witness raised {type(e).__name__}: {e}"
                known.append(dict(id=fid, still_fails=bool(still), msg=msg))
        meta = dict(pid=self.pid, seed=a.seed, tier=a.tier, evaluations=len(cases),
                    distinct_nontrivial=distinct_nontrivial, rule=self.rule,
                    samples=[c["input"] for c in cases if c["src"] != "corpus"][:3] or [c["input"] for c in cases][:3],
                    histogram=hist, shards=shards, known=known, wall_s=time.time() - t0,
                    cases=[dict(id=c["id"], input=c["input"], kind=c["kind"], oracle_ok=c["oracle_ok"],
                                oracle_msg=c["oracle_msg"], sig=c["sig"], has_chk=c["chk"] is not None)
                           for c in cases])
        json.dump(meta, open(os.path.join(a.out, "meta.json"), "w"), default=str)
        nfail = sum(1 for c in cases if not c["oracle_ok"])
        print(f"harness {self.pid}: {len(cases)} cases, {distinct_nontrivial} distinct non-trivial, "
              f"{len(shards)} shards, {nfail} oracle failures, {time.time() - t0:.1f}s")
