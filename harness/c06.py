"""C06 correspondence harness: binding parameters commutes with evaluating the circuit.

Inputs are JSON descriptions of circuits / gates / symbol maps; run_case builds the sympy and
orquestra objects from them, runs the implementation, dumps the objects it returns (wrapper
structure, parameters as the sympy trees they are, free-symbol lists, error kinds) as Coq
literals and lets the Coq model (Circ/Bind.v) compute the same thing.  Parameters are compared
inside Coq by evaluating both sides over Q at three environments.
"""
import os
import sympy
import numpy as np
from mpmath.libmp import to_rational
from sympy.core.function import AppliedUndef
from hlib import *
from orquestra.quantum import circuits as C
from orquestra.quantum.circuits import _gates as G
from orquestra.quantum.circuits import Circuit, MultiPhaseOperation, ResetOperation, CustomGateDefinition

H = Harness("C06", ["OQ.Base.CaseEq", "OQ.Serde.Expr", "OQ.Circ.Bind", "OQ.Circ.BindCases"],
            "kinds: bind (circuits of built-in / custom / wrapped gates, MultiPhaseOperation, ResetOperation; wrappers "
            "built directly and through .controlled/.dagger/.power/.exp; maps partial, total, superfluous, values Python "
            "numbers, sympy rationals, symbols, expressions; Power/Exponential anywhere => refusal), two-step (bind m1 then "
            "m2 vs the union), custom-matrix (arguments that mention the definition's own formals), replace_params (incl. "
            "Power/Exponential re-wrapping and its ValueError), unitary (fully symbolic circuits, circuit matrix), history (ONE "
            "dict object reused for 2-4 successive binds of a circuit / its operations / its gates, updated in place in "
            "between: value changed, key added, key removed, cleared and refilled; every bind compared with the model on the "
            "contents at that time; the object holds a bare-symbol and an expression parameter), bound-history (parameters that "
            "contain a construct with a BOUND variable - Sum, Product, Integral, Subs - in built-in / custom / wrapped gates and "
            "MultiPhaseOperation, bound partially, then totally, then with the bound variable itself as a superfluous key; the "
            "oracle decides which symbols a parameter depends on by evaluating it at varied values); parameters "
            "from the grammar symbol | integer | dyadic rational | + | * | - | **k | sin | cos | f | g; non-trivial = the map "
            "binds at least one free symbol, or the operation under test has a wrapper or symbolic argument")

# ----------------------------------------------------------------------------- building objects from JSON

SYMS = ["x", "y", "z", "t", "theta", "s9", "s10", "B", "phi", "p", "q", "w", "u", "v"]
FUNCS = {"sin": sympy.sin, "cos": sympy.cos, "f": sympy.Function("f"), "g": sympy.Function("g")}
_p, _q, _x = sympy.symbols("p q x")
DEFS = [
    CustomGateDefinition("rot", sympy.Matrix([[sympy.cos(_p), -sympy.sin(_p)], [sympy.sin(_p), sympy.cos(_p)]]), (_p,)),
    CustomGateDefinition("mix2", sympy.Matrix([[_p, _q], [_q - _p, _p * _q + 1]]), (_p, _q)),
    CustomGateDefinition("big", sympy.Matrix([[_x, 0, 0, _p], [0, _x + _p, 0, 0], [0, 0, _x * _p, 0], [_p ** 2, 0, 0, 1]]), (_x, _p)),
    CustomGateDefinition("const", sympy.Matrix([[0, 1], [1, 0]]), ()),
    CustomGateDefinition("swapargs", sympy.Matrix([[_q, _p], [_p + 2 * _q, 3]]), (_q, _p)),
]
# name -> number of parameters
BUILTIN = {"X": 0, "Y": 0, "Z": 0, "H": 0, "I": 0, "S": 0, "SX": 0, "T": 0, "CNOT": 0, "CZ": 0, "SWAP": 0, "ISWAP": 0,
           "RX": 1, "RY": 1, "RZ": 1, "RH": 1, "PHASE": 1, "U3": 3, "GPi": 1, "GPi2": 1, "CPHASE": 1, "XX": 1, "YY": 1,
           "ZZ": 1, "XY": 1, "MS": 2, "Delay": 1}


def b_expr(j):
    k = j[0]
    if k == "sym":
        return sympy.Symbol(j[1])
    if k == "int":
        return sympy.Integer(j[1])
    if k == "rat":
        return sympy.Rational(j[1], j[2])
    if k == "add":
        return b_expr(j[1]) + b_expr(j[2])
    if k == "sub":
        return b_expr(j[1]) - b_expr(j[2])
    if k == "mul":
        return b_expr(j[1]) * b_expr(j[2])
    if k == "pow":
        return b_expr(j[1]) ** j[2]
    if k == "fn":
        return FUNCS[j[1]](*[b_expr(a) for a in j[2]])
    if k == "powsym":                      # symbolic exponent, only under a Sum / Product over that symbol
        return b_expr(j[1]) ** sympy.Symbol(j[2])
    if k == "bsum":
        return sympy.Sum(b_expr(j[1]), (sympy.Symbol(j[2]), j[3], j[4]))
    if k == "bprod":
        return sympy.Product(b_expr(j[1]), (sympy.Symbol(j[2]), j[3], j[4]))
    if k == "bint":
        return sympy.Integral(b_expr(j[1]), (sympy.Symbol(j[2]), j[3], j[4]))
    if k == "bsubs":
        return sympy.Subs(b_expr(j[1]), sympy.Symbol(j[2]), b_expr(j[3]))
    raise ValueError(k)


def b_param(j):
    """Python number (pyint / pyfloat) or sympy expression."""
    if j[0] == "pyint":
        return int(j[1])
    if j[0] == "pyfloat":
        return float.fromhex(j[1])
    return b_expr(j)


def b_gate(j):
    k = j[0]
    if k == "builtin":
        ref = getattr(C, j[1])
        return ref(*[b_param(p) for p in j[2]]) if BUILTIN[j[1]] else ref
    if k == "custom":
        return DEFS[j[1]](*[b_param(p) for p in j[2]])
    if k == "ctrl":
        g = b_gate(j[2])
        return G.ControlledGate(g, j[1]) if j[3] == "direct" else g.controlled(j[1])
    if k == "dag":
        g = b_gate(j[1])
        return G.Dagger(g) if j[2] == "direct" else g.dagger
    if k == "pow":
        g = b_gate(j[1])
        e = float.fromhex(j[2]) if isinstance(j[2], str) else j[2]
        return G.Power(g, e) if j[3] == "direct" else g.power(e)
    if k == "exp":
        g = b_gate(j[1])
        return G.Exponential(g) if j[2] == "direct" else g.exp
    raise ValueError(k)


def b_op(j):
    if j[0] == "gate":
        return b_gate(j[1])(*j[2])
    if j[0] == "phase":
        return MultiPhaseOperation(tuple(b_param(p) for p in j[1]))
    if j[0] == "reset":
        o = ResetOperation(j[1])
        if j[2] is not None:
            o.params = tuple(b_param(p) for p in j[2])
        return o
    raise ValueError(j[0])


def b_circuit(j):
    return Circuit([b_op(o) for o in j["ops"]], n_qubits=j.get("n"))


def b_map(j):
    return {sympy.Symbol(k): b_param(v) for k, v in j}

# ----------------------------------------------------------------------------- dumping objects as Coq literals


def d_q(fr):
    return cq(Fraction(fr))


BOUND_CONSTRUCTS = (sympy.Sum, sympy.Product, sympy.Integral, sympy.Subs)


def d_expr(e):
    if isinstance(e, BOUND_CONSTRUCTS):
        # the model has no binders: the construct is dumped as the expression in its free symbols that it
        # evaluates to (the bound variable does not occur); if that loses or gains a symbol, as an opaque
        # function of its free symbols
        r = e.doit()
        if not r.has(*BOUND_CONSTRUCTS) and r.free_symbols == e.free_symbols:
            return d_expr(r)
        return f"(Fun {cstring('bound')} {clist(sorted(e.free_symbols, key=str), d_expr)})"
    if isinstance(e, sympy.Symbol):
        return f"(Sym {cstring(e.name)})"
    if isinstance(e, sympy.Rational):
        return f"(Num {cq(Fraction(int(e.p), int(e.q)))})"
    if isinstance(e, sympy.Float):
        return f"(Num {cq(float_value(e))})"
    if isinstance(e, sympy.Add):
        return f"(Expr.Add {clist(e.args, d_expr)})"  # List.Add shadows the constructor in case files
    if isinstance(e, sympy.Mul):
        return f"(Mul {clist(e.args, d_expr)})"
    if isinstance(e, sympy.Pow):
        return f"(Pow {d_expr(e.base)} {d_expr(e.exp)})"
    if isinstance(e, (sympy.sin, sympy.cos)):
        return f"(Fun {cstring(type(e).__name__)} {clist(e.args, d_expr)})"
    if isinstance(e, AppliedUndef):
        return f"(Fun {cstring(e.func.__name__)} {clist(e.args, d_expr)})"
    raise ValueError(f"expression outside the modelled grammar: {sympy.srepr(e)}")


def d_param(p):
    if isinstance(p, bool) or not isinstance(p, (int, float, sympy.Basic)):
        raise ValueError(f"parameter outside the model: {p!r}")
    if isinstance(p, (int, float)):
        return f"(PNum {d_q(p)})"
    if isinstance(p, sympy.Symbol):
        return f"(PSym {cstring(p.name)})"
    return f"(PExp {d_expr(p)})"


def d_val(v):
    if isinstance(v, (int, float)):
        return f"(VNum {d_q(v)})"
    return f"(VExp {d_expr(v)})"


def d_params(ps):
    return clist(ps, d_param)


def d_def(d):
    n = d.matrix.shape[0]
    rows = [[d.matrix[i, j] for j in range(n)] for i in range(n)]
    return ("{| cname := " + cstring(d.gate_name) + "; cformals := " + clist([s.name for s in d.params_ordering], cstring)
            + "; crows := " + clist(rows, lambda r: clist(r, d_expr)) + f"; cnq := {cnat(d._n_qubits)} |}}")


def d_gate(g):
    if isinstance(g, G.MatrixFactoryGate):
        if isinstance(g.matrix_factory, G.CustomGateMatrixFactory):
            return f"(Custom {d_def(g.matrix_factory.gate_definition)} {d_params(g.params)})"
        return f"(Builtin {cstring(g.name)} {cbool(g.is_hermitian)} {cnat(g.num_qubits)} {d_params(g.params)})"
    if isinstance(g, G.ControlledGate):
        return f"(Controlled {cnat(g.num_control_qubits)} {d_gate(g.wrapped_gate)})"
    if isinstance(g, G.Dagger):
        return f"(Dagger {d_gate(g.wrapped_gate)})"
    if isinstance(g, G.Power):
        return f"(Power {d_gate(g.wrapped_gate)} {d_q(g.exponent)})"
    if isinstance(g, G.Exponential):
        return f"(Exponential {d_gate(g.wrapped_gate)})"
    raise ValueError(f"gate outside the model: {g!r}")


def d_op(o):
    if isinstance(o, G.GateOperation):
        return f"(GateOp {d_gate(o.gate)} {clist(o.qubit_indices, cnat)})"
    if isinstance(o, MultiPhaseOperation):
        return f"(MultiPhase {d_params(o.params)})"
    if isinstance(o, ResetOperation):
        return f"(Reset {cnat(o.qubit_indices[0])} {d_params(o.params)})"
    raise ValueError(f"operation outside the model: {o!r}")


def d_circuit(c):
    return "{| ops := " + clist(c.operations, d_op) + f"; width := {cnat(c.n_qubits)} |}}"


def d_map(m):
    return clist(list(m.items()), lambda kv: cpair(cstring(kv[0].name), d_val(kv[1])))


def d_envs(es):
    return clist(es, lambda en: clist(en, lambda kv: cpair(cstring(kv[0]), cq(Fraction(kv[1][0], kv[1][1])))))


def d_names(l):
    return clist([str(s) for s in l], cstring)


ERR = {"NotImplementedError": "ENotImplemented", "ValueError": "EValue", "TypeError": "EType"}


def d_res(st, out, f):
    if st == "ok":
        return f"(Ok {f(out)})"
    if out not in ERR:
        raise ValueError(f"error kind outside the model: {out}")
    return f"(Err {ERR[out]})"


def free_case(c):
    return (f"free_case {d_circuit(c)} {clist([o.free_symbols for o in c.operations], d_names)} "
            f"{d_names(c.free_symbols)}")

# ----------------------------------------------------------------------------- independent oracle helpers

_a = sympy.Symbol("_a")
INTERP = {"f": lambda *a: 1 + sum((i + 2) * x for i, x in enumerate(a)),
          "g": lambda *a: 2 + sum((i + 3) * x * x for i, x in enumerate(a))}


def interp(e):
    """replace every applied undefined function, innermost first (Basic.replace leaves nested ones behind)"""
    if isinstance(e, sympy.MatrixBase):
        return e.applyfunc(interp)
    if not isinstance(e, sympy.Basic) or not e.args:
        return e
    args = [interp(a) for a in e.args]
    if isinstance(e, AppliedUndef):
        return INTERP[e.func.__name__](*args)
    return e.func(*args)


def float_value(f):
    """The rational a sympy Float stands for.  Generated floats are small dyadics and are taken exactly.  sympy itself
    creates non-dyadic Floats when it factors a float out of a power ((x - 2.5)**2 -> 6.25*(0.4*x - 1)**2): such a
    Float is the correctly rounded quotient of two generated numbers, so a Float with a large denominator that lies
    within 2**-48 (relative) of a fraction with denominator <= 10**4 is read as that fraction."""
    p, q = to_rational(f._mpf_)
    exact = Fraction(int(p), int(q))
    if exact.denominator <= 2 ** 12:
        return exact
    cand = exact.limit_denominator(10 ** 4)
    if cand != 0 and abs(cand - exact) <= abs(exact) / 2 ** 48:
        return cand
    return exact


def rationalize(e):
    """Floats -> the exact rationals they stand for (1.0 and 1 are the same value; sympy keeps them apart)"""
    fl = e.atoms(sympy.Float)
    if not fl:
        return e
    return e.xreplace({f: sympy.Rational(float_value(f).numerator, float_value(f).denominator) for f in fl})


def numeric(M, env):
    """sympy matrix / expression -> complex numpy array at the environment {name: Fraction}."""
    if isinstance(M, np.ndarray):
        return np.array(M, dtype=complex)
    M = sympy.Matrix(M) if not isinstance(M, sympy.MatrixBase) else M
    M = interp(M.doit())   # constructs first: a symbol can be free in one parameter and bound in another
    M = M.xreplace({s: sympy.Rational(env[s.name][0], env[s.name][1]) for s in M.free_symbols}).doit()
    return np.array(M.evalf(30).tolist(), dtype=complex)


def num_expr(e, env):
    """sympy expression -> sympy number (30 digits) at the environment"""
    e = interp(e.doit())
    return e.xreplace({s: sympy.Rational(env[s.name][0], env[s.name][1]) for s in e.free_symbols}).doit().evalf(30)


def as_expr(p):
    return sympy.sympify(p)


def same_param(a, b):
    if isinstance(a, (int, float)) or isinstance(b, (int, float)):
        return type(a) == type(b) and a == b
    return sympy.expand((rationalize(sympy.sympify(a)) - rationalize(sympy.sympify(b))).doit()) == 0


def chain(g):
    out = [g]
    while hasattr(g, "wrapped_gate"):
        g = g.wrapped_gate
        out.append(g)
    return out


def has_pe(g):
    return any(isinstance(w, (G.Power, G.Exponential)) for w in chain(g))


def shape(g):
    """wrapper chain as the methods build it, computed independently of bind: (controls, daggered)"""
    k, dag = 0, False
    for w in chain(g):
        if isinstance(w, G.ControlledGate):
            k += w.num_control_qubits
        elif isinstance(w, G.Dagger):
            dag = not dag
    leaf = chain(g)[-1]
    if leaf.is_hermitian:
        dag = False
    return k, dag, leaf.name


def expected_free(params):
    s = set()
    for p in params:
        if isinstance(p, sympy.Expr):
            s |= p.free_symbols
    return sorted(s, key=str)


def first_appearance(lists):
    seen, out = set(), []
    for l in lists:
        for s in l:
            if s not in seen:
                seen.add(s)
                out.append(s)
    return out


BOUND_NAMES = ["k", "n", "j"]


def oracle_depends(c, env):
    """free_symbols must be exactly the symbols the parameters depend on, decided by evaluation: evaluate the
    constructs (doit), then vary one symbol, keep the others fixed, and see whether some parameter's value
    moves.  Every symbol that occurs anywhere in a parameter (bound or not) or is reported is tried.  (A
    reported symbol on which nothing depends is given the benefit of the doubt when it is syntactically free
    in a parameter - Subs(0, j, q), (x + 1)**2 - x**2 - 2*x - 1: degenerate constructs and algebraic
    cancellation are not the subject here; a bound variable never is.)"""
    base = {n: sympy.Rational(v[0], v[1]) for n, v in env.items()}
    for i, n in enumerate(BOUND_NAMES):
        base[n] = sympy.Integer(2 + i)
    union = []
    for o in c.operations:
        raw = [p for p in o.params if isinstance(p, sympy.Expr)]
        ps = [interp(p.doit()) for p in raw]
        reported = [str(x) for x in o.free_symbols]
        names = set(reported) | {x.name for p in o.params if isinstance(p, sympy.Expr) for x in p.atoms(sympy.Symbol)}
        at = lambda vals: [complex(e.xreplace({sympy.Symbol(n): v for n, v in vals.items()}).evalf(30)) for e in ps]
        v0 = at(base)
        for n in sorted(names):
            if n not in base:
                return f"{o}: symbol {n} outside the generator's universe"
            moved = False
            for alt in (base[n] + 1, 3 * base[n] + sympy.Rational(1, 7)):
                vals = dict(base)
                vals[n] = alt
                if any(abs(v - a) > 1e-9 * (1 + abs(a)) for v, a in zip(at(vals), v0)):
                    moved = True
                    break
            if moved and n not in reported:
                return f"{o} depends on {n} (its parameters change with it) but reports free symbols {reported}"
            if n in reported and not moved and not any(sympy.Symbol(n) in p.free_symbols for p in raw):
                return f"{o} reports the free symbol {n}, but none of its parameters {o.params} depends on it"
        union += [n for n in reported if n not in union]
    if [str(x) for x in c.free_symbols] != union:
        return f"circuit free symbols {c.free_symbols}, first appearances over the operations {union}"
    return ""


def oracle_bound_op(o, b, m, env):
    """o.bind(m) == b must hold in the sense of the property; returns '' or a message."""
    if type(o) != type(b) or tuple(o.qubit_indices) != tuple(b.qubit_indices):
        return f"operation {o} on {tuple(o.qubit_indices)} became {b} on {tuple(b.qubit_indices)}"
    if len(o.params) != len(b.params):
        return f"{o}: {len(o.params)} parameters became {len(b.params)}"
    for p, r in zip(o.params, b.params):
        want = p.subs(m, simultaneous=True) if isinstance(p, sympy.Expr) and not isinstance(p, sympy.Symbol) else m.get(p, p)
        if not same_param(want, r):
            return f"{o}: parameter {p!r} bound to {r!r}, substitution gives {want!r}"
        if not isinstance(p, sympy.Expr) and not (type(p) == type(r) and p == r):
            return f"{o}: numeric parameter {p!r} changed to {r!r}"
    if list(b.free_symbols) != expected_free(b.params):
        return f"{b}: free_symbols {b.free_symbols}, parameters depend on {expected_free(b.params)}"
    if isinstance(o, G.GateOperation):
        if shape(o.gate) != shape(b.gate):
            return f"wrappers of {o.gate} became {b.gate}"
        if o.gate.num_qubits <= 2 and not has_pe(o.gate):
            st, res = outcome(lambda: (numeric(b.gate.matrix, env),
                                       numeric(o.gate.matrix.subs(m, simultaneous=True), env)), timeout=20)
            if st != "ok":     # sympy can take minutes to build a matrix from a large argument: no verdict then
                return "" if res == "Timeout" else f"matrix of {o.gate} / {b.gate}: {res}"
            if res[0].shape != res[1].shape or not np.allclose(res[0], res[1], atol=1e-9):
                return f"matrix of {b.gate} differs from the substituted matrix of {o.gate}"
    return ""

# ----------------------------------------------------------------------------- generator


def g_number(rng, floats):
    r = rng.random()
    if r < 0.4:
        return ["int", rng.choice([-3, -2, -1, 0, 1, 2, 3, 5, 7])]
    if r < 0.8 or not floats:
        return ["rat", rng.choice([-7, -5, -3, -1, 1, 3, 5, 9]), rng.choice([2, 4, 8])]
    return ["int", rng.randint(-4, 9)]


def g_pynum(rng, floats, value=False):
    if floats and rng.random() < 0.5:
        # a Float that gets substituted into an expression must have an exact reciprocal: sympy rewrites
        # (y - 3.5)**2 as 12.25*(0.285714285714286*y - 1)**2, which is no longer the same rational function
        return ["pyfloat", rng.choice([0.5, -0.5, 2.0, 0.25, 1.0, -2.0, 4.0, 0.0] if value else
                                      [0.5, -1.5, 2.0, 0.25, 1.0, -0.75, 3.5, 0.0]).hex()]
    return ["pyint", rng.randint(-3, 6)]


def g_expr(rng, syms, depth, trig, maxpow=3, undef=True):
    r = rng.random()
    if depth == 0 or r < 0.25:
        if rng.random() < 0.75 and syms:
            return ["sym", rng.choice(syms)]
        return g_number(rng, False)
    sub = lambda: g_expr(rng, syms, depth - 1, trig, maxpow, undef)
    if r < 0.45:
        return ["add", sub(), sub()]
    if r < 0.6:
        return ["sub", sub(), sub()]
    if r < 0.78:
        return ["mul", sub(), sub()]
    if r < 0.86:
        return ["pow", sub(), rng.randint(0, maxpow)]
    if r < 0.93:
        if not trig and not undef:
            return ["mul", sub(), sub()]
        fn = rng.choice(["sin", "cos"] if trig else ["f"])
        return ["fn", fn, [sub()]]
    if not undef:
        return ["add", sub(), ["int", rng.randint(1, 3)]]
    if rng.random() < 0.5:
        return ["fn", "f", [sub()]]
    return ["fn", "g", [sub(), sub()]]


def g_param(rng, syms, trig, floats, symbolic=0.75, undef=True, pyfloat=True):
    """a gate argument: Python number, bare symbol, sympy number, or expression"""
    r = rng.random()
    if r > symbolic or not syms:
        return g_pynum(rng, pyfloat) if rng.random() < 0.6 else g_number(rng, False)
    r = rng.random()
    if r < 0.35:
        return ["sym", rng.choice(syms)]
    return g_expr(rng, syms, 2 if floats else 3, trig, 2 if floats else 3, undef)


def g_leaf(rng, syms, trig, floats, symbolic=0.75, always_symbolic=False, undef=True):
    if rng.random() < 0.25:
        i = rng.randrange(len(DEFS))
        n = len(DEFS[i].params_ordering)
        if always_symbolic and n == 0:
            i, n = 1, 2
        ps = [g_param(rng, syms, trig, floats, symbolic, undef) for _ in range(n)]
        if always_symbolic:
            ps[0] = ["sym", rng.choice(syms)]
        return ["custom", i, ps]
    names = [k for k, n in BUILTIN.items() if n > 0] if always_symbolic or rng.random() < 0.75 else list(BUILTIN)
    name = rng.choice(names)
    ps = [g_param(rng, syms, trig, floats, symbolic, undef) for _ in range(BUILTIN[name])]
    if always_symbolic:
        if ps[0][0] in ("pyint", "pyfloat") or not b_param(ps[0]).free_symbols:
            ps[0] = ["sym", rng.choice(syms)]
    return ["builtin", name, ps]


def leaf_nq(j):
    if j[0] == "builtin":
        return getattr(C, j[1])(*[0] * BUILTIN[j[1]]).num_qubits if BUILTIN[j[1]] else getattr(C, j[1]).num_qubits
    return DEFS[j[1]]._n_qubits


def g_gate(rng, syms, trig, floats, pe=False, always_symbolic=False, maxwrap=4):
    """returns (json, num_qubits).  pe: put a Power / Exponential somewhere on the chain (leaf then numeric)."""
    leaf = g_leaf(rng, syms, trig, floats, symbolic=0.0 if pe else 0.75, always_symbolic=always_symbolic, undef=not always_symbolic)
    nq = leaf_nq(leaf)
    j = leaf
    nwrap = rng.choice([0, 0, 1, 1, 2, 3, maxwrap])
    if pe:
        nwrap = max(nwrap, 1)
    pe_at = rng.randrange(nwrap) if pe else -1
    for i in range(nwrap):
        mode = rng.choice(["direct", "method"])
        if i == pe_at:
            if rng.random() < 0.5:
                j = ["pow", j, rng.choice([2, 3, -1, (0.5).hex(), (1.5).hex()]), mode]
            else:
                j = ["exp", j, mode]
        elif rng.random() < 0.5 and nq < 4:
            k = rng.choice([1, 1, 2])
            j = ["ctrl", k, j, mode]
            nq += k
        else:
            j = ["dag", j, mode]
    return j, nq


def g_ops(rng, syms, trig, floats, nops, width, pe_prob=0.0, always_symbolic=False, gates_only=False):
    ops = []
    for _ in range(nops):
        r = rng.random()
        if r < 0.12 and not gates_only:
            k = rng.choice([1, 2])
            ops.append(["phase", [g_param(rng, syms, trig, floats) for _ in range(2 ** k)]])
        elif r < 0.2 and not gates_only:
            ps = None if rng.random() < 0.7 else [g_param(rng, syms, trig, floats) for _ in range(rng.randint(0, 2))]
            ops.append(["reset", rng.randrange(width), ps])
        else:
            while True:
                j, nq = g_gate(rng, syms, trig, floats, pe=rng.random() < pe_prob, always_symbolic=always_symbolic,
                               maxwrap=2 if gates_only else 4)
                if nq <= width:
                    break
            ops.append(["gate", j, rng.sample(range(width), nq)])
    return ops


def g_map(rng, keys_pool, value_syms, trig, floats, extra_pool):
    """keys: a subset of keys_pool plus superfluous ones; values never mention a key"""
    mode = rng.choice(["partial", "partial", "total", "superfluous", "empty", "disjoint"])
    if mode == "empty":
        keys = []
    elif mode == "total":
        keys = list(keys_pool)
    elif mode == "disjoint":
        keys = []
    else:
        keys = [k for k in keys_pool if rng.random() < 0.5]
    if mode in ("superfluous", "disjoint") or rng.random() < 0.25:
        keys += rng.sample(extra_pool, min(len(extra_pool), rng.randint(1, 2)))
    rng.shuffle(keys)
    vs = [s for s in value_syms if s not in keys]
    m = []
    numeric_only = rng.random() < 0.35
    for k in keys:
        r = rng.random()
        if numeric_only or r < 0.5 or not vs:
            v = g_pynum(rng, floats, value=True) if rng.random() < 0.6 else g_number(rng, False)
        elif r < 0.7:
            v = ["sym", rng.choice(vs)]
        else:
            v = g_expr(rng, vs, 1 if floats else 2, trig, 2)
        m.append([k, v])
    return m


def g_envs(rng, names):
    return [[[n, [rng.choice([-7, -5, -3, -2, -1, 1, 2, 3, 4, 5, 7, 9, 11]), rng.choice([1, 1, 2, 3, 4, 5])]] for n in names]
            for _ in range(3)]


def gen(rng, tier):
    n = {"quick": 320, "search": 1500}.get(tier, 6000)
    for _ in range(n):
        r = rng.random()
        trig = rng.random() < 0.5
        floats = not trig and rng.random() < 0.6
        syms = rng.sample(SYMS[:11], rng.randint(1, 5))
        extra = [s for s in SYMS if s not in syms]
        envs = g_envs(rng, SYMS)
        if r < 0.5:
            width = rng.randint(1, 5)
            ops = g_ops(rng, syms, trig, floats, rng.randint(0, 6), width, pe_prob=0.12 if rng.random() < 0.4 else 0.0)
            m = g_map(rng, syms, extra[:4] + syms, trig, floats, extra[4:])
            yield dict(kind="bind", ops=ops, n=width + rng.choice([0, 0, 2]), map=m, envs=envs)
        elif r < 0.65:
            width = rng.randint(1, 4)
            ops = g_ops(rng, syms, trig, floats, rng.randint(1, 5), width)
            k1 = [s for s in syms if rng.random() < 0.5]
            k2 = [s for s in syms if s not in k1 and rng.random() < 0.8]
            m1 = g_map(rng, k1, [s for s in extra[:4] + syms if s not in k2], trig, floats, extra[4:6])
            m1 = [kv for kv in m1 if kv[0] not in k2]
            used = [kv[0] for kv in m1]
            m2 = [kv for kv in g_map(rng, k2, extra[:4], trig, floats, extra[6:8]) if kv[0] not in used]
            yield dict(kind="two-step", ops=ops, n=width, map1=m1, map2=m2, envs=envs)
        elif r < 0.77:
            i = rng.randrange(len(DEFS))
            formals = [s.name for s in DEFS[i].params_ordering]
            pool = list(dict.fromkeys(formals + syms))
            # a Python float under the definition's own sin / cos would be evaluated numerically by sympy
            ps = [g_param(rng, pool, trig, floats, 0.85, pyfloat=(i != 0)) for _ in formals]
            yield dict(kind="custom-matrix", d=i, ps=ps, envs=envs)
        elif r < 0.9:
            pe = rng.random() < 0.6
            j, nq = g_gate(rng, syms, trig, floats, pe=pe)
            leaf = j
            while leaf[0] not in ("builtin", "custom"):
                leaf = leaf[2] if leaf[0] == "ctrl" else leaf[1]
            nps = len(leaf[2])
            if rng.random() < 0.15:
                nps += rng.choice([-1, 1]) if nps else 1
            ps = [g_param(rng, syms, trig, floats, 0.4) for _ in range(max(0, nps))]
            yield dict(kind="replace", gate=j, ps=ps, envs=envs)
        else:
            width = rng.randint(1, 3)
            ops = g_ops(rng, syms, True, True, rng.randint(1, 4), width, always_symbolic=True, gates_only=True)
            total = rng.random() < 0.5
            m = [[s, g_number(rng, False) if total else ["add", ["sym", rng.choice(extra[:3])], g_number(rng, False)]]
                 for s in syms]
            yield dict(kind="unitary", ops=ops, n=width, map=m, envs=envs)


def g_nonbare(rng, syms, trig, floats):
    """an expression parameter that is certainly not a bare symbol and mentions syms[0]"""
    a = ["sym", syms[0]]
    r = rng.random()
    if r < 0.25:
        return ["mul", ["rat", 1, 2], a]
    if r < 0.45:
        return ["mul", ["int", rng.choice([2, 3, -1])], a]
    if r < 0.7 and len(syms) > 1:
        return ["add", a, ["sym", syms[1]]]
    return ["add", ["mul", ["int", 2], a], g_expr(rng, syms, 1, trig, 2)]


def g_history(rng):
    """one dict object, 2-4 binds, edited in place in between"""
    trig = rng.random() < 0.5
    floats = not trig and rng.random() < 0.6
    syms = rng.sample(SYMS[:11], rng.randint(2, 4))
    extra = [s for s in SYMS if s not in syms]
    vsyms, spare = extra[:2], extra[2:5]       # symbols for values (never keys) / superfluous keys
    width = rng.randint(2, 4)
    mixed = rng.sample(syms, len(syms))
    bare, expr = ["sym", mixed[0]], g_nonbare(rng, mixed[1:] + mixed[:1], trig, floats)
    r = rng.random()
    if r < 0.3:
        first = ["phase", [bare, expr, g_param(rng, syms, trig, floats), g_nonbare(rng, mixed, trig, floats)]]
    else:
        if r < 0.55:
            j, nq = ["builtin", "U3", [bare, expr, g_param(rng, syms, trig, floats)]], 1
        elif r < 0.75:
            j, nq = ["builtin", "MS", [expr, bare]], 2
        elif r < 0.9:
            j, nq = ["custom", 1, [bare, expr]], 1
        else:
            j, nq = ["custom", 2, [expr, bare]], 2
        for _ in range(rng.choice([0, 0, 1, 2])):
            mode = rng.choice(["direct", "method"])
            if rng.random() < 0.5 and nq < width:
                j, nq = ["ctrl", 1, j, mode], nq + 1
            else:
                j = ["dag", j, mode]
        first = ["gate", j, rng.sample(range(width), nq)]
    ops = [first] + g_ops(rng, syms, trig, floats, rng.randint(0, 3), width)
    rng.shuffle(ops)

    def value():
        r = rng.random()
        if r < 0.7:
            return g_pynum(rng, floats, value=True) if rng.random() < 0.5 else g_number(rng, False)
        if r < 0.85:
            return ["sym", rng.choice(vsyms)]
        return g_expr(rng, vsyms, 1, trig, 2)
    cur, steps = {}, []
    for i in range(rng.randint(2, 4)):
        edits = []
        if i == 0:
            for k in [s for s in syms if rng.random() < 0.7] or [syms[0]]:
                edits.append(["set", k, value()])
        else:
            act = rng.choice(["change", "change", "add", "remove", "refill", "mixed"])
            present = list(cur)
            absent = [s for s in syms + spare if s not in cur]
            if act == "refill" or not present:
                edits.append(["clear"])
                for k in rng.sample(absent or syms, min(len(absent or syms), rng.randint(1, 2))):
                    edits.append(["set", k, value()])
            else:
                if act in ("change", "mixed"):
                    edits.append(["set", rng.choice(present), value()])
                if act in ("add", "mixed") and absent:
                    edits.append(["set", rng.choice(absent), value()])
                if act in ("remove", "mixed") or not edits:
                    edits.append(["del", rng.choice(present)])
        for e in edits:
            if e[0] == "clear":
                cur.clear()
            elif e[0] == "del":
                cur.pop(e[1], None)
            else:
                cur[e[1]] = e[2]
        steps.append(dict(edits=edits, chain=i > 0 and rng.random() < 0.5, via=rng.choice(["circuit", "circuit", "ops", "gates"])))
    return dict(kind="history", ops=ops, n=width, steps=steps, envs=g_envs(rng, SYMS))


def g_construct(rng, syms):
    """a sympy construct with a bound variable; depends on syms[0] (and sometimes syms[1])"""
    a, b = ["sym", syms[0]], ["sym", syms[1 % len(syms)]]
    r = rng.randrange(7)
    if r == 0:
        return ["bsum", ["powsym", a, "k"], "k", 0, rng.randint(1, 3)]
    if r == 1:
        return ["bsum", ["mul", ["add", a, ["sym", "k"]], b], "k", 1, rng.randint(2, 3)]
    if r == 2:
        return ["bprod", ["add", ["int", 1], ["mul", a, ["sym", "n"]]], "n", 1, rng.randint(2, 3)]
    if r == 3:        # the integration variable is also an ordinary circuit symbol / map key elsewhere
        v = rng.choice(["j", "t"]) if syms[0] != "t" else "j"
        return ["bint", ["mul", ["sym", v], a], v, 0, rng.choice([1, 2])]
    if r == 4:
        return ["bint", ["add", ["sym", "j"], ["mul", a, b]], "j", 0, 1]
    if r == 5:
        return ["bsubs", ["add", ["pow", ["sym", "j"], 2], a], "j", ["int", rng.randint(1, 3)]]
    return ["bsubs", ["mul", ["add", ["sym", "j"], ["int", 1]], a], "j", b]


def g_bound_param(rng, syms):
    c = g_construct(rng, rng.sample(syms, len(syms)))
    r = rng.random()
    if r < 0.5:
        return c
    if r < 0.75:
        return ["add", c, ["sym", rng.choice(syms)]]
    return ["mul", ["rat", rng.choice([1, 3]), 2], c]


def g_bound_history(rng):
    """parameters with bound variables: bind partially, then the rest (same dict, refilled), then the bound
    variables themselves as superfluous keys"""
    syms = rng.sample([s for s in SYMS[:11]], rng.randint(2, 3))
    extra = [s for s in SYMS if s not in syms and s != "t"]     # values must not mention a bound name (capture)
    width = rng.randint(2, 4)
    bp = lambda: g_bound_param(rng, syms)
    plain = lambda: g_param(rng, syms, False, True)
    ops = []
    for _ in range(rng.randint(1, 3)):
        r = rng.random()
        if r < 0.25:
            ops.append(["phase", rng.sample([bp(), plain(), ["sym", syms[0]], bp()], 4)[:rng.choice([2, 4])]])
            continue
        if r < 0.5:
            name = rng.choice(["RX", "RZ", "PHASE", "GPi", "XX", "CPHASE"])
            j, nq = ["builtin", name, [bp()]], leaf_nq(["builtin", name, []])
        elif r < 0.65:
            j, nq = ["builtin", "U3", rng.sample([bp(), plain(), ["sym", syms[-1]]], 3)], 1
        elif r < 0.85:
            j, nq = ["custom", 1, rng.sample([bp(), plain()], 2)], 1
        else:
            j, nq = ["custom", 2, [bp(), bp()]], 2
        for _ in range(rng.choice([0, 0, 1, 2])):
            mode = rng.choice(["direct", "method"])
            if rng.random() < 0.5 and nq < width:
                j, nq = ["ctrl", 1, j, mode], nq + 1
            else:
                j = ["dag", j, mode]
        ops.append(["gate", j, rng.sample(range(width), nq)])
    ops += g_ops(rng, syms, False, True, rng.randint(0, 2), width)
    rng.shuffle(ops)

    def value(numeric):
        if numeric or rng.random() < 0.8:
            # no Python floats here: a Float substituted next to a rational constant makes sympy factor
            # (x - 2.5)**2 into 6.25*(0.4*x - 1)**2, which is not the same rational function any more
            return g_pynum(rng, False) if rng.random() < 0.4 else g_number(rng, False)
        return ["add", ["sym", rng.choice(extra[:2])], g_number(rng, False)]
    first = [s for s in syms if rng.random() < 0.5] or [syms[0]]
    rest = [s for s in syms if s not in first]
    total = rng.random() < 0.7
    steps = [dict(edits=[["set", k, value(total)] for k in first]
                  + ([["set", rng.choice(BOUND_NAMES), ["pyint", 7]]] if rng.random() < 0.3 else []),
                  chain=False, via=rng.choice(["circuit", "ops", "gates"]))]
    if rest:
        steps.append(dict(edits=[["clear"]] + [["set", k, value(total)] for k in rest], chain=True,
                          via=rng.choice(["circuit", "circuit", "ops", "gates"])))
    if rng.random() < 0.6:
        steps.append(dict(edits=[["clear"]] + [["set", k, ["pyint", rng.randint(5, 9)]] for k in rng.sample(BOUND_NAMES, 2)]
                          + ([["set", "t", ["rat", 1, 4]]] if "t" not in syms else []),
                          chain=rng.random() < 0.7, via=rng.choice(["circuit", "ops", "gates"])))
    return dict(kind="history", label="bound-history", depends=True, ops=ops, n=width, steps=steps, envs=g_envs(rng, SYMS))


def gen_all(rng, tier):
    only = os.environ.get("VERIF_C06_STREAM")        # development aid: "history" / "bound" alone, thorough volume
    if only:
        for _ in range(int(os.environ.get("VERIF_C06_N", "900"))):
            yield g_history(rng) if only == "history" else g_bound_history(rng)
        return
    yield from gen(rng, tier)
    for _ in range({"quick": 60, "search": 300}.get(tier, 900)):
        yield g_history(rng)
    for _ in range({"quick": 40, "search": 300}.get(tier, 900)):
        yield g_bound_history(rng)

# ----------------------------------------------------------------------------- cases


def env_of(envs, i=0):
    return {n: v for n, v in envs[i]}


def bind_via(c, m, via):
    """bind a circuit through Circuit.bind, through each operation's bind, or through each gate's bind"""
    if via == "circuit":
        return c.bind(m)
    if via == "ops":
        return Circuit([o.bind(m) for o in c.operations], n_qubits=c.n_qubits)
    return Circuit([o.gate.bind(m)(*o.qubit_indices) if isinstance(o, G.GateOperation) else o.bind(m)
                    for o in c.operations], n_qubits=c.n_qubits)


def run_bind(c, m, envs, via="circuit"):
    """one Circuit.bind: returns (coq check text, oracle message, outcome)"""
    st, out = outcome(lambda: bind_via(c, m, via), timeout=30)
    chk = f"bind_case {d_circuit(c)} {d_map(m)} {d_envs(envs)} {d_res(st, out, d_circuit)} && {free_case(c)}"
    msg = ""
    refused = [o for o in c.operations if isinstance(o, G.GateOperation) and has_pe(o.gate)]
    if st == "ok":
        chk += " && " + free_case(out)
        if refused:
            msg = f"bind returned a circuit although {refused[0]} contains a power / exponential wrapper"
        elif out.n_qubits != c.n_qubits or len(out.operations) != len(c.operations):
            msg = f"width {c.n_qubits} -> {out.n_qubits}, operations {len(c.operations)} -> {len(out.operations)}"
        else:
            env = env_of(envs)
            for o, b in zip(c.operations, out.operations):
                msg = oracle_bound_op(o, b, m, env)
                if msg:
                    break
            if not msg:
                if list(out.free_symbols) != first_appearance([o.free_symbols for o in out.operations]):
                    msg = f"free symbols {out.free_symbols} are not the first appearances over the operations"
                elif (out.free_symbols == []) != all(not isinstance(p, sympy.Expr) or not p.free_symbols
                                                      for o in out.operations for p in o.params):
                    msg = "circuit reports no free symbols although a parameter has some (or conversely)"
    else:
        if not (out == "NotImplementedError" and refused):
            msg = f"bind raised {out}" + ("" if refused else " although no operation contains a power / exponential wrapper")
    return chk, msg, (st, out)


def run_case(inp):
    kind = inp["kind"]
    envs = inp["envs"]
    if kind == "bind":
        c, m = b_circuit(inp), b_map(inp["map"])
        chk, msg, (st, out) = run_bind(c, m, envs)
        touched = any(k in c.free_symbols for k in m)
        return dict(chk=chk, oracle_ok=not msg, oracle_msg=msg, kind="bind-ok" if st == "ok" else "bind-refused",
                    nontrivial=touched or st != "ok")
    if kind == "two-step":
        c, m1, m2 = b_circuit(inp), b_map(inp["map1"]), b_map(inp["map2"])
        m12 = dict(m1)
        m12.update(m2)
        chk1, msg, (st1, c1) = run_bind(c, m1, envs)
        if st1 != "ok":
            return dict(chk=chk1, oracle_ok=False, oracle_msg=msg or "first step failed", kind=kind)
        chk2, msg2, (st2, c2) = run_bind(c1, m2, envs)
        chk3, msg3, (st3, c3) = run_bind(c, m12, envs)
        msg = msg or msg2 or msg3
        if not msg:
            if st2 != "ok" or st3 != "ok":
                msg = f"second step {st2} {c2 if st2 != 'ok' else ''}, single step {st3}"
            else:
                for a, b in zip(c2.operations, c3.operations):
                    if type(a) != type(b) or len(a.params) != len(b.params) or \
                            not all(same_param(p, r) for p, r in zip(a.params, b.params)) or \
                            (isinstance(a, G.GateOperation) and shape(a.gate) != shape(b.gate)):
                        msg = f"binding {m1} then {m2} gives {a}, binding both at once gives {b}"
                        break
                if not msg and list(c2.free_symbols) != list(c3.free_symbols):
                    msg = f"free symbols after two steps {c2.free_symbols}, after one {c3.free_symbols}"
        return dict(chk=f"{chk1} && {chk2} && {chk3}", oracle_ok=not msg, oracle_msg=msg, kind=kind,
                    nontrivial=bool(m1) and bool(m2))
    if kind == "history":
        c0 = b_circuit(inp)
        m = {}                                    # the one dict object every step binds with
        cur, chks, msg, changed, prev = c0, [], "", 0, None
        dep = inp.get("depends", False)
        skipped = 0

        def depends_msg(c):
            nonlocal skipped
            st, res = outcome(oracle_depends, c, env_of(envs), timeout=20)
            if st == "ok":
                return res
            if res == "Timeout":            # a slow sympy evaluation: no verdict, counted in the kind label
                skipped += 1
                return ""
            return f"dependence oracle raised {res}"
        if dep:
            msg = depends_msg(c0)
        for i, step in enumerate(inp["steps"]):
            for e in step["edits"]:
                if e[0] == "clear":
                    m.clear()
                elif e[0] == "del":
                    m.pop(sympy.Symbol(e[1]), None)
                else:
                    m[sympy.Symbol(e[1])] = b_param(e[2])
            snapshot = dict(m)
            changed += prev is not None and snapshot != prev
            prev = snapshot
            target = cur if step["chain"] else c0
            chk, smsg, (st, out) = run_bind(target, m, envs, step["via"])
            chks.append(chk)
            if smsg and not msg:
                msg = f"step {i + 1} (same dict, now {snapshot}, bound through {step['via']}): {smsg}"
            if m != snapshot and not msg:
                msg = f"step {i + 1}: bind modified the caller's map"
            if st == "ok":
                cur = out
                if dep and not msg:
                    dmsg = depends_msg(out)
                    if dmsg:
                        msg = f"step {i + 1} (map {snapshot}): {dmsg}"
        return dict(chk=" && ".join(chks), oracle_ok=not msg, oracle_msg=msg,
                    kind=inp.get("label", kind) + ("-oracle-timeout" if skipped else ""),
                    nontrivial=changed > 0 or (dep and len(inp["steps"]) > 0))
    if kind == "custom-matrix":
        d = DEFS[inp["d"]]
        ps = [b_param(p) for p in inp["ps"]]
        g = d(*ps)
        st, M = outcome(lambda: g.matrix, timeout=20)
        if st != "ok":
            return dict(chk="false", oracle_ok=False, oracle_msg=f"matrix of {g} raised {M}", kind=kind)
        n = M.shape[0]
        rows = [[M[i, j] for j in range(n)] for i in range(n)]
        chk = f"custom_matrix_case {d_def(d)} {d_params(ps)} {d_envs(envs)} {clist(rows, lambda r: clist(r, d_expr))}"
        # by position, all at once: the stored matrix with every formal replaced by the value of its argument
        env = env_of(envs)
        argv = [num_expr(as_expr(p), env) for p in ps]
        want = numeric(d.matrix.xreplace(dict(zip(d.params_ordering, argv))), env)
        got = numeric(M, env)
        ok = got.shape == want.shape and np.allclose(got, want, atol=1e-9)
        mentions = any(isinstance(p, sympy.Expr) and set(p.free_symbols) & set(d.params_ordering) for p in ps)
        return dict(chk=chk, oracle_ok=ok, oracle_msg="" if ok else f"{g}.matrix = {M.tolist()} is not the stored matrix with the formals replaced by position",
                    kind=kind + ("-formals-in-args" if mentions else ""), nontrivial=len(ps) > 0)
    if kind == "replace":
        g = b_gate(inp["gate"])
        ps = tuple(b_param(p) for p in inp["ps"])
        st, out = outcome(lambda: g.replace_params(ps), timeout=20)
        chk = f"replace_case {d_gate(g)} {d_params(ps)} {d_envs(envs)} {d_res(st, out, d_gate)}"
        symbolic = any(isinstance(p, sympy.Expr) and p.free_symbols for p in ps)
        if st == "ok":
            ok = len(out.params) == len(ps) and all(same_param(a, b) for a, b in zip(out.params, ps)) and \
                chain(out)[-1].name == chain(g)[-1].name
            msg = "" if ok else f"{g}.replace_params({ps}) = {out}"
        else:
            ok = out == "ValueError" and has_pe(g) and symbolic
            msg = "" if ok else f"{g}.replace_params({ps}) raised {out}"
        return dict(chk=chk, oracle_ok=ok, oracle_msg=msg, kind="replace-ok" if st == "ok" else "replace-refused",
                    nontrivial=len(chain(g)) > 1)
    if kind == "unitary":
        c, m = b_circuit(inp), b_map(inp["map"])
        chk, msg, (st, out) = run_bind(c, m, envs)
        if not msg and st == "ok":
            env = env_of(envs)
            kinds = {bool(o.gate.free_symbols) for o in out.operations}
            if len(kinds) == 1:        # fully symbolic or fully numeric (a mixture cannot be multiplied out: F24)
                s2, res = outcome(lambda: (numeric(out.to_unitary(), env),
                                           numeric(sympy.Matrix(c.to_unitary()).subs(m, simultaneous=True), env)), timeout=60)
                if s2 != "ok":
                    msg = "" if res == "Timeout" else f"to_unitary raised {res}"
                elif not np.allclose(res[0], res[1], atol=1e-8):
                    msg = "matrix of the bound circuit differs from the substituted matrix of the circuit"
        return dict(chk=chk, oracle_ok=not msg, oracle_msg=msg, kind=kind, nontrivial=True)
    raise ValueError(kind)

# ----------------------------------------------------------------------------- witnesses


def w_f17():
    a, b = sympy.symbols("a b")
    d = CustomGateDefinition("w17", sympy.Matrix([[a, b], [b, a]]), (a, b))
    M = d(b + 1, 5).matrix
    bad = sympy.expand(M[0, 0] - (b + 1)) != 0 or M[0, 1] != 5
    return bad, f"custom gate [[a,b],[b,a]] with formals (a,b) applied to (b+1, 5) has matrix {M.tolist()}; by position: [[b+1,5],[5,b+1]]"


def w_f27():
    x = sympy.Symbol("x")
    try:
        c = Circuit([C.RX(x)(0), ResetOperation(1)]).bind({x: 1})
        o = c.operations[1]
        bad = not (isinstance(o, ResetOperation) and o.qubit_indices == (1,) and o.params == ())
        return bad, f"Circuit([RX(x)(0), ResetOperation(1)]).bind({{x: 1}}) -> {c}"
    except Exception as e:
        return True, f"Circuit([RX(x)(0), ResetOperation(1)]).bind({{x: 1}}) raised {type(e).__name__}: {e}"


H.main(gen_all, run_case, {"F17": w_f17, "F27": w_f27})
