"""C03 correspondence harness: Pauli operator arithmetic (operators/_pauli_operators.py).

Inputs are operands (term / sum / plain number) with dyadic coefficients, so Python's float arithmetic is
exact and results are compared with the Coq model (coq/Pauli/Algebra.v on GQring) by equality:
ops sorted by qubit, terms in the order Python returns them, result kind (term or sum) included.
The independent oracle builds dense numpy matrices (np.kron, qubit 0 leftmost) of operands and result.
"""
import itertools
from fractions import Fraction
import numpy as np
from hlib import *
from orquestra.quantum.operators import PauliTerm, PauliSum

H = Harness("C03", ["OQ.Base.Ring", "OQ.Base.CaseEq", "OQ.Pauli.Algebra", "OQ.Pauli.AlgebraCases"],
            "operands: term (0-6 acted qubits drawn from a pool of <= 7 indices in 0..12, dict built in random order), "
            "sum (0-6 terms, repeated operator sets, cancelling and zero coefficients, empty sum), number (int / float / "
            "complex); coefficients dyadic k/2^e so that float arithmetic is exact and np.isclose/np.allclose coincide with "
            "exact tests; kinds: add sub mul (all 8 operand-kind combinations, either side), div (exact reciprocal, zero, "
            "non-number divisor), pow (exponent 0-6, negative), simplify, eq (permuted / perturbed / unsimplified), pairs "
            "(exhaustive ordered pairs of Pauli strings on 2 qubits, 3 in the thorough tier), invalid (TypeError / "
            "ValueError stream, oracle only), history (the SAME operand objects used in 2-5 successive operations: a+a twice, "
            "(a+a)-a, c+3 twice, simplify twice on a hand-built sum sharing its term objects, a*b then a+b ...; every "
            "result compared with the model on the ORIGINAL values, operands and earlier results re-read afterwards); "
            "numeric type of the coefficients is a generator dimension recorded after '/' in the kind: I all Python int, NP all "
            "numpy int64/int32, I+NP, FC no integer, MIX; non-trivial = two or more acted qubits or a sum of two or more terms")

LET = "XYZ"
P2 = {"I": np.eye(2, dtype=complex), "X": np.array([[0, 1], [1, 0]], dtype=complex),
      "Y": np.array([[0, -1j], [1j, 0]], dtype=complex), "Z": np.array([[1, 0], [0, -1]], dtype=complex)}

# ----------------------------------------------------------------------------- operands <-> Python / Coq

def pyval(c):
    re, im, e, ty = c
    if ty == "int":
        assert im == 0 and e == 0
        return int(re)
    if ty in ("npint64", "npint32"):
        assert im == 0 and e == 0
        return (np.int64 if ty == "npint64" else np.int32)(re)
    if ty == "float":
        assert im == 0
        return re / 2 ** e
    return complex(re / 2 ** e, im / 2 ** e)

INT_TYPES = ("int", "npint64", "npint32")

def coef_types(o):
    if o["k"] == "S":
        return [ty for t in o["terms"] for ty in coef_types(t)]
    return [num_c(o["c"])[3] if o["k"] == "N" else o["c"][3]]

def tymix(*os):
    """numeric-type profile of the coefficients of a case (label only)"""
    tys = set(ty for o in os for ty in coef_types(o))
    if not tys:
        return "FC"
    if tys <= {"int"}:
        return "I"
    if tys <= {"npint64", "npint32"}:
        return "NP"
    if tys <= set(INT_TYPES):
        return "I+NP"
    if not (tys & set(INT_TYPES)):
        return "FC"
    return "MIX"

def frac(c):
    re, im, e, _ = c
    return Fraction(re, 2 ** e), Fraction(im, 2 ** e)

def to_py(o):
    if o["k"] == "T":
        return PauliTerm({int(q): a for q, a in o["ops"]}, pyval(o["c"]))
    if o["k"] == "S":
        return PauliSum([to_py(t) for t in o["terms"]])
    return pyval(num_c(o["c"]))

def num_c(c):
    return [c[0], c[1], c[2], "int"] if c[3] in ("npint64", "npint32") else c

def from_number(z):
    """Python int/float/complex -> [re_num, im_num, e] with value (re + i im)/2^e exactly."""
    z = complex(z)
    fr, fi = Fraction(z.real), Fraction(z.imag)
    e = max(fr.denominator.bit_length(), fi.denominator.bit_length()) - 1
    assert fr.denominator == 1 << (fr.denominator.bit_length() - 1) and e <= 4000
    return [int(fr * 2 ** e), int(fi * 2 ** e), e]

def from_py(x):
    """canonical form of what the implementation returned"""
    if isinstance(x, PauliTerm):
        ty = "complex" if isinstance(x.coefficient, complex) else "float" if isinstance(x.coefficient, float) else "int"
        if isinstance(x.coefficient, np.generic):
            ty = "np-" + type(x.coefficient).__name__
        return dict(k="T", c=from_number(x.coefficient) + [ty], ops=sorted([int(q), a] for q, a in x._ops.items()))
    if isinstance(x, PauliSum):
        return dict(k="S", terms=[from_py(t) for t in x.terms])
    raise TypeError(f"unexpected result type {type(x)}")

def coq_ops(ops):
    return clist(sorted((int(q), a) for q, a in ops), lambda qa: cpair(cnat(qa[0]), "P" + qa[1]))

def coq_coef(c):
    return f"{cz(c[0])} {cz(c[1])} {cnat(c[2])}"

def coq_term(t):
    return f"(tm {coq_coef(t['c'])} {coq_ops(t['ops'])})"

def coq_operand(o):
    if o["k"] == "T":
        return f"(oterm {coq_term(o)})"
    if o["k"] == "S":
        return f"(osum {clist(o['terms'], coq_term)})"
    return f"(onum {coq_coef(o['c'])})"

def coq_result(st, out):
    return copt(from_py(out), coq_operand) if st == "ok" else "None"

# ----------------------------------------------------------------------------- oracle: dense matrices

def qubits_of(o):
    if o["k"] == "T":
        return {int(q) for q, _ in o["ops"]}
    if o["k"] == "S":
        return set().union(*[qubits_of(t) for t in o["terms"]]) if o["terms"] else set()
    return set()

def matrix(o, pool):
    """dense matrix on the qubits of [pool] (sorted; smaller index = more significant)"""
    d = 2 ** len(pool)
    if o["k"] == "N":
        fr, fi = frac(o["c"])
        return complex(fr, fi) * np.eye(d, dtype=complex)
    if o["k"] == "S":
        m = np.zeros((d, d), dtype=complex)
        for t in o["terms"]:
            m = m + matrix(t, pool)
        return m
    ops = {int(q): a for q, a in o["ops"]}
    m = np.eye(1, dtype=complex)
    for q in pool:
        m = np.kron(m, P2[ops.get(q, "I")])
    fr, fi = frac(o["c"])
    return complex(fr, fi) * m

def close(a, b):
    return bool(np.allclose(a, b, rtol=1e-9, atol=1e-9))

def simplified(o):
    if o["k"] != "S":
        return True
    keys = [tuple(sorted((int(q), a) for q, a in t["ops"])) for t in o["terms"]]
    return len(set(keys)) == len(keys) and all(t["c"][0] != 0 or t["c"][1] != 0 for t in o["terms"])

def is_zero_number(o):
    return o["k"] == "N" and o["c"][0] == 0 and o["c"][1] == 0

def nontrivial(*os):
    return any(len(qubits_of(o)) >= 2 or (o["k"] == "S" and len(o["terms"]) >= 2) for o in os)

# ----------------------------------------------------------------------------- generators

PROF = None      # numeric-type profile of the case being generated: None | "int" | "npint" | "intmix"

def g_coef(rng, small=False, zero_p=0.08, ty=None, number=False):
    """number=True: a plain-number operand (numpy integers are not accepted there by the library)"""
    if ty is None:
        if PROF == "int" or (PROF == "npint" and number):
            ty = "int"
        elif PROF == "npint":
            ty = rng.choice(["npint64", "npint32"])
        elif PROF == "intmix":     # integers next to floats and complex numbers with zero imaginary part
            ty = rng.choice(["int", "int", "float", "complex0"] + ([] if number else ["npint64", "npint32"]))
        else:
            ty = rng.choice(["int", "float", "complex", "complex"])
    num, emax = (4, 1) if small else (32, 4)
    def nz():
        while True:
            k = rng.randint(-num, num)
            if k:
                return k
    if rng.random() < zero_p:
        return [0, 0, 0, "complex" if ty == "complex0" else ty]
    if ty in INT_TYPES:
        return [nz(), 0, 0, ty]
    e = rng.randint(0, emax)
    if ty == "float":
        return [nz(), 0, e, ty]
    if ty == "complex0":
        return [nz(), 0, rng.choice([0, e]), "complex"]
    r = rng.random()
    if r < 0.25:
        return [0, nz(), e, ty]
    if r < 0.4:
        return [nz(), 0, e, ty]
    return [nz(), nz(), e, ty]

def g_ops(rng, pool, maxk=6):
    k = rng.randint(0, min(maxk, len(pool)))
    if rng.random() < 0.5:
        k = min(k, 3)
    qs = rng.sample(pool, k)              # construction order of the dict: random
    return [[q, rng.choice(LET)] for q in qs]

def g_term(rng, pool, small=False, zero_p=0.08):
    return dict(k="T", c=g_coef(rng, small, zero_p), ops=g_ops(rng, pool))

def g_sum(rng, pool, small=False, maxn=6):
    n = rng.choice([0, 1, 1, 2, 2, 3, 3, 4, 5, 6])
    n = min(n, maxn)
    terms = []
    for _ in range(n):
        r = rng.random()
        if terms and r < 0.3:
            src = rng.choice(terms)
            ops = list(src["ops"])
            rng.shuffle(ops)              # same frozenset, different dict order
            if rng.random() < 0.4:
                c = [-src["c"][0], -src["c"][1], src["c"][2], "complex" if src["c"][3] == "complex" else "float" if src["c"][2] else src["c"][3]]
            else:
                c = g_coef(rng, small)
            terms.append(dict(k="T", c=c, ops=ops))
        else:
            terms.append(g_term(rng, pool, small))
    return dict(k="S", terms=terms)

def g_num(rng, small=False):
    return dict(k="N", c=g_coef(rng, small, zero_p=0.1, number=True))

def g_pool(rng, maxq=7):
    return sorted(rng.sample(range(13), rng.randint(1, maxq)))

def g_operand(rng, pool, kind, small=False, maxn=6):
    return g_term(rng, pool, small) if kind == "T" else g_sum(rng, pool, small, maxn) if kind == "S" else g_num(rng, small)

KINDS2 = [("T", "T"), ("T", "S"), ("T", "N"), ("S", "T"), ("S", "S"), ("S", "N"), ("N", "T"), ("N", "S")]

def exact_reciprocal(v):
    try:
        r = 1.0 / v
    except ZeroDivisionError:
        return False
    r, v = complex(r), complex(v)
    a, b, c, d = Fraction(r.real), Fraction(r.imag), Fraction(v.real), Fraction(v.imag)
    return a * c - b * d == 1 and a * d + b * c == 0

def g_divisor(rng):
    while True:
        k = rng.randint(0, 3)
        e = rng.choice([0, k + rng.randint(0, 3)])
        u = rng.choice([(1, 0), (-1, 0), (0, 1), (0, -1), (1, 1), (1, -1), (-1, 1), (-1, -1)])
        c = [u[0] * 2 ** k, u[1] * 2 ** k, e, "complex" if u[1] else rng.choice(["int", "float"] if e == 0 else ["float"])]
        if exact_reciprocal(pyval(c)):
            return dict(k="N", c=c)

def perm_terms(rng, s):
    terms = [dict(t, ops=rng.sample(t["ops"], len(t["ops"]))) for t in s["terms"]]
    rng.shuffle(terms)
    return dict(k="S", terms=terms)

def g_simplified_sum(rng, pool, n=None):
    n = rng.randint(0, 5) if n is None else n
    terms, seen = [], set()
    for _ in range(n * 3):
        if len(terms) == n:
            break
        t = g_term(rng, pool, zero_p=0.0)
        key = tuple(sorted(map(tuple, t["ops"])))
        if key not in seen:
            seen.add(key)
            terms.append(t)
    return dict(k="S", terms=terms)

def g_eq(rng):
    pool = g_pool(rng, 5)
    r = rng.random()
    if r < 0.12:                        # corner cases of ==: zero coefficients, the empty sum, equal sets of different length
        zero = lambda: [0, 0, 0, rng.choice(["int", "float", "complex"])]
        w = rng.randrange(5)
        if w == 0:
            return dict(k="T", c=zero(), ops=g_ops(rng, pool, 3)), dict(k="T", c=zero(), ops=g_ops(rng, pool, 3))
        if w == 1:
            x, s = dict(k="T", c=zero() if rng.random() < 0.7 else g_coef(rng), ops=g_ops(rng, pool, 3)), dict(k="S", terms=[])
            return (x, s) if rng.random() < 0.5 else (s, x)
        if w == 2:
            x, s = dict(k="N", c=zero() if rng.random() < 0.7 else g_coef(rng)), dict(k="S", terms=[])
            return (x, s) if rng.random() < 0.5 else (s, x)
        if w == 3:
            x, n = dict(k="T", c=zero(), ops=g_ops(rng, pool, 2)), dict(k="N", c=zero())
            return (x, n) if rng.random() < 0.5 else (n, x)
        a = g_simplified_sum(rng, pool, rng.randint(1, 3))
        b = perm_terms(rng, a)
        if a["terms"]:
            b["terms"].insert(rng.randrange(len(b["terms"]) + 1), dict(rng.choice(b["terms"])))
        return (a, b) if rng.random() < 0.5 else (b, a)
    r = rng.random()
    if r < 0.35:                        # simplified sum against a permutation / perturbation of itself
        a = g_simplified_sum(rng, pool)
        b = perm_terms(rng, a)
        m = rng.random()
        if b["terms"] and m < 0.55:
            t = rng.choice(b["terms"])
            w = rng.random()
            if w < 0.35:
                t["c"] = [t["c"][0] + rng.choice([-1, 1]), t["c"][1], t["c"][2], "complex" if t["c"][1] else "float"]
            elif w < 0.6:
                t["c"] = [t["c"][0], t["c"][1] + rng.choice([-1, 1]), t["c"][2], "complex"]
            elif w < 0.8 and t["ops"]:
                i = rng.randrange(len(t["ops"]))
                t["ops"][i] = [t["ops"][i][0], rng.choice([x for x in LET if x != t["ops"][i][1]])]
            elif w < 0.9:
                b["terms"].remove(t)
            else:
                b["terms"].append(g_term(rng, pool, zero_p=0.0))
        return a, b
    if r < 0.5:                         # term against term
        a = g_term(rng, pool, zero_p=0.25)
        b = dict(a, ops=rng.sample(a["ops"], len(a["ops"])))
        if rng.random() < 0.6:
            b = g_term(rng, pool, zero_p=0.25) if rng.random() < 0.5 else dict(b, c=g_coef(rng, zero_p=0.2))
        return a, b
    if r < 0.7:                         # term / number against one-term, empty or constant sums
        t = g_term(rng, pool, zero_p=0.2) if rng.random() < 0.6 else dict(k="T", c=g_coef(rng, zero_p=0.3), ops=[])
        s = rng.choice([dict(k="S", terms=[]), dict(k="S", terms=[dict(t, ops=rng.sample(t["ops"], len(t["ops"])))]),
                        g_simplified_sum(rng, pool, rng.randint(0, 2))])
        x = t if rng.random() < 0.6 else dict(k="N", c=t["c"])
        return (x, s) if rng.random() < 0.5 else (s, x)
    if r < 0.8:                         # term against number
        c = g_coef(rng, zero_p=0.3)
        t = dict(k="T", c=c, ops=[] if rng.random() < 0.6 else g_ops(rng, pool, 2))
        n = dict(k="N", c=c if rng.random() < 0.6 else g_coef(rng, zero_p=0.3))
        return (t, n) if rng.random() < 0.5 else (n, t)
    a = g_sum(rng, pool)                # unsimplified sums: model comparison only
    b = perm_terms(rng, a) if rng.random() < 0.5 else g_sum(rng, pool)
    if b["terms"] and rng.random() < 0.4:
        b["terms"][rng.randrange(len(b["terms"]))] = dict(rng.choice(b["terms"]))     # same length, same set, other multiset
    return a, b


# ----------------------------------------------------------------------------- histories: the same objects used repeatedly

def like_term(rng, t, cancel_p=0.1):
    """a term with the same operator set (dict built in another order) and, mostly, a non-cancelling coefficient"""
    if rng.random() < cancel_p:
        c = [-t["c"][0], -t["c"][1], t["c"][2], t["c"][3]]
    else:
        c = g_coef(rng, small=True, zero_p=0.05)
    return dict(k="T", c=c, ops=rng.sample(t["ops"], len(t["ops"])))

def g_history(rng):
    """objs: operand specs (a sum may be given as refs to earlier term objects, which it then shares);
    steps: [op, x, y] with x, y = "o<i>" (object i) or "r<k>" (result of step k)."""
    pool = g_pool(rng, 4)
    a = g_term(rng, pool, small=True, zero_p=0.03)
    w = rng.randrange(10)
    if w == 0:
        return "aa-twice", [a], [["add", "o0", "o0"], ["add", "o0", "o0"], ["mul", "r0", "o0"]]
    if w == 1:
        return "aa-minus-a", [a], [["add", "o0", "o0"], ["sub", "r0", "o0"], ["mul", "r0", "o0"]]
    if w == 2:
        c = dict(k="T", c=g_coef(rng, small=True, zero_p=0.03), ops=[])
        return "const-plus-number", [c, g_num(rng, small=True)], [["add", "o0", "o1"], ["add", "o0", "o1"], ["add", "o1", "o0"], ["sub", "o1", "o0"]]
    if w == 3:
        b, x = like_term(rng, a), g_term(rng, pool, small=True)
        objs = [a, x, b, dict(k="S", refs=rng.sample([0, 1, 2], 3))]
        return "simplify-twice", objs, [["simplify", "o3", None], ["simplify", "o3", None], ["add", "o0", "o2"]]
    if w == 4:
        b = like_term(rng, a) if rng.random() < 0.7 else g_term(rng, pool, small=True)
        return "mul-then-add", [a, b], [["mul", "o0", "o1"], ["add", "o0", "o1"], ["add", "o1", "o0"], ["sub", "o0", "o1"], ["mul", "o1", "o0"]]
    if w == 5:
        b = like_term(rng, a)
        return "ab-twice", [a, b], [["add", "o0", "o1"], ["add", "o0", "o1"], ["mul", "r0", "o0"], ["sub", "r1", "o1"]]
    if w == 6:
        n = g_num(rng, small=True)
        c = dict(a, ops=[]) if rng.random() < 0.5 else a
        return "number-either-side", [c, n], [["add", "o1", "o0"], ["sub", "o1", "o0"], ["add", "o0", "o1"], ["sub", "o0", "o1"], ["mul", "o1", "o0"]]
    if w == 7:                       # hand-built sum of full specs (own term objects), simplified repeatedly and used afterwards
        s = g_sum(rng, pool, small=True, maxn=4)
        if s["terms"]:
            s["terms"].append(like_term(rng, rng.choice(s["terms"])))
        return "sum-reused", [s, a], [["simplify", "o0", None], ["add", "o0", "o1"], ["simplify", "o0", None], ["mul", "o0", "o1"], ["sub", "o1", "o0"]]
    if w == 8:
        return "pow-then-add", [a], [["pow", "o0", rng.randint(2, 4)], ["add", "o0", "o0"], ["pow", "o0", 2], ["sub", "o0", "o0"]]
    # random history over two terms, a sum sharing them, a number and earlier results
    b = like_term(rng, a) if rng.random() < 0.6 else g_term(rng, pool, small=True)
    objs = [a, b, dict(k="S", refs=[0, 1] + ([0] if rng.random() < 0.3 else [])), g_num(rng, small=True)]
    steps = []
    for k in range(rng.randint(2, 5)):
        refs = ["o0", "o0", "o1", "o1", "o2", "o3"] + [f"r{j}" for j in range(k)]
        op = rng.choice(["add", "add", "sub", "sub", "mul", "simplify"])
        if op == "simplify":
            steps.append(["simplify", "o2", None])
            continue
        x, y = rng.choice(refs), rng.choice(refs)
        if x == "o3" and y == "o3":
            y = "o0"
        steps.append([op, x, y])
    return "random", objs, steps

def g_pairs(n):
    letters = "IXYZ"
    strings = list(itertools.product(letters, repeat=n))
    for i, s1 in enumerate(strings):
        for j, s2 in enumerate(strings):
            ops1 = [[q, a] for q, a in enumerate(s1) if a != "I"]
            ops2 = [[q, a] for q, a in enumerate(s2) if a != "I"]
            yield dict(kind="pairs", a=dict(k="T", c=[3, 0, 1, "float"], ops=ops1), b=dict(k="T", c=[1, -2, 0, "complex"], ops=ops2[::-1]))

def g_pairs_int(n):
    """the same exhaustive pairs with integer coefficients only (Python int x numpy int32)"""
    strings = list(itertools.product("IXYZ", repeat=n))
    for s1 in strings:
        for s2 in strings:
            ops1 = [[q, a] for q, a in enumerate(s1) if a != "I"]
            ops2 = [[q, a] for q, a in enumerate(s2) if a != "I"]
            yield dict(kind="pairs", a=dict(k="T", c=[3, 0, 0, "int"], ops=ops1[::-1]), b=dict(k="T", c=[-2, 0, 0, "npint32"], ops=ops2))

def gen(rng, tier):
    quick = tier != "thorough"
    global PROF
    PROF = None
    yield from g_pairs(2 if quick else 3)
    yield from g_pairs_int(2)
    n = 640 if quick else 10000
    for _ in range(n):
        PROF = rng.choice([None, None, None, None, None, "int", "int", "npint", "intmix", "intmix"])
        r = rng.random()
        if r < 0.12:
            tpl, objs, steps = g_history(rng)
            yield dict(kind="history", tpl=tpl, objs=objs, steps=steps)
            continue
        r = rng.random()
        if r < 0.42:
            op = rng.choice(["add", "sub", "mul", "mul"])
            ka, kb = rng.choice(KINDS2)
            pool = g_pool(rng)
            yield dict(kind=op, a=g_operand(rng, pool, ka), b=g_operand(rng, pool, kb))
        elif r < 0.52:
            pool = g_pool(rng)
            a = g_operand(rng, pool, rng.choice("TS"))
            w = rng.random()
            if w < 0.8:
                b = g_divisor(rng)
            elif w < 0.9:
                b = dict(k="N", c=[0, 0, 0, rng.choice(["int", "float", "complex"])])
            else:
                b = g_operand(rng, pool, rng.choice("TS"))
                if rng.random() < 0.5:
                    a, b = g_num(rng), a
            yield dict(kind="div", a=a, b=b)
        elif r < 0.67:
            k = rng.choice([0, 1, 2, 2, 3, 3, 4, 5, 6]) if rng.random() < 0.93 else -rng.randint(1, 3)
            kind = rng.choice("TS")
            pool = g_pool(rng, 3 if k >= 4 else 5)
            a = g_operand(rng, pool, kind, small=True, maxn=6 if k <= 2 else 4 if k == 3 else 3)
            yield dict(kind="pow", a=a, k=k)
        elif r < 0.77:
            pool = g_pool(rng)
            yield dict(kind="simplify", a=g_sum(rng, pool))
        elif r < 0.96:
            a, b = g_eq(rng)
            yield dict(kind="eq", a=a, b=b)
        else:
            pool = g_pool(rng, 3)
            yield dict(kind="invalid", a=g_operand(rng, pool, rng.choice("TS")),
                       what=rng.choice(["add-str", "mul-none", "sub-list", "pow-float", "pow-neg", "rpow", "rdiv", "eq-str", "div-term",
                                        "add-npint", "mul-npint"]))

# ----------------------------------------------------------------------------- one case

BIN = {"add": (0, lambda x, y: x + y), "sub": (1, lambda x, y: x - y), "mul": (2, lambda x, y: x * y),
       "div": (3, lambda x, y: x / y), "pairs": (2, lambda x, y: x * y)}

def run_single(inp):
    kind = inp["kind"]
    a = inp["a"]
    if kind in BIN:
        b = inp["b"]
        code, fn = BIN[kind]
        pa, pb = to_py(a), to_py(b)
        st, out = outcome(fn, pa, pb, timeout=60)
        chk = f"bin_eqb {cnat(code)} {coq_operand(a)} {coq_operand(b)} {coq_result(st, out)}"
        label = kind if kind == "pairs" else f"{kind}-{a['k']}{b['k']}"
        if st != "ok":
            expected_err = kind == "div" and (b["k"] != "N" or a["k"] == "N" or is_zero_number(b))
            return dict(chk=chk, oracle_ok=expected_err, oracle_msg="" if expected_err else f"{kind} raised {out}",
                        kind=label + "-err", nontrivial=nontrivial(a, b))
        if kind == "div" and (b["k"] != "N" or a["k"] == "N"):
            return dict(chk=chk, oracle_ok=False, oracle_msg="division by a non-number / of a number was accepted", kind=label,
                        nontrivial=nontrivial(a, b))
        res = from_py(out)
        pool = sorted(qubits_of(a) | qubits_of(b) | qubits_of(res))
        ma, mb, mr = matrix(a, pool), matrix(b, pool), matrix(res, pool)
        if kind == "add":
            want = ma + mb
        elif kind == "sub":
            want = ma - mb
        elif kind == "div":
            want = ma / mb[0, 0]
        else:
            want = ma @ mb
        ok = close(mr, want)
        # the result kind the API promises: term op term/number -> term for * and /, everything else a sum
        want_kind = "T" if kind in ("mul", "pairs", "div") and a["k"] != "S" and b["k"] != "S" else "S"
        ok_kind = res["k"] == want_kind
        msg = "" if ok and ok_kind else (f"{to_py(a)!r} {kind} {to_py(b)!r} = {out!r}: " +
                                         ("matrix differs from the matrix operation" if not ok else f"result kind {res['k']}"))
        return dict(chk=chk, oracle_ok=ok and ok_kind, oracle_msg=msg, kind=label, nontrivial=nontrivial(a, b))
    if kind == "pow":
        k = inp["k"]
        st, out = outcome(lambda: to_py(a) ** k, timeout=120)
        chk = f"pow_eqb {coq_operand(a)} {cz(k)} {coq_result(st, out)}"
        if st != "ok":
            return dict(chk=chk, oracle_ok=k < 0, oracle_msg="" if k < 0 else f"pow raised {out}", kind="pow-err",
                        nontrivial=nontrivial(a))
        if k < 0:
            return dict(chk=chk, oracle_ok=False, oracle_msg=f"negative power {k} accepted", kind="pow", nontrivial=nontrivial(a))
        res = from_py(out)
        pool = sorted(qubits_of(a) | qubits_of(res))
        ok = close(matrix(res, pool), np.linalg.matrix_power(matrix(a, pool), k)) and res["k"] == a["k"]
        return dict(chk=chk, oracle_ok=ok, oracle_msg="" if ok else f"({to_py(a)!r}) ** {k} = {out!r}: matrix differs from the matrix power",
                    kind=f"pow-{a['k']}{min(k, 4)}{'+' if k > 4 else ''}", nontrivial=nontrivial(a) and k >= 2)
    if kind == "simplify":
        st, out = outcome(lambda: to_py(a).simplify(), timeout=60)
        chk = f"simplify_eqb {coq_operand(a)} {coq_result(st, out)}"
        if st != "ok":
            return dict(chk=chk, oracle_ok=False, oracle_msg=f"simplify raised {out}", kind="simplify-err")
        res = from_py(out)
        pool = sorted(qubits_of(a) | qubits_of(res))
        ok = close(matrix(res, pool), matrix(a, pool)) and simplified(res)
        return dict(chk=chk, oracle_ok=ok, oracle_msg="" if ok else f"simplify({to_py(a)!r}) = {out!r}: matrix changed or like terms remain",
                    kind="simplify", nontrivial=nontrivial(a))
    if kind == "eq":
        b = inp["b"]
        st, out = outcome(lambda: to_py(a) == to_py(b), timeout=60)
        if st != "ok":
            return dict(chk="false", oracle_ok=False, oracle_msg=f"== raised {out}", kind="eq-err")
        out = bool(out)
        chk = f"eq_eqb {coq_operand(a)} {coq_operand(b)} {cbool(out)}"
        sig = None
        ok, msg = True, ""
        both = simplified(a) and simplified(b)
        if both:
            pool = sorted(qubits_of(a) | qubits_of(b))
            same = bool(np.allclose(matrix(a, pool), matrix(b, pool), rtol=0, atol=1e-7))
            ok = out == same
            msg = "" if ok else f"{to_py(a)!r} == {to_py(b)!r} is {out} but the matrices are {'equal' if same else 'different'}"
        return dict(chk=chk, oracle_ok=ok, oracle_msg=msg, sig=sig, nontrivial=nontrivial(a, b),
                    kind=f"eq-{a['k']}{b['k']}-{'simplified' if both else 'unsimplified'}-{out}")
    if kind == "invalid":
        what = inp["what"]
        x = to_py(a)
        fns = {"add-str": (lambda: x + "X0", "TypeError"), "mul-none": (lambda: x * None, "TypeError"),
               "sub-list": (lambda: x - [1], "TypeError"), "pow-float": (lambda: x ** 2.0, "ValueError"),
               "pow-neg": (lambda: x ** -1, "ValueError"), "rpow": (lambda: 2 ** x, "TypeError"),
               "rdiv": (lambda: 2 / x, "TypeError"), "eq-str": (lambda: x == "X0", "TypeError"),
               "div-term": (lambda: x / PauliTerm("X0"), "TypeError"),
               "add-npint": (lambda: x + np.int64(3), "TypeError"), "mul-npint": (lambda: x * np.int32(3), "TypeError")}
        fn, want = fns[what]
        st, out = outcome(fn, timeout=60)
        ok = st == "err" and out == want
        return dict(chk=None, oracle_ok=ok, oracle_msg="" if ok else f"{what} on {x!r}: expected {want}, got {st} {out!r}",
                    kind="invalid-" + what, nontrivial=nontrivial(a))
    raise ValueError(kind)


# ----------------------------------------------------------------------------- histories

def same_value(x, y):
    """canonical forms denote the same operand literally (types of the coefficients aside)"""
    if x["k"] != y["k"]:
        return False
    if x["k"] == "S":
        return len(x["terms"]) == len(y["terms"]) and all(same_value(u, v) for u, v in zip(x["terms"], y["terms"]))
    return frac(x["c"]) == frac(y["c"]) and (x["k"] == "N" or sorted(map(tuple, x["ops"])) == sorted(map(tuple, y["ops"])))

def expand(objs):
    """specs with sums given by refs replaced by the full value"""
    vals = []
    for o in objs:
        vals.append(dict(k="S", terms=[vals[i] for i in o["refs"]]) if o["k"] == "S" and "refs" in o else o)
    return vals

def run_history(inp):
    objs, steps = inp["objs"], inp["steps"]
    vals = expand(objs)                                  # the ORIGINAL values
    py = []
    for o in objs:                                       # one Python object per spec, shared wherever it is referenced
        py.append(PauliSum([py[i] for i in o["refs"]]) if o["k"] == "S" and "refs" in o else to_py(o))
    res_py, res_val = [], []                             # results and their value when they were returned
    chks, msgs = [], []
    pool_q = set().union(*[qubits_of(v) for v in vals]) if vals else set()
    ref = lambda r: ((py, vals) if r[0] == "o" else (res_py, res_val), int(r[1:]))
    def get(r):
        (objects, values), i = ref(r)
        return objects[i], values[i]
    for k, (op, x, y) in enumerate(steps):
        px, vx = get(x)
        text = f"step {k}: {op} {x}" + (f" {y}" if y is not None else "")
        if op == "simplify":
            st, out = outcome(lambda: px.simplify(), timeout=60)
            chk = f"simplify_eqb {coq_operand(vx)} {coq_result(st, out)}"
            want = lambda pool: matrix(vx, pool)
        elif op == "pow":
            st, out = outcome(lambda: px ** y, timeout=60)
            chk = f"pow_eqb {coq_operand(vx)} {cz(y)} {coq_result(st, out)}"
            want = lambda pool: np.linalg.matrix_power(matrix(vx, pool), y)
        else:
            py_, vy = get(y)
            code, fn = BIN[op]
            st, out = outcome(fn, px, py_, timeout=60)
            chk = f"bin_eqb {cnat(code)} {coq_operand(vx)} {coq_operand(vy)} {coq_result(st, out)}"
            want = (lambda pool, vx=vx, vy=vy, op=op: matrix(vx, pool) + matrix(vy, pool) if op == "add" else
                    matrix(vx, pool) - matrix(vy, pool) if op == "sub" else matrix(vx, pool) @ matrix(vy, pool))
        chks.append(chk)
        if st != "ok":
            msgs.append(f"{text} raised {out}")
            res_py.append(None); res_val.append(None)
            break
        val = from_py(out)
        res_py.append(out); res_val.append(val)
        pool = sorted(pool_q | qubits_of(val) | set().union(*[qubits_of(v) for v in res_val if v]))
        if not close(matrix(val, pool), want(pool)):
            msgs.append(f"{text} on the original values {to_py(vx)!r}" + (f", {to_py(get(y)[1])!r}" if op in BIN else "") +
                        f" returned {out!r}: matrix differs from the matrix operation on the original operands")
    # re-read: operands and earlier results must still be what they were
    for i, (o, v) in enumerate(zip(py, vals)):
        if v["k"] == "N":
            continue
        now = from_py(o)
        chks.append(f"goperand_eqb {coq_operand(now)} {coq_operand(v)}")
        if not same_value(now, v):
            msgs.append(f"operand o{i} = {to_py(v)!r} reads {o!r} after the history")
    for k, (o, v) in enumerate(zip(res_py, res_val)):
        if o is None:
            continue
        now = from_py(o)
        chks.append(f"goperand_eqb {coq_operand(now)} {coq_operand(v)}")
        if not same_value(now, v):
            msgs.append(f"result r{k} = {to_py(v)!r} reads {o!r} after the later steps")
    used = [r for st_ in steps for r in st_[1:] if isinstance(r, str)]
    reuse = any(used.count(r) >= 2 for r in set(used)) or any("refs" in o for o in objs)
    history = "; ".join(f"{op} {x}" + (f" {y}" if y is not None else "") for op, x, y in steps)
    return dict(chk=" && ".join(f"({c})" for c in chks), oracle_ok=not msgs,
                oracle_msg="" if not msgs else f"history [{history}] with " +
                           ", ".join(f"o{i} = {to_py(v)!r}" for i, v in enumerate(vals)) + ": " + " | ".join(msgs[:3]),
                kind="history-" + inp["tpl"], nontrivial=reuse and len(steps) >= 2)

def run_case(inp):
    r = run_history(inp) if inp["kind"] == "history" else run_single(inp)
    operands = expand(inp["objs"]) if inp["kind"] == "history" else [inp[k] for k in ("a", "b") if isinstance(inp.get(k), dict)]
    r["kind"] = r["kind"] + "/" + tymix(*operands)
    return r

def w_f33():
    vals = [PauliSum([]) == 0, 0 == PauliSum([]), PauliSum([]) == 0.0, (PauliTerm("X0") - PauliTerm("X0")) == 0,
            not (PauliSum([]) == 2), PauliSum([]) == PauliTerm("I0", 0)]
    return not all(bool(v) for v in vals), f"[S[]==0, 0==S[], S[]==0.0, (X0-X0)==0, not S[]==2, S[]==T(0)] -> {[bool(v) for v in vals]}"

H.main(gen, run_case, {"F33": w_f33})
