"""C18 correspondence harness: decomposition rules."""
import math
import numpy as np, sympy
from hlib import *
from orquestra.quantum.circuits import (Circuit, X, Y, Z, H, CNOT, CZ, SWAP, RX, RY, RZ, U3, T, S, PHASE)
from orquestra.quantum.circuits._gates import ControlledGate, MatrixFactoryGate, GateOperation
from orquestra.quantum.decompositions import U3GateToRotation, decompose_orquestra_circuit
from orquestra.quantum.decompositions._decomposition import DecompositionRule, decompose_operations

Hn = Harness("C18", ["OQ.Base.CaseEq", "OQ.Circ.U3Rule", "OQ.Circ.U3RuleCases"],
             "random circuits (width 1-5, 0-8 operations) mixing U3, controlled U3 (1-2 controls, arbitrary qubit tuples), "
             "RZ/RY plain and controlled, other built-in gates, dagger/power of U3 (not matched by the rule); rule lists: empty, "
             "the U3 rule once/twice/three times, and harness-defined table rules (SWAP->3 CNOT, CNOT->H CZ H) in both orders; "
             "about a third of the circuits contain a collision group: two or three operations with the same wrapper kind "
             "(1-2 controls, or the exponential), the same parameters and exactly the same qubit tuple but DIFFERENT wrapped gates "
             "(c-X / c-Z, c-RY(a) / c-RZ(a), exp X / exp Z, ...), optionally with a genuine repetition of the first as control; "
             "compared: decomposed operation list and width; oracle: unitary equal up to one global phase, width kept, "
             "unmatched operations kept in order; non-trivial = at least one operation matched by some rule",
             preamble="Require Import Coq.QArith.QArith.\n")

FIXED_IDS = {"X": 1, "H": 2, "CNOT": 3, "CZ": 4, "SWAP": 5, "T": 6, "S": 7, "Y": 8, "Z": 9}

class SwapRule(DecompositionRule):
    def predicate(self, op): return op.gate.name == "SWAP"
    def production(self, op):
        a, b = op.qubit_indices
        return [CNOT(a, b), CNOT(b, a), CNOT(a, b)]

class CnotRule(DecompositionRule):
    def predicate(self, op): return op.gate.name == "CNOT"
    def production(self, op):
        a, b = op.qubit_indices
        return [H(b), CZ(a, b), H(b)]

RULES = {"u3": (U3GateToRotation, "RU3"),
         "swap": (SwapRule, "(RSel 5%nat [(3%nat, [0%nat; 1%nat]); (3%nat, [1%nat; 0%nat]); (3%nat, [0%nat; 1%nat])])"),
         "cnot": (CnotRule, "(RSel 3%nat [(2%nat, [1%nat]); (4%nat, [0%nat; 1%nat]); (2%nat, [1%nat])])")}

def q(x): return cq(Fraction(x))

def build_gate(spec):
    k = spec["kind"]
    ps = [float(Fraction(*p)) for p in spec.get("ps", [])]
    if k == "U3": g = U3(*ps)
    elif k == "RZ": g = RZ(*ps)
    elif k == "RY": g = RY(*ps)
    elif k == "RX": g = RX(*ps)
    elif k == "PHASE": g = PHASE(*ps)
    elif k == "U3dag": g = U3(*ps).dagger
    elif k == "U3pow": g = U3(*ps).power(2)
    else: g = dict(X=X, Y=Y, Z=Z, H=H, CNOT=CNOT, CZ=CZ, SWAP=SWAP, T=T, S=S)[k]
    if spec.get("exp"): g = g.exp            # name "Exponential" whatever the wrapped gate is
    if spec.get("ctrl", 0): g = g.controlled(spec["ctrl"])      # name "Control" whatever the wrapped gate is
    return g

class Table:
    def __init__(self): self.others = []
    def desc(self, op):
        g = op.gate
        k = 0
        if isinstance(g, ControlledGate):
            k, g0 = g.num_control_qubits, g.wrapped_gate
        else:
            g0 = g
        qs = clist(op.qubit_indices, cnat)
        if isinstance(g0, MatrixFactoryGate) and g0.name in ("U3", "RZ", "RY") and all(isinstance(p, (int, float)) for p in g0.params):
            return f"(mk_dop (G{g0.name} {cnat(k)} {' '.join(q(p) for p in g0.params)}) {qs})"
        if not isinstance(op.gate, ControlledGate) and op.gate.name in FIXED_IDS and not op.gate.params:
            return f"(mk_dop (GOther {cnat(FIXED_IDS[op.gate.name])}) {qs})"
        for i, o in enumerate(self.others):
            if o == op.gate:
                return f"(mk_dop (GOther {cnat(100 + i)}) {qs})"
        self.others.append(op.gate)
        return f"(mk_dop (GOther {cnat(100 + len(self.others) - 1)}) {qs})"

def unitary(c):
    return np.array(c.to_unitary(), dtype=complex)

def same_up_to_phase(a, b):
    idx = np.unravel_index(np.argmax(np.abs(b)), b.shape)
    if abs(b[idx]) < 1e-12: return np.abs(a).max() < 1e-9
    z = a[idx] / b[idx]
    return abs(abs(z) - 1) < 1e-9 and np.abs(a - z * b).max() < 1e-9

def gen(rng, tier):
    n = 300 if tier == "quick" else 6000
    def dy(): return [rng.randint(-24, 24), rng.choice([1, 2, 4, 8])]
    for _ in range(n):
        w = rng.randint(1, 5)
        ops = []
        for _ in range(rng.randint(0, 8)):
            r = rng.random()
            if r < 0.3: spec = dict(kind="U3", ps=[dy(), dy(), dy()])
            elif r < 0.4: spec = dict(kind=rng.choice(["RZ", "RY"]), ps=[dy()])
            elif r < 0.5: spec = dict(kind=rng.choice(["U3dag", "U3pow"]), ps=[dy(), dy(), dy()])
            elif r < 0.6: spec = dict(kind=rng.choice(["RX", "PHASE"]), ps=[dy()])
            else: spec = dict(kind=rng.choice(["X", "H", "CNOT", "CZ", "SWAP", "T", "S"]))
            base = 2 if spec["kind"] in ("CNOT", "CZ", "SWAP") else 1
            ctrl = 0
            if spec["kind"] in ("U3", "RZ", "RY", "X") and rng.random() < 0.35 and spec["kind"] != "U3pow":
                ctrl = rng.randint(1, 2)
            if base + ctrl > w:
                ctrl = max(0, w - base)
                if base > w: continue
            spec["ctrl"] = ctrl
            spec["qs"] = rng.sample(range(w), base + ctrl)
            ops.append(spec)
        collision = False
        if rng.random() < 0.35:
            # operations that differ only in the gate below the wrapper: same wrapper kind, params, qubit tuple
            wrapper = rng.choice(["c1", "c1", "c2", "exp"])
            if rng.random() < 0.5:
                kinds, ps = rng.sample(["X", "Y", "Z", "H", "T", "S"], rng.choice([2, 2, 3])), None
            else:
                kinds, ps = rng.sample(["RZ", "RY", "RX", "PHASE"], rng.choice([2, 2, 3])), [dy()]
            ctrl = dict(c1=1, c2=2, exp=0)[wrapper]
            w = max(w, 1 + ctrl)
            qs = rng.sample(range(w), 1 + ctrl)
            group = [dict(kind=k, ctrl=ctrl, qs=list(qs), **({"ps": list(ps)} if ps else {}), **({"exp": True} if wrapper == "exp" else {}))
                     for k in kinds]
            if rng.random() < 0.4:
                group.append(dict(group[0]))              # a genuine repetition (control: must stay what it is)
                rng.shuffle(group)
            for spec in group:
                ops.insert(rng.randint(0, len(ops)), spec)
            collision = True
        rl = rng.choice([[], [], ["u3"], ["u3", "u3"], ["u3", "u3", "u3"], ["swap", "cnot"], ["cnot", "swap"], ["u3", "swap"], ["cnot", "u3", "swap"]])
        yield dict(width=w + rng.choice([0, 0, 1]), ops=ops, rules=rl, collision=collision)

def run_case(inp):
    ops = [build_gate(s)(*s["qs"]) for s in inp["ops"]]
    c = Circuit(ops, n_qubits=inp["width"])
    rules = [RULES[r][0]() for r in inp["rules"]]
    st, out = outcome(decompose_orquestra_circuit, c, rules)
    if st != "ok":
        return dict(chk="false", oracle_ok=False, oracle_msg=f"decompose raised {out}", kind="error")
    tb = Table()
    din = clist(c.operations, tb.desc)
    dout = clist(out.operations, tb.desc)
    chk = f"decompose_eqb {clist([RULES[r][1] for r in inp['rules']])} {din} {cnat(c.n_qubits)} {dout} {cnat(out.n_qubits)}"
    matched = any(any(r.predicate(o) for r in rules) for o in c.operations)
    msgs = []
    if out.n_qubits != c.n_qubits: msgs.append(f"width {c.n_qubits} -> {out.n_qubits}")
    if not rules and out != c: msgs.append("empty rule list changed the circuit")
    kept_in = [o for o in c.operations if not any(r.predicate(o) for r in rules)]
    it = iter(out.operations)
    if not all(any(o == x for x in it) for o in kept_in): msgs.append("an unmatched operation was dropped or reordered")
    sig = None
    has_exp = any(s.get("exp") for s in inp["ops"])       # sympy's Matrix.exp() can hang: no unitary for these
    if c.n_qubits <= 4 and not has_exp:
        st2, res = outcome(lambda: same_up_to_phase(unitary(out), unitary(c)), timeout=30)
        if st2 == "ok" and not res:
            cu3 = [o for o in c.operations if isinstance(o.gate, ControlledGate) and o.gate.wrapped_gate.name == "U3"
                   and abs(math.sin((float(o.params[1]) + float(o.params[2])) / 4)) > 1e-12]
            if cu3 and "u3" in inp["rules"]:
                sig = "F3"
            msgs.append("decomposed circuit differs from the original by more than a global phase")
        elif st2 != "ok":
            pass
    kind = "rules:" + "+".join(inp["rules"]) if inp["rules"] else "rules:none"
    if inp.get("collision"): kind += "/collision"
    return dict(chk=chk, oracle_ok=not msgs, oracle_msg="; ".join(msgs), sig=sig if msgs == ["decomposed circuit differs from the original by more than a global phase"] else None,
                kind=kind, nontrivial=matched)

def w_f3():
    c = Circuit([U3(0.1, 0.2, 0.3).controlled(1)(0, 1)])
    d = decompose_orquestra_circuit(c, [U3GateToRotation()])
    bad = not same_up_to_phase(unitary(d), unitary(c))
    return bad, "controlled U3(0.1,0.2,0.3) vs its decomposition: " + ("relative phase" if bad else "equal up to a global phase")

def w_f4():
    d = decompose_orquestra_circuit(Circuit([X(0)], n_qubits=3), [])
    return d.n_qubits != 3, f"width after decomposition with no rules: {d.n_qubits}"

Hn.main(gen, run_case, {"F3": w_f3, "F4": w_f4})
