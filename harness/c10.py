"""C10 correspondence harness: statistics computed from measurements (counts, distribution,
expectation values / correlations / estimator covariances, parity tallies)."""
import math
import warnings
from collections import Counter
import numpy as np
from hlib import *
from orquestra.quantum.measurements import Measurements
from orquestra.quantum.measurements.measurements import get_expectation_value_from_frequencies
from orquestra.quantum.measurements.parities import (check_parity, check_parity_of_vector,
    get_parities_from_measurements)
from orquestra.quantum.operators import PauliTerm, PauliSum

H = Harness("C10", ["OQ.Base.CaseEq", "OQ.Stats.Measure", "OQ.Stats.MeasureCases"],
            "kinds: expval (get_expectation_values: values, correlations, estimator covariances with and without "
            "Bessel's correction; 1-256 shots of width 1-8 drawn with heavy repetition from a small pool; operators of "
            "0-5 terms with overlapping, repeated and constant terms, dyadic coefficients incl. 0; '-exact' = number of "
            "shots a power of two, compared by equality of rationals, '-tol' = otherwise, compared to 1e-9 inside Coq), "
            "expval-err (non-Ising, qubit out of range, no shots, width 0, one shot with Bessel), efreq "
            "(get_expectation_value_from_frequencies on arbitrary count dictionaries), counts (get_counts and "
            "from_counts round trips), from_counts/add_counts (arbitrary dictionaries incl. zero counts), distribution, "
            "parities (get_parities_from_measurements values and pair tallies, valid and invalid), check_parity; "
            "history (about 7 percent: one Measurements object taken through 2-4 steps - bitstrings replaced by as many "
            "other shots, one shot edited in place, shots appended, add_counts - and after every step distribution, "
            "expectation values with both covariance estimators and counts queried on that same object and compared with "
            "the model on the shots it then holds; '-samecount' = some step kept the number of shots); "
            "'-wide' = registers of 65-90 qubits with few shots whose distinct bitstrings differ only on qubits >= 64 and "
            "operators on those qubits (about 6 percent of the stream, for expval / counts / distribution / parities / efreq); "
            "coefficient types are a generator dimension for expval and history: unlabelled = every coefficient a Python float; "
            "'-c:int' = every coefficient a Python int, '-c:npint64'/'-c:npint32' = numpy integers, '-c:float+int' / "
            "'-c:complex+int' = integers with one float / one complex coefficient of zero imaginary part (at least two "
            "terms, about a third of the expval and history cases); "
            "'-z:first/middle/last' = the operator contains one or two terms with a vanishing coefficient (0.0, -0.0, int 0, "
            "1e-9, 1e-12, 2^-30, -2^-40) in that position next to ordinary, constant and repeated terms (about 45 percent of the "
            "valid parities cases, 20 percent of expval and history); tallies, values and tables are compared per term in "
            "order (row i belongs to term i, as many rows as terms); history cases also query the parity tallies; "
            "non-trivial = at least two distinct bitstrings among at least two shots (and at least two terms where an "
            "operator is involved)")

TOL = Fraction(1, 10 ** 9)
ERRS = ("TypeError", "IndexError", "ValueError", "RuntimeError")

# ----------------------------------------------------------------------------- literals

def tup(s): return tuple(int(c) for c in s)
def key(t): return "".join(str(int(b)) for b in t)
def cshots(shots): return clist(shots, cstring)
def ccounts(d): return clist(list(d), lambda kc: cpair(cstring(kc[0]), cz(kc[1])))
def cop(op): return clist(op, lambda t: cpair(cq(Fraction(*t[0])), clist(t[1], lambda qp: cpair(cnat(qp[0]), "P" + qp[1]))))
def cres(st, val, f): return f"(Ok {f(val)})" if st == "ok" else (f"(Err {val})" if val in ERRS else None)
def cqmat(m): return clist(m, lambda row: clist(row, cq))
def pow2(n): return n >= 1 and n & (n - 1) == 0

def mk_coef(c, ctype):
    """The numeric type a coefficient is handed to PauliTerm in (a generator dimension)."""
    fr = Fraction(*c)
    if ctype == "negzero":
        assert fr == 0
        return -0.0
    if ctype == "float":
        return float(fr)
    if ctype == "complex":
        return complex(float(fr), 0.0)
    assert fr.denominator == 1, (c, ctype)
    if ctype == "int":
        return int(fr)
    if ctype == "npint64":
        return np.int64(int(fr))
    if ctype == "npint32":
        return np.int32(int(fr))
    raise ValueError(ctype)

def ctype_label(ctypes):
    """all-float operators (the default) carry no label"""
    ts = sorted(set(ctypes or []))
    return "" if not ts or ts == ["float"] else "-c:" + "+".join(ts)

def mk_op(op, as_term=False, ctypes=None):
    ctypes = ctypes or ["float"] * len(op)
    terms = [PauliTerm({q: p for q, p in ops}, mk_coef(c, t)) for (c, ops), t in zip(op, ctypes)]
    if as_term and len(terms) == 1:
        return terms[0]
    return PauliSum(terms)

# ----------------------------------------------------------------------------- generators

def gen_shots(rng, w, n):
    pool_n = rng.randint(1, min(2 ** w, 6))
    pool = rng.sample(range(2 ** w), pool_n)
    weights = [rng.choice([1, 1, 2, 5, 20]) for _ in pool]
    return [format(x, f"0{w}b") if w else "" for x in rng.choices(pool, weights, k=n)]

def gen_wide(rng):
    """Wide registers (65-90 qubits, few shots): the distinct bitstrings agree on the low qubits and differ
    only on qubits >= 64 (occasionally also on a low one); operators touch the high qubits."""
    w = rng.randint(65, 90)
    base = [rng.randint(0, 1) for _ in range(w)]
    high = list(range(64, w))
    pool = [list(base)]
    for _ in range(rng.randint(1, 3)):
        v = list(base)
        for q in rng.sample(high, rng.randint(1, min(3, len(high)))):
            v[q] ^= 1
        if rng.random() < 0.15:
            v[rng.randrange(64)] ^= 1
        if v not in pool:
            pool.append(v)
    n = rng.choice([2, 4, 4, 8, 16, 3, 5, 7])
    shots = [list(p) for p in pool] + [rng.choice(pool) for _ in range(max(0, n - len(pool)))]
    rng.shuffle(shots)
    shots = ["".join(map(str, sh)) for sh in shots]
    op = []
    for _ in range(rng.randint(1, 4)):
        r = rng.random()
        if r < 0.5:
            s = rng.sample(high, rng.randint(1, min(2, len(high))))
        elif r < 0.85:
            s = rng.sample(high, 1) + rng.sample(range(64), rng.randint(1, 2))
        elif r < 0.93:
            s = rng.sample(range(64), 1)
        else:
            s = []
        c = dyadic(rng, 64, 4, allow_zero=False)
        op.append([[c.numerator, c.denominator], [[q, "Z"] for q in sorted(s)]])
    kind = rng.choice(["expval", "expval", "expval", "counts", "distribution", "parities", "efreq"])
    if kind == "expval":
        return dict(kind="expval", shots=shots, op=op, bessel=rng.random() < 0.3, as_term=False, wide=True)
    if kind == "parities":
        return dict(kind="parities", shots=shots, op=op, why=None, wide=True)
    if kind == "efreq":
        freq = {}
        for sh in shots:
            freq[sh] = freq.get(sh, 0) + 1
        return dict(kind="efreq", freq=[[k, c] for k, c in freq.items()], marked=sorted(q for q, _ in op[0][1]),
                    as_set=True, wide=True)
    return dict(kind=kind, shots=shots, wide=True)

def gen_history(rng):
    """A Measurements object that is queried, changed, queried again (2-4 changes)."""
    w = rng.randint(1, 5)
    n = rng.choice([1, 2, 4, 4, 8, 8, 16, 32, 3, 6, 11])
    shots = gen_shots(rng, w, n)
    cur_n = n
    steps = []
    for _ in range(rng.randint(2, 4)):
        r = rng.random()
        if r < 0.35:
            new = gen_shots(rng, w, cur_n)
            steps.append(dict(act="replace", shots=new))
        elif r < 0.65:
            steps.append(dict(act="edit", i=rng.randrange(cur_n), shot=format(rng.randrange(2 ** w), f"0{w}b")))
        elif r < 0.8:
            more = gen_shots(rng, w, rng.choice([1, 2, cur_n]))
            steps.append(dict(act="append", shots=more))
            cur_n += len(more)
        elif r < 0.92:
            keys = rng.sample(range(2 ** w), rng.randint(1, min(2 ** w, 3)))
            d = [[format(kk, f"0{w}b"), rng.choice([1, 1, 2, 3])] for kk in keys]
            steps.append(dict(act="add_counts", d=d))
            cur_n += sum(c for _, c in d)
        else:
            steps.append(dict(act="query"))
    op = gen_op(rng, w, 3)
    if not op:
        op = [[[3, 4], [[0, "Z"]]]]
    inp = dict(kind="history", shots=shots, steps=steps, op=op)
    if rng.random() < 0.3:
        inp["ctypes"] = gen_ctypes(rng, op, w)
    if rng.random() < 0.2:
        inp["ctypes"], inp["vanishing"] = gen_vanishing(rng, op, w, inp.get("ctypes"))
    return inp

def gen_n(rng):
    return rng.choice([1, 2, 4, 8, 16, 32, 64, 128, 256]) if rng.random() < 0.6 else rng.randint(1, 200)

def gen_op(rng, w, maxterms=5):
    m = rng.choice([0, 1, 2, 3, 3, 4, 4, 5][:maxterms + 3])
    supports = []
    for _ in range(m):
        r = rng.random()
        if r < 0.15 or w == 0:
            s = []
        elif r < 0.35 and supports:
            s = list(rng.choice(supports))
        else:
            s = sorted(rng.sample(range(w), rng.randint(1, min(w, 4))))
        supports.append(s)
    op = []
    for s in supports:
        c = dyadic(rng, 64, 4, allow_zero=rng.random() < 0.1)
        op.append([[c.numerator, c.denominator], [[q, "Z"] for q in s]])
    return op

def gen_ctypes(rng, op, w):
    """Give the terms of op numeric coefficient types: all Python int, all numpy integer, int + float,
    int + complex with zero imaginary part; integer-typed terms get small integer coefficients (in place).
    At least two terms, so that off-diagonal correlations exist."""
    while len(op) < 2:
        s = sorted(rng.sample(range(w), rng.randint(1, min(w, 2))))
        op.append([[1, 1], [[q, "Z"] for q in s]])
    r = rng.random()
    if r < 0.45:
        ctypes = ["int"] * len(op)
    elif r < 0.6:
        ctypes = [rng.choice(["npint64", "npint32"])] * len(op)
    elif r < 0.7:
        ctypes = [rng.choice(["int", "npint64"]) for _ in op]
    elif r < 0.85:
        ctypes = ["int"] * len(op)
        ctypes[rng.randrange(len(op))] = "float"
    else:
        ctypes = ["int"] * len(op)
        ctypes[rng.randrange(len(op))] = "complex"
    for t, ct in zip(op, ctypes):
        if ct in ("int", "npint64", "npint32"):
            t[0] = [rng.choice([-7, -3, -2, -1, 1, 1, 2, 3, 5, 12]), 1]
    return ctypes

TINY = [Fraction(1e-9), Fraction(1e-12), Fraction(-1e-9), Fraction(1, 2 ** 30), Fraction(-1, 2 ** 40)]

def gen_vanishing(rng, op, w, ctypes=None):
    """Insert (in place) one or two terms whose coefficient is exactly 0.0, -0.0, int 0 or tiny (|c| <= 1e-8)
    in first / middle / last position, next to ordinary terms; the new term sits on fresh qubits, repeats
    another term's qubits, or is a constant.  Returns (ctypes, position label)."""
    while len(op) < 2:
        s = sorted(rng.sample(range(w), rng.randint(1, min(w, 2)))) if w else []
        c = dyadic(rng, 16, 2, allow_zero=False)
        op.append([[c.numerator, c.denominator], [[q, "Z"] for q in s]])
        if ctypes is not None:
            ctypes.append("float")
    ctypes = list(ctypes) if ctypes is not None else ["float"] * len(op)
    labels = []
    for _ in range(rng.choice([1, 1, 1, 2])):
        pos = rng.choice(["first", "middle", "last"])
        i = 0 if pos == "first" else len(op) if pos == "last" else rng.randint(1, len(op) - 1)
        r = rng.random()
        if r < 0.2 or w == 0:
            sup = []
        elif r < 0.5:
            sup = [q for q, _ in rng.choice(op)[1]]
        else:
            sup = sorted(rng.sample(range(w), rng.randint(1, min(w, 3))))
        what = rng.choice(["zero", "zero", "negzero", "intzero", "tiny", "tiny"])
        if what == "tiny":
            c, ct = rng.choice(TINY), "float"
        else:
            c, ct = Fraction(0), {"zero": "float", "negzero": "negzero", "intzero": "int"}[what]
        op.insert(i, [[c.numerator, c.denominator], [[q, "Z"] for q in sup]])
        ctypes.insert(i, ct)
        labels.append(pos)
    return ctypes, "+".join(sorted(set(labels)))

def zlabel(inp):
    return "-z:" + inp["vanishing"] if inp.get("vanishing") else ""

def gen_invalid(rng):
    """Inputs on which get_expectation_values / get_parities must not return statistics."""
    w = rng.randint(1, 5)
    shots = gen_shots(rng, w, gen_n(rng))
    op = gen_op(rng, w)
    r = rng.random()
    if r < 0.3:
        if not op:
            op = [[[1, 1], [[0, "Z"]]]]
        t = rng.choice(op)
        q = rng.randint(0, w + 1)
        t[1] = [qp for qp in t[1] if qp[0] != q] + [[q, rng.choice("XY")]]
        why = "nonising"
    elif r < 0.6:
        if not op:
            op = [[[1, 2], []]]
        t = rng.choice(op)
        t[1] = t[1] + [[w + rng.randint(0, 2), "Z"]]
        why = "range"
    elif r < 0.72:
        shots = []
        why = "noshots"
    elif r < 0.85:
        shots = [""] * rng.randint(1, 4)
        op = [[c, []] for c, _ in op] if rng.random() < 0.5 else op
        why = "width0"
    else:
        shots = gen_shots(rng, w, 1)
        why = "oneshot"
    return shots, op, why

Z = lambda *qs: [[q, "Z"] for q in qs]
FIXED = [
    # degenerate registers and operators (every error branch of the model appears in every run)
    dict(kind="expval", shots=["", ""], op=[[[3, 2], []]], bessel=False, as_term=False, why="width0"),
    dict(kind="expval", shots=["", "", ""], op=[[[1, 1], Z(0)]], bessel=False, as_term=True, why="width0"),
    dict(kind="expval", shots=["", ""], op=[], bessel=True, as_term=False, why="width0"),
    dict(kind="expval", shots=[], op=[], bessel=False, as_term=False, why="noshots"),
    dict(kind="expval", shots=[], op=[], bessel=True, as_term=False, why="noshots"),
    dict(kind="expval", shots=[], op=[[[1, 2], []]], bessel=False, as_term=False, why="noshots"),
    dict(kind="expval", shots=[], op=[[[1, 2], [[0, "X"]]]], bessel=False, as_term=False, why="nonising"),
    dict(kind="expval", shots=["01"], op=[[[1, 2], Z(0)], [[-3, 4], Z(0, 1)]], bessel=True, as_term=False, why="oneshot"),
    dict(kind="expval", shots=["01"], op=[[[1, 2], Z(0)], [[-3, 4], Z(0, 1)]], bessel=False, as_term=False),
    dict(kind="expval", shots=["01", "11"], op=[[[1, 2], Z(0)], [[-3, 4], Z(0, 1)], [[5, 1], []]], bessel=True, as_term=False),
    dict(kind="expval", shots=["011", "110", "011", "100"], op=[[[1, 2], Z(0, 1)], [[2, 1], []], [[-3, 2], Z(2)], [[1, 4], Z(0, 1, 2)]],
         bessel=False, as_term=False),
    dict(kind="expval", shots=["10", "01", "10"], op=[[[1, 1], Z(1)], [[1, 1], Z(2)]], bessel=False, as_term=False, why="range"),
    dict(kind="parities", shots=[], op=[[[1, 1], []], [[2, 1], []]], why="noshots"),
    dict(kind="parities", shots=[], op=[[[1, 1], Z(0)]], why="noshots"),
    dict(kind="parities", shots=[], op=[], why="noshots"),
    dict(kind="parities", shots=["", ""], op=[[[1, 1], []]], why="width0"),
    dict(kind="parities", shots=["", ""], op=[[[1, 1], Z(0)]], why="width0"),
    dict(kind="parities", shots=["10", "01"], op=[[[1, 1], [[0, "Y"]]]], why="nonising"),
    dict(kind="parities", shots=["011", "110", "011", "100"], op=[[[1, 2], Z(0, 1)], [[2, 1], []], [[-3, 2], Z(2)], [[1, 4], Z(0, 1, 2)]], why=None),
    # registers wider than a machine word: shots that differ only on qubits >= 64
    dict(kind="expval", shots=["0" * 72, "0" * 70 + "10", "0" * 72, "0" * 72], op=[[[1, 1], Z(70)], [[1, 2], Z(3, 70)], [[-3, 4], Z(71)]],
         bessel=False, as_term=False, wide=True),
    dict(kind="counts", shots=["1" * 65, "1" * 64 + "0", "1" * 65], wide=True),
    dict(kind="distribution", shots=["01" * 40, "01" * 39 + "11", "01" * 40, "01" * 39 + "00"], wide=True),
    dict(kind="parities", shots=["0" * 66, "0" * 65 + "1", "0" * 64 + "10"], op=[[[1, 1], Z(64)], [[1, 1], Z(65)], [[2, 1], Z(0, 65)]], why=None, wide=True),
    # coefficient types: all Python int / numpy integers / int + float / int + complex, on samples where
    # c_i * c_j * mean is not an integer
    dict(kind="expval", shots=["00", "01", "10", "00"], op=[[[2, 1], Z(0)], [[1, 1], Z(1)], [[3, 1], Z(0, 1)]],
         bessel=False, as_term=False, ctypes=["int", "int", "int"]),
    dict(kind="expval", shots=["00", "01", "10", "00"], op=[[[2, 1], Z(0)], [[1, 1], Z(1)], [[3, 1], Z(0, 1)]],
         bessel=True, as_term=False, ctypes=["int", "int", "int"]),
    dict(kind="expval", shots=["000", "011", "101", "000", "110", "000", "001", "000"], op=[[[-3, 1], Z(0, 2)], [[5, 1], Z(1)]],
         bessel=False, as_term=False, ctypes=["npint64", "npint64"]),
    dict(kind="expval", shots=["00", "01", "10", "00"], op=[[[2, 1], Z(0)], [[1, 1], Z(1)], [[3, 2], Z(0, 1)]],
         bessel=False, as_term=False, ctypes=["int", "int", "float"]),
    dict(kind="expval", shots=["00", "01", "10", "00"], op=[[[2, 1], Z(0)], [[1, 1], Z(1)], [[3, 1], []]],
         bessel=True, as_term=False, ctypes=["int", "complex", "int"]),
    # vanishing coefficients (0.0, -0.0, int 0, tiny) first / middle / last, next to ordinary, constant and repeated terms:
    # every term keeps its own row, in order
    dict(kind="parities", shots=["011", "110", "011", "100", "111"], op=[[[0, 1], Z(0)], [[1, 2], Z(1)], [[2, 1], Z(0, 1)], [[3, 1], []]],
         why=None, ctypes=["float", "float", "float", "float"], vanishing="first"),
    dict(kind="parities", shots=["011", "110", "011", "100", "111"], op=[[[1, 2], Z(1)], [[0, 1], Z(2)], [[2, 1], Z(0, 1)], [[5, 4], Z(1)]],
         why=None, ctypes=["float", "negzero", "float", "float"], vanishing="middle"),
    dict(kind="parities", shots=["011", "110", "011", "100", "111"], op=[[[1, 2], Z(1)], [[2, 1], Z(0, 2)], [[0, 1], Z(0)]],
         why=None, ctypes=["float", "float", "int"], vanishing="last"),
    dict(kind="parities", shots=["01", "10", "11", "01"], op=[[[Fraction(1e-9).numerator, Fraction(1e-9).denominator], Z(0)], [[1, 1], Z(1)],
         [[Fraction(1e-12).numerator, Fraction(1e-12).denominator], []], [[1, 1], Z(0, 1)]],
         why=None, ctypes=["float"] * 4, vanishing="first+middle"),
    dict(kind="expval", shots=["011", "110", "011", "100"], op=[[[0, 1], Z(0)], [[1, 2], Z(1)], [[0, 1], Z(0, 1)], [[3, 1], []], [[0, 1], Z(2)]],
         bessel=False, as_term=False, ctypes=["float", "float", "negzero", "float", "int"], vanishing="first+last+middle"),
    dict(kind="expval", shots=["011", "110", "011", "100"], op=[[[1, 2 ** 30], Z(0)], [[1, 2], Z(1)], [[-1, 2 ** 40], Z(1)]],
         bessel=True, as_term=False, ctypes=["float", "float", "float"], vanishing="first+last"),
    # one object queried, changed without changing the number of shots, queried again
    dict(kind="history", shots=["00", "00", "01", "00"], op=[[[1, 1], Z(0)], [[1, 2], Z(0, 1)], [[-3, 4], Z(1)]],
         steps=[dict(act="replace", shots=["11", "10", "11", "11"]), dict(act="edit", i=1, shot="01"),
                dict(act="append", shots=["10", "10", "00", "01"]), dict(act="add_counts", d=[["11", 2], ["00", 1]])]),
    dict(kind="history", shots=["101", "001"], op=[[[5, 2], Z(2)], [[1, 4], []]],
         steps=[dict(act="edit", i=0, shot="100"), dict(act="query"), dict(act="replace", shots=["111", "110"])]),
    dict(kind="efreq", freq=[], marked=[], as_set=True),
    dict(kind="efreq", freq=[["", 3]], marked=[], as_set=True),
    dict(kind="efreq", freq=[["01", 3], ["11", 1]], marked=[], as_set=False),
    dict(kind="efreq", freq=[["01", 3], ["11", 1]], marked=[1, 0], as_set=False),
    dict(kind="counts", shots=[]),
    dict(kind="counts", shots=["", "", ""]),
    dict(kind="distribution", shots=[]),
    dict(kind="from_counts", d=[["01", 2], ["11", 0], ["10", 1]], shots=["00"]),
]

def gen(rng, tier):
    n = {"quick": 420, "search": 1500}.get(tier, 8000)
    for inp in FIXED:
        yield dict(inp)
    for _ in range(n):
        if rng.random() < 0.06:
            yield gen_wide(rng)
            continue
        if rng.random() < 0.07:
            yield gen_history(rng)
            continue
        r = rng.random()
        if r < 0.40:
            w = rng.randint(1, 8)
            shots = gen_shots(rng, w, gen_n(rng))
            op = gen_op(rng, w)
            inp = dict(kind="expval", shots=shots, op=op, bessel=rng.random() < 0.4, as_term=rng.random() < 0.3)
            if rng.random() < 0.35:
                inp["ctypes"] = gen_ctypes(rng, op, w)
            if rng.random() < 0.2:
                inp["ctypes"], inp["vanishing"] = gen_vanishing(rng, op, w, inp.get("ctypes"))
                inp["as_term"] = False
            yield inp
        elif r < 0.50:
            shots, op, why = gen_invalid(rng)
            yield dict(kind="expval", shots=shots, op=op, bessel=(why == "oneshot") or rng.random() < 0.3,
                       as_term=rng.random() < 0.3, why=why)
        elif r < 0.58:
            w = rng.randint(1, 8)
            keys = rng.sample(range(2 ** w), rng.randint(0 if rng.random() < 0.1 else 1, min(2 ** w, 6)))
            cnts = [rng.choice([0, 1, 1, 2, 3, 7, 20, 100]) for _ in keys]
            if rng.random() < 0.5 and keys:
                tot = rng.choice([4, 16, 64, 256])
                cuts = sorted(rng.randint(0, tot) for _ in range(len(keys) - 1))
                cnts = [b - a for a, b in zip([0] + cuts, cuts + [tot])]
            marked = sorted(rng.sample(range(w), rng.randint(0, min(w, 4))))
            if rng.random() < 0.1:
                marked.append(w + rng.randint(0, 1))
            yield dict(kind="efreq", freq=[[format(k, f"0{w}b"), c] for k, c in zip(keys, cnts)], marked=marked,
                       as_set=rng.random() < 0.7)
        elif r < 0.68:
            w = rng.randint(0, 8) if rng.random() < 0.2 else rng.randint(1, 4)
            n_shots = 0 if rng.random() < 0.05 else gen_n(rng)
            yield dict(kind="counts", shots=gen_shots(rng, w, n_shots))
        elif r < 0.74:
            w = rng.randint(0, 5)
            keys = rng.sample(range(2 ** w), rng.randint(0, min(2 ** w, 6)))
            d = [[format(k, f"0{w}b") if w else "", rng.choice([0, 1, 1, 2, 3, 5, 9])] for k in keys]
            yield dict(kind="from_counts", d=d, shots=gen_shots(rng, w, rng.randint(0, 4)))
        elif r < 0.80:
            w = rng.randint(1, 6)
            yield dict(kind="distribution", shots=gen_shots(rng, w, 0 if rng.random() < 0.08 else gen_n(rng)))
        elif r < 0.93:
            if rng.random() < 0.2:
                shots, op, why = gen_invalid(rng)
                if why == "width0" and rng.random() < 0.5:
                    op = [[c, []] for c, _ in op]
            else:
                w = rng.randint(1, 8)
                shots, op, why = gen_shots(rng, w, gen_n(rng)), gen_op(rng, w, 4), None
            inp = dict(kind="parities", shots=shots, op=op, why=why)
            if why is None and rng.random() < 0.45:
                inp["ctypes"], inp["vanishing"] = gen_vanishing(rng, op, w)
            yield inp
        else:
            w = rng.randint(1, 8)
            rows = gen_shots(rng, w, rng.randint(1, 6))
            marked = sorted(rng.sample(range(w), rng.randint(0, w)))
            yield dict(kind="check_parity", rows=rows, marked=marked, as_str=rng.random() < 0.5)

# ----------------------------------------------------------------------------- oracle pieces (plain per-shot loops)

def eig(S, s):
    return -1 if sum(s[q] for q in S) % 2 else 1

def close(x, exact, tol):
    return abs(Fraction(x) - exact) <= tol

def valid_for_expval(shots, op):
    if any(p != "Z" for _, ops in op for _, p in ops):
        return False, "TypeError"
    if not op:
        return True, None
    if not shots:
        return False, None
    w = len(shots[0])
    if w == 0:
        return False, None
    if any(q >= w for _, ops in op for q, _ in ops):
        return False, None
    return True, None

# ----------------------------------------------------------------------------- cases

def run_expval(inp, held=None):
    shots, op, bessel = inp["shots"], inp["op"], inp["bessel"]
    sh = [tup(s) for s in shots]
    n, m = len(sh), len(op)
    exact = pow2(n) and (not bessel or n == 2) and all(abs(c[0]) < 2 ** 13 for c, _ in op)
    tol = Fraction(0) if exact else TOL
    with warnings.catch_warnings():
        warnings.simplefilter("ignore")
        obj = held if held is not None else Measurements(list(sh))
        st, out = outcome(lambda: obj.get_expectation_values(mk_op(op, inp.get("as_term"), inp.get("ctypes")), bessel), timeout=20)
    valid, must = valid_for_expval(shots, op)
    kind = "expval"
    nontrivial = n >= 2 and len(set(sh)) >= 2 and m >= 2
    if st != "ok":
        ok = (not valid) and (must is None or must == out)
        lit = cres(st, out, None)
        chk = f"expval_eqb {cq(tol)} {cshots(shots)} {cop(op)} {cbool(bessel)} {lit}" if lit else "false"
        return dict(chk=chk, oracle_ok=ok, oracle_msg="" if ok else f"raised {out} on {'valid' if valid else 'invalid'} input",
                    kind=kind + "-err-" + str(inp.get("why")), nontrivial=nontrivial)
    cvals = [complex(x) for x in np.asarray(out.values).reshape(-1)]
    vals = [x.real for x in cvals]
    corr = np.asarray(out.correlations[0])
    cov = np.asarray(out.estimator_covariances[0])
    msgs = []
    if any(x.imag != 0 for x in cvals):
        msgs.append("imaginary parts in the values for real coefficients")
    if not valid:
        msgs.append("statistics returned for an invalid input")
    if len(out.correlations) != 1 or len(out.estimator_covariances) != 1 or len(vals) != m \
            or corr.shape != (m, m) or cov.shape != (m, m):
        return dict(chk="false", oracle_ok=False, oracle_msg=f"shapes: {len(vals)} values, correlations {corr.shape}, covariances {cov.shape} for {m} terms",
                    kind=kind, nontrivial=nontrivial)
    if np.any(corr.imag != 0) or np.any(np.nan_to_num(cov.imag) != 0):
        msgs.append("imaginary parts in correlations/covariances for real coefficients")
    corr_r = [[float(x) for x in row] for row in corr.real]
    finite = np.isfinite(cov.real)
    den = n - 1 if bessel else n
    if m and den == 0:
        cov_r = None
        if finite.any():
            msgs.append("finite covariance entries although the denominator is zero")
    else:
        cov_r = [[float(x) for x in row] for row in cov.real]
        if not finite.all():
            msgs.append("non-finite covariance entries")
            cov_r = None
    # the property, recomputed shot by shot
    if valid and m:
        cs = [Fraction(*c) for c, _ in op]
        Ss = [[q for q, _ in ops] for _, ops in op]
        e = [[eig(S, s) for s in sh] for S in Ss]
        v = [cs[i] * Fraction(sum(e[i]), n) for i in range(m)]
        for i in range(m):
            if not close(vals[i], v[i], tol):
                msgs.append(f"value[{i}] = {vals[i]} but coefficient * sample mean = {v[i]}")
            if not Ss[i] and not close(vals[i], cs[i], tol):
                msgs.append(f"constant term {i} reported {vals[i]} instead of {cs[i]}")
            for j in range(m):
                cij = Fraction(sum(cs[i] * a * cs[j] * b for a, b in zip(e[i], e[j])), n)
                if not close(corr_r[i][j], cij, tol):
                    msgs.append(f"correlation[{i}][{j}] = {corr_r[i][j]} but mean of products = {cij}")
                if cov_r is not None and not close(cov_r[i][j], (cij - v[i] * v[j]) / den, tol):
                    msgs.append(f"covariance[{i}][{j}] = {cov_r[i][j]} but (corr - mean*mean)/{den} = {(cij - v[i] * v[j]) / den}")
    lit = "(" + clist(vals, cq) + ", " + cqmat(corr_r) + ", " + copt(cov_r, cqmat) + ")"
    chk = f"expval_eqb {cq(tol)} {cshots(shots)} {cop(op)} {cbool(bessel)} (Ok {lit})"
    if inp.get("why"):
        kind += "-err-" + inp["why"]
    else:
        kind += ("-exact" if exact else "-tol") + ("-bessel" if bessel else "")
    kind += ctype_label(inp.get("ctypes")) + zlabel(inp)
    return dict(chk=chk, oracle_ok=not msgs, oracle_msg="; ".join(msgs[:3]), kind=kind, nontrivial=nontrivial)

def run_efreq(inp):
    freq, marked = inp["freq"], inp["marked"]
    d = {k: c for k, c in freq}
    n = sum(d.values())
    tol = Fraction(0) if pow2(n) else TOL
    with warnings.catch_warnings():
        warnings.simplefilter("ignore")
        st, out = outcome(get_expectation_value_from_frequencies, set(marked) if inp["as_set"] else list(marked), d, timeout=20)
    w = len(freq[0][0]) if freq else 0
    valid = bool(freq) and w > 0 and all(q < w for q in marked)
    if st == "ok" and (n == 0 or not math.isfinite(out)):
        return dict(chk=None, oracle_ok=(n == 0), oracle_msg=f"non-finite result {out} for total count {n}", kind="efreq-zero-total", nontrivial=False)
    ok, msg = True, ""
    if st == "ok":
        exact = Fraction(sum(c * eig(marked, tup(k)) for k, c in freq), n) if valid else None
        if not valid or not close(out, exact, tol):
            ok, msg = False, f"returned {out}, per-key weighted mean is {exact}"
        lit = f"(Ok {cq(out)})"
    else:
        if valid:
            ok, msg = False, f"raised {out} on valid input"
        lit = cres(st, out, None)
    chk = f"efreq_eqb {cq(tol)} {clist(marked, cnat)} {ccounts(freq)} {lit}" if lit else "false"
    return dict(chk=chk, oracle_ok=ok, oracle_msg=msg, kind="efreq" + ("" if st == "ok" else "-err"), nontrivial=len(freq) >= 2 and len(marked) >= 1)

def run_counts(inp, m=None):
    shots = inp["shots"]
    sh = [tup(s) for s in shots]
    obj = m if m is not None else Measurements(list(sh))
    st, out = outcome(lambda: obj.get_counts())
    if st != "ok":
        return dict(chk="false", oracle_ok=False, oracle_msg=f"get_counts raised {out}", kind="counts")
    items = list(out.items())
    back = Measurements.from_counts(out).bitstrings
    again = list(Measurements(list(back)).get_counts().items())
    msgs = []
    if sum(out.values()) != len(sh):
        msgs.append(f"counts sum to {sum(out.values())} for {len(sh)} shots")
    if any(c != sum(1 for s in shots if s == k) for k, c in items) or set(out) != set(shots):
        msgs.append("a count differs from the number of occurrences")
    if sorted(back) != sorted(sh):
        msgs.append("from_counts(get_counts) is not the same multiset of shots")
    if again != items:
        msgs.append("get_counts(from_counts(counts)) differs from counts")
    chk = f"get_counts_eqb {cshots(shots)} {ccounts(items)} && from_counts_eqb {ccounts(items)} {cshots([key(t) for t in back])}"
    return dict(chk=chk, oracle_ok=not msgs, oracle_msg="; ".join(msgs), kind="counts", nontrivial=len(sh) >= 2 and len(set(sh)) >= 2)

def run_from_counts(inp):
    d, shots = inp["d"], inp["shots"]
    dd = {k: c for k, c in d}
    st, out = outcome(lambda: Measurements.from_counts(dd).bitstrings)
    m = Measurements([tup(s) for s in shots])
    st2, _ = outcome(m.add_counts, dd)
    if st != "ok" or st2 != "ok":
        return dict(chk="false", oracle_ok=False, oracle_msg=f"from_counts/add_counts raised", kind="from_counts")
    added = m.bitstrings
    pos = [(k, c) for k, c in d if c > 0]
    msgs = []
    if list(Measurements(list(out)).get_counts().items()) != pos:
        msgs.append(f"get_counts(from_counts({dd})) = {Measurements(list(out)).get_counts()}")
    if Counter(added) != Counter([tup(s) for s in shots] + list(out)):
        msgs.append("add_counts did not append exactly the counted shots")
    chk = (f"from_counts_eqb {ccounts(d)} {cshots([key(t) for t in out])} && "
           f"add_counts_eqb {cshots(shots)} {ccounts(d)} {cshots([key(t) for t in added])}")
    return dict(chk=chk, oracle_ok=not msgs, oracle_msg="; ".join(msgs), kind="from_counts", nontrivial=len(pos) >= 2)

def run_distribution(inp, m=None):
    shots = inp["shots"]
    sh = [tup(s) for s in shots]
    n = len(sh)
    tol = Fraction(0) if pow2(n) else TOL
    obj = m if m is not None else Measurements(list(sh))
    st, out = outcome(lambda: obj.get_distribution().distribution_dict)
    ok, msg = True, ""
    if st == "ok":
        items = [(key(k), float(p)) for k, p in out.items()]
        if n == 0 or any(not close(p, Fraction(sum(1 for s in shots if s == k), n), tol) for k, p in items) \
                or set(k for k, _ in items) != set(shots):
            ok, msg = False, f"distribution {out} is not counts / {n}"
        lit = "(Ok " + clist(items, lambda kp: cpair(cstring(kp[0]), cq(kp[1]))) + ")"
    else:
        if n > 0:
            ok, msg = False, f"raised {out} for {n} shots"
        lit = cres(st, out, None)
    chk = f"distribution_eqb {cq(tol)} {cshots(shots)} {lit}" if lit else "false"
    return dict(chk=chk, oracle_ok=ok, oracle_msg=msg, kind="distribution" + ("" if st == "ok" else "-err"),
                nontrivial=n >= 2 and len(set(sh)) >= 2)

def run_parities(inp):
    shots, op = inp["shots"], inp["op"]
    sh = [tup(s) for s in shots]
    n, m = len(sh), len(op)
    st, out = outcome(lambda: get_parities_from_measurements(list(sh), mk_op(op, False, inp.get("ctypes"))), timeout=20)
    ising = all(p == "Z" for _, ops in op for _, p in ops)
    w = len(shots[0]) if shots else 0
    valid = ising and all(q < w for _, ops in op for q, _ in ops)
    nontrivial = n >= 2 and len(set(sh)) >= 2 and m >= 2
    if st != "ok":
        ok = (not valid) and (ising or out == "TypeError")
        lit = cres(st, out, None)
        return dict(chk=f"parities_eqb {cshots(shots)} {cop(op)} {lit}" if lit else "false", oracle_ok=ok,
                    oracle_msg="" if ok else f"raised {out} on {'valid' if valid else 'invalid'} input", kind="parities-err", nontrivial=nontrivial)
    vals = np.asarray(out.values)
    vals = vals.reshape(-1, 2) if vals.size else np.zeros((0, 2))
    corr = np.asarray(out.correlations[0])
    msgs = []
    if not valid:
        msgs.append("tallies returned for an invalid input")
    if corr.ndim != 3 or corr.shape[2:] != (2,) or len(out.correlations) != 1:
        return dict(chk="false", oracle_ok=False, oracle_msg=f"shapes {vals.shape} {corr.shape}", kind="parities" + zlabel(inp), nontrivial=nontrivial)
    if np.any(vals != np.round(vals)) or np.any(corr != np.round(corr)):
        msgs.append("non-integral tallies")
    iv = [[int(round(float(x))) for x in row] for row in vals]
    ic = [[[int(round(float(x))) for x in cell] for cell in row] for row in corr]
    # row i belongs to term i: one row per term of the operator, in the operator's order
    rows_ok = vals.shape == (m, 2) and corr.shape == (m, m, 2)
    if not rows_ok:
        msgs.append(f"{vals.shape[0]} rows of tallies and a {corr.shape[0]}x{corr.shape[1]} pair table for {m} terms")
    if valid and rows_ok:
        Ss = [[q for q, _ in ops] for _, ops in op]
        ev = [[eig(S, s) == 1 for s in sh] for S in Ss]
        for i in range(m):
            if iv[i] != [sum(ev[i]), n - sum(ev[i])]:
                msgs.append(f"term {i}: tallies {iv[i]} but {sum(ev[i])} even / {n - sum(ev[i])} odd shots")
            for j in range(m):
                agree = sum(1 for a, b in zip(ev[i], ev[j]) if a == b)
                if ic[i][j] != [agree, n - agree]:
                    msgs.append(f"pair ({i},{j}): tallies {ic[i][j]} but {agree} agreeing / {n - agree} disagreeing shots")
    czz = lambda p: cpair(cz(p[0]), cz(p[1]))
    lit = "(Ok (" + clist(iv, czz) + ", " + clist(ic, lambda row: clist(row, czz)) + "))"
    return dict(chk=f"parities_eqb {cshots(shots)} {cop(op)} {lit}", oracle_ok=not msgs, oracle_msg="; ".join(msgs[:3]),
                kind="parities" + ("-edge-" + inp["why"] if inp.get("why") else "") + zlabel(inp), nontrivial=nontrivial)

def run_check_parity(inp):
    rows, marked = inp["rows"], inp["marked"]
    r0 = rows[0] if inp["as_str"] else tup(rows[0])
    st, out = outcome(check_parity, r0, marked)
    st2, out2 = outcome(lambda: check_parity_of_vector(np.array([tup(r) for r in rows]), marked))
    if st != "ok" or st2 != "ok":
        return dict(chk="false", oracle_ok=False, oracle_msg=f"check_parity raised {out} / {out2}", kind="check_parity")
    vec = [int(x) for x in out2]
    ok = out == (eig(marked, tup(rows[0])) == 1) and vec == [1 if eig(marked, tup(r)) == 1 else 0 for r in rows] \
        and all(float(x) == int(x) for x in out2)
    chk = f"check_parity_eqb {cstring(rows[0])} {clist(marked, cnat)} {cbool(out)} && cpv_eqb {cshots(rows)} {clist(marked, cnat)} {clist(vec, cz)}"
    return dict(chk=chk, oracle_ok=ok, oracle_msg="" if ok else f"check_parity({rows[0]}, {marked}) = {out}; vector {vec}",
                kind="check_parity", nontrivial=len(marked) >= 2 and len(set(rows)) >= 2)

def run_history(inp):
    """One Measurements object taken through several steps; after every step all observables are queried on
    that same object and compared with the model / oracle evaluated on the shots it holds at that step."""
    op = inp["op"]
    cur = list(inp["shots"])
    m = Measurements([tup(s) for s in cur])
    chks, msgs, acts = [], [], []
    for k, step in enumerate([dict(act="query")] + inp["steps"]):
        act = step["act"]
        acts.append(act)
        if act == "replace":                      # m.bitstrings = <as many different shots>
            cur = list(step["shots"])
            m.bitstrings = [tup(s) for s in cur]
        elif act == "edit":                       # m.bitstrings[i] = <another shot>
            cur[step["i"]] = step["shot"]
            m.bitstrings[step["i"]] = tup(step["shot"])
        elif act == "append":                     # m.bitstrings += <more shots>
            cur = cur + list(step["shots"])
            m.bitstrings += [tup(s) for s in step["shots"]]
        elif act == "add_counts":
            cur = cur + [kk for kk, c in step["d"] for _ in range(c)]
            m.add_counts({kk: c for kk, c in step["d"]})
        held = [key(t) for t in m.bitstrings]
        if held != cur:
            msgs.append(f"step {k} ({act}): the object holds {held[:6]}.. instead of {cur[:6]}..")
        results = [run_distribution(dict(shots=held), m),
                   run_expval(dict(shots=held, op=op, bessel=False, ctypes=inp.get("ctypes")), m),
                   run_expval(dict(shots=held, op=op, bessel=True, ctypes=inp.get("ctypes")), m),
                   run_parities(dict(shots=held, op=op, ctypes=inp.get("ctypes"))),
                   run_counts(dict(shots=held), m)]
        for name, r in zip(("distribution", "expectation values", "expectation values (Bessel)", "parity tallies", "counts"), results):
            chks.append(r["chk"] if r["chk"] is not None else "true")
            if not r["oracle_ok"]:
                msgs.append(f"step {k} (after {act}) {name}: {r['oracle_msg']}")
        if [key(t) for t in m.bitstrings] != held:
            msgs.append(f"step {k}: a query modified the stored shots")
    same = any(a in ("replace", "edit") for a in acts)
    return dict(chk=" && ".join(f"({c})" for c in chks), oracle_ok=not msgs, oracle_msg="; ".join(msgs[:3]),
                kind="history" + ("-samecount" if same else "-growing") + ctype_label(inp.get("ctypes")) + zlabel(inp),
                nontrivial=len(acts) >= 2 and len(set(inp["shots"])) >= 2 and len(op) >= 1)

def _wide(inp, r):
    if inp.get("wide"):
        r["kind"] = r.get("kind", "case") + "-wide"
    return r

RUN = dict(history=run_history, expval=run_expval, efreq=run_efreq, counts=run_counts, from_counts=run_from_counts,
           distribution=run_distribution, parities=run_parities, check_parity=run_check_parity)

def run_case(inp):
    return _wide(inp, RUN[inp["kind"]](inp))

H.main(gen, run_case, {})
