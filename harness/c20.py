"""C20 history harness: value-returning operations never modify their arguments.

Every case is a *history*: a pool of shared objects (circuits incl. custom / wrapped gates and symbolic
parameters, gates, gate operations, Pauli terms and sums sharing term objects, measurement sets,
distributions, wavefunctions numeric and symbolic, expectation values, plain dicts / lists used as arguments,
and the library's module-level tables) and a sequence of 5-30 calls on them.  Before the first and after EVERY
call every object of the pool is serialised by the deep walker below into a snapshot tree (own walker: no
library code is called while walking); the recorded (store, call, raised?, result, store) sequence is written as a
Coq literal and coq/State/Store.v decides [history_ok] with ITS classification of the calls (pure / mutator with
receiver).  Independent oracle (used to report concrete failing inputs): value-only walk of copy.deepcopy taken
before the call compared by plain Python equality with the live object after the call, and equality of the
results of repeated calls.
"""
import atexit, collections, copy, hashlib, io, operator, os, shutil, tempfile, warnings
import numpy as np
import scipy.sparse
import sympy
import hlib
from hlib import *
from orquestra.quantum import circuits as C
from orquestra.quantum.circuits import _serde as SER
from orquestra.quantum.circuits import _gates as G
from orquestra.quantum import operators as OP
from orquestra.quantum.operators import _pauli_operators as PO
from orquestra.quantum.operators import _utils as OU
from orquestra.quantum.operators._openfermion_utils import sparse_tools as ST_
from orquestra.quantum import measurements as M
from orquestra.quantum.measurements import measurements as MM
from orquestra.quantum.measurements import parities as MP
from orquestra.quantum.measurements import expectation_values as MEV
from orquestra.quantum import distributions as D
from orquestra.quantum.distributions import _measurement_outcome_distribution as DD
from orquestra.quantum import wavefunction as WFM
from orquestra.quantum.wavefunction import Wavefunction
from orquestra.quantum.runners.symbolic_simulator import SymbolicSimulator

warnings.simplefilter("ignore")
hlib.SHARD = 12          # histories are large literals: small shards compile in parallel

H = Harness("C20", ["OQ.State.Store", "OQ.State.StoreCases"],
            "histories of 5-30 calls over a pool of 14-24 shared objects on <= 3 qubits (circuits with built-in, "
            "wrapped (controlled / dagger / power / exponential), custom and symbolic gates, reset and multi-phase "
            "operations; gates; gate operations; Pauli terms; Pauli sums, some sharing pool terms; measurement sets; "
            "distributions; numeric and symbolic wavefunctions; expectation values; parities; symbol maps, qubit lists, "
            "count and weight dictionaries; module tables); calls drawn from every family of the statement (circuit "
            "+ / bind / inverse / controlled / to_dict / save / to_unitary / free_symbols ...; operator + - * ** "
            "simplify / conjugate / to_dict / save / sparse ...; counts / distribution / expectation values / "
            "parities; subdistribution / mmd / clipped nll / js / save; probabilities / outcome probabilities / bind ...), "
            "results optionally bound to new pool names and used by later calls, ~20% exact repeats of an earlier call, "
            "a dedicated stream (20% of the histories, plus two fixed histories in every tier) of simulator calls (get_wavefunction "
            "with an explicit initial state that is a complex array of the pool or the live amplitudes of a pool wavefunction, "
            "run_and_measure, exact expectation values, outcome distribution) on circuits whose first operation is a multi-phase "
            "operation / a gate / a reset; ~12% genuine mutators (wf[i]=v / wf[a:b]=[..] / wf[i]=[..] valid and rejected, add_counts, expectation_values_to_real, in-place "
            "normalisation), an invalid-argument stream (wrong types, out-of-range indices, non-Ising operators); every "
            "object snapshotted before/after every call; non-trivial = at least 5 executed calls touching at least 3 "
            "distinct pool objects, at least one of them twice")

# sympy expressions are immutable: the deep copies of the oracle share them (a re-created Symbol prints its
# assumptions differently under srepr although it is the same symbol)
sympy.Basic.__deepcopy__ = lambda self, memo: self

TMP = tempfile.mkdtemp(prefix="c20-")
atexit.register(lambda: shutil.rmtree(TMP, ignore_errors=True))

# ============================================================================= the deep walker
MEMO_KEYS = ("_circuit", "_is_ising", "_circuits")


def esc(s):
    out = []
    for ch in s:
        o = ord(ch)
        if 32 <= o < 127 and ch != "\\":
            out.append(ch)
        elif o < 256:
            out.append("\\x%02x" % o)
        else:
            out.append("\\u%04x" % o)
    return "".join(out)


def I_(n): return ("I", int(n))
def S_(s): return ("S", esc(s))
def T_(tag, *kids): return ("T", tag, tuple(kids))
def L_(kids): return ("L", tuple(kids))


def digest(b):
    return hashlib.sha1(b).hexdigest()


_SREPR = {}


def sy_text(e):
    """canonical structural text of a sympy expression (sympy.srepr prints the assumptions a Symbol was
    *created* with, so a copy of a symbol prints differently although it is the same symbol)"""
    if isinstance(e, sympy.Symbol):
        return f"{type(e).__name__}({e.name!r}, {sorted(e.assumptions0.items())!r})"
    if isinstance(e, sympy.Basic) and e.args and not isinstance(e, sympy.Number):
        return f"{type(e).__name__}({', '.join(sy_text(a) for a in e.args)})"
    return sympy.srepr(e)


def srepr(e):
    k = id(e)
    hit = _SREPR.get(k)
    if hit is None or hit[0] is not e:
        hit = (e, sy_text(e))
        _SREPR[k] = hit
    return hit[1]


class Walker:
    """Deep serialiser.  With ids=True nested mutable containers and objects carry a normalised identity
    (first appearance order within the history; every identified object is kept alive so ids are not reused)."""

    def __init__(self, ids=True):
        self.ids = {} if ids else None
        self.keep = []

    def oid(self, o):
        if self.ids is None:
            return 0
        k = id(o)
        if k not in self.ids:
            self.ids[k] = len(self.ids) + 1
            self.keep.append(o)
        return self.ids[k]

    def ref(self, o):
        return ("R", self.oid(o))

    def num(self, x):
        if isinstance(x, bool):
            return T_("b", I_(x))
        if isinstance(x, int):
            return I_(x)
        if isinstance(x, float):
            return T_("f", S_(repr(x)))
        if isinstance(x, complex):
            return T_("c", S_(repr(x)))
        return None

    def w(self, o, depth=0):
        if depth > 60:
            return T_("too-deep")
        if o is None:
            return T_("None")
        n = self.num(o)
        if n is not None:
            return n
        if isinstance(o, str):
            return S_(o)
        if isinstance(o, np.generic):
            return T_("np", S_(o.dtype.name), S_(repr(o.item())))
        if isinstance(o, np.ndarray):
            base = T_("base", self.ref(o.base)) if o.base is not None else T_("own")
            head = [self.ref(o), base, S_(o.dtype.name), L_([I_(d) for d in o.shape]), T_("b", I_(o.flags.writeable))]
            if o.dtype == object:
                return T_("nd", *head, L_([self.w(x, depth + 1) for x in o.flatten().tolist()]))
            if o.size > 40:
                return T_("nd", *head, S_(digest(np.ascontiguousarray(o).tobytes())))
            return T_("nd", *head, L_([S_(repr(x)) for x in o.flatten().tolist()]))
        if isinstance(o, sympy.MatrixBase):
            return T_("symat", self.ref(o), S_(type(o).__name__), I_(o.rows), I_(o.cols), L_([S_(srepr(x)) for x in o.flat()]))
        if isinstance(o, sympy.Basic):
            return T_("sy", S_(srepr(o)))
        if isinstance(o, tuple):
            return T_("tup", *[self.w(x, depth + 1) for x in o])
        if isinstance(o, list):
            return T_("list", self.ref(o), L_([self.w(x, depth + 1) for x in o]))
        if isinstance(o, dict):
            return T_("dict:" + type(o).__name__, self.ref(o),
                      L_([T_("kv", self.w(k, depth + 1), self.w(v, depth + 1)) for k, v in o.items()]))
        if isinstance(o, (set, frozenset)):
            kids = sorted((self.w(x, depth + 1) for x in o), key=repr)
            return T_("set:" + type(o).__name__, *kids)
        if scipy.sparse.issparse(o):
            dense = np.ascontiguousarray(o.toarray())
            return T_("sp", S_(o.format), S_(o.dtype.name), L_([I_(d) for d in o.shape]), I_(o.nnz), S_(digest(dense.tobytes())))
        if isinstance(o, type):
            return T_("type", S_(o.__module__ + "." + o.__qualname__))
        if callable(o) and hasattr(o, "__qualname__") and not hasattr(o, "__dataclass_fields__"):
            return T_("fn", S_(getattr(o, "__module__", "?") + "." + o.__qualname__))
        if isinstance(o, slice):
            return T_("slice", self.w(o.start), self.w(o.stop), self.w(o.step))
        if hasattr(o, "__dict__"):
            fields = [T_("a", S_(k), self.w(v, depth + 1)) for k, v in sorted(vars(o).items()) if k not in MEMO_KEYS]
            return T_("obj:" + type(o).__qualname__, self.ref(o), L_(fields))
        return T_("repr", S_(type(o).__qualname__), S_(repr(o)))

    def memo(self, o):
        if not hasattr(o, "__dict__"):
            return ()
        return tuple((k, self.w(v)) for k, v in sorted(vars(o).items()) if k in MEMO_KEYS)


def strip(t):
    """value-only view of a snapshot: identities erased"""
    k = t[0]
    if k == "R":
        return ("R", 0)
    if k == "L":
        return ("L", tuple(strip(x) for x in t[1]))
    if k == "T":
        return ("T", t[1], tuple(strip(x) for x in t[2]))
    return t


def tree_size(t):
    k = t[0]
    if k == "L":
        return 1 + sum(tree_size(x) for x in t[1])
    if k == "T":
        return 1 + sum(tree_size(x) for x in t[2])
    return 1


def coq_tree(t):
    k = t[0]
    if k == "I":
        return f"(Si {cz(t[1])})"
    if k == "S":
        return f"(Ss {cstring(t[1])})"
    if k == "R":
        return f"(Sr {cz(t[1])})"
    if k == "L":
        return "(SL " + clist(t[1], coq_tree) + ")"
    return f"(ST {cstring(t[1])} " + clist(t[2], coq_tree) + ")"


def first_diff(a, b, path="obj"):
    """human-readable location of the first difference between two snapshot trees"""
    if a == b:
        return None
    if a[0] != b[0] or a[0] in "ISR":
        return f"{path}: {show(a)} -> {show(b)}"
    if a[0] == "T" and a[1] != b[1]:
        return f"{path}: tag {a[1]} -> {b[1]}"
    ka, kb = (a[1], b[1]) if a[0] == "L" else (a[2], b[2])
    lab = "" if a[0] == "L" else a[1]
    for i, (x, y) in enumerate(zip(ka, kb)):
        d = first_diff(x, y, f"{path}/{lab}[{i}]")
        if d:
            return d
    return f"{path}/{lab}: {len(ka)} -> {len(kb)} children"


def show(t, limit=160):
    def go(t):
        if t[0] in "IR":
            return str(t[1])
        if t[0] == "S":
            return t[1]
        if t[0] == "L":
            return "[" + ", ".join(go(x) for x in t[1]) + "]"
        return t[1] + "(" + ", ".join(go(x) for x in t[2]) + ")"
    s = go(t)
    return s if len(s) <= limit else s[:limit] + "..."


# ============================================================================= building objects from specs
SYMS = {n: sympy.Symbol(n) for n in ("theta", "alpha", "beta", "gamma")}
_th, _al = SYMS["theta"], SYMS["alpha"]


def make_custom_defs():
    """fresh definitions per history (their matrices are mutable sympy matrices)"""
    u1 = G.CustomGateDefinition("U1c", sympy.Matrix([[sympy.cos(_th), -sympy.sin(_th)], [sympy.sin(_th), sympy.cos(_th)]]), (_th,))
    v2 = G.CustomGateDefinition("V2c", sympy.Matrix([[1, 0, 0, 0], [0, 0, 1, 0], [0, 1, 0, 0], [0, 0, 0, sympy.exp(sympy.I * _al * _th)]]), (_th, _al))
    k1 = G.CustomGateDefinition("K1c", sympy.Matrix([[0, sympy.I], [-sympy.I, 0]]), ())
    return {"U1c": u1, "V2c": v2, "K1c": k1}


def val(spec):
    """number / sympy value from a JSON spec"""
    if isinstance(spec, dict):
        if "f" in spec:
            return float(spec["f"])
        if "i" in spec:
            return int(spec["i"])
        if "c" in spec:
            return complex(spec["c"][0], spec["c"][1])
        if "e" in spec:
            return sympy.sympify(spec["e"], locals=SYMS)
        if "r" in spec:
            return sympy.Rational(spec["r"][0], spec["r"][1])
        if "s" in spec:
            return str(spec["s"])
        if "none" in spec:
            return None
        if "b" in spec:
            return bool(spec["b"])
        if "l" in spec:
            return [val(x) for x in spec["l"]]
        if "t" in spec:
            return tuple(val(x) for x in spec["t"])
        if "slice" in spec:
            return slice(*spec["slice"])
    raise ValueError(f"bad value spec {spec!r}")


def make_gate(spec, defs):
    name = spec["g"]
    params = [val(p) for p in spec.get("p", [])]
    if name in defs:
        g = defs[name](*params)
    else:
        ref = C.builtin_gate_by_name(name)
        g = ref(*params) if not isinstance(ref, G.MatrixFactoryGate) else ref
    for w in spec.get("w", []):
        if w == "dagger":
            g = g.dagger
        elif w == "exp":
            g = g.exp
        elif w[0] == "ctrl":
            g = g.controlled(w[1])
        elif w[0] == "pow":
            g = g.power(w[1])
    return g


def make_op(spec, defs):
    if "reset" in spec:
        return C.ResetOperation(spec["reset"])
    if "multiphase" in spec:
        return C.MultiPhaseOperation(tuple(val(p) for p in spec["multiphase"]))
    return make_gate(spec["gate"], defs)(*spec["q"])


def make_term(spec):
    return PO.PauliTerm({int(i): o for i, o in spec["ops"]}, val(spec["c"]))


def build_pool(pspec):
    defs = make_custom_defs()
    pool = collections.OrderedDict()
    for ent in pspec:
        n, t, s = ent["n"], ent["t"], ent["s"]
        if t == "circ":
            o = C.Circuit([make_op(x, defs) for x in s["ops"]], s.get("nq"))
        elif t == "gate":
            o = make_gate(s, defs)
        elif t == "gop":
            o = make_op(s, defs)
        elif t == "term":
            o = make_term(s)
        elif t == "sum":
            o = PO.PauliSum([pool[x["ref"]][0] if "ref" in x else make_term(x) for x in s["terms"]])
        elif t == "meas":
            o = M.Measurements([tuple(b) for b in s["bits"]])
        elif t == "dist":
            o = D.MeasurementOutcomeDistribution({tuple(k): float(v) for k, v in s["items"]}, s.get("normalize", True))
        elif t == "wf":
            if "sym" in s:
                o = Wavefunction(sympy.Matrix([val(x) for x in s["sym"]]))
            else:
                o = Wavefunction(np.array([complex(a, b) for a, b in s["amps"]], dtype=complex))
        elif t == "ev":
            vals = np.array([val(x) for x in s["values"]])
            corr = [np.array(m, dtype=float) for m in s["corr"]] if s.get("corr") else None
            cov = [np.array(m, dtype=float) for m in s["cov"]] if s.get("cov") else None
            o = M.ExpectationValues(vals, corr, cov)
        elif t == "par":
            o = M.Parities(np.array(s["values"]), [np.array(m, dtype=float) for m in s["corr"]] if s.get("corr") else None)
        elif t == "map":
            o = {SYMS[k]: val(v) for k, v in s["items"]}
        elif t == "list":
            o = [int(x) for x in s]
        elif t == "rawdict":
            o = {tuple(k): float(v) for k, v in s["items"]}
        elif t == "counts":
            o = {str(k): int(v) for k, v in s["items"]}
        elif t == "params":
            o = {str(k): val(v) for k, v in s["items"]}
        elif t == "arr":
            if "of" in s:                       # the live amplitude array of a pool wavefunction
                o = pool[s["of"]][0]._amplitude_vector
            elif "c" in s:
                o = np.array([complex(a, b) for a, b in s["c"]], dtype=complex)
            else:
                o = np.array([float(x) for x in s["r"]], dtype=float)
        elif t == "sim":
            o = SymbolicSimulator(seed=s.get("seed"))
        elif t == "globals":
            o = {"pauli_matrix_map": ST_.pauli_matrix_map, "COEFF_MAP": PO.COEFF_MAP, "OPERATOR_MAP": PO.OPERATOR_MAP,
                 "ALLOWED_OPERATORS": PO.ALLOWED_OPERATORS, "X": C.X, "CNOT": C.CNOT, "T": C.T,
                 "custom_defs": defs}
        else:
            raise ValueError(t)
        pool[n] = [o, t]
    return pool


# ============================================================================= the operations
def _save(fn, *a):
    p = os.path.join(TMP, "out.json")
    if os.path.exists(p):
        os.remove(p)
    fn(*a, p)
    with open(p) as f:
        return f.read()


def _circ_save(c):
    s = io.StringIO()
    SER.save_circuit(c, s)
    return s.getvalue()


def _iadd(a, b):
    x = a
    x += b
    return x


def _imul(a, b):
    x = a
    x *= b
    return x


def _seeded(fn):
    def run(*a):
        np.random.seed(int(a[-1]) % (2 ** 32))
        return fn(*a)
    return run


def _state(st):
    """initial state handed to a simulator: a raw array of the pool, or the live amplitudes of a pool wavefunction"""
    return st.amplitudes if isinstance(st, Wavefunction) else st


def _setitem(wf, i, v):
    if not isinstance(wf, Wavefunction):      # invalid-argument stream: plain containers are not the library's __setitem__
        raise TypeError("not a Wavefunction")
    wf[i] = v
    return None


DIST_FN = {"mmd": D.compute_mmd, "nll": D.compute_clipped_negative_log_likelihood, "js": D.compute_jensen_shannon_divergence}

# op name -> (callable, tuple of argument kinds).  Argument kinds: a pool type name (or several separated by |)
# for an object argument, or "#..." for an immediate value chosen by the generator.
OPS = {
    # ---- circuits
    "circ_add": (lambda a, b: a + b, ("circ", "circ")),
    "circ_add_op": (lambda a, b: a + b, ("circ", "gop")),
    "circ_iadd": (_iadd, ("circ", "circ|gop")),
    "circ_bind": (lambda c, m: c.bind(m), ("circ", "map")),
    "circ_inverse": (lambda c: c.inverse(), ("circ",)),
    "circ_controlled": (lambda c, k: c.controlled(k), ("circ", "#ctrl")),
    "circ_to_dict": (lambda c: SER.to_dict(c), ("circ",)),
    "circ_save": (_circ_save, ("circ",)),
    "circ_roundtrip": (lambda c: SER.circuit_from_dict(SER.to_dict(c)), ("circ",)),
    "circset_to_dict": (lambda a, b: SER.to_dict([a, b]), ("circ", "circ")),
    "circ_to_unitary": (lambda c: c.to_unitary(), ("circ",)),
    "circ_free_symbols": (lambda c: c.free_symbols, ("circ",)),
    "circ_eq": (lambda a, b: a == b, ("circ", "circ")),
    "circ_repr": (lambda c: repr(c), ("circ",)),
    "circ_custom_defs": (lambda c: list(c.collect_custom_gate_definitions()), ("circ",)),
    "circ_split": (lambda c: list(C.split_circuit(c, lambda op: len(op.qubit_indices) == 1)), ("circ",)),
    "circ_operations": (lambda c: (c.operations, c.n_qubits), ("circ",)),
    # ---- gates
    "gate_controlled": (lambda g, k: g.controlled(k), ("gate", "#nctrl")),
    "gate_dagger": (lambda g: g.dagger, ("gate",)),
    "gate_power": (lambda g, e: g.power(e), ("gate", "#exponent")),
    "gate_exp": (lambda g: g.exp, ("gate",)),
    "gate_bind": (lambda g, m: g.bind(m), ("gate", "map")),
    "gate_replace_params": (lambda g, p: g.replace_params(tuple(p)), ("gate", "#params")),
    "gate_matrix": (lambda g: g.matrix, ("gate",)),
    "gate_call": (lambda g, q: g(*q), ("gate", "#qubits")),
    "gate_to_dict": (lambda g: SER.to_dict(g), ("gate",)),
    "gate_free_symbols": (lambda g: (g.free_symbols, g.params, g.name, g.num_qubits), ("gate",)),
    "gate_eq": (lambda a, b: a == b, ("gate", "gate")),
    "gate_str": (lambda g: str(g), ("gate",)),
    "gop_bind": (lambda o, m: o.bind(m), ("gop", "map")),
    "gop_replace_params": (lambda o, p: o.replace_params(tuple(p)), ("gop", "#params")),
    "gop_lifted_matrix": (lambda o, n: o.lifted_matrix(n), ("gop", "#nq")),
    "gop_apply": (lambda o, st: o.apply(_state(st)), ("gop", "wf|arr")),
    "gop_to_dict": (lambda o: SER.to_dict(o), ("gop",)),
    # ---- Pauli operators
    "op_add": (lambda a, b: a + b, ("term|sum", "term|sum")),
    "op_sub": (lambda a, b: a - b, ("term|sum", "term|sum")),
    "op_mul": (lambda a, b: a * b, ("term|sum", "term|sum")),
    "op_iadd": (_iadd, ("term|sum", "term|sum")),
    "op_imul": (_imul, ("term|sum", "term|sum")),
    "op_scale": (lambda a, c: c * a, ("term|sum", "#scalar")),
    "op_radd": (lambda a, c: c + a, ("term|sum", "#scalar")),
    "op_rsub": (lambda a, c: c - a, ("term|sum", "#scalar")),
    "op_div": (lambda a, c: a / c, ("term|sum", "#scalar")),
    "op_pow": (lambda a, k: a ** k, ("term|sum", "#power")),
    "op_simplify": (lambda a: a.simplify(), ("sum",)),
    "op_eq": (lambda a, b: a == b, ("term|sum", "term|sum")),
    "op_hash": (lambda a: hash(a), ("term|sum",)),
    "op_conj": (lambda a: OP.hermitian_conjugated(a), ("term|sum",)),
    "op_is_hermitian": (lambda a: OP.is_hermitian(a), ("term|sum",)),
    "op_to_dict": (lambda a: OP.convert_op_to_dict(a), ("term|sum",)),
    "op_roundtrip": (lambda a: OP.convert_dict_to_op(OP.convert_op_to_dict(a)), ("term|sum",)),
    "op_save": (lambda a: _save(OP.save_operator, a), ("term|sum",)),
    "op_save_set": (lambda a, b: _save(OP.save_operator_set, [a, b]), ("term|sum", "term|sum")),
    "op_sparse": (lambda a, n: OP.get_sparse_operator(a, n), ("term|sum", "#nq_or_none")),
    "op_pauli_strings": (lambda a: OP.get_pauli_strings(a), ("term|sum",)),
    "op_reverse": (lambda a, n: OP.reverse_qubit_order(a, n), ("term|sum", "#nq_or_none")),
    "op_expectation": (lambda a, wf, r: OP.get_expectation_value(a, wf, r), ("term|sum", "wf", "#bool")),
    "op_circuit": (lambda a: a.circuit if isinstance(a, PO.PauliTerm) else a.circuits, ("term|sum",)),
    "op_is_ising": (lambda a: a.is_ising, ("term|sum",)),
    "op_n_qubits": (lambda a: a.n_qubits, ("term|sum",)),
    "op_qubits": (lambda a: (a.qubits, len(a)), ("term|sum",)),
    "op_repr": (lambda a: repr(a), ("term|sum",)),
    "op_copy": (lambda a: a.copy(), ("term",)),
    "op_terms": (lambda a: a.terms, ("term|sum",)),
    "op_is_constant": (lambda a: (a.is_constant, getattr(a, "constant_term", None)), ("term|sum",)),
    "op_evaluate": (lambda a, ev: (lambda r: (float(r), r.precision))(OU.evaluate_operator(a, ev)), ("term|sum@ising", "ev")),
    "op_iter": (lambda a: list(a), ("term|sum",)),
    # ---- measurements
    "meas_get_counts": (lambda m: m.get_counts(), ("meas",)),
    "meas_get_distribution": (lambda m: m.get_distribution(), ("meas",)),
    "meas_expectation_values": (lambda m, o, b: m.get_expectation_values(o, b), ("meas", "term|sum@ising", "#bool")),
    "meas_parities": (lambda m, o: MP.get_parities_from_measurements(m.bitstrings, o), ("meas", "term|sum@ising")),
    "meas_save": (lambda m: _save(m.save), ("meas",)),
    "meas_from_counts": (lambda c: M.Measurements.from_counts(c), ("counts",)),
    "meas_representing": (_seeded(lambda d, n, seed: M.Measurements.get_measurements_representing_distribution(d, n)), ("dist", "#nsamples", "#seed")),
    "par_to_expectation_values": (lambda p: MEV.get_expectation_values_from_parities(p), ("par",)),
    "par_to_dict": (lambda p: p.to_dict(), ("par",)),
    "par_save": (lambda p: _save(MP.save_parities, p), ("par",)),
    "ev_to_dict": (lambda e: e.to_dict(), ("ev",)),
    "ev_save": (lambda e: _save(MEV.save_expectation_values, e), ("ev",)),
    "ev_concatenate": (lambda a, b: MEV.concatenate_expectation_values([a, b]), ("ev", "ev")),
    "ev_eq": (lambda a, b: a == b, ("ev", "ev")),
    "freq_expectation": (lambda q, c: MM.get_expectation_value_from_frequencies(q, c), ("list", "counts")),
    "check_parity": (lambda b, q: MP.check_parity(b, q), ("#bitstring", "list")),
    # ---- distributions
    "dist_sub": (lambda d, q: d.subdistribution(q), ("dist", "list")),
    "dist_distance": (lambda a, b, w, p: D.evaluate_distribution_distance(a, b, DIST_FN[w], distance_measure_parameters=p), ("dist", "dist", "#which", "params")),
    "dist_mmd": (lambda a, b, p: D.compute_mmd(a, b, p), ("dist", "dist", "params")),
    "dist_nll": (lambda a, b, p: D.compute_clipped_negative_log_likelihood(a, b, p), ("dist", "dist", "params")),
    "dist_js": (lambda a, b, p: D.compute_jensen_shannon_divergence(a, b, p), ("dist", "dist", "params")),
    "dist_save": (lambda d: _save(D.save_measurement_outcome_distribution, d), ("dist",)),
    "dist_save_many": (lambda a, b: _save(D.save_measurement_outcome_distributions, [a, b]), ("dist", "dist")),
    "dist_n_subsystems": (lambda d: d.get_number_of_subsystems(), ("dist",)),
    "dist_repr": (lambda d: repr(d), ("dist",)),
    "dist_make": (lambda r, n: D.MeasurementOutcomeDistribution(r, n), ("rawdict", "#bool")),
    "dict_is_normalized": (lambda r: D.is_normalized(r), ("rawdict",)),
    "dict_is_distribution": (lambda r: D.is_measurement_outcome_distribution(r), ("rawdict",)),
    "dict_keys_to_text": (lambda r: D.change_tuple_dict_keys_to_comma_separated_integers(r), ("rawdict",)),
    "dist_from_probabilities": (lambda wf: D.create_bitstring_distribution_from_probability_distribution(wf.get_probabilities()), ("wf",)),
    # ---- wavefunctions
    "wf_probabilities": (lambda w: w.get_probabilities(), ("wf",)),
    "wf_outcome_probs": (lambda w: w.get_outcome_probs(), ("wf",)),
    "wf_bind": (lambda w, m: w.bind(m), ("wf", "map")),
    "wf_amplitudes": (lambda w: w.amplitudes, ("wf",)),
    "wf_eq": (lambda a, b: a == b, ("wf", "wf")),
    "wf_str": (lambda w: str(w), ("wf",)),
    "wf_save": (lambda w: _save(WFM.save_wavefunction, w), ("wf",)),
    "wf_flip": (lambda w: WFM.flip_wavefunction(w), ("wf",)),
    "wf_sample": (lambda w, n, seed: WFM.sample_from_wavefunction(w, n, seed), ("wf", "#nsamples", "#seed")),
    "wf_getitem": (lambda w, i: w[i], ("wf", "#index")),
    "wf_free_symbols": (lambda w: (w.free_symbols, w.n_qubits), ("wf",)),
    "wf_len": (lambda w: len(w), ("wf",)),
    # ---- genuine in-place operations
    "wf_setitem": (_setitem, ("wf", "#index", "#amp")),
    "wf_setitem_seq": (_setitem, ("wf", "#intindex", "#ampseq")),
    "wf_setitem_symseq": (_setitem, ("wf", "#slice", "#symseq")),
    "meas_add_counts": (lambda m, c: m.add_counts(c), ("meas", "counts")),
    "ev_to_real": (lambda e: MEV.expectation_values_to_real(e), ("ev",)),
    "dict_normalize": (lambda r: D.normalize_measurement_outcome_distribution(r), ("rawdict",)),
    # ---- evaluating a circuit on a simulator (the runner counts its jobs: it is the receiver of an in-place update;
    #      the circuit, the initial state and the object the state was taken from are arguments)
    "sim_get_wavefunction": (lambda s, c, st: s.get_wavefunction(c, _state(st)), ("sim", "circ", "arr|wf")),
    "sim_get_wavefunction0": (lambda s, c: s.get_wavefunction(c), ("sim", "circ")),
    "sim_run_and_measure": (lambda s, c, n: s.run_and_measure(c, n), ("sim", "circ", "#nsamples")),
    "sim_exact_expectation": (lambda s, c, o: s.get_exact_expectation_values(c, o), ("sim", "circ", "term|sum")),
    "sim_distribution": (lambda s, c, n: s.get_measurement_outcome_distribution(c, n), ("sim", "circ", "#nsamples_or_none")),
}
SIM_OPS = [o for o in OPS if o.startswith("sim_")]
# the oracle's own list of in-place operations: op -> (receiver position, nothing changes when it raises)
MUTATORS = {"wf_setitem": (0, True), "wf_setitem_seq": (0, True), "wf_setitem_symseq": (0, True), "meas_add_counts": (0, False), "ev_to_real": (0, False), "dict_normalize": (0, False),
            **{o: (0, False) for o in SIM_OPS}}
GEN_MUTATORS = [o for o in MUTATORS if o not in SIM_OPS]
FAMILY = {"sim": "simulator", "circ": "circuit", "circset": "circuit", "gate": "gate", "gop": "gate", "op": "operator", "meas": "measurements",
          "par": "measurements", "ev": "measurements", "freq": "measurements", "check": "measurements", "dist": "distribution",
          "dict": "distribution", "wf": "wavefunction"}

POOL_TYPE = [(C.Circuit, "circ"), (G.GateOperation, "gop"), (PO.PauliTerm, "term"), (PO.PauliSum, "sum"),
             (M.Measurements, "meas"), (D.MeasurementOutcomeDistribution, "dist"), (Wavefunction, "wf"),
             (M.ExpectationValues, "ev"), (M.Parities, "par")]


def pool_type_of(op, v):
    for cls, t in POOL_TYPE:
        if isinstance(v, cls):
            return t
    if isinstance(v, (G.MatrixFactoryGate, G.ControlledGate, G.Dagger, G.Exponential, G.Power)):
        return "gate"
    if op == "meas_get_counts" and isinstance(v, dict):
        return "counts"
    if op == "dict_normalize" and isinstance(v, dict):
        return "rawdict"
    return None


# static result types, used by the generator to plan later calls on bound results
def result_type(op, argtypes):
    if op in ("circ_add", "circ_add_op", "circ_iadd", "circ_bind", "circ_inverse", "circ_controlled", "circ_roundtrip"):
        return "circ"
    if op in ("gate_controlled", "gate_dagger", "gate_power", "gate_exp", "gate_bind", "gate_replace_params"):
        return "gate"
    if op in ("gate_call", "gop_bind", "gop_replace_params"):
        return "gop"
    if op in ("op_add", "op_sub", "op_iadd", "op_radd", "op_rsub", "op_roundtrip", "op_reverse", "op_simplify"):
        return "sum"
    if op in ("op_mul", "op_imul"):
        return "term" if argtypes[:2] == ["term", "term"] else "sum"
    if op in ("op_scale", "op_div", "op_pow", "op_conj"):
        return argtypes[0]
    if op == "op_copy":
        return "term"
    if op == "op_circuit":
        return "circ" if argtypes[0] == "term" else None
    return {"meas_get_distribution": "dist", "meas_expectation_values": "ev", "meas_parities": "par",
            "meas_from_counts": "meas", "meas_representing": "meas", "par_to_expectation_values": "ev",
            "ev_concatenate": "ev", "meas_get_counts": "counts", "dist_sub": "dist", "dist_make": "dist",
            "dist_from_probabilities": "dist", "wf_bind": "wf", "wf_flip": "wf", "ev_to_real": "ev",
            "sim_get_wavefunction": "wf", "sim_get_wavefunction0": "wf", "sim_run_and_measure": "meas", "sim_distribution": "dist",
            "dict_normalize": "rawdict"}.get(op)


# ============================================================================= generator
GATES_1 = ["X", "Y", "Z", "H", "S", "T", "SX", "I"]
GATES_1P = ["RX", "RY", "RZ", "PHASE", "RH", "GPi", "GPi2"]
GATES_2 = ["CNOT", "CZ", "SWAP", "ISWAP"]
GATES_2P = ["CPHASE", "XX", "YY", "ZZ", "XY", "MS"]
NPARAMS = {"U3": 3, "MS": 2, "U1c": 1, "V2c": 2, "K1c": 0}
NQ = {**{g: 1 for g in GATES_1 + GATES_1P + ["U3", "U1c", "K1c", "Delay"]}, **{g: 2 for g in GATES_2 + GATES_2P + ["V2c"]}}


def g_number(rng, symbolic=True):
    r = rng.random()
    if symbolic and r < 0.35:
        return {"e": rng.choice(["theta", "alpha", "2*theta", "theta+alpha", "beta/2", "theta*alpha", "gamma-1", "-alpha"])}
    if r < 0.75:
        return {"f": float(dyadic(rng, 24, 3))}
    if r < 0.85:
        return {"i": rng.randint(-3, 3)}
    if r < 0.93:
        return {"r": [rng.randint(-5, 5), rng.choice([2, 3, 4])]}
    return {"e": rng.choice(["pi/2", "pi/4", "-pi", "3*pi/8"])}


def g_gate(rng, nq=None, symbolic=True, wrappers=True):
    pools = []
    if nq in (None, 1):
        pools += GATES_1 + GATES_1P * 2 + ["U3", "U1c", "K1c"]
    if nq in (None, 2):
        pools += GATES_2 + GATES_2P + ["V2c"]
    name = rng.choice(pools)
    npar = NPARAMS.get(name, 1 if name in GATES_1P + GATES_2P else 0)
    spec = {"g": name}
    if npar:
        spec["p"] = [g_number(rng, symbolic) for _ in range(npar)]
    sym = any("e" in p and not p["e"].startswith(("pi", "-pi", "3*pi")) for p in spec.get("p", []))
    if wrappers and rng.random() < 0.35:
        ws = []
        for _ in range(rng.randint(1, 2)):
            r = rng.random()
            if r < 0.4:
                ws.append("dagger")
            elif r < 0.7 and NQ[name] + sum(w[1] for w in ws if w[0] == "ctrl") < 3:
                ws.append(["ctrl", 1])
            elif r < 0.88 and not sym:
                ws.append(["pow", rng.choice([2, 3, -1, 0.5, 2.0])])
            elif not sym and name not in ("T", "U3", "SX", "RH", "MS", "XY", "V2c", "U1c"):
                ws.append("exp")
        if ws:
            spec["w"] = ws
    return spec


def gate_width(spec):
    return NQ[spec["g"]] + sum(w[1] for w in spec.get("w", []) if isinstance(w, list) and w[0] == "ctrl")


def g_op(rng, nqubits, symbolic=True):
    r = rng.random()
    if r < 0.04:
        return {"reset": rng.randrange(nqubits)}
    if r < 0.08:
        k = rng.randint(1, min(2, nqubits))
        return {"multiphase": [g_number(rng, symbolic) if rng.random() < 0.8 else {"f": 0.25} for _ in range(2 ** k)]}
    for _ in range(20):
        g = g_gate(rng, None if nqubits > 1 else 1, symbolic)
        w = gate_width(g)
        if w <= nqubits:
            return {"gate": g, "q": rng.sample(range(nqubits), w)}
    return {"gate": {"g": "X"}, "q": [0]}


def g_circ(rng, symbolic=None):
    nq = rng.randint(1, 3)
    symbolic = rng.random() < 0.5 if symbolic is None else symbolic
    ops = [g_op(rng, nq, symbolic) for _ in range(rng.randint(0, 6) if rng.random() < 0.9 else 0)]
    s = {"ops": ops}
    if rng.random() < 0.3:
        s["nq"] = nq + rng.randint(0, 1)
    return s


def g_coef(rng):
    r = rng.random()
    if r < 0.5:
        return {"f": float(dyadic(rng, 24, 3, allow_zero=rng.random() < 0.1))}
    if r < 0.8:
        return {"c": [float(dyadic(rng, 16, 2)), float(dyadic(rng, 16, 2))]}
    if r < 0.9:
        return {"i": rng.randint(-3, 3)}
    return {"f": rng.choice([0.1, 1e-9, -0.3, 1.0])}


def g_term(rng, ising=False):
    k = rng.randint(0, 3) if rng.random() < 0.9 else 0
    qs = rng.sample(range(3), k)
    c = g_coef(rng)
    if ising and "c" in c:
        c = {"f": c["c"][0]}
    return {"ops": [[q, "Z" if ising else rng.choice("XYZ")] for q in qs], "c": c}


def g_bits(rng, nq):
    n = rng.randint(1, 10) if rng.random() < 0.95 else 0
    return [[rng.randint(0, 1) for _ in range(nq)] for _ in range(n)]


def g_dist_items(rng, nq, dyadic_total=True):
    keys = rng.sample(range(2 ** nq), rng.randint(1, 2 ** nq))
    items = [[[int(b) for b in format(k, f"0{nq}b")], rng.randint(1, 8)] for k in keys]
    tot = sum(w for _, w in items)
    if dyadic_total:
        e = 1
        while e < tot:
            e *= 2
        items[0][1] += e - tot
        tot = e
    return [[k, w / tot] for k, w in items]


def g_amps(rng, nq):
    n = 2 ** nq
    r = rng.random()
    if r < 0.3:
        i = rng.randrange(n)
        return [[1.0 if j == i else 0.0, 0.0] for j in range(n)]
    if r < 0.6 and n >= 2:
        i, j = rng.sample(range(n), 2)
        a = [[0.0, 0.0] for _ in range(n)]
        a[i] = [0.6, 0.0]
        a[j] = [0.0, -0.8]
        return a
    if n >= 4:
        idx = rng.sample(range(n), 4)
        a = [[0.0, 0.0] for _ in range(n)]
        for t, i in enumerate(idx):
            a[i] = [[0.5, 0.0], [0.0, 0.5], [-0.5, 0.0], [0.0, -0.5]][t]
        return a
    v = np.array([complex(rng.randint(-4, 4), rng.randint(-4, 4)) for _ in range(n)])
    if not np.any(v):
        v[0] = 1
    v = v / np.linalg.norm(v)
    return [[float(z.real), float(z.imag)] for z in v]


SYM_WF = [["cos(theta)", "sin(theta)"], ["cos(theta)", "I*sin(theta)"], ["alpha", "0.5", "0.5", "beta"],
          ["0.5", "theta", "0.5*I", "0"], ["cos(theta/2)", "0", "0", "sin(theta/2)"]]


def g_map(rng):
    names = rng.sample(["theta", "alpha", "beta", "gamma"], rng.randint(0, 3))
    return {"items": [[n, g_number(rng, symbolic=rng.random() < 0.25)] for n in names]}


def g_pool(rng):
    pool = []
    def add(n, t, s):
        pool.append({"n": n, "t": t, "s": s})
    for i in range(rng.randint(2, 3)):
        add(f"c{i}", "circ", g_circ(rng, symbolic=(i == 0) or None))
    for i in range(rng.randint(1, 2)):
        add(f"g{i}", "gate", g_gate(rng))
    add("o0", "gop", g_op(rng, 3))
    nterms = rng.randint(2, 3)
    for i in range(nterms):
        add(f"t{i}", "term", g_term(rng, ising=(i == 0) or rng.random() < 0.3))
    add("s0", "sum", {"terms": [g_term(rng, ising=True) for _ in range(rng.randint(0, 3))]})
    shared = [{"ref": f"t{rng.randrange(nterms)}"}] + [g_term(rng) for _ in range(rng.randint(0, 3))]
    if rng.random() < 0.4:
        shared.append(dict(shared[-1]) if "ref" not in shared[-1] else g_term(rng))   # like terms: simplify has work to do
    rng.shuffle(shared)
    add("s1", "sum", {"terms": shared})
    if rng.random() < 0.5:
        add("s2", "sum", {"terms": [{"ref": f"t{i}"} for i in range(nterms)]})
    nqm = rng.choice([1, 2, 3, 3, 3])
    add("m0", "meas", {"bits": g_bits(rng, nqm)})
    if rng.random() < 0.6:
        add("m1", "meas", {"bits": g_bits(rng, rng.randint(1, 3))})
    nqd = rng.randint(1, 3)
    add("d0", "dist", {"items": g_dist_items(rng, nqd)})
    add("d1", "dist", {"items": g_dist_items(rng, nqd if rng.random() < 0.8 else rng.randint(1, 3), rng.random() < 0.7)})
    if rng.random() < 0.3:
        items = g_dist_items(rng, nqd)
        add("d2", "dist", {"items": [[k, w * 0.5] for k, w in items], "normalize": False})
    add("w0", "wf", {"amps": g_amps(rng, rng.choice([1, 2, 3, 3]))})
    add("w1", "wf", {"sym": [{"e": x} for x in rng.choice(SYM_WF)]})
    if rng.random() < 0.5:
        add("w2", "wf", {"amps": g_amps(rng, rng.randint(1, 3))})
    k = rng.randint(1, 3)
    add("e0", "ev", {"values": [g_coef(rng) for _ in range(k)],
                     "corr": [[[float(dyadic(rng, 8, 2)) for _ in range(k)] for _ in range(k)]] if rng.random() < 0.7 else None,
                     "cov": [[[float(dyadic(rng, 8, 3)) for _ in range(k)] for _ in range(k)]] if rng.random() < 0.7 else None})
    if rng.random() < 0.5:
        add("p0", "par", {"values": [[rng.randint(0, 9), rng.randint(0 if rng.random() < 0.9 else 0, 9)] for _ in range(k)],
                          "corr": [[[[rng.randint(0, 5), rng.randint(0, 5)] for _ in range(k)] for _ in range(k)]] if rng.random() < 0.5 else None})
    add("map0", "map", g_map(rng))
    add("map1", "map", {"items": [[n, {"f": float(dyadic(rng, 8, 2))}] for n in ("theta", "alpha", "beta", "gamma")]})
    add("l0", "list", rng.sample(range(3), rng.randint(1, 3)) if rng.random() < 0.85 else rng.choice([[], [0, 0], [5], [1, 7]]))
    add("l1", "list", [rng.randrange(nqd)] if rng.random() < 0.7 else rng.sample(range(nqd), rng.randint(1, nqd)))
    add("r0", "rawdict", {"items": g_dist_items(rng, rng.randint(1, 2), rng.random() < 0.5) if rng.random() < 0.9 else
                          [[[0, 1], 0.0], [[1, 1], 0.0]]})
    if rng.random() < 0.6:
        items = g_dist_items(rng, rng.randint(1, 3))
        add("r1", "rawdict", {"items": [[k, w * rng.choice([2, 3, 0.5])] for k, w in items]})
    add("k0", "counts", {"items": [[format(x, f"0{nqm}b"), rng.randint(1, 4)] for x in rng.sample(range(2 ** nqm), rng.randint(1, min(3, 2 ** nqm)))]})
    if rng.random() < 0.3:
        add("k1", "counts", {"items": [["01", 2], [rng.choice(["0x", "1", "011"]), 1]]})
    add("q0", "params", {"items": [["sigma", rng.choice([{"f": 1.0}, {"f": 0.5}, {"f": 2.0}, {"l": [{"f": 0.5}, {"f": 2.0}]}, {"l": [{"f": 1.0}, {"f": 4.0}, {"f": 0.25}]}, {"i": 0} if rng.random() < 0.3 else {"i": 1}])], ["epsilon", {"f": rng.choice([1e-9, 0.001])}]]})
    add("a0", "arr", {"c": g_dense_amps(rng, rng.choice([1, 2, 2, 3]))})
    add("sim0", "sim", {"seed": rng.randint(0, 99)})
    add("GLOBALS", "globals", {})
    return pool


def g_dense_amps(rng, nq):
    """normalised, every entry non-zero with its own phase (a phase applied in place shows on every entry)"""
    n = 2 ** nq
    w = [rng.choice([1, 2, 3]) for _ in range(n)]
    norm = sum(x * x for x in w) ** 0.5
    out = []
    for x in w:
        ph = rng.choice([(1, 0), (0, 1), (-1, 0), (0, -1), (0.6, 0.8), (0.8, -0.6)])
        out.append([x * ph[0] / norm, x * ph[1] / norm])
    return out


def g_phases(rng, nq):
    return [{"f": float(dyadic(rng, 24, 3, allow_zero=False))} for _ in range(2 ** nq)]


def g_sim_circ(rng, nq, first):
    """numeric circuit on nq qubits whose first operation is a multi-phase operation / a gate / a reset"""
    def gate_op():
        for _ in range(50):
            g = g_gate(rng, None if nq > 1 else 1, symbolic=False, wrappers=False)
            if gate_width(g) <= nq and g["g"] not in ("U1c", "V2c"):
                return {"gate": g, "q": rng.sample(range(nq), gate_width(g))}
        return {"gate": {"g": "H"}, "q": [0]}
    ops = [{"multiphase": g_phases(rng, nq)} if first == "multiphase" else {"reset": rng.randrange(nq)} if first == "reset" else gate_op()]
    for _ in range(rng.randint(0, 3)):
        ops.append({"multiphase": g_phases(rng, nq)} if rng.random() < 0.3 else gate_op())
    return {"ops": ops, "nq": nq}


def g_sim_pool(rng):
    """the usual pool with the circuits, the numeric wavefunctions, the arrays and the gate operation made to fit
    one register width, so that simulator calls with an explicit initial state go through"""
    nq = rng.choice([1, 2, 2, 3])
    pool = g_pool(rng)
    over = {"c0": ("circ", g_sim_circ(rng, nq, "multiphase")),
            "c1": ("circ", g_sim_circ(rng, nq, rng.choice(["gate", "multiphase"]))),
            "c2": ("circ", g_sim_circ(rng, nq, rng.choice(["reset", "gate", "multiphase"]))),
            "o0": ("gop", {"multiphase": g_phases(rng, nq)}),
            "w0": ("wf", {"amps": g_dense_amps(rng, nq)}),
            "w2": ("wf", {"amps": g_amps(rng, nq)}),
            "a0": ("arr", {"c": g_dense_amps(rng, nq)}),
            "a1": ("arr", {"r": [1.0 if i == 1 % (2 ** nq) else 0.0 for i in range(2 ** nq)]})}
    out, seen = [], set()
    for e in pool:
        if e["n"] in over:
            t, sp = over[e["n"]]
            out.append({"n": e["n"], "t": t, "s": sp})
            seen.add(e["n"])
        else:
            out.append(e)
    tail = out.pop()                                  # GLOBALS stays last
    for n, (t, sp) in over.items():
        if n not in seen:
            out.append({"n": n, "t": t, "s": sp})
    out.append(tail)
    return out


def g_immediate(rng, kind, types, args):
    if kind == "#ctrl":
        return {"i": rng.randint(0, 3)}
    if kind == "#nctrl":
        return {"i": rng.choice([1, 1, 1, 2, 0])}
    if kind == "#exponent":
        return rng.choice([{"i": 2}, {"i": 3}, {"i": -1}, {"f": 0.5}, {"f": 2.0}])
    if kind == "#params":
        return {"l": [g_number(rng) for _ in range(rng.randint(0, 2))]}
    if kind == "#qubits":
        return {"l": [{"i": x} for x in rng.sample(range(3), rng.randint(1, 3))]}
    if kind == "#nq":
        return {"i": rng.randint(1, 3)}
    if kind == "#nq_or_none":
        return rng.choice([{"none": 1}, {"none": 1}, {"i": 3}, {"i": 4}, {"i": 1}])
    if kind == "#scalar":
        return rng.choice([{"f": float(dyadic(rng, 16, 2, allow_zero=False))}, {"c": [0.5, -1.5]}, {"i": rng.randint(-2, 3)}, {"i": 0} if rng.random() < 0.3 else {"f": -1.0}])
    if kind == "#power":
        return {"i": rng.choice([0, 1, 2, 2, 3, 4, -1])}
    if kind == "#bool":
        return {"b": rng.random() < 0.5}
    if kind == "#nsamples_or_none":
        return rng.choice([{"none": 1}, {"i": 5}, {"i": 1}])
    if kind == "#nsamples":
        return {"i": rng.choice([1, 3, 7, 10, 16])}
    if kind == "#seed":
        return {"i": rng.randint(0, 10 ** 6)}
    if kind == "#which":
        return {"s": rng.choice(["mmd", "nll", "js"])}
    if kind == "#index":
        if rng.random() < 0.25:
            return {"slice": [0, 2]}
        return rng.choice([{"i": 0}, {"i": 1}, {"i": rng.randint(0, 7)}, {"i": -1}])
    if kind == "#amp":
        if "slice" in args[-1]["v"]:
            return rng.choice([{"l": [{"f": 0.0}, {"f": 0.0}]}, {"l": [{"f": 1.0}, {"f": 1.0}]}, {"l": [{"f": 0.5}, {"c": [0.0, 0.5]}]},
                               {"l": [{"f": 0.6}, {"c": [0.0, -0.8]}]}, {"l": [{"c": [0.0, 1.0]}, {"f": 0.0}]}, {"f": 0.0}])
        return rng.choice([{"f": 0.0}, {"c": [0.0, 0.5]}, {"f": 0.5}, {"f": 1.0}, {"f": 2.0}, {"e": "gamma"}, {"c": [0.0, -0.8]}, {"f": 0.6}])
    if kind == "#slice":
        return {"slice": [0, 2]}
    if kind == "#symseq":
        return rng.choice([{"l": [{"f": 0.5}, {"e": "gamma"}]}, {"l": [{"f": 0.0}, {"e": "theta"}]}, {"l": [{"e": "gamma"}, {"f": 0.5}]}])
    if kind == "#intindex":
        return {"i": rng.randint(0, 2)}
    if kind == "#ampseq":
        return rng.choice([{"l": [{"f": 1.0}, {"f": 1.0}]}, {"l": [{"f": 0.0}, {"f": 0.0}]}, {"l": [{"f": 0.5}, {"f": 0.5}]}, {"l": [{"f": 0.0}]}])
    if kind == "#bitstring":
        return rng.choice([{"s": "0110"}, {"t": [{"i": 1}, {"i": 0}, {"i": 1}]}, {"s": "111"}])
    raise ValueError(kind)


FAMILY_OPS = collections.defaultdict(list)
for _op in OPS:
    if _op not in GEN_MUTATORS:
        FAMILY_OPS[FAMILY[_op.split("_")[0]]].append(_op)
# operations named in the statement get more weight than the auxiliary ones
HEAVY = {"circ_add", "circ_add_op", "circ_bind", "circ_inverse", "circ_controlled", "circ_to_dict", "circ_save",
         "circ_to_unitary", "circ_free_symbols", "op_add", "op_sub", "op_mul", "op_pow", "op_simplify", "op_conj",
         "op_to_dict", "op_save", "op_sparse", "meas_get_counts", "meas_get_distribution", "meas_expectation_values",
         "meas_parities", "dist_sub", "dist_distance", "dist_mmd", "dist_nll", "dist_js", "dist_save", "wf_probabilities",
         "wf_outcome_probs", "wf_bind", "gate_bind", "gate_dagger", "gate_controlled", "gate_matrix",
         "op_circuit", "op_is_ising", "op_hash", "op_eq"}      # the memoising properties and the hash / equality protocol


def g_calls(rng, pool, n, focus=None):
    types = collections.OrderedDict((e["n"], e["t"]) for e in pool)
    fams = list(FAMILY_OPS)
    focus = focus or rng.sample(fams, 2)
    calls = []
    nkeep = 0
    while len(calls) < n:
        r = rng.random()
        if calls and r < 0.2:
            prev = dict(rng.choice(calls))
            prev["keep"] = None
            calls.append(prev)
            continue
        if r < 0.32:
            op = rng.choice(GEN_MUTATORS)
        else:
            fam = rng.choice(focus) if rng.random() < 0.6 else rng.choice(fams)
            ops = FAMILY_OPS[fam]
            op = rng.choice([o for o in ops if o in HEAVY] or ops) if rng.random() < 0.6 else rng.choice(ops)
            if fam == "simulator" and rng.random() < 0.6:
                op = "sim_get_wavefunction"
        kinds = OPS[op][1]
        args, argtypes, ok = [], [], True
        for kd in kinds:
            if kd.startswith("#"):
                args.append({"v": g_immediate(rng, kd, types, args)})
                argtypes.append(kd)
            else:
                kd, _, pref = kd.partition("@")
                want = kd.split("|")
                if pref == "ising" and rng.random() < 0.8:
                    want = ["ISING"]
                if rng.random() < 0.03:
                    want = list(set(types.values()) - {"globals"})     # invalid stream: an object of any type
                cands = [nm for nm, t in types.items() if t in want] if want != ["ISING"] else ["t0", "s0"]
                if not cands:
                    ok = False
                    break
                # prefer recently bound results and objects already used, so that objects are genuinely shared
                nm = rng.choice(cands[-3:]) if rng.random() < 0.3 else rng.choice(cands)
                args.append({"o": nm})
                argtypes.append(types[nm])
        if not ok:
            continue
        keep = None
        rt = result_type(op, argtypes)
        if rt and nkeep < 8 and rng.random() < 0.45:
            keep = f"x{nkeep}"
            nkeep += 1
            types[keep] = rt
        calls.append({"op": op, "a": args, "keep": keep})
    return calls


def f1_history():
    """the fixed defect F1: marginalise a shared distribution, then look at it again"""
    pool = [{"n": "d0", "t": "dist", "s": {"items": [[[0, 0], 0.25], [[0, 1], 0.25], [[1, 0], 0.25], [[1, 1], 0.25]]}},
            {"n": "d1", "t": "dist", "s": {"items": [[[0, 0], 0.5], [[1, 1], 0.5]]}},
            {"n": "l0", "t": "list", "s": [0]}, {"n": "l1", "t": "list", "s": [1, 0]},
            {"n": "q0", "t": "params", "s": {"items": [["sigma", {"f": 1.0}], ["epsilon", {"f": 1e-9}]]}},
            {"n": "GLOBALS", "t": "globals", "s": {}}]
    calls = [{"op": "dist_sub", "a": [{"o": "d0"}, {"o": "l0"}], "keep": "x0"},
             {"op": "dist_repr", "a": [{"o": "d0"}], "keep": None},
             {"op": "dist_sub", "a": [{"o": "d0"}, {"o": "l0"}], "keep": None},
             {"op": "dist_sub", "a": [{"o": "d0"}, {"o": "l1"}], "keep": "x1"},
             {"op": "dist_mmd", "a": [{"o": "d0"}, {"o": "d1"}, {"o": "q0"}], "keep": None},
             {"op": "dist_n_subsystems", "a": [{"o": "d0"}], "keep": None},
             {"op": "dist_sub", "a": [{"o": "x1"}, {"o": "l0"}], "keep": None},
             {"op": "dist_mmd", "a": [{"o": "d0"}, {"o": "d1"}, {"o": "q0"}], "keep": None}]
    return {"pool": pool, "calls": calls, "tag": "f1-regression"}


_MP2 = {"multiphase": [{"f": 0.5}, {"f": -0.75}, {"f": 1.25}, {"f": 2.0}]}
_SIM_POOL = [
    {"n": "c_stage1", "t": "circ", "s": {"ops": [{"gate": {"g": "H"}, "q": [0]}, {"gate": {"g": "CNOT"}, "q": [0, 1]}, {"gate": {"g": "RX", "p": [{"f": 0.25}]}, "q": [1]}]}},
    {"n": "c_mp", "t": "circ", "s": {"ops": [_MP2, {"gate": {"g": "H"}, "q": [1]}, {"gate": {"g": "CNOT"}, "q": [1, 0]}]}},
    {"n": "c_gate", "t": "circ", "s": {"ops": [{"gate": {"g": "H"}, "q": [0]}, _MP2]}},
    {"n": "c_reset", "t": "circ", "s": {"ops": [{"reset": 0}, {"gate": {"g": "H"}, "q": [0]}], "nq": 2}},
    {"n": "c_only_mp", "t": "circ", "s": {"ops": [_MP2]}},
    {"n": "o_mp", "t": "gop", "s": _MP2},
    {"n": "w0", "t": "wf", "s": {"amps": [[0.5, 0.0], [0.0, 0.5], [-0.5, 0.0], [0.0, -0.5]]}},
    {"n": "a_complex", "t": "arr", "s": {"c": [[0.5, 0.0], [0.0, 0.5], [-0.5, 0.0], [0.5, 0.0]]}},
    {"n": "a_real", "t": "arr", "s": {"r": [0.0, 1.0, 0.0, 0.0]}},
    {"n": "a_of_w0", "t": "arr", "s": {"of": "w0"}},
    {"n": "t0", "t": "term", "s": {"ops": [[0, "Z"]], "c": {"f": 1.0}}},
    {"n": "sim0", "t": "sim", "s": {"seed": 7}},
    {"n": "GLOBALS", "t": "globals", "s": {}}]


def _c(op, *names, keep=None, **lit):
    return {"op": op, "a": [{"o": n} for n in names] + [{"v": v} for v in lit.get("v", [])], "keep": keep}


def sim_history_stages():
    """two-stage evaluation: the wavefunction of a first circuit is the explicit initial state (its live complex
    amplitude array) of circuits starting with a multi-phase operation / a gate / a reset; every call repeated"""
    calls = [_c("sim_get_wavefunction0", "sim0", "c_stage1", keep="x0"),
             _c("sim_get_wavefunction", "sim0", "c_mp", "x0", keep="x1"),
             _c("wf_probabilities", "x0"),
             _c("sim_get_wavefunction", "sim0", "c_mp", "x0", keep="x2"),
             _c("wf_eq", "x1", "x2"),
             _c("sim_get_wavefunction", "sim0", "c_gate", "x0"),
             _c("sim_get_wavefunction", "sim0", "c_reset", "x0"),
             _c("sim_get_wavefunction", "sim0", "c_only_mp", "x0"),
             _c("sim_get_wavefunction", "sim0", "c_mp", "w0"),
             _c("gop_apply", "o_mp", "x0"),
             _c("gop_apply", "o_mp", "x0"),
             _c("sim_run_and_measure", "sim0", "c_mp", v=[{"i": 5}]),
             _c("sim_exact_expectation", "sim0", "c_mp", "t0"),
             _c("sim_distribution", "sim0", "c_mp", v=[{"none": 1}]),
             _c("wf_amplitudes", "x0")]
    return {"pool": _SIM_POOL, "calls": calls, "tag": "simulator-fixed"}


def sim_history_arrays():
    """explicit initial states that are raw arrays of the pool: complex (shared with nothing, and the very array
    inside a live Wavefunction) and real"""
    calls = [_c("sim_get_wavefunction", "sim0", "c_mp", "a_complex", keep="x0"),
             _c("sim_get_wavefunction", "sim0", "c_mp", "a_complex"),
             _c("sim_get_wavefunction", "sim0", "c_mp", "a_of_w0", keep="x1"),
             _c("wf_str", "w0"),
             _c("sim_get_wavefunction", "sim0", "c_mp", "a_of_w0"),
             _c("sim_get_wavefunction", "sim0", "c_mp", "a_real"),
             _c("sim_get_wavefunction", "sim0", "c_gate", "a_complex"),
             _c("sim_get_wavefunction", "sim0", "c_reset", "a_complex"),
             _c("sim_get_wavefunction", "sim0", "c_only_mp", "a_of_w0"),
             _c("gop_apply", "o_mp", "a_complex"),
             _c("gop_apply", "o_mp", "a_of_w0"),
             _c("gop_apply", "o_mp", "a_real"),
             _c("wf_probabilities", "w0"),
             _c("sim_get_wavefunction0", "sim0", "c_only_mp")]
    return {"pool": _SIM_POOL, "calls": calls, "tag": "simulator-fixed"}


def gen(rng, tier):
    n = {"quick": 260, "search": 200}.get(tier, 4000)
    yield f1_history()
    yield sim_history_stages()
    yield sim_history_arrays()
    for _ in range(n):
        if rng.random() < 0.2:
            pool = g_sim_pool(rng)
            calls = g_calls(rng, pool, rng.randint(8, 30), focus=["simulator", "simulator", rng.choice(["wavefunction", "gate", "circuit"])])
            yield {"pool": pool, "calls": calls, "tag": "simulator-stream"}
            continue
        pool = g_pool(rng)
        calls = g_calls(rng, pool, rng.randint(5, 30))
        yield {"pool": pool, "calls": calls}


# ============================================================================= running a history
def snapshot_all(pool, W):
    return [(n, W.oid(o), W.w(o), W.memo(o)) for n, (o, _) in pool.items()]


def arg_key(a):
    return ("o", a["o"]) if "o" in a else ("v", repr(a["v"]))


def arg_text(a):
    return a["o"] if "o" in a else repr(a["v"])


def run_case(inp):
    pool = build_pool(inp["pool"])
    W = Walker()
    VW = Walker(ids=False)
    store0 = store = snapshot_all(pool, W)
    dc = {}                     # name -> value-only walk of a deep copy taken while the object had its current value
    failures, known = [], []
    steps = []                  # (op, args, keep-or-None, raised, result tree, post store)
    seen_q = {}
    touched = collections.Counter()
    skipped = raised_n = 0
    fam_hist = collections.Counter()
    for call in inp["calls"]:
        op = call["op"]
        fn, kinds = OPS[op]
        if any("o" in a and a["o"] not in pool for a in call["a"]) or (call.get("keep") and call["keep"] in pool):
            skipped += 1        # refers to a result that was never bound (the binding call raised)
            continue
        vals = [pool[a["o"]][0] if "o" in a else val(a["v"]) for a in call["a"]]
        for n, (o, t) in pool.items():
            if n not in dc:
                dc[n] = strip(VW.w(copy.deepcopy(o))) if t != "globals" else strip(VW.w(o))
        pre = {n: strip(t) for n, _, t, _ in store}
        status, out = outcome(fn, *vals, timeout=5)
        raised = status != "ok"
        res = T_("raised", S_(str(out))) if raised else strip(VW.w(out))
        keep = call.get("keep")
        if keep and not raised:
            pt = pool_type_of(op, out)
            if isinstance(out, Wavefunction) and isinstance(out._amplitude_vector, np.ndarray) and any(
                    np.shares_memory(out._amplitude_vector, x) for x in
                    [getattr(v, "_amplitude_vector", v) for v in vals] if isinstance(x, np.ndarray)) and not any(v is out for v in vals):
                pt = None       # Wavefunction(complex ndarray) keeps the caller's buffer (recorded observation, not a pool object)
            if pt is None:
                keep = None
            else:
                pool[keep] = [out, pt]
        else:
            keep = None
        post = snapshot_all(pool, W)
        # ---- independent oracle: deep copies taken before the call against the live objects after it
        recv = target = None
        if op in MUTATORS:
            a = call["a"][MUTATORS[op][0]]
            target = pool[a["o"]][0] if "o" in a else None
            if not (raised and MUTATORS[op][1]):
                recv = target
        for n, _, t, _ in post:
            if n == keep:
                continue
            live = strip(t)
            if live != dc[n]:
                if recv is None or pool[n][0] is not recv:
                    known.append(False)
                    failures.append(f"step {len(steps)} {op}({', '.join(arg_text(x) for x in call['a'])})"
                                    f"{' raised ' + str(out) if raised else ''}: object {n} ({pool[n][1]}) changed: "
                                    + str(first_diff(dc[n], live)))
                del dc[n]
        if op not in MUTATORS:
            qk = (op, tuple(arg_key(a) for a in call["a"]), tuple(pre[a["o"]] for a in call["a"] if "o" in a))
            if qk in seen_q and seen_q[qk] != (raised, res):
                known.append(False)
                failures.append(f"step {len(steps)} {op}({', '.join(arg_text(x) for x in call['a'])}): the same call on the "
                                "same arguments returned a different result: " + str(first_diff(seen_q[qk][1], res, "result")))
            seen_q.setdefault(qk, (raised, res))
        for a in call["a"]:
            if "o" in a:
                touched[a["o"]] += 1
        raised_n += raised
        fam_hist[FAMILY[op.split("_")[0]]] += 1
        steps.append((op, call["a"], keep, raised, res, post))
        store = post

    # ---- Coq literal; textually identical snapshots / entries / stores are bound once
    defs, names = [], {}

    def share(prefix, text):
        if text not in names:
            names[text] = f"{prefix}{len(names)}"
            defs.append(f"let {names[text]} := {text} in")
        return names[text]

    def coq_store(st):
        ents = []
        for n, oid, t, memo in st:
            v = share("v", coq_tree(t))
            m = clist(memo, lambda kv: cpair(cstring(kv[0]), share("v", coq_tree(kv[1]))))
            ents.append(share("e", f"E {cstring(n)} {cz(oid)} {v} {m}"))
        return share("s", clist(ents))

    def coq_arg(a):
        if "o" in a:
            return f"O_ {cstring(a['o'])}"
        return "V_ " + share("v", coq_tree(strip(VW.w(val(a["v"])))))

    s0 = coq_store(store0)
    coq_steps = []
    for op, args, keep, raised, res, post in steps:
        c = f"Call {cstring(op)} {clist(args, coq_arg)} {copt(keep, cstring)}"
        coq_steps.append(f"Step ({c}) {cbool(raised)} {share('v', coq_tree(res))} {coq_store(post)}")
    body = f"hist_check {s0} {clist(coq_steps)}"
    chk = "(" + "\n  ".join(defs) + "\n  " + body + ")"
    n_exec = len(steps)
    nontrivial = n_exec >= 5 and len(touched) >= 3 and any(v >= 2 for v in touched.values())
    fams = sorted(fam_hist, key=lambda f: -fam_hist[f])
    kind = inp.get("tag") or ("short" if n_exec < 5 else "+".join(sorted(fams[:2])))
    return dict(chk=chk, oracle_ok=not failures, oracle_msg="; ".join(failures[:3]),
                sig=None, nontrivial=nontrivial, kind=kind)


def w_f1():
    d = D.MeasurementOutcomeDistribution({"00": 0.25, "01": 0.25, "10": 0.25, "11": 0.25})
    before = dict(d.distribution_dict)
    sub = d.subdistribution([0])
    bad = dict(d.distribution_dict) != before
    return bad, f"subdistribution([0]) of a uniform 2-qubit distribution -> {sub.distribution_dict}; source afterwards {d.distribution_dict}"


def w_f29():
    a, b = sympy.Symbol("alpha"), sympy.Symbol("beta")
    wf = Wavefunction(sympy.Matrix([a, 0.5, 0.5, b]))
    before = list(wf)
    st, res = outcome(wf.__setitem__, 1, [1.0, 1.0])
    after = list(wf)
    return st == "err" and after != before, f"wf=Wavefunction(Matrix([alpha,0.5,0.5,beta])); wf[1]=[1.0,1.0] -> {st} {res}; entries afterwards {after}"


def w_f37():
    wf = Wavefunction(np.array([0.6, -0.8j, 0, 0], dtype=complex))
    before = [complex(z) for z in wf]
    st, res = outcome(wf.__setitem__, slice(0, 2), [0.5, sympy.Symbol("gamma")])
    after = [complex(z) for z in wf]
    return st == "err" and after != before, f"wf=Wavefunction([0.6,-0.8j,0,0]); wf[0:2]=[0.5,gamma] -> {st} {res}; entries afterwards {after}"


if __name__ == "__main__":
    H.main(gen, run_case, {"F1": w_f1, "F29": w_f29, "F37": w_f37})
