"""C17 correspondence harness: MeasurementOutcomeDistribution (constructor, subdistribution,
save/load) against coq/Stats/Dist.v, and the distance measures (laws by oracle, values by
`interval` goals against coq/Stats/DistReal.v)."""
import itertools, json, math, os, tempfile, warnings
import numpy as np
from hlib import *
from orquestra.quantum.distributions import (MeasurementOutcomeDistribution, compute_mmd,
    compute_clipped_negative_log_likelihood, compute_jensen_shannon_divergence,
    evaluate_distribution_distance, save_measurement_outcome_distribution,
    load_measurement_outcome_distribution)

warnings.simplefilter("ignore")

H = Harness("C17", ["OQ.Base.CaseEq", "OQ.Stats.Dist", "OQ.Stats.DistCases", "OQ.Stats.DistReal"],
            "kinds: make (constructor on tuple / binary-string / comma-string keys, binary and multi-digit outcomes incl. "
            ">= 10, normalize on/off; weights dyadic with power-of-two total: exact, arbitrary or within 1e-9 of 1: "
            "1e-12), make-tiny (valid dictionaries whose total is below / one ulp below / exactly at / just above "
            "sys.float_info.min = 2^-1022, denormal dyadic weights, power-of-two totals from 2^-1022 up so that every float "
            "operation is exact, normalize on and off) and make-invalid (empty, negative weight incl. magnitudes down to 2^-100, unequal key lengths, all-zero, unparsable string); "
            "sub (every subset/order of <= 5 qubits on 1-5 subsystems, plus sub-long: non-monotone lists of 4-6 qubits on 4-7 "
            "subsystems incl. first/last spanning len-1 with the middle shuffled or replaced, on outcomes with a distinct "
            "digit per position; source snapshotted before/after) and sub-invalid "
            "(empty, duplicate, out-of-range qubit lists); saveload (file round trip; one subsystem with outcomes >= 10 "
            "is signature F26); dist (pairs of binary distributions: mmd / clipped nll / js laws, values certified by "
            "interval goals); non-trivial = at least two outcomes (and at least two projected outcomes for sub)",
            preamble="Require Import Coq.Reals.Reals Coq.micromega.Lra Coq.Lists.List Coq.QArith.QArith.\n"
                     "From Interval Require Import Tactic.\nImport ListNotations.\nOpen Scope list_scope.")

ERRMAP = {"RuntimeError": "RuntimeErr", "ValueError": "ValueErr", "IndexError": "IndexErr"}
TOL = Fraction(1, 10 ** 12)


# ----------------------------------------------------------------------------- literals
def ckey(k): return clist(k, cnat)
def cdist(items): return clist(items, lambda kv: cpair(ckey(kv[0]), cq(kv[1])))
def craw(items):
    def one(kv):
        k, v = kv
        return cpair(f"(KStr {cstring(k)})" if isinstance(k, str) else f"(KTup {ckey(k)})", cq(v))
    return clist(items, one)
def cres(st, out):
    if st == "ok":
        return f"(Ok {cdist(out)})"
    return f"(Err {ERRMAP[out]})" if out in ERRMAP else None
GOAL_N = [0]
def creal(x):
    fr = Fraction(x)
    return f"({fr.numerator} / {fr.denominator})" if fr.denominator != 1 else f"({fr.numerator})"
def items_of(D): return [(tuple(int(x) for x in k), float(v)) for k, v in D.distribution_dict.items()]
def pykey(k): return tuple(k) if isinstance(k, list) else k
def pydict(items): return {pykey(k): v for k, v in items}


# ----------------------------------------------------------------------------- generators
def gen_keys(rng, n, m, multi):
    """m distinct outcome tuples on n subsystems; multi-digit outcomes include values >= 10"""
    pool = [0, 1] if not multi else [0, 1, 2, 3, 7, 9, 10, 11, 12, 25]
    seen, out = set(), []
    tries = 0
    while len(out) < m and tries < 200:
        tries += 1
        k = tuple(rng.choice(pool) for _ in range(n))
        if k not in seen:
            seen.add(k); out.append(list(k))
    return out

def gen_weights(rng, m, mode):
    if mode == "dyadic":          # c_i / 2^e * 2^j, sum c_i = 2^e  => total 2^j, every float operation exact
        e = rng.randint(max(1, (m - 1).bit_length()), 8)
        S = 2 ** e
        cuts = sorted(rng.choice(range(S + 1)) for _ in range(m - 1))
        cs = [b - a for a, b in zip([0] + cuts, cuts + [S])]
        j = rng.choice([0, 0, 0, 1, 2, 3, -1, -2, 5])
        return [c * 2.0 ** j / S for c in cs]
    if mode == "near1":           # totals close to 1: exercises math.isclose
        d = rng.choice([2.0 ** -31, 2.0 ** -29, -2.0 ** -31, -2.0 ** -28, 2.0 ** -40, 2.0 ** -20])
        ws = gen_weights(rng, m, "dyadic0")
        i = rng.randrange(m)
        ws[i] = ws[i] + d if ws[i] + d >= 0 else ws[i] - d
        return ws
    if mode == "dyadic0":
        S = 2 ** 8
        cuts = sorted(rng.choice(range(1, S)) for _ in range(m - 1))
        return [(b - a) / S for a, b in zip([0] + cuts, cuts + [S])]
    ws = [rng.choice([0.0, rng.uniform(0.01, 3.0), rng.uniform(0.01, 3.0), rng.uniform(1e-6, 1e-3)]) for _ in range(m)]
    if not any(ws):
        ws[rng.randrange(m)] = rng.uniform(0.01, 3.0)
    return ws

FMIN_EXP = 1022          # sys.float_info.min == 2.0 ** -1022

def gen_tiny_weights(rng, m):
    """weights of a valid dictionary whose total lies around sys.float_info.min; all sums are exact in binary64
    (multiples of 2^-1074 below 2^-1020) and the totals that get normalised are powers of two (1.0/total and the
    products are exact)"""
    cat = rng.choice(["below", "below", "ulp-below", "at", "above"])
    if cat == "below":                       # c_i * 2^-e with sum c_i < 2^(e-1022)
        e = rng.choice([1030, 1040, 1060, 1074])
        cap = min(2 ** (e - FMIN_EXP) - 1, 10 ** 6)
        cs = [rng.randint(0, max(1, cap // m)) for _ in range(m)]
        if not any(cs):
            cs[rng.randrange(m)] = 1
        return [c * 2.0 ** -e for c in cs], cat
    if cat == "ulp-below":                   # total = 2^-1022 - j * 2^-1074
        j = rng.randint(1, 5)
        ws = [2.0 ** -1023, 2.0 ** -1023 - j * 2.0 ** -1074] + [0.0] * (m - 2)
        return (ws[:m] if m >= 2 else [2.0 ** -1022 - j * 2.0 ** -1074]), cat
    shift = 0 if cat == "at" else rng.choice([1, 2, 10])      # total = 2^(-1022 + shift)
    S = 2 ** 8
    cuts = sorted(rng.choice(range(S + 1)) for _ in range(m - 1))
    cs = [b - a for a, b in zip([0] + cuts, cuts + [S])]
    return [c * 2.0 ** (-FMIN_EXP - 8 + shift) for c in cs], cat

def fmt_key(rng, k, style):
    if style == "tuple":
        return list(k)
    if style == "bin" and all(x < 10 for x in k):
        return "".join(map(str, k))
    if style == "comma" and len(k) >= 2:
        return ",".join(map(str, k))
    if style == "mixed":
        return fmt_key(rng, k, rng.choice(["tuple", "bin", "comma"]))
    return list(k)

def gen_items(rng, wmode=None, multi=None, nmax=5):
    n = rng.randint(1, nmax)
    multi = rng.random() < 0.4 if multi is None else multi
    cap = (2 if not multi else 10) ** n
    m = rng.randint(1, min(8, cap))
    keys = gen_keys(rng, n, m, multi)
    m = len(keys)
    wmode = wmode or rng.choice(["dyadic", "dyadic", "dyadic", "float", "near1"])
    ws = gen_weights(rng, m, wmode)
    style = rng.choice(["tuple", "tuple", "bin", "comma", "mixed"])
    return [[fmt_key(rng, k, style), w] for k, w in zip(keys, ws)], wmode, n

def gen_invalid(rng):
    items, _, n = gen_items(rng, "dyadic")
    what = rng.choice(["empty", "negative", "negative", "unequal", "unequal", "zero", "parse", "dupkey", "emptykey"])
    if what == "empty":
        items = []
    elif what == "negative":
        i = rng.randrange(len(items))
        items[i][1] = -rng.choice([0.5, 0.25, 2.0 ** -20, 3.0, 2.0 ** -44, 2.0 ** -60, 2.0 ** -100])   # incl. round-off sized negatives
    elif what == "unequal":
        k = items[rng.randrange(len(items))][0]
        other = (list(k) + [rng.choice([0, 1])]) if not isinstance(k, str) else (k + (",1" if "," in k else "1"))
        if rng.random() < 0.3 and len(k) > 1 and not isinstance(k, str):
            other = list(k)[:-1]
        items.insert(rng.randint(0, len(items)), [other, 0.25])
    elif what == "zero":
        items = [[k, 0.0] for k, _ in items]
    elif what == "parse":
        items.insert(rng.randint(0, len(items)), [rng.choice(["1,,0", ",", "0,1,", ",1"]), 0.25])
    elif what == "dupkey":      # two spellings of one outcome: the later value wins, the first position stays
        k = [rng.choice([0, 1]) for _ in range(max(2, n))]
        items = [["".join(map(str, k)), 0.25], [[1 - x for x in k], 0.5], [",".join(map(str, k)), 0.75], [list(k), 0.5]]
    elif what == "emptykey":
        items = [["", 0.5]]
    return items, what

def gen(rng, tier):
    n = {"quick": 500, "thorough": 12000, "search": 300}.get(tier, 500)
    for _ in range(n):
        r = rng.random()
        if r < 0.04:
            items, _, _ = gen_items(rng, "dyadic")
            ws, cat = gen_tiny_weights(rng, len(items))
            yield dict(kind="make", items=[[k, w] for (k, _), w in zip(items, ws)], normalize=rng.random() < 0.7,
                       wmode="dyadic", tiny=cat)
        elif r < 0.22:
            items, wmode, _ = gen_items(rng)
            yield dict(kind="make", items=items, normalize=rng.random() < 0.8, wmode=wmode)
        elif r < 0.32:
            items, what = gen_invalid(rng)
            yield dict(kind="make", items=items, normalize=rng.random() < 0.8, wmode="dyadic", what=what)
        elif r < 0.52:
            items, wmode, nn = gen_items(rng, rng.choice(["dyadic", "dyadic", "float"]))
            qs = rng.sample(range(nn), rng.randint(1, nn))
            if wmode == "dyadic" and rng.random() < 0.12:      # a source with a total below float_min (built with normalize=False)
                ws, cat = gen_tiny_weights(rng, len(items))
                if cat in ("below", "ulp-below"):
                    yield dict(kind="sub", items=[[k, w] for (k, _), w in zip(items, ws)], normalize=False, wmode="dyadic", qs=qs, tiny=cat)
                    continue
            yield dict(kind="sub", items=items, normalize=rng.random() < 0.85, wmode=wmode, qs=qs)
        elif r < 0.62:
            # long non-monotone qubit lists on 4-7 subsystems; every outcome has a distinct digit per position and
            # the weights are non-uniform, so any reordering or substitution of a listed qubit changes the marginal
            nn = rng.randint(4, 7)
            L = rng.randint(4, min(6, nn))
            m = rng.randint(2, 5)
            keys = []
            while len(keys) < m:
                k = rng.sample([0, 1, 2, 3, 4, 5, 6, 7, 8, 9, 10, 11, 12], nn)
                if k not in keys:
                    keys.append(k)
            ws = gen_weights(rng, m, "dyadic")
            shape = rng.choice(["span-shuffled", "span-shuffled", "span-replaced", "perm", "perm"])
            if shape == "span-replaced" and nn == L:
                shape = "span-shuffled"
            if shape == "perm":
                qs = rng.sample(range(nn), L)
            else:                      # first and last fixed with last - first = L - 1, middle disturbed
                a = rng.randint(0, nn - L)
                mid = list(range(a + 1, a + L - 1))
                if shape == "span-shuffled":
                    while mid == sorted(mid):
                        rng.shuffle(mid)
                else:
                    outside = [q for q in range(nn) if q < a or q > a + L - 1]
                    for i in rng.sample(range(len(mid)), rng.randint(1, min(len(mid), len(outside)))):
                        mid[i] = outside.pop(rng.randrange(len(outside)))
                    if rng.random() < 0.5:
                        rng.shuffle(mid)
                qs = [a] + mid + [a + L - 1]
            yield dict(kind="sub", items=[[k, w] for k, w in zip(keys, ws)], normalize=True, wmode="dyadic", qs=qs, shape=shape)
        elif r < 0.70:
            items, wmode, nn = gen_items(rng, "dyadic")
            what = rng.choice(["empty", "dup", "range", "range1"])
            if what == "empty":
                qs = []
            elif what == "dup":
                qs = rng.sample(range(nn), rng.randint(1, nn))
                qs.insert(rng.randint(0, len(qs)), rng.choice(qs))
            elif what == "range":
                qs = rng.sample(range(nn), rng.randint(0, nn - 1)) + [nn + rng.randint(0, 2)]
                rng.shuffle(qs)
            else:
                qs = [nn]
            yield dict(kind="sub", items=items, normalize=True, wmode=wmode, qs=qs, what=what)
        elif r < 0.84:
            one = rng.random() < 0.15
            items, wmode, nn = gen_items(rng, rng.choice(["dyadic", "float"]), multi=True if one else None, nmax=1 if one else 5)
            yield dict(kind="saveload", items=[[list(k) if not isinstance(k, str) else k, w] for k, w in items], wmode=wmode)
        else:
            nn = rng.randint(1, 3)
            def one_dist():
                m = rng.randint(1, min(4, 2 ** nn))
                keys = gen_keys(rng, nn, m, False)
                return [[k, w] for k, w in zip(keys, gen_weights(rng, len(keys), "dyadic0"))]
            sig = rng.choice([1.0, 0.5, 2.0, 4.0, [1.0, 2.0], [0.5, 4.0, 1.0]])
            yield dict(kind="dist", p=one_dist(), q=one_dist(), sigma=sig, epsilon=rng.choice([1e-9, 2.0 ** -10, 2.0 ** -4]))


# ----------------------------------------------------------------------------- oracle helpers
def parse_key_py(k):
    """independent reading of a key: tuple of ints, or None if unparsable (digits and commas only)"""
    if isinstance(k, str):
        parts = k.split(",") if "," in k else list(k)
        if any((not p.isdigit()) for p in parts):
            return None
        return tuple(int(p) for p in parts)
    return tuple(k)

def frac_items(items):
    return [(k, Fraction(v)) for k, v in items]


def run_make(inp):
    items, normalize = inp["items"], inp["normalize"]
    exact = inp["wmode"] == "dyadic"
    st, out = outcome(lambda: items_of(MeasurementOutcomeDistribution(pydict(items), normalize=normalize)))
    # independent expectation
    parsed = [parse_key_py(pykey(k)) for k, _ in items]
    pre = {}
    if None not in parsed:
        for k, (_, w) in zip(parsed, items):
            pre[k] = Fraction(w)
    total = sum(pre.values())
    ok_input = (None not in parsed and len(pre) > 0 and all(v >= 0 for v in pre.values())
                and len({len(k) for k in pre}) == 1 and all(x >= 0 for k in pre for x in k))
    already = ok_input and abs(total - 1) <= Fraction(1, 10 ** 9) * max(total, 1)
    too_small = 0 < total < Fraction(1, 2 ** FMIN_EXP)            # "too small values": refused when normalisation is on
    ok, msg = True, ""
    if ok_input and ((total > 0 and not too_small) or not normalize):
        if st != "ok":
            ok, msg = False, f"valid input rejected with {out}"
        else:
            got = dict(out)
            tol = 0 if exact else Fraction(1, 10 ** 9)
            if [k for k, _ in out] != list(pre.keys()):
                ok, msg = False, f"keys {list(got)} differ from input keys {list(pre)}"
            elif any(v < 0 for v in got.values()):
                ok, msg = False, "negative probability"
            elif normalize or already:
                s = sum(Fraction(v) for v in got.values())
                if abs(s - 1) > (Fraction(2, 10 ** 9) if (not exact or already) else 0):
                    ok, msg = False, f"normalised object sums to {float(s)!r}"
                elif any(abs(Fraction(got[k]) * total - pre[k]) > tol * max(total, 1) for k in pre) and not already:
                    ok, msg = False, f"proportions changed: {items} -> {out}"
                elif already and any(Fraction(got[k]) != pre[k] for k in pre):
                    ok, msg = False, f"already-normalised input was changed: {items} -> {out}"
            elif any(Fraction(got[k]) != pre[k] for k in pre):
                ok, msg = False, f"normalize=False changed the weights: {items} -> {out}"
    else:
        if st == "ok":
            ok, msg = False, f"invalid input {items} accepted as {out}"
    coq = cres(st, out)
    model_ok = coq is not None and all(isinstance(k, str) or all(x >= 0 for x in k) for k, _ in items)
    chk = None
    if model_ok:
        chk = (f"make_eqb {craw(items)} {cbool(normalize)} {coq}" if exact else
               f"make_close {cq(TOL)} {craw(items)} {cbool(normalize)} {coq}")
    kind = "make" + ("-invalid:" + inp["what"] if "what" in inp else "-tiny:" + inp["tiny"] if "tiny" in inp else
                     "-" + inp["wmode"]) + ("" if st == "ok" else "-rejected")
    return dict(chk=chk, oracle_ok=ok, oracle_msg=msg, kind=kind, nontrivial=len(pre) >= 2)


def run_sub(inp):
    items, normalize, qs = inp["items"], inp["normalize"], inp["qs"]
    exact = inp["wmode"] == "dyadic"
    D = MeasurementOutcomeDistribution(pydict(items), normalize=normalize)
    before = items_of(D)
    st, out = outcome(lambda: items_of(D.subdistribution(list(qs))))
    after = items_of(D)
    n = len(before[0][0])
    qs_ok = len(qs) > 0 and len(set(qs)) == len(qs) and all(0 <= q < n for q in qs)
    ok, msg = True, ""
    if after != before:
        ok, msg = False, f"source changed by subdistribution({qs}): {before} -> {after}"
    elif qs_ok:
        if st != "ok":
            ok, msg = False, f"subdistribution({qs}) of {before} raised {out}"
        else:
            fib = {}
            for k, v in before:
                nk = tuple(k[i] for i in qs)
                fib[nk] = fib.get(nk, 0) + Fraction(v)
            got = {k: Fraction(v) for k, v in out}
            tol = 0 if exact else Fraction(1, 10 ** 9)
            if len(got) != len(out) or set(got) != set(fib):
                ok, msg = False, f"marginal outcomes {[k for k, _ in out]} expected {list(fib)} (qubits {qs})"
            elif any(abs(got[k] - fib[k]) > tol for k in fib):
                ok, msg = False, f"marginal {out} is not the fibre sum {[(k, float(v)) for k, v in fib.items()]} (qubits {qs}, source {before})"
            elif abs(sum(got.values()) - sum(Fraction(v) for _, v in before)) > tol:
                ok, msg = False, "marginal mass differs from source mass"
    else:
        if st == "ok":
            ok, msg = False, f"bad qubit list {qs} accepted on {n} subsystems"
    coq = cres(st, out)
    chk = None
    if coq is not None and all(q >= 0 for q in qs):
        head = "sub_eqb" if exact else f"sub_close {cq(TOL)}"
        chk = f"{head} {clist(qs, cnat)} {cdist(before)} {coq} {cdist(after)}"
        if exact:
            chk += f" && make_eqb {craw(items)} {cbool(normalize)} (Ok {cdist(before)})"
    nproj = len({tuple(k[i] for i in qs) for k, _ in before}) if qs_ok else 0
    kind = "sub" + ("-invalid:" + inp["what"] if "what" in inp else
                    f"-long-{inp['shape']}" if "shape" in inp else "-tiny-source" if "tiny" in inp else f"-{len(qs)}of{n}-{inp['wmode']}")
    return dict(chk=chk, oracle_ok=ok, oracle_msg=msg, kind=kind, nontrivial=len(before) >= 2 and (nproj >= 2 or not qs_ok))


def run_saveload(inp):
    items = inp["items"]
    D = MeasurementOutcomeDistribution(pydict(items))
    before = items_of(D)
    n = len(before[0][0])
    sig = "F26" if n == 1 and any(k[0] >= 10 for k, _ in before) else None
    with tempfile.TemporaryDirectory() as td:
        fn = os.path.join(td, "d.json")
        save_measurement_outcome_distribution(D, fn)
        written = list(json.load(open(fn))["measurement_outcome_distribution"].keys())
        st, out = outcome(lambda: items_of(load_measurement_outcome_distribution(fn)))
    ok, msg = True, ""
    if st != "ok":
        ok, msg = False, f"load after save of {before} raised {out}"
    elif out != before:
        ok, msg = False, f"save/load changed {before} into {out}"
    coq = cres(st, out)
    chk = None if coq is None else f"saveload_eqb {cdist(before)} {clist(written, cstring)} {coq}"
    return dict(chk=chk, oracle_ok=ok, oracle_msg=msg, sig=sig, kind="saveload" + ("-1sub>=10" if sig else f"-{n}sub"),
                nontrivial=len(before) >= 2)


def entropy(ps):
    return -sum(p * math.log(p) for p in ps if p > 0)


def run_dist(inp):
    P = MeasurementOutcomeDistribution(pydict(inp["p"]))
    Q = MeasurementOutcomeDistribution(pydict(inp["q"]))
    sigma, eps = inp["sigma"], inp["epsilon"]
    pm, pe = {"sigma": np.array(sigma) if isinstance(sigma, list) else sigma}, {"epsilon": eps}
    ev = evaluate_distribution_distance
    m_pq, m_qp, m_pp = (float(ev(a, b, compute_mmd, distance_measure_parameters=pm)) for a, b in ((P, Q), (Q, P), (P, P)))
    n_pq, n_qp = (float(ev(a, b, compute_clipped_negative_log_likelihood, distance_measure_parameters=pe)) for a, b in ((P, Q), (Q, P)))
    j_pq, j_qp = (float(ev(a, b, compute_jensen_shannon_divergence, distance_measure_parameters=pe)) for a, b in ((P, Q), (Q, P)))
    keys = set(P.distribution_dict) | set(Q.distribution_dict)
    k = len(keys)
    hp = entropy(P.distribution_dict.values())
    hq = entropy(Q.distribution_dict.values())
    ok, msg = True, ""
    t = 1e-12
    if abs(m_pq - m_qp) > t: ok, msg = False, f"mmd not symmetric: {m_pq!r} vs {m_qp!r}"
    elif m_pq < -t: ok, msg = False, f"mmd negative: {m_pq!r}"
    elif abs(m_pp) > t: ok, msg = False, f"mmd(p,p) = {m_pp!r}"
    elif n_pq < hp - math.log(1 + k * eps) - t: ok, msg = False, f"nll {n_pq!r} below entropy bound {hp - math.log(1 + k * eps)!r}"
    elif n_qp < hq - math.log(1 + k * eps) - t: ok, msg = False, f"nll {n_qp!r} below entropy bound {hq - math.log(1 + k * eps)!r}"
    elif abs(j_pq - j_qp) > t: ok, msg = False, f"js not symmetric: {j_pq!r} vs {j_qp!r}"
    elif abs(j_pq - (n_pq + n_qp) / 2) > t: ok, msg = False, f"js {j_pq!r} is not the mean of the two nll {(n_pq + n_qp) / 2!r}"
    # model side: [ks] really is the union of the outcomes (vm_compute), and the real-valued model agrees with the
    # floats within 1e-12 (interval)
    ip, iq = items_of(P), items_of(Q)
    ks = sorted(keys)
    kern = (f"gauss_multi {clist(sigma, creal)}" if isinstance(sigma, list) else f"gauss {creal(sigma)}")
    GOAL_N[0] += 1
    def lem(name, expr, val):
        return (f"Lemma {name} : (Rabs ({expr} - {creal(val)}) <= 1 / 1000000000000)%R.\n"
                f"Proof. unfold P, Qd, ks. dist_reduce. interval with (i_prec 80). Qed.\n")
    goal = (f"Module G{GOAL_N[0]}.\nDefinition P : Dist.dist := {cdist(ip)}.\nDefinition Qd : Dist.dist := {cdist(iq)}.\n"
            f"Definition ks : list Dist.key := {clist(ks, ckey)}.\n"
            + lem("mmd_ok", f"mmd ({kern}) ks (prob P) (prob Qd)", m_pq)
            + lem("nll_ok", f"nll {creal(eps)} ks (prob P) (prob Qd)", n_pq)
            + (lem("js_ok", f"js {creal(eps)} ks (prob P) (prob Qd)", j_pq) if k <= 4 else "")
            + f"End G{GOAL_N[0]}.")
    chk = f"union_ok {cdist(ip)} {cdist(iq)} {clist(ks, ckey)}"
    return dict(chk=chk, goal=goal, oracle_ok=ok, oracle_msg=msg,
                kind=f"dist-{'multi' if isinstance(sigma, list) else 'single'}sigma",
                nontrivial=P.distribution_dict != Q.distribution_dict)


def run_case(inp):
    return {"make": run_make, "sub": run_sub, "saveload": run_saveload, "dist": run_dist}[inp["kind"]](inp)


# ----------------------------------------------------------------------------- witnesses
def w_f1():
    d = MeasurementOutcomeDistribution({(0, 1): 0.25, (1, 1): 0.25, (1, 0): 0.5})
    snap = dict(d.distribution_dict)
    d.subdistribution([1])
    return d.distribution_dict != snap, f"source after subdistribution([1]): {d.distribution_dict} (was {snap})"

def w_f2():
    st, out = outcome(lambda: MeasurementOutcomeDistribution({(10, 1): 0.5, (2, 3): 0.5}).subdistribution([0]).distribution_dict)
    bad = st != "ok" or dict(out) != {(10,): 0.5, (2,): 0.5}
    return bad, f"{{(10,1):.5,(2,3):.5}}.subdistribution([0]) -> {out}"

def w_f26():
    D = MeasurementOutcomeDistribution({(10,): 0.5, (2,): 0.5})
    with tempfile.TemporaryDirectory() as td:
        fn = os.path.join(td, "d.json")
        save_measurement_outcome_distribution(D, fn)
        st, out = outcome(lambda: load_measurement_outcome_distribution(fn).distribution_dict)
    bad = st != "ok" or dict(out) != D.distribution_dict
    return bad, f"save/load of {{(10,): .5, (2,): .5}} -> {out}"

H.main(gen, run_case, {"F1": w_f1, "F2": w_f2, "F26": w_f26})
