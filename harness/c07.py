"""C07 correspondence harness: gate modifiers (controlled, dagger, power, exp, replace_params).

Structure (exact, compared inside Coq): the object a chain of method calls returns - class nesting, control
counts, exponents, and what `name`, `num_qubits`, `params` report - or ValueError, against the model's smart
constructors (Circ/GateAst.v) applied to the same chain.  Matrices of gates with Gaussian-rational entries
under controlled/dagger/non-negative integer powers are compared exactly with the model's `sem`.
Independent oracle (numpy/scipy, never the model): the relation the last call of the chain promises
(adjoint, diag(I, U), matrix_power, inverse, q-th power of a root, expm), evaluated only for small matrices
and under a per-call alarm because sympy's Matrix.exp()/fractional ** can hang."""
import itertools
import numpy as np, sympy, scipy.linalg
from hlib import *
from orquestra.quantum.circuits import X, Z, S, T, SX, RX, RZ, CNOT, CustomGateDefinition
from orquestra.quantum.circuits._gates import (MatrixFactoryGate, ControlledGate, Dagger, Exponential, Power)

THETA = sympy.Symbol("theta")
PHI = sympy.Symbol("phi")
GAMMA = sympy.Symbol("gamma")
CP_DEF = CustomGateDefinition("cp", sympy.Matrix([[1, 0], [0, sympy.exp(sympy.I * GAMMA)]]), (GAMMA,))
# exact, unitary, not self-adjoint, not symmetric
CG_DEF = CustomGateDefinition("cg", sympy.Matrix([[0, sympy.Rational(3, 5) + sympy.Rational(4, 5) * sympy.I], [1, 0]]), ())
SUBS = {THETA: 0.4375, PHI: -1.3125, GAMMA: 0.8125}

POOL = {
    "X": lambda: X, "Z": lambda: Z, "S": lambda: S, "T": lambda: T, "SX": lambda: SX,
    "RX": lambda: RX(0.3), "RZs": lambda: RZ(THETA), "CNOT": lambda: CNOT,
    "cp": lambda: CP_DEF(0.25), "cg": lambda: CG_DEF(),
}
STRUCT_BASES = ["X", "Z", "S", "T", "SX", "RX", "RZs", "CNOT", "cp"]
EXACT_BASES = ["X", "Z", "S", "SX", "CNOT", "cg"]
MODS = [["c", 1], ["c", 2], ["d"], ["pi", 2], ["pi", -1], ["pf", 0.5], ["e"]]
ODD_MODS = [["c", 0], ["c", 3], ["pi", 0], ["pi", 3], ["pi", -2], ["pf", 0.25], ["pf", 1.5], ["pf", -0.5]]
EXACT_MODS = [["c", 1], ["c", 2], ["d"], ["pi", 2], ["pi", 3], ["pi", 0]]
PARAM_BASES = {"RX": 1, "RZs": 1, "cp": 1, "X": 0, "S": 0}
# "the gate built with the new parameters": fresh construction, not replace_params
FRESH = {"RX": RX, "RZs": RZ, "cp": CP_DEF, "X": lambda: X, "S": lambda: S}

# custom parametric definitions whose matrix is self-adjoint (or the identity) at boundary parameter values
TS, AS, BS = sympy.symbols("t a b")
_I = sympy.I
CUSTOM_DEFS = {
    "PH": CustomGateDefinition("PH", sympy.Matrix([[1, 0], [0, sympy.exp(_I * TS)]]), (TS,)),
    "POLY": CustomGateDefinition("POLY", sympy.Matrix([[1, 0], [0, 1 + _I * TS]]), (TS,)),              # not unitary
    "ROTP": CustomGateDefinition("ROTP", sympy.Matrix([[1, TS], [-TS, 1]]), (TS,)),                      # not unitary
    "ROT": CustomGateDefinition("ROT", sympy.Matrix([[sympy.cos(TS / 2), -sympy.sin(TS / 2)],
                                                     [sympy.sin(TS / 2), sympy.cos(TS / 2)]]), (TS,)),
    "PH2": CustomGateDefinition("PH2", sympy.Matrix([[1, 0, 0, 0], [0, 1, 0, 0], [0, 0, 1, 0],
                                                     [0, 0, 0, sympy.exp(_I * TS)]]), (TS,)),
    "U2": CustomGateDefinition("U2", sympy.Matrix([[1, 0, 0, 0], [0, 1 + _I * AS, 0, 0], [0, 0, 1, BS],
                                                   [0, 0, -BS, 1]]), (AS, BS)),                            # not unitary
}
PI = 3.141592653589793
# parameter rows at which the matrix is self-adjoint (boundary) and one generic row
CUSTOM_STARTS = {
    "PH": [[0], [PI], [0.0], [0.75]], "POLY": [[0], [0.75]], "ROTP": [[0], [-1.25]], "ROT": [[0], [2 * PI], [0.75]],
    "PH2": [[0], [PI], [0.75]], "U2": [[0, 0], [0.0, 0.5], [0.75, -0.25]],
}
CUSTOM_NEW = {1: [[["n", 0.3]], [["n", -1.25]], [["s", "phi"]], [["n", 0.0]]],
              2: [[["n", 0.3], ["n", 0.5]], [["n", 0.0], ["n", -1.25]], [["s", "phi"], ["n", 0.5]], [["n", 0.0], ["n", 0.0]]]}
CUSTOM_MODS = [["c", 1], ["c", 2], ["d"], ["pi", 2], ["pi", -1], ["e"]]
SLOW_EXP_NAMES = ("T", "RX", "RZ", "cp") + tuple(CUSTOM_DEFS)
NEW_PARAMS = [["n", 0.5], ["n", -1.25], ["s", "phi"]]

H = Harness("C07", ["OQ.Base.CaseEq", "OQ.Circ.GateAst", "OQ.Circ.GateAstCases"],
            "kinds: chain-dN (every chain of N calls from {controlled(1), controlled(2), dagger, power(2), power(-1), "
            "power(0.5), exp} on each of X Z S T SX RX(0.3) RZ(theta) CNOT custom(0.25); N<=3 quick, N<=4 thorough; "
            "structure and ValueError compared in Coq), chain-odd (controlled(0), other exponents), raw (objects built "
            "directly with the class constructors, then 1-2 calls), replace (replace_params after the chain vs chain after "
            "replace_params and vs the chain on a freshly built gate, numeric and symbolic new parameters), sem (exact matrices of X Z S SX CNOT custom under "
            "controlled/dagger/integer powers vs the model's matrix), custom / custom-boundary (six custom definitions - phase, "
            "polynomial non-unitary, rotation, 2-qubit, two-parameter - built at parameters where the matrix is "
            "self-adjoint (0, pi, 2 pi) or generic, calls, replace_params to generic / symbolic / boundary values, more "
            "calls, a dagger before or after; compared with the model and with the same calls on a freshly built gate; "
            "every is_hermitian flag re-checked against the matrix), bind (same through bind on symbolic parameters), suffix -num = numpy/scipy oracle evaluated on the "
            "last call, -num-skip = matrix too large (dimension > 4 with exp, > 8 without) or a gate on which sympy 1.9 is "
            "known not to answer in seconds, -num-timeout = sympy did not answer within the 5 s alarm, -num-sympyfail = "
            "sympy's Jordan form failed on a nested fractional power / exponential; "
            "non-trivial = at least two calls, or a call that re-associates")

# ----------------------------------------------------------------------------- Python side

def apply_mod(g, m):
    if m[0] == "c":
        return g.controlled(m[1])
    if m[0] == "d":
        return g.dagger
    if m[0] == "e":
        return g.exp
    if m[0] in ("pi", "pf"):
        e = int(m[1]) if m[0] == "pi" else float(m[1])
        return g.power(e)
    raise ValueError("bad modifier " + repr(m))

def apply_chain(g, chain):
    for m in chain:
        g = apply_mod(g, m)
    return g

def build_raw(t):
    """Objects built with the class constructors directly (not through the methods)."""
    if t[0] == "B":
        return POOL[t[1]]()
    if t[0] == "Ctrl":
        return ControlledGate(build_raw(t[1]), t[2])
    if t[0] == "Dag":
        return Dagger(build_raw(t[1]))
    if t[0] == "Exp":
        return Exponential(build_raw(t[1]))
    if t[0] == "Pow":
        return Power(build_raw(t[1]), int(t[2][1]) if t[2][0] == "pi" else float(t[2][1]))
    raise ValueError("bad tree " + repr(t))

def new_params(ps):
    return tuple(float(v) if k == "n" else sympy.Symbol(v) for k, v in ps)

# ----------------------------------------------------------------------------- observation -> Coq literals

def enc_param(p):
    if isinstance(p, bool):
        raise ValueError("bool parameter")
    if isinstance(p, (int, float)):
        return f"(CNum {cq(Fraction(p))})"
    p = sympy.sympify(p)
    if p.free_symbols:
        return f"(CSym {cstring(str(p))})"
    if p.is_Rational:
        return f"(CNum {cq(Fraction(int(p.p), int(p.q)))})"
    return f"(CNum {cq(Fraction(float(p)))})"

def enc_exponent(e):
    if isinstance(e, bool):
        raise ValueError("bool exponent")
    if isinstance(e, int):
        return f"(EInt {cz(e)})"
    e = float(e)
    if e > 0:
        q = round(1 / e)
        if q >= 2 and 1.0 / q == e:
            return f"(ERoot {q}%positive)"
    return f"(EOther {cstring(str(e))})"

def enc_mod(m):
    if m[0] == "c":
        return f"(MCtrl {cnat(m[1])})"
    if m[0] == "d":
        return "MDag"
    if m[0] == "e":
        return "MExp"
    return f"(MPow {enc_exponent(int(m[1]) if m[0] == 'pi' else float(m[1]))})"

def enc_gate(g):
    """Structure of the Python object, read from its fields (not from how it was requested)."""
    t = type(g)
    if t is MatrixFactoryGate:
        return (f"(Base {cstring(g.name)} {clist(g.params, enc_param)} {cnat(g.num_qubits)} {cbool(g.is_hermitian)})")
    if t is ControlledGate:
        return f"(Ctrl {enc_gate(g.wrapped_gate)} {cnat(g.num_control_qubits)})"
    if t is Dagger:
        return f"(Dag {enc_gate(g.wrapped_gate)})"
    if t is Exponential:
        return f"(Exp {enc_gate(g.wrapped_gate)})"
    if t is Power:
        return f"(Pow {enc_gate(g.wrapped_gate)} {enc_exponent(g.exponent)})"
    raise ValueError("unknown gate class " + t.__name__)

def enc_observed(res):
    """('ok', gate) -> Some (structure, name, num_qubits, params); ('err','ValueError') -> None."""
    st, g = res
    if st == "err":
        return "None" if g == "ValueError" else None
    return f"(Some ({enc_gate(g)}, {cstring(g.name)}, {cnat(g.num_qubits)}, {clist(g.params, enc_param)}))"

def has_frac_power(g):
    while type(g) is not MatrixFactoryGate:
        if type(g) is Power and not isinstance(g.exponent, int):
            return True
        g = g.wrapped_gate
    return False

def has_neg_over_frac(g):
    """F42 signature: a negative integer Power somewhere above a non-integer Power."""
    neg = False
    while type(g) is not MatrixFactoryGate:
        if type(g) is Power:
            if isinstance(g.exponent, int) and g.exponent < 0:
                neg = True
            elif not isinstance(g.exponent, int) and neg:
                return True
        g = g.wrapped_gate
    return False

def transcendental_nodes(g):
    """Number of Exponential and non-integer Power nodes."""
    n = 0
    while type(g) is not MatrixFactoryGate:
        if type(g) is Exponential or (type(g) is Power and not isinstance(g.exponent, int)):
            n += 1
        g = g.wrapped_gate
    return n

def sympy_slow(g):
    """Gates whose matrix sympy 1.9 does not produce within seconds: an exponential of a matrix with irrational
    or float entries, nested exponentials, a fractional or negative power of an exponential."""
    cl, b, pw = [], g, False
    slow = False
    while type(b) is not MatrixFactoryGate:
        if type(b) is Power and (not isinstance(b.exponent, int) or b.exponent < 0):
            pw = True
        if type(b) is Exponential and pw:
            slow = True
        cl.append(type(b).__name__)
        b = b.wrapped_gate
    n = cl.count("Exponential")
    return slow or n >= 2 or (n == 1 and b.name in SLOW_EXP_NAMES)

def classes(g):
    out = []
    while type(g) is not MatrixFactoryGate:
        out.append(type(g).__name__)
        g = g.wrapped_gate
    return out

def has_dagger_node(g):
    return "Dagger" in classes(g)

# ----------------------------------------------------------------------------- numeric oracle

TOL = 1e-8

def npmat(m):
    if m.free_symbols:
        m = m.subs(SUBS)
    return np.array([[complex(sympy.N(x)) for x in row] for row in m.tolist()], dtype=complex)

def uses_exp(g):
    return "Exponential" in classes(g)

def matrix_of(g, timeout):
    """('ok', ndarray) | ('skip', why) | ('timeout', '') | ('err', kind)."""
    d = 2 ** g.num_qubits
    if d > (4 if uses_exp(g) else 8):
        return ("skip", f"dimension {d}")
    st, v = outcome(lambda: npmat(g.matrix), timeout=timeout)
    if st == "err" and v in ("IndexError", "NotImplementedError", "Other:MatrixError") and transcendental_nodes(g) >= 2:
        # sympy 1.9: jordan_form fails on the unsimplified symbolic / float entries that an earlier exp() or
        # fractional ** produced (empty nullspace -> IndexError, "inconsistent result while computing Jordan
        # block" -> MatrixError, Matrix.exp() -> NotImplementedError): no matrix to compare
        return ("sympyfail", "")
    if st == "ok":
        if not np.all(np.isfinite(v)):
            return ("err", "non-finite entries")
        return ("ok", v)
    return ("timeout", "") if v == "Timeout" else ("err", v)

def close(a, b):
    return a.shape == b.shape and np.allclose(a, b, atol=TOL, rtol=0)

def numeric_last_step(g, m, G, timeout, fast):
    """Does G = m(g) mean what m says?  -> (status, ok, msg, f8) with status in num / num-skip / num-timeout."""
    if fast and sympy_slow(G):
        return ("num-skip", True, "sympy is too slow on this gate (quick tier)", False)
    r0 = matrix_of(g, timeout)
    if r0[0] != "ok":
        return ("num-err" if r0[0] == "err" else "num-" + r0[0], r0[0] != "err", f"matrix of the receiver: {r0[1]}", False)
    r1 = matrix_of(G, timeout)
    if r1[0] != "ok":
        return ("num-err" if r1[0] == "err" else "num-" + r1[0], r1[0] != "err", f"matrix of the result: {r1[1]}", False)
    A, B = r0[1], r1[1]
    n = A.shape[0]
    if m[0] == "d":
        ok = close(B, A.conj().T)
        return ("num", ok, "" if ok else f"dagger: matrix {B.tolist()} is not the conjugate transpose {A.conj().T.tolist()}", True)
    if m[0] == "c":
        k = m[1]
        want = np.eye(n * 2 ** k, dtype=complex)
        want[n * 2 ** k - n:, n * 2 ** k - n:] = A
        ok = close(B, want)
        return ("num", ok, "" if ok else f"controlled({k}): matrix is not diag(I, U): {B.tolist()}", False)
    if m[0] == "e":
        ok = close(B, scipy.linalg.expm(A))
        return ("num", ok, "" if ok else f"exp: matrix {B.tolist()} is not expm {scipy.linalg.expm(A).tolist()}", False)
    if m[0] == "pi":
        p = int(m[1])
        if p >= 0:
            ok = close(B, np.linalg.matrix_power(A, p))
            return ("num", ok, "" if ok else f"power({p}): matrix {B.tolist()} is not the repeated product", False)
        ok = close(B @ np.linalg.matrix_power(A, -p), np.eye(n))
        return ("num", ok, "" if ok else f"power({p}): result times the {-p}-th power is not the identity", False)
    if m[0] == "pf":
        e = float(m[1])
        q = round(1 / e) if e > 0 else 0
        if q >= 2 and 1.0 / q == e:
            ok = close(np.linalg.matrix_power(B, q), A)
            return ("num", ok, "" if ok else f"power(1/{q}): {q}-th power of the result {B.tolist()} is not the original", False)
        return ("num-skip", True, "exponent is neither an integer nor a unit fraction", False)
    raise ValueError(m)

def base_of(g):
    while type(g) is not MatrixFactoryGate:
        g = g.wrapped_gate
    return g

def flag_oracle(G):
    """A base gate flagged is_hermitian must have a self-adjoint matrix (at its CURRENT parameters)."""
    b = base_of(G)
    if not b.is_hermitian or b.num_qubits > 3:
        return True, ""
    st, M = outcome(lambda: npmat(b.matrix), timeout=5)
    if st != "ok":
        return True, ""
    ok = close(M, M.conj().T)
    return ok, "" if ok else f"{b} is flagged is_hermitian but its matrix {M.tolist()} is not self-adjoint"

def fold_numeric(A, chain):
    """What the calls promise, folded with numpy/scipy on a base matrix; None when the matrix gets too large or a
    call has no single-valued meaning (fractional powers)."""
    for m in chain:
        if m[0] == "c":
            n = A.shape[0]
            if n * 2 ** m[1] > 16:
                return None
            W = np.eye(n * 2 ** m[1], dtype=complex)
            W[-n:, -n:] = A
            A = W
        elif m[0] == "d":
            A = A.conj().T
        elif m[0] == "e":
            A = scipy.linalg.expm(A)
        elif m[0] == "pi":
            p = int(m[1])
            A = np.linalg.matrix_power(A, p) if p >= 0 else np.linalg.matrix_power(np.linalg.inv(A), -p)
        else:
            return None
    return A

def struct_oracle(base, chain, G):
    """num_qubits and params of the result, recomputed from the request."""
    want_q = base.num_qubits + sum(m[1] for m in chain if m[0] == "c")
    if G.num_qubits != want_q:
        return False, f"num_qubits {G.num_qubits}, expected {want_q}"
    if tuple(G.params) != tuple(base.params):
        return False, f"params {G.params}, expected {base.params}"
    return True, ""

# ----------------------------------------------------------------------------- generator

def chains(mods, depth):
    for d in range(depth + 1):
        for c in itertools.product(mods, repeat=d):
            yield [list(m) for m in c]

def rand_tree(rng, depth):
    if depth == 0 or rng.random() < 0.2:
        return ["B", rng.choice(STRUCT_BASES)]
    c = rng.random()
    sub = rand_tree(rng, depth - 1)
    if c < 0.3:
        return ["Ctrl", sub, rng.choice([1, 1, 2])]
    if c < 0.55:
        return ["Dag", sub]
    if c < 0.7:
        return ["Exp", sub]
    return ["Pow", sub, rng.choice([["pi", 2], ["pi", -1], ["pf", 0.5], ["pi", 3]])]

def gen(rng, tier):
    thorough = tier == "thorough"
    mode = "fast"
    depth = 4 if thorough else 3
    n_num = 4000 if thorough else 600
    all_chains = [(b, c) for b in STRUCT_BASES for c in chains(MODS, depth)]
    # numeric oracle on a sample of the chains (cheap ones preferred: sympy's exp is slow)
    idx = [i for i, (b, c) in enumerate(all_chains) if c]
    rng.shuffle(idx)
    light = [i for i in idx if sum(1 for m in all_chains[i][1] if m[0] == "e") == 0]
    heavy = [i for i in idx if sum(1 for m in all_chains[i][1] if m[0] == "e") == 1]
    num = set(light[: (n_num * 4) // 5] + heavy[: n_num // 5])
    # a few gates on which sympy is known to be slow are still tried under the alarm (each at most ~10 s)
    full = set(heavy[n_num // 5: n_num // 5 + (300 if thorough else 4)])
    for i, (b, c) in enumerate(all_chains):
        yield dict(kind="chain", base=b, chain=c, num="full" if i in full else "fast" if i in num else False)
    for b in STRUCT_BASES:
        for m in ODD_MODS:
            for pre in ([], [["c", 1]], [["d"]], [["pi", 2]]):
                yield dict(kind="chain", base=b, chain=pre + [m], num=mode if (m[0] != "c" or m[1] < 3) else False)
                yield dict(kind="chain", base=b, chain=[m] + pre, num=False)
    for _ in range(6000 if thorough else 400):
        t = rand_tree(rng, 3)
        ch = [rng.choice(MODS + ODD_MODS[:2]) for _ in range(rng.randint(1, 2))]
        yield dict(kind="raw", ast=t, chain=ch, num=mode if rng.random() < 0.25 else False)
    rdepth = 3 if thorough else 2
    for b in PARAM_BASES:
        for c in chains(MODS, rdepth):
            for ps in NEW_PARAMS:
                yield dict(kind="replace", base=b, chain=c, ps=[ps] * PARAM_BASES[b])
    # custom definitions built at boundary parameters, re-parametrised, with a dagger before or after
    combos = [(a, b) for a in chains(CUSTOM_MODS, 2) for b in chains(CUSTOM_MODS, 1)]
    with_d = [ab for ab in combos if ["d"] in ab[0] + ab[1]]
    without_d = [ab for ab in combos if ["d"] not in ab[0] + ab[1]]
    for name, D in CUSTOM_DEFS.items():
        for psn in CUSTOM_NEW[len(D.params_ordering)]:
            for start in CUSTOM_STARTS[name]:
                sel = with_d + without_d if thorough else rng.sample(with_d, 7) + rng.sample(without_d, 2) + [([["d"]], []), ([], [["d"]])]
                for a, b in sel:
                    yield dict(kind="custom", defn=name, start=start, a=a, ps=psn, b=b, num=True)
            bsel = [ab for ab in combos if all(m[0] in ("c", "d") for m in ab[0])]
            for a, b in (bsel if thorough else rng.sample(bsel, 5)):
                yield dict(kind="bind", defn=name, a=a, ps=psn, b=b, num=True)
    for b in EXACT_BASES:
        for c in chains(EXACT_MODS, 3):
            nq = (2 if b == "CNOT" else 1) + sum(m[1] for m in c if m[0] == "c")
            if nq <= 3 and (thorough or rng.random() < 0.35):
                yield dict(kind="sem", base=b, chain=c)

# ----------------------------------------------------------------------------- cases

def gq_entry(x):
    re, im = sympy.nsimplify(x).as_real_imag()
    re, im = sympy.nsimplify(re), sympy.nsimplify(im)
    if not (re.is_Rational and im.is_Rational):
        raise ValueError(f"entry {x} is not a Gaussian rational")
    return f"({cq(Fraction(int(re.p), int(re.q)))}, {cq(Fraction(int(im.p), int(im.q)))})"

def enc_matrix(m):
    return clist(m.tolist(), lambda row: clist(row, gq_entry))

def reassociates(g0, chain):
    """A call whose receiver is already a wrapper, or a self-adjoint base gate under dagger."""
    return len(chain) >= 2 or (chain and chain[0][0] == "d" and getattr(g0, "is_hermitian", False)) \
        or type(g0) is not MatrixFactoryGate

def run_chain(inp, g0, label):
    chain = inp["chain"]
    res = outcome(apply_chain, g0, chain)
    ob = enc_observed(res)
    ok, msg, sig = True, "", None
    kind = label
    if ob is None:
        return dict(chk="false", oracle_ok=False, oracle_msg=f"chain {chain} raised {res[1]}", kind=kind + "-crash",
                    nontrivial=True)
    chk = f"chain_eqb {enc_gate(g0)} {clist(chain, enc_mod)} {ob}"
    if res[0] == "ok":
        G = res[1]
        ok, msg = struct_oracle(g0, chain, G)
        if ok:
            ok, msg = flag_oracle(G)
        # independent restatement of when ValueError was due: free symbols under power/exp, or fewer than one
        # control requested from a gate that carries no control count to add to
        if ok and g0.free_symbols and any(m[0] in ("pi", "pf", "e") for m in chain):
            ok, msg = False, f"chain {chain} on a gate with free symbols did not raise"
        if ok:
            g = g0
            for m in chain:
                if m[0] == "c" and m[1] < 1 and "ControlledGate" not in classes(g):
                    ok, msg = False, f"controlled({m[1]}) on {g} did not raise"
                g = apply_mod(g, m)
        if ok and inp.get("num") and chain:
            g = apply_chain(g0, chain[:-1])
            st, ok, msg, f8able = numeric_last_step(g, chain[-1], G, 5, inp["num"] == "fast")
            kind += "-" + st
            # F8: Power.dagger / anything that calls .dagger on a gate containing a non-integer power
            if not ok and st == "num" and has_frac_power(g) and (f8able or (chain[-1][0] == "c" and has_dagger_node(g))):
                sig = "F8"
            # F42: sympy's inv() on entries like 0.5*I**2.0 + 0.5 (an unrecognised zero left by an earlier fractional
            # power) pivots on it and returns a 0/0 expression; only the matrix relation is excused
            elif not ok and st == "num" and has_neg_over_frac(G):
                sig = "F42"
    else:
        kind += "-valueerror"
        # independent restatement of when ValueError is due
        free = bool(g0.free_symbols)
        needs_numeric = any(m[0] in ("pi", "pf", "e") for m in chain)
        zero_ctrl = any(m[0] == "c" and m[1] < 1 for m in chain)
        if not ((free and needs_numeric) or zero_ctrl):
            ok, msg = False, f"unexpected ValueError for chain {chain}"
    return dict(chk=chk, oracle_ok=ok, oracle_msg=msg, sig=sig, kind=kind, nontrivial=bool(reassociates(g0, chain)))

def run_custom(inp):
    """b(a(D(start)).replace_params(ps)) [kind custom] or b(a(D(symbols)).bind(symbols -> ps)) [kind bind] against
    b(a(D(ps))) on a freshly built gate."""
    D = CUSTOM_DEFS[inp["defn"]]
    a, b, kind = inp["a"], inp["b"], inp["kind"]
    ps = new_params(inp["ps"])
    if kind == "bind":
        syms = [sympy.Symbol(f"s{i}") for i in range(len(ps))]
        g0 = D(*syms)
        mid = lambda g: g.bind(dict(zip(syms, ps)))
    else:
        g0 = D(*inp["start"])
        mid = lambda g: g.replace_params(ps)
    rG = outcome(lambda: apply_chain(mid(apply_chain(g0, a)), b))
    rF = outcome(lambda: apply_chain(apply_chain(D(*ps), a), b))
    oG, oF = enc_observed(rG), enc_observed(rF)
    if oG is None or oF is None:
        return dict(chk="false", oracle_ok=False, oracle_msg=f"raised {rG[1] if oG is None else rF[1]}", kind=kind + "-crash")
    chk = f"custom_eqb {enc_gate(g0)} {clist(a, enc_mod)} {clist(ps, enc_param)} {clist(b, enc_mod)} {oG} {oF}"
    label = kind + ("-boundary" if kind == "custom" and not g0.free_symbols and close(npmat(g0.matrix), npmat(g0.matrix).conj().T) else "")
    ok, msg = True, ""
    if rG[0] != rF[0]:
        ok, msg = False, f"{rG} but on the gate built with the new parameters {rF}"
    elif rG[0] == "err":
        label += "-valueerror"
        if not (any(p.free_symbols for p in map(sympy.sympify, ps)) and any(m[0] in ("pi", "e") for m in a + b)):
            ok, msg = False, f"unexpected ValueError for {a} / {b}"
    else:
        G, F = rG[1], rF[1]
        msgs = []
        if inp.get("num"):
            want = fold_numeric(npmat(D(*ps).matrix), a + b)
            got = matrix_of(G, 5) if want is not None and not sympy_slow(G) else ("skip", "")
            if got[0] == "ok":
                label += "-num"
                if not close(got[1], want):
                    msgs.append(f"matrix of {G} (built at {inp.get('start', 'symbols')}, re-parametrised to {list(ps)}) is "
                                f"{got[1].tolist()}; the calls {a + b} on the matrix of the gate built with the new "
                                f"parameters give {want.tolist()}")
            elif got[0] == "err":
                msgs.append(f"matrix raised {got[1]}")
            else:
                label += "-num-" + got[0]
        fl = flag_oracle(G)
        if not fl[0]:
            msgs.append(fl[1])
        if G != F or enc_gate(G) != enc_gate(F):
            msgs.append(f"re-parametrised gate {G!r} differs from the gate built with the new parameters {F!r}")
        if (G.num_qubits != g0.num_qubits + sum(m[1] for m in a + b if m[0] == "c") or len(G.params) != len(ps)
                or not all(sympy.sympify(x).equals(sympy.sympify(y)) for x, y in zip(G.params, ps))):
            msgs.append(f"num_qubits {G.num_qubits} / params {G.params}")
        ok, msg = not msgs, "; ".join(msgs)
    return dict(chk=chk, oracle_ok=ok, oracle_msg=msg, kind=label, nontrivial=bool(a or b))

def run_case(inp):
    kind = inp["kind"]
    if kind == "chain":
        g0 = POOL[inp["base"]]()
        odd = any(m in ODD_MODS for m in inp["chain"])
        return run_chain(inp, g0, "chain-odd" if odd else f"chain-d{len(inp['chain'])}")
    if kind == "raw":
        st, g0 = outcome(build_raw, inp["ast"])
        if st != "ok":
            # the constructors refuse free symbols under Power/Exponential: nothing to compare
            ok = g0 == "ValueError"
            return dict(chk=None, oracle_ok=ok, oracle_msg="" if ok else f"constructor raised {g0}", kind="raw-unbuildable",
                        nontrivial=False)
        return run_chain(inp, g0, "raw")
    if kind == "replace":
        g0 = POOL[inp["base"]]()
        chain, ps = inp["chain"], new_params(inp["ps"])
        r0 = outcome(apply_chain, g0, chain)
        if r0[0] != "ok":
            ok = r0[1] == "ValueError"
            return dict(chk=f"chain_eqb {enc_gate(g0)} {clist(chain, enc_mod)} None" if ok else "false", oracle_ok=ok,
                        oracle_msg="" if ok else f"chain raised {r0[1]}", kind="replace-chain-valueerror", nontrivial=False)
        g1 = r0[1]
        r1 = outcome(lambda: g1.replace_params(ps))
        r2 = outcome(lambda: apply_chain(g0.replace_params(ps), chain))
        o1, o2 = enc_observed(r1), enc_observed(r2)
        if o1 is None or o2 is None:
            return dict(chk="false", oracle_ok=False, oracle_msg=f"replace_params raised {r1[1] if o1 is None else r2[1]}",
                        kind="replace-crash")
        r3 = outcome(lambda: apply_chain(FRESH[inp["base"]](*ps), chain))
        o3 = enc_observed(r3)
        if o3 is None:
            return dict(chk="false", oracle_ok=False, oracle_msg=f"chain on the freshly built gate raised {r3[1]}", kind="replace-crash")
        chk = (f"replace_eqb {enc_gate(g0)} {clist(chain, enc_mod)} {clist(ps, enc_param)} {o1} {o2}"
               f" && fresh_eqb {enc_gate(g0)} {clist(chain, enc_mod)} {clist(ps, enc_param)} {o3}")
        if r1[0] != r3[0] or (r1[0] == "ok" and (r1[1] != r3[1] or enc_gate(r1[1]) != enc_gate(r3[1]))):
            ok, msg = False, f"replace_params after {chain}: {r1}, but the chain on the gate built with the new parameters: {r3}"
        elif r1[0] == "ok" and not flag_oracle(r1[1])[0]:
            ok, msg = flag_oracle(r1[1])
        elif r1[0] != r2[0]:
            ok, msg = False, f"replace_params after {chain}: {r1}, but the chain after replace_params: {r2}"
        elif r1[0] == "ok":
            ok = r1[1] == r2[1] and tuple(r1[1].params) == tuple(ps) and r1[1].num_qubits == g1.num_qubits
            msg = "" if ok else f"replace_params after {chain} gives {r1[1]!r}, the chain after replace_params gives {r2[1]!r}"
        else:
            ok, msg = r1[1] == r2[1], f"different errors {r1[1]} / {r2[1]}"
        return dict(chk=chk, oracle_ok=ok, oracle_msg=msg, kind="replace" + ("" if r1[0] == "ok" else "-valueerror"),
                    nontrivial=len(chain) >= 1)
    if kind in ("custom", "bind"):
        return run_custom(inp)
    if kind == "sem":
        g0 = POOL[inp["base"]]()
        chain = inp["chain"]
        G = apply_chain(g0, chain)
        st, M = outcome(lambda: G.matrix, timeout=10)
        if st != "ok":
            return dict(chk=None, oracle_ok=M == "Timeout", oracle_msg=f"matrix raised {M}", kind="sem-timeout", nontrivial=False)
        tbl = clist([g0], lambda b: cpair(cstring(b.name), enc_matrix(b.matrix)))
        chk = f"sem_eqb {tbl} {enc_gate(g0)} {clist(chain, enc_mod)} {enc_matrix(M)}"
        # oracle: fold the promised meaning of each call with numpy
        A = npmat(g0.matrix)
        for m in chain:
            if m[0] == "c":
                n = A.shape[0]
                W = np.eye(n * 2 ** m[1], dtype=complex)
                W[-n:, -n:] = A
                A = W
            elif m[0] == "d":
                A = A.conj().T
            else:
                A = np.linalg.matrix_power(A, int(m[1]))
        ok = close(npmat(M), A)
        return dict(chk=chk, oracle_ok=ok, oracle_msg="" if ok else f"matrix of {G} is {M.tolist()}, expected {A.tolist()}",
                    kind="sem", nontrivial=len(chain) >= 1)
    raise ValueError(kind)

def w_f8():
    g = Z.power(0.5)
    a = npmat(g.dagger.matrix)
    b = npmat(g.matrix).conj().T
    return (not close(a, b)), f"Z.power(0.5).dagger.matrix = {a.tolist()}, adjoint of Z.power(0.5).matrix = {b.tolist()}"

def w_f42():
    g = SX.power(0.5).power(4)          # the matrix of X, written with entries 0.5*I**2.0 + 0.5
    a, b = npmat(g.matrix), npmat(g.power(-1).matrix)
    return (not close(b @ a, np.eye(2))), (f"SX.power(0.5).power(4).matrix = {a.tolist()}, .power(-1).matrix = {b.tolist()} "
                                           f"(sympy: {g.power(-1).matrix.tolist()})")

H.main(gen, run_case, {"F8": w_f8, "F42": w_f42})
