"""C09 correspondence harness: operator <-> matrix conversions.

  get_sparse_operator(op, n).toarray()        vs  Pauli/Matrix.v get_sparse          (entry by entry, exact)
  hermitian_conjugated / is_hermitian         vs  herm_conj_op / is_hermitian
  reverse_qubit_order                         vs  reverse
  get_expectation_value (Wavefunction)        vs  get_expectation
  get_pauliop_from_matrix                     vs  pauliop_from_rows                  (term lists, in order)

Coefficients, matrix entries and amplitudes are dyadic Gaussian rationals, so Python's float arithmetic is
exact and the comparison inside Coq (model evaluated by vm_compute on GQring) is equality.  The `_ops`
dictionaries are canonicalised by sorting on the qubit index.  The independent oracle builds dense numpy
matrices directly from the property text: sum over terms of coefficient * kron over qubits 0..n-1 (qubit 0
the leftmost factor) of the 2x2 matrices, tolerance 1e-9.
"""
import json
from fractions import Fraction
import numpy as np
from hlib import *
from orquestra.quantum.operators import PauliTerm, PauliSum
from orquestra.quantum.operators._openfermion_utils.sparse_tools import get_sparse_operator
from orquestra.quantum.operators._openfermion_utils.operator_utils import hermitian_conjugated, is_hermitian
from orquestra.quantum.operators._utils import (get_pauliop_from_matrix, reverse_qubit_order,
                                                 get_expectation_value)
from orquestra.quantum.wavefunction import Wavefunction

H = Harness("C09", ["OQ.Base.Ring", "OQ.Base.CaseEq", "OQ.Pauli.Algebra", "OQ.Pauli.Matrix", "OQ.Pauli.MatrixCases"],
            "operands: PauliTerm / PauliSum on qubits 0..3 (0..4 thorough), letters Y-heavy, gaps between acted qubits, "
            "constants, zero and complex dyadic coefficients, repeated operator sets, the empty sum; kinds: sparse "
            "(register width n from the operator's width to width+2, and n below the width -> ValueError), hconj, "
            "isherm (simplified / unsimplified / real-coefficient operands), reverse (n given or default, too small), "
            "expect (dyadic unit states with amplitudes of modulus 2^-k/2, both values of reverse_operator), frommat "
            "(random dense dyadic complex matrices, sparse ones, matrices of random operators; 2x2, 4x4, 8x8; as lists of rows or numpy arrays; "
            "non-square and non-power-of-two rows -> error), width; a FIXED BLOCK (112 cases, every tier, seed-independent): "
            "sums of 1-4 terms with a unique term whose coefficient has non-zero imaginary part, simplified / unsimplified, with / "
            "without a conjugate partner, under is_hermitian, hermitian_conjugated, sparse, reverse, expectation; every object "
            "handed to the implementation is snapshotted before and after the call and must be unchanged; the hconj / isherm "
            "streams draw complex-heavy coefficient mixes (cplx = non-zero imaginary part in every term); the NUMERIC TYPE is a generator dimension recorded in the "
            "kind label: coefficients all Python int / int+float / int+complex-with-zero-imaginary / mixed / one numpy type "
            "per operand (int64 int32 int8 uint8 float64 float32 complex128 complex64), matrices as lists of int / float / "
            "mixed rows or numpy arrays of those dtypes, states as lists or arrays of int / float / complex dtype; non-trivial = two or more acted qubits, two or "
            "more terms, or a matrix of size >= 4")

LET = "XYZ"
P2 = {"I": np.eye(2, dtype=complex), "X": np.array([[0, 1], [1, 0]], dtype=complex),
      "Y": np.array([[0, -1j], [1j, 0]], dtype=complex), "Z": np.array([[1, 0], [0, -1]], dtype=complex)}

# ----------------------------------------------------------------------------- operands <-> Python / Coq

INT_TYS = ("int", "npint64", "npint32", "npint8", "npuint8")
REAL_TYS = INT_TYS + ("float", "npfloat64", "npfloat32")

def pyval(c):
    """the coefficient with the numeric type named by ty: Python int / float / complex or np<dtype>"""
    re, im, e, ty = c
    if "int" in ty:
        assert im == 0 and e == 0
        return int(re) if ty == "int" else getattr(np, ty[2:])(int(re))
    if "float" in ty:
        assert im == 0
        return re / 2 ** e if ty == "float" else getattr(np, ty[2:])(re / 2 ** e)
    z = complex(re / 2 ** e, im / 2 ** e)
    return z if ty == "complex" else getattr(np, ty[2:])(z)

def ty_of(x):
    """name of the numeric type of a coefficient the implementation returned"""
    if type(x) in (int, bool):
        return "int"
    if type(x) is float:
        return "float"
    if type(x) is complex:
        return "complex"
    return "np" + type(x).__name__

def cval(c):
    return complex(Fraction(c[0], 2 ** c[2]), Fraction(c[1], 2 ** c[2]))

def to_py(o):
    if o["k"] == "T":
        return PauliTerm({int(q): a for q, a in o["ops"]}, pyval(o["c"]))
    if o["k"] == "S":
        return PauliSum([to_py(t) for t in o["terms"]])
    return pyval(o["c"])

def from_number(z):
    """Python / numpy number -> [re_num, im_num, e] with value (re + i im)/2^e exactly."""
    z = complex(z)
    fr, fi = Fraction(z.real), Fraction(z.imag)
    e = max(fr.denominator.bit_length(), fi.denominator.bit_length()) - 1
    assert e <= 4000
    return [int(fr * 2 ** e), int(fi * 2 ** e), e]

def from_py(x):
    if isinstance(x, PauliTerm):
        return dict(k="T", c=from_number(x.coefficient) + [ty_of(x.coefficient)], ops=sorted([int(q), a] for q, a in x._ops.items()))
    if isinstance(x, PauliSum):
        return dict(k="S", terms=[from_py(t) for t in x.terms])
    raise TypeError(f"unexpected result type {type(x)}")

def coq_ops(ops):
    return clist(sorted((int(q), a) for q, a in ops), lambda qa: cpair(cnat(qa[0]), "P" + qa[1]))

def coq_num(c):
    if c[0] == 0 and c[1] == 0:
        return "g0"
    return f"(dy {cz(c[0])} {cz(c[1])} {cnat(c[2])})"

def coq_term(t):
    c = t["c"]
    return f"(tm {cz(c[0])} {cz(c[1])} {cnat(c[2])} {coq_ops(t['ops'])})"

def coq_operand(o):
    if o["k"] == "T":
        return f"(oterm {coq_term(o)})"
    if o["k"] == "S":
        return f"(osum {clist(o['terms'], coq_term)})"
    c = o["c"]
    return f"(onum {cz(c[0])} {cz(c[1])} {cnat(c[2])})"

def coq_terms(o):
    """what a PauliSum result is compared with: its list of terms"""
    assert o["k"] == "S"
    return clist(o["terms"], coq_term)

def coq_mat(m):
    return clist([list(r) for r in m], lambda r: clist(r, lambda z: coq_num(from_number(z))))

# ----------------------------------------------------------------------------- oracle: the property text in numpy

def terms_of(o):
    return [o] if o["k"] == "T" else o["terms"]

def width(o):
    qs = [int(q) for t in terms_of(o) for q, _ in t["ops"]]
    return max(qs) + 1 if qs else 0

def dense(o, n):
    d = 2 ** n
    m = np.zeros((d, d), dtype=complex)
    for t in terms_of(o):
        ops = {int(q): a for q, a in t["ops"]}
        k = np.eye(1, dtype=complex)
        for q in range(n):                    # qubit 0 is the leftmost factor
            k = np.kron(k, P2[ops.get(q, "I")])
        m = m + cval(t["c"]) * k
    return m

def close(a, b):
    return bool(np.allclose(a, b, rtol=1e-9, atol=1e-9))

def bitrev(x, n):
    return int(format(x, f"0{n}b")[::-1], 2) if n else 0

def simplified(o):
    if o["k"] != "S":
        return True
    keys = [tuple(sorted((int(q), a) for q, a in t["ops"])) for t in o["terms"]]
    return len(set(keys)) == len(keys) and all(t["c"][0] != 0 or t["c"][1] != 0 for t in o["terms"])

def nontrivial(o):
    return any(len(t["ops"]) >= 2 for t in terms_of(o)) or len(terms_of(o)) >= 2

# ----------------------------------------------------------------------------- generators

# numeric-type mixes of the coefficients of one operand: label -> the types its terms draw from
CT = {
    "mixed":     ["int", "float", "complex", "complex", "complex"],
    "allint":    ["int"],
    "int+float": ["int", "int", "float"],
    "int+cplx0": ["int", "int", "complex0"],
    "cplx":      ["cplxnz"],                # Python complex with non-zero imaginary part in every term
    "npint":     None,                      # one numpy integer type for the whole operand (chosen per operand)
    "npfloat":   None,                      # np.float64 or np.float32
    "npcomplex": None,                      # np.complex128 or np.complex64
}
CT_REAL = ["mixed", "allint", "allint", "int+float", "npint", "npfloat"]
CT_ALL = ["mixed", "mixed", "mixed", "allint", "allint", "int+float", "int+cplx0", "npint", "npint", "npfloat", "npcomplex"]

CT_CPLX = ["cplx", "cplx", "cplx", "mixed", "npcomplex", "int+cplx"]     # complex-heavy mixes for the hconj / isherm streams

def g_ct(rng, real=False, cplx=False):
    """(label, list of type names)"""
    ct = rng.choice(CT_REAL if real else CT_CPLX if cplx else CT_ALL)
    if ct == "int+cplx":
        return ct, ["int", "float", "cplxnz", "cplxnz"]
    if ct == "npint":
        return ct, [rng.choice(["npint64", "npint64", "npint32", "npint8", "npuint8"])]
    if ct == "npfloat":
        return ct, [rng.choice(["npfloat64", "npfloat32"])]
    if ct == "npcomplex":
        return ct, [rng.choice(["npcomplex128", "npcomplex64"])]
    tys = CT[ct]
    if real:
        tys = [t if t in REAL_TYS else "float" for t in tys]
    return ct, tys

def g_coef(rng, zero_p=0.06, tys=None):
    ty = rng.choice(tys or CT["mixed"])
    unsigned = ty == "npuint8"
    def nz():
        while True:
            k = rng.randint(1 if unsigned else -24, 24)
            if k:
                return k
    if ty == "cplxnz":                         # a Python complex with non-zero imaginary part
        return [rng.choice([0, nz(), nz()]), nz(), rng.randint(0, 3), "complex"]
    if ty == "complex0":                       # a Python complex with zero imaginary part
        return [nz(), 0, rng.randint(0, 3), "complex"] if rng.random() >= zero_p else [0, 0, 0, "complex"]
    if rng.random() < zero_p:
        return [0, 0, 0, ty]
    if ty in INT_TYS:
        return [nz(), 0, 0, ty]
    e = rng.randint(0, 3)
    if ty in REAL_TYS:
        return [nz(), 0, e, ty]
    r = rng.random()
    if r < 0.25:
        return [0, nz(), e, ty]
    if r < 0.35:
        return [nz(), 0, e, ty]
    return [nz(), nz(), e, ty]

def g_ops(rng, maxq):
    r = rng.random()
    if r < 0.08:
        return []
    k = rng.randint(1, maxq)
    if rng.random() < 0.5:
        k = min(k, 2)                          # few operators on a wide register: gaps
    qs = rng.sample(range(maxq), k)            # dict construction order: random
    return [[q, rng.choice("XYYYZ")] for q in qs]

def g_term(rng, maxq, zero_p=0.06, tys=None):
    return dict(k="T", c=g_coef(rng, zero_p, tys), ops=g_ops(rng, maxq))

def g_sum(rng, maxq, tys=None):
    n = rng.choice([0, 1, 2, 2, 3, 3, 4, 5])
    terms = []
    for _ in range(n):
        if terms and rng.random() < 0.25:
            src = rng.choice(terms)
            ops = list(src["ops"])
            rng.shuffle(ops)
            if rng.random() < 0.4 and src["c"][3] != "npuint8":
                c = [-src["c"][0], -src["c"][1], src["c"][2], src["c"][3]]       # cancels, same numeric type
            else:
                c = g_coef(rng, tys=tys)
            terms.append(dict(k="T", c=c, ops=ops))
        else:
            terms.append(g_term(rng, maxq, tys=tys))
    return dict(k="S", terms=terms)

def g_operand(rng, maxq, real=False, cplx=False):
    """an operand and the label of the numeric-type mix of its coefficients"""
    ct, tys = g_ct(rng, real, cplx)
    o = g_term(rng, maxq, tys=tys) if rng.random() < 0.35 else g_sum(rng, maxq, tys=tys)
    o["ct"] = ct if ct not in ("npint", "npfloat", "npcomplex") else tys[0]
    return o

ST_KINDS = ["list-complex", "list-complex", "list-complex", "nd-complex128", "nd-complex64",
            "list-float", "nd-float64", "nd-float32", "list-int", "nd-int64", "nd-int8"]

def g_state(rng, n, st="list-complex"):
    """dyadic unit state: weights 2^-k on distinct basis states, amplitude of weight 2^-k is a unit times
    2^(-k/2) (k even) or (+-1 +-i) 2^(-(k+1)/2) (k odd); returned as [[re, im, e], ...].
    Real containers (float): only even k and real units; integer containers: one basis state, amplitude +-1."""
    d = 2 ** n
    cls = "int" if "int" in st else "float" if "float" in st else "complex"
    ws = [0]
    while cls != "int" and len(ws) < d and rng.random() < 0.8:
        i = rng.randrange(len(ws))
        if ws[i] >= 6:
            break
        if cls == "float":                      # 2^-k -> four times 2^-(k+2)
            if len(ws) + 3 > d:
                break
            ws[i] += 2
            for _ in range(3):
                ws.insert(i, ws[i])
        else:
            ws[i] += 1
            ws.insert(i, ws[i])
    pos = rng.sample(range(d), len(ws))
    amps = [[0, 0, 0] for _ in range(d)]
    for p, k in zip(pos, ws):
        if k % 2 == 0:
            re, im = rng.choice([(1, 0), (-1, 0)] if cls != "complex" else [(1, 0), (-1, 0), (0, 1), (0, -1)])
            amps[p] = [re, im, k // 2]
        else:
            amps[p] = [rng.choice([1, -1]), rng.choice([1, -1]), (k + 1) // 2]
    return amps

def mk_state(amps, st):
    """the amplitudes in the container / numeric type named by st"""
    vals = [complex(Fraction(a[0], 2 ** a[2]), Fraction(a[1], 2 ** a[2])) for a in amps]
    if st == "list-complex":
        return vals
    if st == "list-float":
        return [z.real for z in vals]
    if st == "list-int":
        return [int(z.real) for z in vals]
    dt = getattr(np, st[3:])
    return np.array(vals if "complex" in st else [z.real for z in vals]).astype(dt)

MT_KINDS = ["list-mixed", "list-mixed", "list-mixed", "list-int", "list-float", "nd-complex128", "nd-complex64",
            "nd-float64", "nd-float32", "nd-int64", "nd-int64", "nd-int32", "nd-int8", "nd-uint8"]

def g_matrix(rng, n, maxq, mt="list-mixed"):
    """entries [re, im, e] that the container / numeric type named by mt can hold exactly"""
    d = 2 ** n
    cls = "uint" if "uint" in mt else "int" if "int" in mt else "float" if "float" in mt else "complex"
    r = rng.random()
    def ent(p_zero):
        if rng.random() < p_zero:
            return [0, 0, 0]
        if cls == "uint":
            return [rng.randint(0, 12), 0, 0]
        if cls == "int":
            return [rng.randint(-12, 12), 0, 0]
        e = rng.randint(0, 2)
        return [rng.randint(-12, 12), rng.randint(-12, 12) if cls == "complex" and rng.random() < 0.7 else 0, e]
    if r < 0.45 or (r >= 0.7 and cls == "uint"):
        return [[ent(0.1) for _ in range(d)] for _ in range(d)]
    if r < 0.7:
        return [[ent(0.8) for _ in range(d)] for _ in range(d)]
    # the matrix of a random operator: few non-zero coefficients (Y-free and integer coefficients where the type needs it)
    op = g_sum(rng, n, tys=["int"] if cls == "int" else ["float"] if cls == "float" else None)
    if cls != "complex":
        for t in op["terms"]:
            t["ops"] = [[q, a if a != "Y" else "X"] for q, a in t["ops"]]
    m = dense(op, n)
    return [[from_number(z) for z in row] for row in m]

def mk_matrix(rows, mt):
    vals = [[complex(Fraction(a[0], 2 ** a[2]), Fraction(a[1], 2 ** a[2])) for a in r] for r in rows]
    if mt == "list-mixed":
        return [[(z.real if z.imag == 0 else z) for z in r] for r in vals]      # floats where the entry is real
    if mt == "list-float":
        return [[z.real for z in r] for r in vals]
    if mt == "list-int":
        return [[int(z.real) for z in r] for r in vals]
    dt = getattr(np, mt[3:])
    return np.array(vals if "complex" in mt else [[z.real for z in r] for r in vals]).astype(dt)

def fixed_block():
    """Cases that run in every tier and do not depend on the seed: PauliSums of 1-4 terms containing a term U with a
    unique operator set and a coefficient with non-zero imaginary part - simplified and unsimplified, with and without
    a partner carrying the conjugate coefficient - under is_hermitian and hermitian_conjugated (verdict against the
    matrix, result against the conjugate transpose, argument unchanged), and the same operands under the other
    operations."""
    import random
    r = random.Random(20261001)
    strings = [[[0, "X"]], [[1, "Y"]], [[0, "Y"], [2, "Z"]], [[3, "X"], [1, "Z"]], [[2, "Y"], [0, "X"], [3, "Y"]], [], [[1, "X"], [2, "X"]]]
    ucoefs = [[1, 2, 0, "complex"], [0, 3, 1, "complex"], [-5, -1, 2, "complex"], [3, -7, 0, "npcomplex128"], [0, -1, 0, "complex"]]
    out = []
    for nterms in (1, 2, 3, 4):
        for simp in (True, False):
            for partner in (False, True):
                for v in range(2):
                    ss = list(strings)
                    r.shuffle(ss)
                    uc = ucoefs[(nterms + 2 * v + simp + 3 * partner) % len(ucoefs)]
                    terms = [dict(k="T", c=list(uc), ops=ss[0])]
                    if partner and nterms >= 2:
                        pops = ss[0] if not simp else ss[1]          # unsimplified: same operator set (the sum of the pair is Hermitian)
                        terms.append(dict(k="T", c=[uc[0], -uc[1], uc[2], uc[3]], ops=list(pops)))
                    k = 2
                    while len(terms) < nterms:
                        if not simp and len(terms) == nterms - 1 and nterms >= 3 and len(terms) >= 2 and not partner:
                            terms.append(dict(k="T", c=[r.randint(1, 9), 0, 0, "int"], ops=list(terms[-1]["ops"])))   # a repeated real term
                        else:
                            terms.append(dict(k="T", c=[r.choice([-3, 2, 5, 7]), 0, r.randint(0, 1), r.choice(["int", "float"]) if False else "float"], ops=ss[k]))
                            k += 1
                    if not simp and nterms == 1:
                        terms[0]["c"] = [0, 0, 0, "complex"] if v else terms[0]["c"]       # a zero coefficient is not simplified either
                    if not simp and nterms == 2 and not partner:
                        terms[1]["ops"] = list(terms[1]["ops"])
                        terms.append(dict(k="T", c=[0, 0, 0, "float"], ops=ss[k]))          # unsimplified through a zero term
                    r.shuffle(terms)
                    op = dict(k="S", terms=terms, ct="fixed")
                    out.append(dict(kind="isherm", op=op, simplify=False, fixed=True))
                    out.append(dict(kind="hconj", op=op, fixed=True))
                    if v == 0:
                        w = width(op)
                        out.append(dict(kind="sparse", op=op, n=w, fixed=True))
                        out.append(dict(kind="reverse", op=op, n=w, fixed=True))
                        if w >= 1:
                            out.append(dict(kind="expect", op=op, n=w, amps=g_state(r, w), st="list-complex", rev=bool(nterms % 2), fixed=True))
    return out

def gen(rng, tier):
    quick = tier == "quick"
    for c in fixed_block():
        yield c
    N = 420 if quick else 6000
    maxq = 4 if quick else 5
    yield dict(kind="sparse", op=dict(k="S", terms=[]), n=2)
    yield dict(kind="sparse", op=dict(k="S", terms=[]), n=0)
    yield dict(kind="sparse", op=dict(k="T", c=[3, -1, 1, "complex"], ops=[]), n=0)
    yield dict(kind="frommat", rows=[[[3, 1, 1]]])
    for _ in range(N):
        r = rng.random()
        if r < 0.34:
            op = g_operand(rng, rng.randint(1, maxq))
            w = width(op)
            if rng.random() < 0.08 and w > 0:
                n = rng.randint(0, w - 1)
            else:
                n = min(w + rng.choice([0, 0, 1, 2]), maxq)
            yield dict(kind="sparse", op=op, n=n)
        elif r < 0.42:
            op = g_operand(rng, maxq, cplx=rng.random() < 0.6) if rng.random() < 0.9 else dict(k="N", c=g_coef(rng))
            yield dict(kind="hconj", op=op)
        elif r < 0.54:
            real = rng.random() < 0.35
            op = g_operand(rng, maxq, real=real, cplx=not real and rng.random() < 0.75)
            yield dict(kind="isherm", op=op, simplify=rng.random() < 0.5)
        elif r < 0.66:
            op = g_operand(rng, rng.randint(1, maxq))
            w = width(op)
            rr = rng.random()
            n = None if rr < 0.3 else rng.randint(0, w - 1) if rr < 0.4 and w > 0 else w + rng.choice([0, 0, 1, 2, 3])
            yield dict(kind="reverse", op=op, n=n)
        elif r < 0.8:
            n = rng.randint(1, maxq)
            op = g_operand(rng, n if rng.random() < 0.88 else n + 1)
            st = rng.choice(ST_KINDS)
            yield dict(kind="expect", op=op, n=n, amps=g_state(rng, n, st), st=st, rev=rng.random() < 0.5)
        elif r < 0.97:
            n = rng.choice([1, 1, 2, 2, 2, 3] if quick else [1, 2, 2, 3, 3])
            mt = rng.choice(MT_KINDS)
            yield dict(kind="frommat", rows=g_matrix(rng, n, maxq, mt), mt=mt)
        else:
            d = rng.choice([3, 5, 6])
            if rng.random() < 0.5:
                rows = [[[rng.randint(-3, 3), 0, 0] for _ in range(d)] for _ in range(d)]
                mt = rng.choice(["list-int", "list-mixed", "nd-int64", "nd-float64"])
            else:
                rows = [[[rng.randint(-3, 3), 0, 0] for _ in range(rng.choice([1, 3, 4]))] for _ in range(2)]
                mt = rng.choice(["list-int", "list-mixed"])
            yield dict(kind="frommat", rows=rows, mt=mt)

# ----------------------------------------------------------------------------- cases

# every object handed to the implementation is registered with arg(); run_case compares a snapshot taken before the
# call with one taken after it: no operation of the property may modify its argument
_ARGS = []

def snapshot(x):
    if isinstance(x, (PauliTerm, PauliSum)):
        return json.dumps(from_py(x), sort_keys=True)
    if isinstance(x, Wavefunction):
        return repr((str(x.amplitudes.dtype), x.amplitudes.tolist()))
    if isinstance(x, np.ndarray):
        return repr((str(x.dtype), x.tolist()))
    return repr(x)

def arg(x):
    _ARGS.append((x, snapshot(x)))
    return x

def run_case(inp):
    del _ARGS[:]
    r = run_case_(inp)
    for x, before in _ARGS:
        after = snapshot(x)
        if after != before:
            r["oracle_ok"] = False
            r["sig"] = None
            r["oracle_msg"] = (f"{inp['kind']}: the call modified its argument: before {before[:300]} after {after[:300]}; "
                               + r.get("oracle_msg", ""))
            break
    r["oracle_ok"] = bool(r["oracle_ok"])          # numpy booleans would be serialised as strings
    r["nontrivial"] = bool(r.get("nontrivial", True))
    return r

def run_case_(inp):
    kind = inp["kind"]
    if kind == "frommat":
        return case_frommat(inp)
    o = inp["op"]
    nt = nontrivial(o) if o["k"] != "N" else False
    ct = "-" + o.get("ct", "mixed")                    # numeric-type mix of the coefficients, part of the kind label
    if kind == "sparse":
        n = inp["n"]
        pyop = arg(to_py(o))
        st, out = outcome(lambda: get_sparse_operator(pyop, n).toarray(), timeout=30)
        w = width(o)
        pyw = to_py(o).n_qubits
        if st == "ok":
            ok = n >= w and out.shape == (2 ** n, 2 ** n) and close(out, dense(o, n))
            msg = "" if ok else f"get_sparse_operator({to_py(o)}, {n}) = {out.tolist()} differs from the tensor-product definition"
            coq = f"(Some {coq_mat(out)})"
        else:
            ok = n < w and out == "ValueError"
            msg = "" if ok else f"get_sparse_operator({to_py(o)}, {n}) raised {out}"
            coq = "None"
        if pyw != w:
            ok, msg = False, f"n_qubits = {pyw} for {to_py(o)}"
        return dict(chk=f"sparse_eqb {coq_operand(o)} {cnat(n)} {coq} && width_eqb {coq_operand(o)} {cnat(pyw)}",
                    oracle_ok=ok, oracle_msg=msg, kind=kind + ("" if st == "ok" else "-rejected") + ("-empty" if not terms_of(o) else ct),
                    nontrivial=nt and st == "ok")
    if kind == "hconj":
        pyop = arg(to_py(o))
        st, out = outcome(lambda: hermitian_conjugated(pyop))
        if st == "ok":
            res = from_py(out)
            n = max(width(o), width(res))
            ok = res["k"] == o["k"] and close(dense(res, n), dense(o, n).conj().T)
            msg = "" if ok else f"hermitian_conjugated({to_py(o)}) = {out}: not the conjugate transpose"
            coq = f"(Some {coq_operand(res)})"
        else:
            ok = o["k"] == "N" and out == "TypeError"
            msg = "" if ok else f"hermitian_conjugated({to_py(o)}) raised {out}"
            coq = "None"
        return dict(chk=f"hconj_eqb {coq_operand(o)} {coq}", oracle_ok=ok, oracle_msg=msg,
                    kind=kind + ("" if st == "ok" else "-rejected") + ct, nontrivial=nt)
    if kind == "isherm":
        if inp["simplify"] and o["k"] == "S":
            o = from_py(to_py(o).simplify())            # keeps the numeric types simplify returned
        pyop = arg(to_py(o))
        st, out = outcome(lambda: is_hermitian(pyop))
        if st != "ok":
            c64 = o["k"] == "S" and any(t["c"][3] == "npcomplex64" for t in o["terms"])
            if c64 and out == "TypeError":              # F41: PauliTerm.__hash__ cannot round a numpy.complex64
                return dict(chk=None, oracle_ok=False, sig="F41", kind=kind + "-raised" + ct, nontrivial=nontrivial(o),
                            oracle_msg=f"is_hermitian({to_py(o)}) raised {out} (numpy.complex64 coefficients)")
            return dict(chk="false", oracle_ok=False, oracle_msg=f"is_hermitian({to_py(o)}) raised {out}", kind=kind + "-raised" + ct)
        out = bool(out)
        n = width(o)
        m = dense(o, n)
        herm = close(m, m.conj().T)
        simp = simplified(o)
        ok = (out == herm) if simp else (herm or not out)      # agreement claimed for simplified operators; soundness always
        msg = "" if ok else f"is_hermitian({to_py(o)}) = {out} but the matrix is {'Hermitian' if herm else 'not Hermitian'}"
        return dict(chk=f"isherm_eqb {coq_operand(o)} (Some {cbool(out)})", oracle_ok=ok, oracle_msg=msg,
                    kind=kind + ("-simplified" if simp else "-unsimplified") + ("-yes" if out else "-no") + ct, nontrivial=nontrivial(o))
    if kind == "reverse":
        n = inp["n"]
        pyop = arg(to_py(o))
        st, out = outcome(lambda: reverse_qubit_order(pyop, n))
        w = width(o)
        neff = w if n is None else n
        if st == "ok":
            res = from_py(out)
            a, b = dense(res, neff), dense(o, neff)
            perm = [bitrev(x, neff) for x in range(2 ** neff)]
            back = from_py(reverse_qubit_order(out, neff)) if width(res) <= neff else None
            ok = neff >= w and width(res) <= neff and close(a, b[np.ix_(perm, perm)]) and back is not None \
                and close(dense(back, neff), b)
            msg = "" if ok else f"reverse_qubit_order({to_py(o)}, {n}) = {out}: not the bit-reversal of the matrix, or not undone by a second reversal"
            coq = f"(Some {coq_terms(res)})"
        else:
            ok = neff < w and out == "ValueError"
            msg = "" if ok else f"reverse_qubit_order({to_py(o)}, {n}) raised {out}"
            coq = "None"
        return dict(chk=f"reverse_eqb {coq_operand(o)} {cnat(neff)} {coq}", oracle_ok=ok, oracle_msg=msg,
                    kind=kind + ("" if st == "ok" else "-rejected") + ("-default" if n is None else "") + ct, nontrivial=nt and st == "ok")
    if kind == "expect":
        n, rev = inp["n"], inp["rev"]
        amps = [complex(Fraction(a[0], 2 ** a[2]), Fraction(a[1], 2 ** a[2])) for a in inp["amps"]]
        stt = inp.get("st", "list-complex")
        pyop = arg(to_py(o))
        st, wf = outcome(lambda: Wavefunction(mk_state(inp["amps"], stt)))
        if st != "ok":
            return dict(chk=None, oracle_ok=False, oracle_msg=f"Wavefunction({mk_state(inp['amps'], stt)}) raised {wf}", kind=kind + "-state-rejected")
        arg(wf)
        st, out = outcome(lambda: get_expectation_value(pyop, wf, rev), timeout=30)
        w = width(o)
        v = np.array(amps, dtype=complex)
        if st == "ok":
            m = dense(o, n) if n >= w else None
            if m is not None and rev:
                perm = [bitrev(x, n) for x in range(2 ** n)]
                m = m[np.ix_(perm, perm)]
            ok = m is not None and abs(complex(out) - np.vdot(v, m @ v)) <= 1e-9
            msg = "" if ok else f"get_expectation_value({to_py(o)}, {amps}, {rev}) = {out}: not the quadratic form {np.vdot(v, m @ v) if m is not None else None}"
            coq = f"(Some {coq_num(from_number(out))})"
        else:
            ok = n < w and out == "ValueError"
            msg = "" if ok else f"get_expectation_value({to_py(o)}, {amps}, {rev}) raised {out}"
            coq = "None"
        return dict(chk=f"expect_eqb {cnat(n)} {coq_operand(o)} {clist(inp['amps'], coq_num)} {cbool(rev)} {coq}",
                    oracle_ok=ok, oracle_msg=msg, kind=kind + ("" if st == "ok" else "-rejected") + ("-rev" if rev else "") + ct + "-state:" + stt,
                    nontrivial=(nt or sum(1 for a in inp["amps"] if a[0] or a[1]) >= 2) and st == "ok")
    raise ValueError(kind)

def case_frommat(inp):
    rows = [[complex(Fraction(a[0], 2 ** a[2]), Fraction(a[1], 2 ** a[2])) for a in r] for r in inp["rows"]]
    d = len(rows)
    square = all(len(r) == d for r in rows)
    mt = inp.get("mt", "list-mixed")
    marg = arg(mk_matrix(inp["rows"], mt))            # list of rows or numpy array, of the numeric type named by mt
    st, out = outcome(lambda: get_pauliop_from_matrix(marg), timeout=60)
    pow2 = d > 0 and d & (d - 1) == 0
    sig = None
    if st == "ok":
        res = from_py(out)
        n = d.bit_length() - 1
        m = np.array(rows, dtype=complex) if square else None
        back = outcome(lambda: get_sparse_operator(out, n).toarray())
        ok = square and pow2 and width(res) <= n and close(dense(res, n), m) and simplified(res) \
            and back[0] == "ok" and close(back[1], m)
        msg = "" if ok else f"get_pauliop_from_matrix({rows}) = {out}: does not denote the matrix (or is not simplified / not converted back)"
        coq = f"(Some {coq_terms(res)})"
    else:
        ok = not (square and pow2)
        msg = "" if ok else f"get_pauliop_from_matrix({rows}) raised {out}"
        coq = "None"
        if square and d == 1:
            sig = "F36"
    return dict(chk=f"frommat_eqb {coq_mat(rows)} {coq}", oracle_ok=ok, oracle_msg=msg, sig=sig,
                kind="frommat" + (f"-{d}" if st == "ok" else "-rejected") + "-" + mt, nontrivial=st == "ok" and d >= 4)

# ----------------------------------------------------------------------------- witnesses

def w_f9():
    st, out = outcome(lambda: get_sparse_operator(PauliSum(), 2).toarray())
    bad = st != "ok" or out.shape != (4, 4) or bool(np.any(out != 0))
    return bad, f"get_sparse_operator(PauliSum(), 2) -> {out if st != 'ok' else out.tolist()}"

def w_f38():
    st, out = outcome(lambda: is_hermitian(PauliSum([PauliTerm({0: "X"}, np.complex64(2))])))
    return st != "ok" or out is not True, f"is_hermitian(PauliSum([PauliTerm({{0: 'X'}}, np.complex64(2))])) -> {out}"

def w_f36():
    st, out = outcome(lambda: get_pauliop_from_matrix([[1.5]]))
    bad = st != "ok" or not close(dense(from_py(out), 0), np.array([[1.5]]))
    return bad, f"get_pauliop_from_matrix([[1.5]]) -> {out}"

H.main(gen, run_case, {"F9": w_f9, "F36": w_f36, "F41": w_f38})
