"""C19 correspondence harness: sympy expression -> neutral tree -> sympy dialect; natural sort keys."""
import cmath
import sympy
from sympy.core.function import AppliedUndef
from hlib import *
from orquestra.quantum.circuits.symbolic import sympy_expressions as SE
from orquestra.quantum.circuits.symbolic.sympy_expressions import expression_from_sympy, SYMPY_DIALECT
from orquestra.quantum.circuits.symbolic.translations import translate_expression
from orquestra.quantum.circuits.symbolic.expressions import FunctionCall, Symbol, ExpressionDialect
from orquestra.quantum.circuits.symbolic._sorting import natural_key, natural_key_revlex

H = Harness("C19", ["OQ.Base.CaseEq", "OQ.Serde.SymTranslate", "OQ.Serde.NatKey", "OQ.Serde.SymTranslateCases"],
            "kinds: convert (random sympy expressions of depth <= 5 built with Python operators (canonical forms) or "
            "with evaluate=False in arbitrary argument orders, leaves: symbols, integers incl. -1, doubles incl. -1.0 and 0.5, "
            "rationals incl. 1/2 and inexact 1/3, I; the actual (type, args) tree, the recorded expr*(-1), and the neutral "
            "tree or exception class are compared with the model inside Coq; oracle: numeric value of the re-translated "
            "expression at a random complex assignment), convert-unsupported (log, Abs, pi, E, undefined functions, Max, "
            "relational, Derivative, zoo, oo inside otherwise supported trees; oracle: refused), translate (random neutral "
            "trees under a recording dialect incl. unknown names), dialect (each SYMPY_DIALECT entry on exact rationals, wrong "
            "arities, unknown names), natkey (names with several digit groups, leading zeros, equal keys; keys and "
            "sorted() orders); non-trivial = tree with an operator node / at least two names")

ERRMAP = {"NotImplementedError": "ENotImpl", "ValueError": "EValue", "TypeError": "EType", "IndexError": "EIndex"}
SYMS = ["x", "y", "z", "theta_1", "beta_10", "beta_2", "a"]
ELEM = {"cos": sympy.cos, "sin": sympy.sin, "exp": sympy.exp, "tan": sympy.tan}
TABLE = ["add", "mul", "div", "sub", "pow", "cos", "sin", "exp", "sqrt", "tan"]

# ----------------------------------------------------------------------------- expression specs

def leaf(rng):
    r = rng.random()
    if r < 0.45:
        return ["sym", rng.choice(SYMS)]
    if r < 0.65:
        return ["int", rng.choice([-1, -1, -2, 0, 1, 2, 3, 5, -3, 2, 7, -1])]
    if r < 0.8:
        return ["flt", rng.choice([-2, -1, -1, 1, 1, 3, 5, -3, 7]), rng.choice([1, 1, 2, 2, 4])]
    if r < 0.93:
        return ["rat", rng.choice([1, 1, -1, 2, 3, -3, 5]), rng.choice([2, 2, 3, 4, 7])]
    return ["I"]

UNS = ["log", "Abs", "pi", "E", "f", "ucos", "uadd", "usqrt", "Max", "Lt", "Deriv", "zoo", "oo", "sign", "conj"]

def spec(rng, depth, uns):
    """uns: probability of an unsupported construct at each node."""
    if depth == 0 or rng.random() < 0.18:
        if rng.random() < uns:
            return ["uns", rng.choice(["pi", "E", "zoo", "oo"]), []]
        return leaf(rng)
    if rng.random() < uns:
        tag = rng.choice(UNS)
        k = {"pi": 0, "E": 0, "zoo": 0, "oo": 0, "uadd": 2, "Max": 2, "Lt": 2}.get(tag, 1)
        return ["uns", tag, [spec(rng, depth - 1, uns) for _ in range(k)]]
    r = rng.random()
    if r < 0.2:
        # roots and reciprocal powers with the exponents sympy's canonical forms use: 1/sqrt(x), sqrt(x)/y, x**(-3/2) ..
        c = lambda: spec(rng, depth - 1, uns)
        ex = lambda: rng.choice([["rat", -1, 2], ["rat", -1, 2], ["rat", 1, 2], ["int", -1], ["int", -2], ["rat", -3, 2],
                                 ["flt", -1, 2], ["flt", 1, 2], ["rat", 3, 2]])
        shape = rng.choice(["rsqrt", "rsqrt", "sqrt_over", "powq", "powq", "rawpowq", "over_sqrt_prod"])
        if shape == "rsqrt":
            return ["op", "/", [rng.choice([["int", 1], c()]), ["op", "sqrt", [c()]]]]
        if shape == "sqrt_over":
            return ["op", "/", [["op", "sqrt", [c()]], c()]]
        if shape == "powq":
            return ["op", "**", [c(), ex()]]
        if shape == "rawpowq":
            return ["raw", "Pow", [c(), ex()]]
        return ["op", "/", [c(), ["op", "sqrt", [["op", rng.choice(["*", "-", "+"]), [c(), c()]]]]]]
    if r < 0.55:
        op = rng.choice(["+", "+", "-", "-", "*", "*", "/", "/", "**", "sqrt", "neg", "inv", "cos", "sin", "exp", "tan"])
        k = {"+": rng.choice([2, 2, 3]), "*": rng.choice([2, 2, 3]), "-": 2, "/": 2, "**": 2}.get(op, 1)
        return ["op", op, [spec(rng, depth - 1, uns) for _ in range(k)]]
    # raw constructors with evaluate=False: argument order is kept as given
    shape = rng.choice(["Add", "Add", "Mul", "Mul", "Pow", "sub1", "sub2", "sub3", "div1", "div2", "div3", "powm1", "powh", "powhf", "powm1f"])
    c = lambda: spec(rng, depth - 1, uns)
    m1 = lambda: rng.choice([["int", -1], ["flt", -1, 1], ["int", -1], ["int", 1], ["int", -2]])
    if shape in ("Add", "Mul"):
        return ["raw", shape, [c() for _ in range(rng.choice([2, 2, 3, 4]))]]
    if shape == "Pow":
        return ["raw", "Pow", [c(), c()]]
    if shape == "sub1":      # x + (-1)*y
        return ["raw", "Add", [c(), ["raw", "Mul", [m1(), c()]]]]
    if shape == "sub2":      # (-1)*y + x : the product comes first
        return ["raw", "Add", [["raw", "Mul", [m1(), c()]], c()]]
    if shape == "sub3":      # x + y*(-1), x + (-1)*y*z
        return ["raw", "Add", [c(), ["raw", "Mul", rng.choice([[c(), m1()], [m1(), c(), c()]])]]]
    em1 = lambda: rng.choice([["int", -1], ["flt", -1, 1], ["int", -1], ["int", -2], ["rat", -1, 2]])
    if shape == "div1":      # x * y**-1
        return ["raw", "Mul", [c(), ["raw", "Pow", [c(), em1()]]]]
    if shape == "div2":      # y**-1 * x
        return ["raw", "Mul", [["raw", "Pow", [c(), em1()]], c()]]
    if shape == "div3":      # x * y * z**-1
        return ["raw", "Mul", [c(), c(), ["raw", "Pow", [c(), em1()]]]]
    if shape == "powm1":
        return ["raw", "Pow", [c(), ["int", -1]]]
    if shape == "powm1f":
        return ["raw", "Pow", [c(), ["flt", -1, 1]]]
    if shape == "powh":
        return ["raw", "Pow", [c(), ["rat", 1, 2]]]
    return ["raw", "Pow", [c(), rng.choice([["flt", 1, 2], ["rat", 1, 3], ["flt", 1, 4], ["int", 2]])]]

def lit_value(s, mp):
    """value of a symbol-free spec (None if it has symbols / unsupported constructs), spec-level so that no huge sympy
    number is ever built"""
    t = s[0]
    if t == "int":
        return mp.mpf(s[1])
    if t in ("flt", "rat"):
        return mp.mpf(s[1]) / s[2]
    if t == "I":
        return mp.mpc(0, 1)
    if t in ("sym", "uns"):
        return None
    ch = [lit_value(c, mp) for c in s[2]]
    if any(c is None for c in ch):
        return None
    op = s[1]
    if op in ("+", "Add"):
        return mp.fsum(ch)
    if op in ("*", "Mul"):
        return mp.fprod(ch)
    if op == "-":
        return ch[0] - ch[1]
    if op == "/":
        return ch[0] / ch[1]
    if op in ("**", "Pow"):
        return mp.power(ch[0], ch[1])
    if op == "sqrt":
        return mp.sqrt(ch[0])
    if op == "neg":
        return -ch[0]
    if op == "inv":
        return 1 / ch[0]
    return getattr(mp, op)(ch[0])

def tame(s):
    """replace every symbol-free subtree whose value leaves [1e-30, 1e30] (or does not exist: 0**-1, overflow) by a
    small constant: such constants overflow doubles in the library's Python-number arithmetic and in the dumps"""
    import mpmath
    if s[0] in ("sym", "int", "flt", "rat", "I") or (s[0] == "uns" and not s[2]):
        return s
    s = [s[0], s[1], [tame(c) for c in s[2]]]
    if s[0] == "uns":
        return s
    try:
        with mpmath.workdps(20):
            v = lit_value(s, mpmath.mp)
            bad = v is not None and v != 0 and not (mpmath.mpf("1e-30") <= abs(v) <= mpmath.mpf("1e30"))
    except Exception:
        bad = True
    return ["int", 2] if bad else s

def build(s):
    t = s[0]
    if t == "sym":
        return sympy.Symbol(s[1])
    if t == "int":
        return sympy.Integer(s[1])
    if t == "flt":
        return sympy.Float(s[1] / s[2])
    if t == "rat":
        return sympy.Rational(s[1], s[2])
    if t == "I":
        return sympy.I
    ch = [build(c) for c in s[2]]
    if t == "op":
        op = s[1]
        if op == "+":
            r = ch[0]
            for c in ch[1:]:
                r = r + c
            return r
        if op == "*":
            r = ch[0]
            for c in ch[1:]:
                r = r * c
            return r
        if op == "-":
            return ch[0] - ch[1]
        if op == "/":
            return ch[0] / ch[1]
        if op == "**":
            return ch[0] ** ch[1]
        if op == "sqrt":
            return sympy.sqrt(ch[0])
        if op == "neg":
            return -ch[0]
        if op == "inv":
            return 1 / ch[0]
        return ELEM[op](ch[0])
    if t == "raw":
        return {"Add": sympy.Add, "Mul": sympy.Mul, "Pow": sympy.Pow}[s[1]](*ch, evaluate=False)
    if t == "uns":
        tag = s[1]
        if tag == "log": return sympy.log(ch[0])
        if tag == "Abs": return sympy.Abs(ch[0])
        if tag == "sign": return sympy.sign(ch[0])
        if tag == "conj": return sympy.conjugate(ch[0])
        if tag == "pi": return sympy.pi
        if tag == "E": return sympy.E
        if tag == "zoo": return sympy.zoo
        if tag == "oo": return sympy.oo
        if tag == "f": return sympy.Function("f")(ch[0])
        if tag == "ucos": return sympy.Function("cos")(ch[0])
        if tag == "usqrt": return sympy.Function("sqrt")(ch[0])
        if tag == "uadd": return sympy.Function("add")(ch[0], ch[1])
        if tag == "Max": return sympy.Max(ch[0], ch[1])
        if tag == "Lt": return sympy.Lt(ch[0], ch[1], evaluate=False)
        if tag == "Deriv": return sympy.Derivative(ch[0], sympy.Symbol("x"), evaluate=False)
    raise ValueError(s)

# ----------------------------------------------------------------------------- dumps

class Unrepresentable(Exception):
    pass

BIG_BITS = 1100      # constants beyond the double range are not written as Coq literals nor evaluated

def exact_float(f):
    sign, man, exp, _bc = f._mpf_
    if (int(man) == 0 and int(exp) != 0) or abs(int(exp)) > BIG_BITS:      # mpmath's inf/nan encodings, huge exponents
        raise Unrepresentable("Float outside the double range (or inf/nan)")
    v = Fraction(int(man)) * (Fraction(2) ** int(exp))
    return -v if sign else v

def dump(e, neg_wanted=False, stats=None):
    """sympy object -> sexpr literal, reading type(e) and e.args only (plus e*(-1) where the converter may ask)."""
    if isinstance(e, sympy.Symbol):
        return f"(SSym {cstring(str(e))})"
    if isinstance(e, sympy.Integer):
        if int(e).bit_length() > BIG_BITS:
            raise Unrepresentable("Integer beyond the double range")
        return f"(SInt {cz(int(e))})"
    if isinstance(e, sympy.Float):
        v = exact_float(e)
        try:
            fl = float(e)
        except OverflowError:
            raise Unrepresentable("Float that overflows a double")
        if fl != fl or fl in (float("inf"), float("-inf")) or Fraction(fl) != v:
            raise Unrepresentable("Float with more than 53 bits or outside the double range")
        return f"(SFloat {cq(v)})"
    if isinstance(e, sympy.Rational):
        if int(e.p).bit_length() > BIG_BITS or int(e.q).bit_length() > BIG_BITS:
            raise Unrepresentable("Rational beyond the double range")
        return f"(SRat {cz(e.p)} {int(e.q)}%positive)"
    if isinstance(e, sympy.core.numbers.ImaginaryUnit):
        return "SImag"
    if isinstance(e, sympy.Number):
        return f"(SNumOther {cstring(str(e))})"
    args = getattr(e, "args", ())
    if isinstance(e, sympy.Add):
        parts = [dump(a, neg_wanted=(len(args) == 2 and i == 1 and isinstance(a, sympy.Mul) and len(a.args) > 0 and a.args[0] == -1), stats=stats) for i, a in enumerate(args)]
        return f"(SAdd {clist(parts)})"
    if isinstance(e, sympy.Mul):
        neg = "None"
        if neg_wanted:
            n = e * (-1)
            if stats is not None:
                stats.append((e, n))
            neg = f"(Some {dump(n, stats=stats)})"
        return f"(SMul {clist([dump(a, stats=stats) for a in args])} {neg})"
    if isinstance(e, sympy.Pow):
        return f"(SPow {dump(args[0], stats=stats)} {dump(args[1], stats=stats)})"
    if isinstance(e, AppliedUndef):
        return f"(SUFunc {cstring(str(e.func))} {clist([dump(a, stats=stats) for a in args])})"
    if isinstance(e, sympy.Function):
        return f"(SFunc {cstring(str(e.func))} {clist([dump(a, stats=stats) for a in args])})"
    sub = [dump(a, stats=stats) for a in args if isinstance(a, sympy.Basic)]
    return f"(SOther {cstring(type(e).__name__)} {clist(sub)})"

def py_classify(e):
    """(inside the grammar, contains a construct outside it): the harness's own reading of the object."""
    if isinstance(e, (sympy.Symbol, sympy.Integer, sympy.Float, sympy.Rational, sympy.core.numbers.ImaginaryUnit)):
        return True, False
    if isinstance(e, sympy.Number):
        return False, False
    args = getattr(e, "args", ())
    sub = [py_classify(a) for a in args if isinstance(a, sympy.Basic)]
    allsup, anyuns = all(s for s, _ in sub), any(u for _, u in sub)
    if isinstance(e, (sympy.Add, sympy.Mul, sympy.Pow)):
        return allsup and len(args) > 0, anyuns
    if isinstance(e, AppliedUndef):
        return False, anyuns or str(e.func) not in TABLE
    if isinstance(e, sympy.Function):
        el = type(e) in (sympy.cos, sympy.sin, sympy.exp, sympy.tan)
        return el and allsup and len(args) == 1, anyuns or str(e.func) not in TABLE
    return False, True

def nnum(v):
    if isinstance(v, bool):
        raise Unrepresentable("bool")
    if isinstance(v, int):
        return f"(NNum (NInt {cz(v)}))"
    if isinstance(v, float):
        if v != v or v in (float("inf"), float("-inf")):
            raise Unrepresentable("non-finite float")
        return f"(NNum (NFloat {cq(Fraction(v))}))"
    if isinstance(v, complex):
        if v == 1j:
            return "(NNum NImag)"
        raise Unrepresentable("complex other than 1j")
    if isinstance(v, Fraction):
        return f"(NNum (NFloat {cq(v)}))"
    if isinstance(v, sympy.Number):
        return f"(NNum (NOtherNum {cstring(str(v))}))"
    raise Unrepresentable(type(v).__name__)

def ndump(t):
    if type(t) is Symbol:
        return f"(NSym {cstring(t.name)})"
    if type(t) is FunctionCall:
        return f"(NCall {cstring(t.name)} {clist([ndump(a) for a in t.args])})"
    return nnum(t)

def cres(st, out, f):
    if st == "ok":
        return f"(Ok {f(out)})"
    if out not in ERRMAP:
        raise Unrepresentable("exception " + out)
    return f"(Err {ERRMAP[out]})"

# ----------------------------------------------------------------------------- numeric oracle

def assignment(seed):
    r = random.Random(seed)
    return {n: complex(r.uniform(0.6, 1.9), r.uniform(-0.7, 0.7)) for n in SYMS}

NEG = [-4.0, -0.25, -9.0, -1.0, -2.25, -0.5, -16.0, -0.0625, -3.0]
SMALL = [0.125, -0.125, 0.03125, -0.0625, 0.25, -0.015625]

def assignments(seed):
    """the generic complex assignment, then assignments that put radicands on the branch cut of the
    principal powers: every symbol a negative real, two complementary sign patterns, small zero-free reals
    (all exactly representable, so that sums and products of symbols stay exactly real)"""
    r = random.Random(seed + 1)
    neg = {n: complex(r.choice(NEG), 0.0) for n in SYMS}
    signs = {n: r.choice([-1, 1]) for n in SYMS}
    mix1 = {n: complex(signs[n] * abs(r.choice(NEG)), 0.0) for n in SYMS}
    mix2 = {n: complex(-z.real, 0.0) for n, z in mix1.items()}
    small = {n: complex(r.choice(SMALL), 0.0) for n in SYMS}
    return [("generic", assignment(seed)), ("negative", neg), ("mixed", mix1), ("mixed'", mix2), ("small", small)]

CUT_VIA_I = False
PERTURB = 0    # relative perturbation of symbol values and non-integer constants (conditioning probe), see well_defined

def value(e, env, mp):
    """independent evaluator over (type, args): exact constants, mpmath complex arithmetic, principal powers"""
    if isinstance(e, bool):
        raise TypeError("bool")
    if isinstance(e, int):
        return mp.mpf(e)
    if isinstance(e, float):
        return mp.mpf(e)
    if isinstance(e, complex):
        return mp.mpc(e.real, e.imag)
    if isinstance(e, sympy.Symbol):
        z = env[str(e)]
        k = 1 + mp.mpf(PERTURB) * (1 + SYMS.index(str(e)))     # a real factor: real values stay real
        return mp.mpc(z.real, z.imag) * k if z.imag else mp.mpf(z.real) * k
    if isinstance(e, sympy.Integer):
        return mp.mpf(int(e))
    if isinstance(e, sympy.Float):
        v = exact_float(e)
        return mp.mpf(v.numerator) / mp.mpf(v.denominator) * (1 + mp.mpf(PERTURB) * mp.mpf("0.37"))
    if isinstance(e, sympy.Rational):
        return mp.mpf(int(e.p)) / mp.mpf(int(e.q)) * (1 + mp.mpf(PERTURB) * mp.mpf("0.37"))
    if isinstance(e, sympy.core.numbers.ImaginaryUnit):
        return mp.mpc(0, 1)
    if isinstance(e, sympy.Add):
        return mp.fsum(value(a, env, mp) for a in e.args)
    if isinstance(e, sympy.Mul):
        return mp.fprod(value(a, env, mp) for a in e.args)
    if isinstance(e, sympy.Pow) and e.args[0] is sympy.zoo:
        # sympy's canonical form of 0**(-x), only met on the translated side: 0 when Re x < 0, infinite otherwise
        x = value(e.args[1], env, mp)
        if mp.re(x) < 0:
            return mp.mpf(0)
        raise ZeroDivisionError("infinite intermediate value (zoo to a non-negative power)")
    if isinstance(e, sympy.Pow):
        b, x = value(e.args[0], env, mp), value(e.args[1], env, mp)
        if not (mp.im(x) == 0 and mp.isint(mp.re(x))) and mp.im(b) == 0 and mp.re(b) < 0 and e.args[0].has(sympy.I):
            global CUT_VIA_I
            CUT_VIA_I = True     # a negative real radicand produced through complex arithmetic (finding F40)
        # a base EXACTLY on the negative real axis has a principal power (argument +pi, on both sides of the
        # comparison alike); a base a rounding error away from the axis has not: rounding decides the side
        if not (mp.im(x) == 0 and mp.isint(mp.re(x))) and mp.re(b) < 0 and 0 < abs(mp.im(b)) <= mp.mpf(10) ** -12 * abs(mp.re(b)):
            raise ArithmeticError("base next to the branch cut of a non-integer power: rounding decides the side")
        if mp.im(b) == 0:
            b = mp.mpf(mp.re(b))
        r = mp.power(b, x)
        if mp.isinf(r) or mp.isnan(r):
            raise ZeroDivisionError("infinite intermediate value (0 to a negative power)")
        return r
    if type(e) in (sympy.cos, sympy.sin, sympy.exp, sympy.tan) and len(e.args) == 1:
        return getattr(mp, type(e).__name__)(value(e.args[0], env, mp))
    # sympy may rewrite while re-translating (exp(1) -> E, sin(I*z) -> I*sinh(z)): only met on the translated side
    if isinstance(e, sympy.NumberSymbol):
        return mp.mpmathify(e._to_mpmath(mp.prec + 20))
    if isinstance(e, sympy.Function) and not isinstance(e, AppliedUndef) and len(e.args) == 1 and hasattr(mp, type(e).__name__):
        return getattr(mp, type(e).__name__)(value(e.args[0], env, mp))
    raise TypeError(f"no value for {type(e).__name__}")

def numeric(e, env, digits=30, perturb=0):
    import mpmath
    global PERTURB
    PERTURB = perturb
    try:
        with mpmath.workdps(digits):
            return complex(value(e, env, mpmath.mp))
    finally:
        PERTURB = 0

def close(a, b):
    if cmath.isnan(a) or cmath.isnan(b) or cmath.isinf(a) or cmath.isinf(b):
        return None
    return abs(a - b) <= 1e-7 * (1 + abs(a) + abs(b))

def well_defined(e, env):
    """the expression has a finite value here that depends neither on the working precision nor on a relative
    change of 1e-12 of its constants and symbol values along the real direction (no division by zero, no
    cancellation to an exact zero under a root, no pole next door): float rounding of constants (float(Rational),
    Python arithmetic between literals) cannot then move the value by more than the tolerance.  A real
    perturbation keeps negative radicands negative, so a branch-cut disagreement is not hidden by this."""
    s1, v1 = outcome(numeric, e, env, 30, timeout=10)
    s2, v2 = outcome(numeric, e, env, 60, timeout=10)
    s3, v3 = outcome(numeric, e, env, 30, 1e-12, timeout=10)
    if s1 != "ok" or s2 != "ok" or s3 != "ok" or not close(v1, v2) or not close(v1, v3):
        return None
    return v1

# ----------------------------------------------------------------------------- generator

def rand_ntree(rng, depth):
    r = rng.random()
    if depth == 0 or r < 0.25:
        k = rng.random()
        if k < 0.4:
            return ["s", rng.choice(SYMS)]
        if k < 0.7:
            return ["i", rng.randint(-5, 9)]
        if k < 0.9:
            return ["f", rng.randint(-9, 9), rng.choice([1, 2, 4, 8])]
        return ["j"]
    name = rng.choice(TABLE + ["log", "Add", "", "cosh", "add "]) if rng.random() < 0.25 else rng.choice(TABLE)
    return ["c", name, [rand_ntree(rng, depth - 1) for _ in range(rng.choice([0, 1, 1, 2, 2, 3]))]]

def build_ntree(s):
    if s[0] == "s": return Symbol(s[1])
    if s[0] == "i": return s[1]
    if s[0] == "f": return s[1] / s[2]
    if s[0] == "j": return 1j
    return FunctionCall(s[1], tuple(build_ntree(c) for c in s[2]))

def rand_name(rng):
    parts = []
    for _ in range(rng.choice([1, 1, 2, 2, 3])):
        parts.append(rng.choice(["beta", "theta", "x", "x_", "_", "", "a", "B", "beta_", "gamma-"]))
        if rng.random() < 0.8:
            parts.append(rng.choice(["0", "1", "2", "10", "02", "9", "11", "100", "007", "20", str(rng.randint(0, 3000))]))
    return "".join(parts)

X, Y, Z = ["sym", "x"], ["sym", "y"], ["sym", "beta_10"]
FIXED = [
    ["op", "-", [X, Y]], ["op", "-", [Y, X]], ["op", "/", [X, Y]], ["op", "/", [Y, X]], ["op", "inv", [X]], ["op", "sqrt", [X]],
    ["op", "**", [X, ["flt", 1, 2]]], ["op", "**", [X, ["flt", -1, 1]]], ["op", "**", [X, ["rat", -1, 2]]], ["op", "**", [X, ["int", -2]]],
    ["op", "-", [X, ["op", "*", [["int", 2], Y]]]], ["op", "-", [X, ["op", "*", [Y, Z]]]], ["op", "-", [["op", "-", [X, Y]], Z]],
    ["op", "+", [X, ["op", "*", [["flt", -1, 1], Y]]]], ["op", "/", [["op", "*", [X, Y]], Z]], ["op", "/", [X, ["op", "*", [Y, Z]]]],
    ["op", "neg", [X]], ["op", "*", [["int", 2], ["I"]]], ["op", "+", [["rat", 1, 3], X]], ["op", "cos", [["op", "-", [X, Y]]]],
    ["op", "/", [["int", 1], ["op", "sqrt", [X]]]], ["op", "/", [Y, ["op", "sqrt", [["op", "*", [X, Y]]]]]],
    ["op", "**", [X, ["rat", -3, 2]]], ["op", "**", [X, ["flt", -1, 2]]], ["raw", "Pow", [["op", "-", [X, Y]], ["rat", -1, 2]]],
    ["op", "+", [["op", "/", [["op", "cos", [Y]], ["op", "sqrt", [["op", "*", [X, Y]]]]]], ["int", 2]]],
    ["op", "/", [["op", "sqrt", [X]], Y]], ["op", "sqrt", [["op", "inv", [X]]]],
    ["raw", "Add", [["raw", "Mul", [["int", -1], Y]], X]], ["raw", "Add", [X, ["raw", "Mul", [Y, ["int", -1]]]]],
    ["raw", "Mul", [["raw", "Pow", [Y, ["int", -1]]], X]], ["raw", "Add", [X, ["raw", "Mul", [["int", -1], ["int", 0], ["uns", "pi", []]]]]],
    ["uns", "ucos", [X]], ["uns", "uadd", [X, Y]], ["uns", "log", [X]], ["uns", "pi", []], ["op", "exp", [["int", 1]]],
    ["raw", "Add", [X, ["raw", "Mul", [["int", -1], ["raw", "Pow", [["op", "exp", [["int", -1]]], ["int", -1]]]]]]],
]

def gen(rng, tier):
    n = {"quick": 900, "search": 500}.get(tier, 20000)
    for i, sp in enumerate(FIXED):
        yield dict(kind="convert", spec=sp, envseed=i)
    yield dict(kind="natkey", names=["beta_10", "theta_2", "beta_2", "theta_1", "x1", "x01", "x"])
    for _ in range(n):
        r = rng.random()
        if r < 0.55:
            yield dict(kind="convert", spec=tame(spec(rng, rng.randint(1, 5), 0.0)), envseed=rng.randint(0, 10 ** 6))
        elif r < 0.72:
            yield dict(kind="convert", spec=tame(spec(rng, rng.randint(1, 4), rng.choice([0.08, 0.2]))), envseed=rng.randint(0, 10 ** 6))
        elif r < 0.82:
            yield dict(kind="translate", tree=rand_ntree(rng, rng.randint(1, 4)),
                       names=rng.sample(TABLE + ["log"], rng.randint(5, 11)))
        elif r < 0.9:
            name = rng.choice(TABLE + ["log", "div ", "Sub"]) if rng.random() < 0.3 else rng.choice(TABLE[:5])
            k = rng.choice([0, 1, 2, 2, 2, 3, 4]) if name in ("add", "mul") or rng.random() < 0.3 else \
                (2 if name in ("div", "sub", "pow") else 1)
            args = [[rng.choice([-7, -5, -3, -2, -1, 1, 2, 3, 5, 7, 11]), rng.choice([1, 1, 2, 3, 4])] for _ in range(k)]
            if name == "pow" and k == 2:
                args[1] = [rng.randint(-3, 4), 1]
            yield dict(kind="dialect", name=name, args=args)
        else:
            yield dict(kind="natkey", names=[rand_name(rng) for _ in range(rng.randint(1, 7))])

# ----------------------------------------------------------------------------- cases

def collide(e):
    """undefined function whose name is an entry of the dialect table (finding F30)."""
    return any(isinstance(a, AppliedUndef) and str(a.func) in TABLE for a in sympy.preorder_traversal(e)) \
        if isinstance(e, sympy.Basic) else False

def show(e):
    for f in (sympy.srepr, str):
        try:
            return f(e)
        except Exception:
            pass
    return "<unprintable sympy object>"

def run_convert(inp):
    bst, e = outcome(build, inp["spec"], timeout=5)
    if bst != "ok":  # sympy refused to construct the object (e.g. relational inside arithmetic) or did not finish
        return dict(chk=None, oracle_ok=True, oracle_msg="", kind="convert-unbuildable", nontrivial=False)
    st, out = outcome(expression_from_sympy, e, timeout=20)
    sup, uns = py_classify(e)
    stats = []
    try:
        d = dump(e, stats=stats)
        # the model's [supported] also looks at the recorded negations (they are converted in place of the product)
        sup_model = sup and all(py_classify(n)[0] for _, n in stats)
        chk = f"from_sympy_eqb {d} {cres(st, out, ndump)} {cbool(sup_model)} {cbool(uns)}"
    except Unrepresentable as ex:
        return dict(chk=None, oracle_ok=True, oracle_msg=str(ex), kind="convert-unrepresentable", nontrivial=False)
    ok, msg = True, ""
    kind = "convert"
    st2, back = None, None
    if st == "ok":
        st2, back = outcome(translate_expression, out, SYMPY_DIALECT, timeout=20)
    refused = st != "ok" or st2 != "ok"
    env = assignment(inp["envseed"])
    # what is trusted about expr*(-1): value and no loss of unsupported constructs, checked on every recorded call
    lost = False
    for prod, n in stats:
        if py_classify(prod)[1] and not py_classify(n)[1]:
            lost = True      # sympy simplified the unsupported construct away while multiplying by -1 (finding F31)
        if py_classify(prod)[0] and not py_classify(n)[0]:
            lost = True      # .. or produced one: 1/exp(-1) re-evaluates to E (same finding)
        if py_classify(prod)[0]:
            v1 = well_defined(prod, env)
            s2, v2 = outcome(numeric, n, env, timeout=10)
            if v1 is not None and (s2 != "ok" or not close(v1, -v2)):
                ok, msg = False, f"sympy: ({prod})*(-1) = {n} has value {v2}, product has {v1}"
    if uns or collide(e):      # property level: an undefined function is outside the grammar whatever its name
        kind = "convert-unsupported"
        if not refused:
            ok, msg = False, f"{show(e)} contains an unsupported construct but was translated to {back}"
    elif sup:
        compared = 0
        via_i = False
        global CUT_VIA_I
        for label, env_k in assignments(inp["envseed"]):
            CUT_VIA_I = False
            v1 = well_defined(e, env_k)
            flagged = CUT_VIA_I
            if v1 is None:
                continue                            # zoo/nan/ill-conditioned original here: no claim about the value
            if refused and "OverflowError" in str(out if st != "ok" else back):
                kind = "convert-overflow"           # Python-number arithmetic of the dialect left the double range: not modelled
                compared += 1
                break
            if refused:
                ok, msg = False, f"{show(e)} is inside the grammar but was refused ({out if st != 'ok' else back})"
                break
            s2, v2 = outcome(numeric, back, env_k, timeout=10)
            if s2 != "ok" and "ArithmeticError" in str(v2):
                continue                            # the re-translated expression sits next to a branch cut
            compared += 1
            if s2 != "ok" or not close(v1, v2):
                at = {n: z for n, z in env_k.items() if sympy.Symbol(n) in e.free_symbols}
                ok, msg = False, f"{show(e)} -> {out} -> {back}: at the {label} assignment {at} value {v1} became {v2}"
                via_i = flagged
                break
        if ok and compared == 0:
            kind = "convert-degenerate-value"
    else:
        kind = "convert-other-number"
    sig = "F30" if collide(e) else ("F31" if lost else ("F40" if not ok and sup and via_i else None))
    return dict(chk=chk, oracle_ok=ok, oracle_msg=msg, kind=kind, sig=sig,
                nontrivial=isinstance(e, sympy.Basic) and len(getattr(e, "args", ())) > 0)

def run_case(inp):
    kind = inp["kind"]
    if kind == "convert":
        try:
            return run_convert(inp)
        except (OverflowError, Unrepresentable) as ex:   # a constant or value beyond the double range on the harness side
            return dict(chk=None, oracle_ok=True, oracle_msg=f"{type(ex).__name__}: {ex}", kind="convert-overflow", nontrivial=False)
    if kind == "translate":
        names = inp["names"]
        t = build_ntree(inp["tree"])
        dia = ExpressionDialect(symbol_factory=lambda s: Symbol(s.name + "?"), number_factory=lambda n: n,
                                known_functions={n: (lambda n: (lambda *a: FunctionCall(n + "!", a)))(n) for n in names})
        st, out = outcome(translate_expression, t, dia)
        ok, msg = True, ""
        def unknown(s):
            return s[0] == "c" and (s[1] not in names or any(unknown(c) for c in s[2]))
        if (st != "ok") != unknown(inp["tree"]):
            ok, msg = False, f"translate {t} with names {names}: {st} {out}"
        return dict(chk=f"translate_rec_eqb {clist(names, cstring)} {ndump(t)} {cres(st, out, ndump)}", oracle_ok=ok,
                    oracle_msg=msg, kind=kind + ("" if st == "ok" else "-refused"), nontrivial=inp["tree"][0] == "c")
    if kind == "dialect":
        name, args = inp["name"], [Fraction(a, b) for a, b in inp["args"]]
        st, out = outcome(translate_expression, FunctionCall(name, tuple(args)), SYMPY_DIALECT)
        ok, msg = True, ""
        if name not in ("add", "mul", "div", "sub", "pow"):
            if name in TABLE:   # sympy constructors: identity of the callable is the oracle; no model side
                fn = {"cos": sympy.cos, "sin": sympy.sin, "exp": sympy.exp, "tan": sympy.tan, "sqrt": sympy.sqrt}[name]
                ok = SYMPY_DIALECT.known_functions[name] is fn
                return dict(chk=None, oracle_ok=ok, oracle_msg="" if ok else f"table entry {name} is not sympy.{name}",
                            kind="dialect-sympy-fn", nontrivial=True)
        else:
            import functools, operator
            ref = {"add": lambda *a: functools.reduce(operator.add, a), "mul": lambda *a: functools.reduce(operator.mul, a),
                   "div": lambda a, b: a / b, "sub": lambda a, b: a - b, "pow": lambda a, b: a ** b}[name]
            s2, o2 = outcome(ref, *args)
            if (st, out) != (s2, o2):
                ok, msg = False, f"SYMPY_DIALECT[{name}]{tuple(args)} = {st} {out}, expected {s2} {o2}"
        keys = f"dialect_keys_eqb {clist(list(SYMPY_DIALECT.known_functions), cstring)}"
        if st == "ok" and not isinstance(out, (int, Fraction)):
            raise Unrepresentable(repr(out))
        return dict(chk=f"dialect_eqb {cstring(name)} {clist(args, cq)} {cres(st, out, cq)} && {keys}", oracle_ok=ok,
                    oracle_msg=msg, kind=kind + ("" if st == "ok" else "-error"), nontrivial=True)
    if kind == "natkey":
        names = inp["names"]
        syms = [Symbol(n) for n in names]
        keys = [natural_key(s) for s in syms]
        s_nat = [s.name for s in sorted(syms, key=natural_key)]
        s_rev = [s.name for s in sorted(syms, key=natural_key_revlex)]
        ck = lambda k: clist(k, lambda g: f"(KI {cN(g)})" if isinstance(g, int) else f"(KS {cstring(g)})")
        # oracle: names that differ only in their digit groups are ordered by those numbers
        import re
        ok, msg = True, ""
        skel = lambda n: re.sub(r"[0-9]+", "#", n)
        nums = lambda n: [int(g) for g in re.findall(r"[0-9]+", n)]
        for a, b in zip(s_nat, s_nat[1:]):
            if skel(a) == skel(b) and nums(a) > nums(b):
                ok, msg = False, f"sorted by natural_key puts {a} before {b}"
        # reversed keys: names of the form <digit-free text><number> are ordered by number first, then text
        tail = lambda n: re.fullmatch(r"([^0-9]*)([0-9]+)", n)
        for a, b in zip(s_rev, s_rev[1:]):
            ma, mb = tail(a), tail(b)
            if ma and mb and (int(ma.group(2)), ma.group(1)) > (int(mb.group(2)), mb.group(1)):
                ok, msg = False, f"sorted by natural_key_revlex puts {a} before {b}"
        return dict(chk=f"natkey_eqb {clist(names, cstring)} {clist(keys, ck)} {clist(s_nat, cstring)} {clist(s_rev, cstring)}",
                    oracle_ok=ok, oracle_msg=msg, kind=kind, nontrivial=len(set(names)) >= 2)
    raise ValueError(kind)

def w_n1():
    x = sympy.Symbol("x")
    e = sympy.Function("cos")(x)
    st, out = outcome(lambda: translate_expression(expression_from_sympy(e), SYMPY_DIALECT))
    bad = st == "ok"
    return bad, f"undefined function Function('cos')(x) is translated to {out!r} (type {type(out).__name__}) instead of being refused"

def w_n2():
    x = sympy.Symbol("x")
    e = sympy.Add(x, sympy.Mul(-1, 0, sympy.pi, evaluate=False), evaluate=False)
    st, out = outcome(lambda: translate_expression(expression_from_sympy(e), SYMPY_DIALECT))
    e2 = sympy.Add(x, sympy.Mul(-1, sympy.Pow(sympy.exp(-1), -1, evaluate=False), evaluate=False), evaluate=False)
    st2, out2 = outcome(lambda: translate_expression(expression_from_sympy(e2), SYMPY_DIALECT))
    return st == "ok" or st2 != "ok", (f"Add(x, Mul(-1, 0, pi)) (unevaluated) contains pi but is translated to {out!r}; "
                                       f"x - 1/exp(-1) (unevaluated, inside the grammar) gives {out2}: expr*(-1) re-evaluates the product")

def w_n3():
    e = sympy.Mul(-2, sympy.Pow(sympy.Pow(sympy.I, -2, evaluate=False), sympy.Rational(-1, 2), evaluate=False), evaluate=False)
    st, out = outcome(lambda: translate_expression(expression_from_sympy(e), SYMPY_DIALECT))
    v = numeric(e, {})
    bad = st != "ok" or not close(v, complex(out))
    return bad, f"-2*(I**-2)**(-1/2) (unevaluated) has value {v} but is translated to {out!r}: 1j**-2 is computed in Python complex floats"

H.main(gen, run_case, {"F40": w_n3, "F30": w_n1, "F31": w_n2})
