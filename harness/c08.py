"""C08 correspondence harness: circuit-level constructions (inverse, controlled, gate layers, ancillas).

Structure (exact, compared inside Coq): the circuit each construction returns - its width and, per operation,
the class nesting / control counts / exponents / parameters of the gate object (read from its fields) and the
qubit tuple - against the model (Circ/Constructions.v) applied to the observed input circuit.  For circuits of
gates with Gaussian-rational matrices under controlled / dagger / non-negative integer powers the unitary of
the model's result (Circ/Circuit.v to_unitary over GateAst.sem) is compared exactly with the matrix
Circuit.to_unitary() returned.
Independent oracle (numpy, never the model, never Circuit.to_unitary): a reference unitary built from the
gates' own matrices by bit arithmetic; inverse = conjugate transpose, circuit + inverse = identity, double
inverse = original action, controlled(k) = identity unless bit k is set on both sides / the original on the
other bits, ancillas = kron with an identity, layers and apply_gate_to_qubits = one gate per distinct qubit,
every row once, prefix untouched, action independent of the order of the appended gates."""
import math
import numpy as np, sympy
from hlib import *
from orquestra.quantum.circuits import (Circuit, X, Y, Z, H as Hgate, I as Igate, S, T, SX, CNOT, CZ, SWAP, ISWAP,
                                        RX, RY, RZ, PHASE, U3, GPi, CPHASE, XX, CustomGateDefinition)
from orquestra.quantum.circuits._gates import MatrixFactoryGate, ControlledGate, Dagger, Exponential, Power
from orquestra.quantum.circuits._generators import create_layer_of_gates, apply_gate_to_qubits, add_ancilla_register

Hh = Harness("C08", ["OQ.Base.CaseEq", "OQ.Circ.GateAst", "OQ.Circ.GateAstCases", "OQ.Circ.CircuitCases",
                     "OQ.Circ.Constructions", "OQ.Circ.ConstructionsCases"],
             "kinds: inverse (inverse(), inverse().inverse(), c + c.inverse(); circuits of self-adjoint, parametric "
             "(dyadic or symbolic parameters), wrapped (controlled/dagger/power/exp chains) and custom gates on 1-5 "
             "qubits, unordered qubit tuples, idle top qubits), controlled (every k in 0..n and some k > n; -collide = several "
             "different wrapped gates whose name/params/arity coincide - c-X with c-Z, exp^X with exp^Z, powers of those - in one "
             "circuit; -twice = controlled(a).controlled(b), model chained from the original circuit), apply "
             "(apply_gate_to_qubits on lists/tuples/ranges/sets with duplicates, factories with 0-3 parameters, rows as "
             "tuples, ready gates; -assert = wrong number of rows), layer (create_layer_of_gates), ancilla (0-3 ancillas), add "
             "(circuit + circuit of different widths); "
             "suffix -sem = unitary of the model's result compared exactly in Coq, -num = numpy oracle evaluated, "
             "-nonum = matrices symbolic / too large / too slow for sympy; non-trivial = at least two operations (or two "
             "distinct qubits) and at least one gate that is not self-adjoint or acts on several qubits")

# ----------------------------------------------------------------------------- gates

THETA, PHI = sympy.Symbol("theta"), sympy.Symbol("phi")
GAM, DEL = sympy.Symbol("gamma"), sympy.Symbol("delta")
SYMS = {"theta": THETA, "phi": PHI}
# exact, unitary, neither self-adjoint nor symmetric
CG_DEF = CustomGateDefinition("cg", sympy.Matrix([[0, sympy.I], [1, 0]]), ())
CP_DEF = CustomGateDefinition("cp", sympy.Matrix([[1, 0], [0, sympy.exp(sympy.I * GAM)]]), (GAM,))
C2_DEF = CustomGateDefinition("c2", sympy.Matrix([[sympy.cos(GAM), -sympy.exp(sympy.I * DEL) * sympy.sin(GAM)],
                                                  [sympy.exp(-sympy.I * DEL) * sympy.sin(GAM), sympy.cos(GAM)]]), (GAM, DEL))

# name -> (constructor, arity, number of parameters, is_hermitian flag of the produced gate)
BASES = {
    "X": (lambda: X, 1, 0, True), "Y": (lambda: Y, 1, 0, True), "Z": (lambda: Z, 1, 0, True), "H": (lambda: Hgate, 1, 0, True),
    "I": (lambda: Igate, 1, 0, True), "S": (lambda: S, 1, 0, False), "T": (lambda: T, 1, 0, False), "SX": (lambda: SX, 1, 0, False),
    "CNOT": (lambda: CNOT, 2, 0, True), "CZ": (lambda: CZ, 2, 0, True), "SWAP": (lambda: SWAP, 2, 0, True),
    "ISWAP": (lambda: ISWAP, 2, 0, False),
    "RX": (RX, 1, 1, False), "RY": (RY, 1, 1, False), "RZ": (RZ, 1, 1, False), "PHASE": (PHASE, 1, 1, False),
    "GPi": (GPi, 1, 1, True), "U3": (U3, 1, 3, False), "CPHASE": (CPHASE, 2, 1, False), "XX": (XX, 2, 1, False),
    "cg": (CG_DEF, 1, 0, False), "cp": (CP_DEF, 1, 1, False), "c2": (C2_DEF, 1, 2, False),
}
EXACT = ["X", "Y", "Z", "I", "S", "SX", "CNOT", "CZ", "SWAP", "ISWAP", "cg"]
PLAIN = ["X", "Y", "Z", "H", "I", "S", "T", "SX", "CNOT", "CZ", "SWAP", "ISWAP", "cg"]
PARAM = ["RX", "RY", "RZ", "PHASE", "GPi", "U3", "CPHASE", "XX", "cp", "c2"]
MODS = [["c", 1], ["c", 1], ["c", 2], ["d"], ["d"], ["pi", 2], ["pi", 3], ["pi", -1], ["pi", 0], ["pf", 0.5], ["pf", 0.25],
        ["pf", 1.5], ["e"]]
EXACT_MODS = [["c", 1], ["d"], ["d"], ["pi", 2], ["pi", 3], ["pi", 0]]

# families of different gates that share (name, params, num_qubits): (arity, gates, exact matrices)
def _g(b, *ch):
    return dict(b=[b], ch=[list(m) for m in ch])
COLLIDE = [
    (2, [_g(b, ["c", 1]) for b in ("X", "Y", "Z", "S", "SX", "cg", "I")], True),
    (3, [_g(b, ["c", 1]) for b in ("CNOT", "CZ", "SWAP", "ISWAP")] + [_g(b, ["c", 2]) for b in ("X", "Z", "S")], True),
    (2, [_g(b, ["c", 1], ["pi", 2]) for b in ("X", "S", "SX", "cg")] + [_g(b, ["pi", 2], ["c", 1]) for b in ("Z", "Y")], True),
    (2, [_g(b, ["d"], ["c", 1]) for b in ("S", "T", "SX", "cg")] + [_g("X", ["c", 1])], False),
    (1, [_g(b, ["e"]) for b in ("X", "Y", "Z", "S", "cg")], False),
    (1, [_g(b, ["e"], ["pi", 2]) for b in ("X", "Z", "S")], False),
    (1, [_g(b, ["e"], ["pf", 0.5]) for b in ("X", "Z")], False),
    (2, [_g(b, ["e"], ["c", 1]) for b in ("X", "Z", "S")] + [_g("Y", ["c", 1])], False),
]


def pval(p):
    """JSON parameter -> Python value: [num, den] dyadic -> float (exact), 'theta' -> symbol."""
    if isinstance(p, str):
        return SYMS[p]
    return p[0] / p[1]


def apply_mod(g, m):
    if m[0] == "c":
        return g.controlled(m[1])
    if m[0] == "d":
        return g.dagger
    if m[0] == "e":
        return g.exp
    return g.power(int(m[1]) if m[0] == "pi" else float(m[1]))


def build_gate(gs):
    """gs = dict(b=[name, *params], ch=[modifiers])"""
    name, ps = gs["b"][0], [pval(p) for p in gs["b"][1:]]
    ctor, _, npar, _ = BASES[name]
    g = ctor(*ps) if (npar or name in ("cg",)) else ctor()
    for m in gs["ch"]:
        g = apply_mod(g, m)
    return g


def gate_arity(gs):
    return BASES[gs["b"][0]][1] + sum(m[1] for m in gs["ch"] if m[0] == "c")


def build_circuit(cs):
    ops = [build_gate(o["g"])(*o["q"]) for o in cs["ops"]]
    return Circuit(ops, n_qubits=cs["n"]) if cs["n"] is not None else Circuit(ops)

# ----------------------------------------------------------------------------- observation -> Coq literals


def enc_param(p):
    if isinstance(p, bool):
        raise ValueError("bool parameter")
    if isinstance(p, (int, float)):
        return f"(CNum {cq(Fraction(p))})"
    p = sympy.sympify(p)
    if p.free_symbols:
        return f"(CSym {cstring(str(p))})"
    if p.is_Rational:
        return f"(CNum {cq(Fraction(int(p.p), int(p.q)))})"
    return f"(CNum {cq(Fraction(float(p)))})"


def enc_exponent(e):
    if isinstance(e, bool):
        raise ValueError("bool exponent")
    if isinstance(e, int):
        return f"(EInt {cz(e)})"
    e = float(e)
    if e > 0:
        q = round(1 / e)
        if q >= 2 and 1.0 / q == e:
            return f"(ERoot {q}%positive)"
    return f"(EOther {cstring(str(e))})"


def enc_gate(g):
    """Structure of the Python object, read from its fields."""
    t = type(g)
    if t is MatrixFactoryGate:
        return f"(Base {cstring(g.name)} {clist(g.params, enc_param)} {cnat(g.num_qubits)} {cbool(g.is_hermitian)})"
    if t is ControlledGate:
        return f"(Ctrl {enc_gate(g.wrapped_gate)} {cnat(g.num_control_qubits)})"
    if t is Dagger:
        return f"(Dag {enc_gate(g.wrapped_gate)})"
    if t is Exponential:
        return f"(Exp {enc_gate(g.wrapped_gate)})"
    if t is Power:
        return f"(Pow {enc_gate(g.wrapped_gate)} {enc_exponent(g.exponent)})"
    raise ValueError("unknown gate class " + t.__name__)


def enc_op(op):
    qs = list(op.qubit_indices)
    if not all(type(q) is int for q in qs):
        raise ValueError(f"qubit indices {qs!r} are not Python ints")
    return cpair(enc_gate(op.gate), clist(qs, cnat))


def enc_circ(c):
    return f"(Cq {cnat(c.n_qubits)} {clist(c.operations, enc_op)})"


def enc_obs(res):
    """('ok', circuit) -> Some (width, operations); ValueError / AssertionError -> None; anything else -> no literal."""
    st, c = res
    if st == "err":
        return "None" if c in ("ValueError", "AssertionError") else None
    return f"(Some ({cnat(c.n_qubits)}, {clist(c.operations, enc_op)}))"

# exact matrices


def ex(z):
    if isinstance(z, sympy.Basic):
        z = sympy.expand(z)
        re, im = z.as_real_imag()
        out = []
        for p in (re, im):
            out.append(Fraction(int(p.p), int(p.q)) if p.is_Rational else Fraction(float(p)))
        return tuple(out)
    z = complex(z)
    return (Fraction(z.real), Fraction(z.imag))


def cg_lit(z):
    re, im = z
    if re == 0 and im == 0:
        return "gz"
    den = re.denominator * im.denominator // math.gcd(re.denominator, im.denominator)
    a, b = int(re * den), int(im * den)
    return f"(gd {a if a >= 0 else '(' + str(a) + ')'} {b if b >= 0 else '(' + str(b) + ')'} {den})"


def csmat(M):
    M = np.asarray(M)
    rows = [[ex(M[i, j]) for j in range(M.shape[1])] for i in range(M.shape[0])]
    return clist(rows, lambda row: clist([(j, v) for j, v in enumerate(row) if v != (0, 0)],
                                         lambda jv: cpair(cnat(jv[0]), cg_lit(jv[1]))))


def base_of(g):
    while type(g) is not MatrixFactoryGate:
        g = g.wrapped_gate
    return g


def base_table(circs):
    seen = {}
    for c in circs:
        for op in c.operations:
            b = base_of(op.gate)
            if b.name not in seen:
                m = b.matrix
                seen[b.name] = clist(m.tolist(), lambda row: clist(row, lambda x: "(%s, %s)" % tuple(cq(v) for v in ex(x))))
    return clist(sorted(seen.items()), lambda kv: cpair(cstring(kv[0]), kv[1]))

# ----------------------------------------------------------------------------- numpy reference

TOL = 1e-8
_MAT_CACHE = {}


def classes(g):
    out = []
    while type(g) is not MatrixFactoryGate:
        out.append(g)
        g = g.wrapped_gate
    return out


def has_frac_power(g):
    return any(type(w) is Power and not isinstance(w.exponent, int) for w in classes(g))


def sympy_heavy(g):
    """Gates whose matrix sympy 1.9 may not produce quickly: anything under Exponential or a fractional / negative
    power (only attempted for dimension <= 4 under an alarm)."""
    return any(type(w) is Exponential or (type(w) is Power and (not isinstance(w.exponent, int) or w.exponent < 0))
               for w in classes(g))


def sympy_hopeless(g):
    """Not even attempted in the quick tier (see C07): exponentials of matrices with irrational / float entries,
    nested exponentials, fractional or negative powers of an exponential."""
    ws = classes(g)
    n_exp = sum(1 for w in ws if type(w) is Exponential)
    pw = False
    for w in ws:
        if type(w) is Power and (not isinstance(w.exponent, int) or w.exponent < 0):
            pw = True
        if type(w) is Exponential and pw:
            return True
    return n_exp >= 2 or (n_exp == 1 and base_of(g).name not in ("X", "Y", "Z", "I", "S", "cg", "CNOT", "CZ", "SWAP"))


def npmat(m):
    return np.array([[complex(sympy.N(x)) for x in row] for row in m.tolist()], dtype=complex)


def gate_matrix(g):
    """('ok', ndarray) | ('skip', why)"""
    key = enc_gate(g)
    if key in _MAT_CACHE:
        return _MAT_CACHE[key]
    if g.free_symbols:
        r = ("skip", "symbolic")
    elif sympy_heavy(g) and (2 ** g.num_qubits > 4 or sympy_hopeless(g)):
        r = ("skip", "sympy too slow")
    else:
        st, v = outcome(lambda: npmat(g.matrix), timeout=5)
        if st == "ok" and np.all(np.isfinite(v)):
            r = ("ok", v)
        else:
            r = ("skip", f"matrix: {v if st != 'ok' else 'non-finite'}")
    _MAT_CACHE[key] = r
    return r


def ref_lift(G, qs, n):
    """G on the qubits qs (qubit 0 = most significant bit), identity elsewhere - by bit arithmetic."""
    d = 2 ** n
    pos = [n - 1 - q for q in qs]
    mask = sum(1 << p for p in pos)
    L = np.zeros((d, d), dtype=complex)
    for x in range(d):
        sx = sum(((x >> p) & 1) << (len(pos) - 1 - i) for i, p in enumerate(pos))
        rest = x & ~mask
        for sy in range(2 ** len(qs)):
            y = rest | sum(((sy >> (len(pos) - 1 - i)) & 1) << p for i, p in enumerate(pos))
            L[x, y] = G[sx, sy]
    return L


def ref_unitary(ops, n):
    """('ok', U) | ('skip', why); ops = GateOperations"""
    if n > 5:
        return ("skip", "register too wide")
    U = np.eye(2 ** n, dtype=complex)
    for op in ops:
        if len(op.qubit_indices) != op.gate.num_qubits:
            return ("skip", "arity")
        r = gate_matrix(op.gate)
        if r[0] != "ok":
            return r
        U = ref_lift(r[1], list(op.qubit_indices), n) @ U
    return ("ok", U)


def close(a, b):
    return a.shape == b.shape and np.allclose(a, b, atol=TOL, rtol=0)

# ----------------------------------------------------------------------------- generator


def dy(rng):
    k = rng.choice([1, 3, 5, 7, 9, 11, 13, -3, -5, -7])
    return [k, 2 ** rng.randint(1, 4)]


def rand_gate(rng, n, exact=False, symbolic=False, wrapped=True):
    for _ in range(50):
        if exact:
            name, ps = rng.choice(EXACT), []
        elif symbolic and rng.random() < 0.6:
            name = rng.choice(PARAM)
            ps = [rng.choice(["theta", "phi"]) if rng.random() < 0.7 else dy(rng) for _ in range(BASES[name][2])]
        elif rng.random() < 0.45:
            name = rng.choice(PARAM)
            ps = [dy(rng) for _ in range(BASES[name][2])]
        else:
            name, ps = rng.choice(PLAIN), []
        sym = any(isinstance(p, str) for p in ps)
        ch = []
        if wrapped and rng.random() < 0.55:
            pool = EXACT_MODS if exact else ([["c", 1], ["d"], ["c", 2]] if sym else MODS)
            for _ in range(rng.choice([1, 1, 2, 3])):
                ch.append(list(rng.choice(pool)))
        gs = dict(b=[name] + ps, ch=ch)
        if gate_arity(gs) <= n:
            return gs
    return dict(b=["X"], ch=[])


def rand_circuit(rng, nmax, exact=False, symbolic=False, min_ops=0, max_ops=6):
    n = rng.randint(1, nmax)
    ops = []
    for _ in range(rng.randint(min_ops, max_ops)):
        g = rand_gate(rng, n, exact, symbolic)
        ops.append(dict(g=g, q=rng.sample(range(n), gate_arity(g))))
    used = 1 + max([q for o in ops for q in o["q"]], default=-1)
    r = rng.random()
    if r < 0.55:
        width = n                      # explicit, possibly with idle top qubits
    elif r < 0.8:
        width = None                   # by operations
    else:
        width = max(used, 1) if used else None
    return dict(n=width, ops=ops)


FACTORIES = [("cg", 0), ("RX", 1), ("PHASE", 1), ("GPi", 1), ("cp", 1), ("c2", 2), ("U3", 3)]
READY = [dict(b=["X"], ch=[]), dict(b=["H"], ch=[]), dict(b=["T"], ch=[["d"]]), dict(b=["S"], ch=[["pi", 3]]),
         dict(b=["RX", [3, 8]], ch=[]), dict(b=["cg"], ch=[["d"]]), dict(b=["SX"], ch=[]), dict(b=["Z"], ch=[["pf", 0.5]]),
         dict(b=["RZ", "theta"], ch=[])]


def rand_rows(rng, npar, k, symbolic=False):
    return [[("theta" if symbolic and rng.random() < 0.3 else dy(rng)) for _ in range(npar)] for _ in range(k)]


def rand_collection(rng, hi):
    t = rng.choice(["list", "list", "tuple", "set", "range"])
    if t == "range":
        start = rng.randint(0, 3)
        return dict(t="range", a=[start, start + rng.randint(0, 5), rng.choice([1, 1, 2, 3])])
    k = rng.randint(0, 6)
    pool = list(range(hi)) + ([8, 9, 16, 17, 32, 33, 40] if rng.random() < 0.25 else [])
    vals = [rng.choice(pool) for _ in range(k)]
    if t != "set" and vals and rng.random() < 0.5:
        vals.insert(rng.randint(0, len(vals)), rng.choice(vals))      # a duplicate
    return dict(t=t, a=vals)


def build_collection(cs):
    if cs["t"] == "range":
        return range(*cs["a"])
    return {"list": list, "tuple": tuple, "set": set}[cs["t"]](cs["a"])


def gen(rng, tier):
    thorough = tier == "thorough"
    scale = 20 if thorough else 1
    nsem = 4 if thorough else 3
    # inverse
    for i in range(110 * scale):
        r = rng.random()
        if r < 0.3:
            yield dict(kind="inverse", c=rand_circuit(rng, nsem, exact=True, min_ops=1), sem=True)
        elif r < 0.45:
            yield dict(kind="inverse", c=rand_circuit(rng, 4, symbolic=True), sem=False)
        else:
            yield dict(kind="inverse", c=rand_circuit(rng, 5), sem=False)
    # controlled: every k in 0..n and a few beyond
    for i in range(22 * scale):
        exact = rng.random() < 0.35
        c = rand_circuit(rng, 3 if exact else 4, exact=exact, symbolic=(not exact and rng.random() < 0.15), min_ops=0 if i % 7 == 0 else 1, max_ops=5)
        n = build_circuit(c).n_qubits
        for k in list(range(n + 1)) + [n + 1] + ([n + 3] if rng.random() < 0.3 else []):
            yield dict(kind="controlled", c=c, k=k, sem=exact and k <= n and n <= 3)
    # gates whose `name` does not identify the wrapped gate (every ControlledGate is "Control", every Exponential
    # "Exponential", a Power of those "Control^e"/"Exponential^e") with equal parameters and arity, several
    # different ones in one circuit, in different orders and positions; and controlled(a).controlled(b)
    for i in range(24 * scale):
        fam = rng.choice(COLLIDE)
        n = rng.randint(fam[0], fam[0] + 2)
        picks = rng.sample(fam[1], rng.randint(2, min(4, len(fam[1]))))
        if rng.random() < 0.5:
            picks.insert(rng.randint(0, len(picks)), rng.choice(picks))        # a repeated gate among the different ones
        if rng.random() < 0.4:
            picks.insert(rng.randint(0, len(picks)), dict(b=[rng.choice(["T", "H", "SX"])], ch=[]))
        ops = [dict(g=g, q=rng.sample(range(n), gate_arity(g))) for g in picks]
        c = dict(n=n if rng.random() < 0.6 else None, ops=ops)
        w = build_circuit(c).n_qubits
        yield dict(kind="controlled", c=c, k=rng.randint(0, w), sem=fam[2] and w <= 3, collide=True)
    for i in range(24 * scale):
        if rng.random() < 0.5:
            # plain different non-parametric gates of one arity: they collide after the first controlled()
            n = rng.randint(2, 4)
            names = rng.sample(["X", "Y", "Z", "H", "S", "T", "SX", "cg"], 3) if rng.random() < 0.6 else rng.sample(["CNOT", "CZ", "SWAP", "ISWAP"], 3)
            ops = [dict(g=dict(b=[nm], ch=[]), q=rng.sample(range(n), BASES[nm][1])) for nm in names]
            c = dict(n=n, ops=ops)
        else:
            c = rand_circuit(rng, 3, exact=rng.random() < 0.5, min_ops=2, max_ops=4)
        w = build_circuit(c).n_qubits
        k = rng.randint(0, w)
        yield dict(kind="controlled", c=c, k=k, k2=rng.randint(0, max(w, k) + 1), sem=False, collide=True)
    # apply_gate_to_qubits
    for i in range(120 * scale):
        c = rand_circuit(rng, 4, max_ops=3, symbolic=rng.random() < 0.1)
        coll = rand_collection(rng, 5)
        k = len(set(build_collection(coll)))
        if rng.random() < 0.3:
            yield dict(kind="apply", c=c, coll=coll, fac=["gate", rng.choice(READY)], rows=None)
        else:
            name, npar = rng.choice(FACTORIES)
            kk = k if rng.random() < 0.9 else max(0, k + rng.choice([-1, 1, 2]))
            yield dict(kind="apply", c=c, coll=coll, fac=["proto", name], rows=rand_rows(rng, npar, kk, rng.random() < 0.15))
    # create_layer_of_gates
    for i in range(50 * scale):
        n = rng.randint(0, 6)
        if rng.random() < 0.3:
            yield dict(kind="layer", n=n, fac=["gate", rng.choice(READY)], rows=None)
        else:
            name, npar = rng.choice(FACTORIES)
            kk = n if rng.random() < 0.9 else max(0, n + rng.choice([-1, 1]))
            yield dict(kind="layer", n=n, fac=["proto", name], rows=rand_rows(rng, npar, kk, rng.random() < 0.15))
    # circuit + circuit (the operation "appending the inverse" is built on), different widths
    for i in range(20 * scale):
        yield dict(kind="add", c1=rand_circuit(rng, 4, max_ops=3, symbolic=rng.random() < 0.2), c2=rand_circuit(rng, 4, max_ops=3))
    # add_ancilla_register
    for i in range(50 * scale):
        exact = rng.random() < 0.4
        c = rand_circuit(rng, 3 if exact else 4, exact=exact, max_ops=5)
        yield dict(kind="ancilla", c=c, a=rng.randint(0, 3) if not exact else rng.randint(0, 2), sem=exact)

# ----------------------------------------------------------------------------- cases


def interesting(c):
    ops = c.operations
    return len(ops) >= 2 and any(op.gate.num_qubits > 1 or not getattr(base_of(op.gate), "is_hermitian", False) or classes(op.gate)
                                 for op in ops)


def sem_ok(c):
    """every gate has an exact matrix and needs no sympy oracle"""
    for op in c.operations:
        g = op.gate
        if base_of(g).name not in EXACT or len(op.qubit_indices) != g.num_qubits:
            return False
        for w in classes(g):
            if type(w) is Exponential or (type(w) is Power and not (isinstance(w.exponent, int) and w.exponent >= 0)):
                return False
    return c.n_qubits <= 4


def sem_term(tbl, model, c):
    """unitary_eqb on the circuit the implementation returned"""
    U = c.to_unitary()
    return f"unitary_eqb {tbl} ({model}) {cnat(c.n_qubits)} {csmat(U)}"


def factory(fs):
    """-> (python factory, Coq facd)"""
    if fs[0] == "gate":
        g = build_gate(fs[1])
        return g, f"(FGate {enc_gate(g)})"
    name = fs[1]
    ctor, _, _, herm = BASES[name]
    return ctor, f"(FProto {cstring(name)} {cbool(herm)})"


def rows_py(rows):
    return None if rows is None else [tuple(pval(p) for p in r) for r in rows]


def enc_rows(rows):
    return "None" if rows is None else "(Some " + clist(rows, lambda r: clist(r, enc_param)) + ")"


def params_key(ps):
    return tuple(str(sympy.sympify(p)) if not isinstance(p, (int, float)) else repr(float(p)) for p in ps)


def shape_oracle(c, res, distinct, fac_py, rows):
    """one new gate per distinct qubit, every row once, prefix untouched, width"""
    old = list(c.operations)
    new = list(res.operations)
    if new[:len(old)] != old or any(a is not b for a, b in zip(new, old)):
        return False, "existing operations were changed"
    added = new[len(old):]
    if len(added) != len(distinct):
        return False, f"{len(added)} gates added for {len(distinct)} distinct qubits"
    if any(len(op.qubit_indices) != 1 for op in added) or sorted(op.qubit_indices[0] for op in added) != sorted(distinct):
        return False, f"gates added on {[op.qubit_indices for op in added]}, distinct qubits {sorted(distinct)}"
    if rows is not None:
        if sorted(params_key(op.gate.params) for op in added) != sorted(params_key(r) for r in rows):
            return False, f"parameter rows {[op.gate.params for op in added]} are not the supplied rows {rows} each once"
        for op in added:
            if op.gate != fac_py(*op.gate.params):
                return False, f"gate {op.gate} is not the factory applied to its row"
    else:
        if any(op.gate != fac_py for op in added):
            return False, "a different gate was added"
    want = max([c.n_qubits] + [q + 1 for q in distinct])
    if res.n_qubits != want:
        return False, f"width {res.n_qubits}, expected {want}"
    return True, ""


def controlled_oracle(c, cc, k):
    """cc = c.controlled(k)?  width, tuples, and (when the matrices are available) every entry of the unitary:
    identity unless bit k is set on both sides, then the original entry at the indices with bit k removed.
    -> (ok, msg, '-num' | '-nonum' | '')"""
    n = c.n_qubits
    m = max(n, k)
    if cc.n_qubits != m + 1:
        return False, f"controlled({k}) of a {n}-qubit circuit has width {cc.n_qubits}, expected {m + 1}", ""
    if len(cc.operations) != len(c.operations):
        return False, "number of operations changed", ""
    for a, b in zip(c.operations, cc.operations):
        want = (k,) + tuple(i + 1 if i >= k else i for i in a.qubit_indices)
        if tuple(b.qubit_indices) != want or b.gate.num_qubits != a.gate.num_qubits + 1:
            return False, f"{a} became {b}, expected qubits {want} and one more gate qubit", ""
    u = ref_unitary(c.operations, m)
    uc = ref_unitary(cc.operations, m + 1)
    if u[0] != "ok" or uc[0] != "ok":
        return True, "", "-nonum"
    U, UC = u[1], uc[1]
    pos = m - k                      # bit position of qubit k in an (m+1)-bit index
    lowmask = (1 << pos) - 1
    for x in range(2 ** (m + 1)):
        for y in range(2 ** (m + 1)):
            if (x >> pos) & 1 and (y >> pos) & 1:
                xr = ((x >> (pos + 1)) << pos) | (x & lowmask)
                yr = ((y >> (pos + 1)) << pos) | (y & lowmask)
                want = U[xr, yr]
            else:
                want = 1.0 if x == y else 0.0
            if abs(UC[x, y] - want) > TOL:
                return False, f"controlled({k}) of {c}: entry [{x}][{y}] is {UC[x, y]}, expected {want}", "-num"
    return True, "", "-num"


def run_case(inp):
    kind = inp["kind"]
    if kind == "inverse":
        c = build_circuit(inp["c"])
        r1 = outcome(lambda: c.inverse())
        o1 = enc_obs(r1)
        if r1[0] != "ok" or o1 is None:
            return dict(chk="false", oracle_ok=False, oracle_msg=f"inverse raised {r1[1]}", kind="inverse-crash")
        inv = r1[1]
        r2 = outcome(lambda: inv.inverse())
        r3 = outcome(lambda: c + inv)
        o2, o3 = enc_obs(r2), enc_obs(r3)
        if r2[0] != "ok" or r3[0] != "ok":
            return dict(chk="false", oracle_ok=False, oracle_msg=f"inverse().inverse() / c + c.inverse() raised {r2[1]} {r3[1]}",
                        kind="inverse-crash")
        inv2, both = r2[1], r3[1]
        ec = enc_circ(c)
        chk = (f"inverse_eqb {ec} {o1} && inverse2_eqb {ec} {o2} && add_eqb {ec} {enc_circ(inv)} {o3}")
        suffix = ""
        if inp.get("sem") and sem_ok(c) and sem_ok(inv) and sem_ok(inv2) and c.n_qubits >= 1:
            tbl = base_table([c])
            chk += (f" && {sem_term(tbl, f'inverse cfree {ec}', inv)}"
                    f" && {sem_term(tbl, f'obind (inverse cfree {ec}) (inverse cfree)', inv2)}")
            suffix += "-sem"
        # oracle: structure
        ok, msg = True, ""
        n = c.n_qubits
        if inv.n_qubits != n or inv2.n_qubits != n or both.n_qubits != n:
            ok, msg = False, f"widths: circuit {n}, inverse {inv.n_qubits}, double inverse {inv2.n_qubits}, sum {both.n_qubits}"
        elif [op.qubit_indices for op in inv.operations] != [op.qubit_indices for op in reversed(c.operations)]:
            ok, msg = False, "inverse does not apply its gates to the original qubit tuples in reverse order"
        elif list(both.operations) != list(c.operations) + list(inv.operations):
            ok, msg = False, "c + c.inverse() is not the concatenation"
        frac = any(has_frac_power(op.gate) for op in c.operations)
        if ok:
            u = ref_unitary(c.operations, n)
            ui = ref_unitary(inv.operations, n)
            ui2 = ref_unitary(inv2.operations, n)
            if u[0] == "ok" and ui[0] == "ok" and ui2[0] == "ok":
                suffix += "-num"
                U, UI, UI2 = u[1], ui[1], ui2[1]
                unitary = close(U.conj().T @ U, np.eye(2 ** n))
                if not close(UI, U.conj().T):
                    ok, msg = False, f"the inverse's matrix is not the conjugate transpose of the circuit's ({c})"
                elif unitary and not close(UI @ U, np.eye(2 ** n)):
                    ok, msg = False, f"circuit followed by its inverse is not the identity ({c})"
                elif not close(UI2, U):
                    ok, msg = False, f"inverting twice changes the action ({c})"
            else:
                suffix += "-nonum"
        return dict(chk=chk, oracle_ok=ok, oracle_msg=msg, sig="F8" if frac else None, kind="inverse" + suffix,
                    nontrivial=interesting(c))
    if kind == "controlled":
        c = build_circuit(inp["c"])
        k = inp["k"]
        r = outcome(lambda: c.controlled(k))
        ob = enc_obs(r)
        if r[0] != "ok" or ob is None:
            return dict(chk="false", oracle_ok=False, oracle_msg=f"controlled({k}) raised {r[1]}", kind="controlled-crash")
        cc = r[1]
        ec = enc_circ(c)
        chk = f"controlled_eqb {cnat(k)} {ec} {ob}"
        label = "controlled" + ("-collide" if inp.get("collide") else "")
        suffix = "" if k <= c.n_qubits else "-beyond"
        if inp.get("sem") and sem_ok(c) and sem_ok(cc) and cc.n_qubits <= 4:
            chk += f" && {sem_term(base_table([c]), f'controlled_circuit cfree {cnat(k)} {ec}', cc)}"
            suffix += "-sem"
        ok, msg, num = controlled_oracle(c, cc, k)
        frac_dag = any(has_frac_power(op.gate) and any(type(w) is Dagger for w in classes(op.gate)) for op in c.operations)
        if inp.get("k2") is not None:
            # controlled(k).controlled(k2): the model is chained from the original circuit
            k2 = inp["k2"]
            r2 = outcome(lambda: cc.controlled(k2))
            ob2 = enc_obs(r2)
            if r2[0] != "ok" or ob2 is None:
                return dict(chk="false", oracle_ok=False, oracle_msg=f"controlled({k}).controlled({k2}) raised {r2[1]}", kind="controlled-crash")
            chk += f" && controlled2_eqb {cnat(k)} {cnat(k2)} {ec} {ob2}"
            label += "-twice"
            if ok:
                ok, msg, num2 = controlled_oracle(cc, r2[1], k2)
                num = num if num2 == "-num" else num2
        return dict(chk=chk, oracle_ok=ok, oracle_msg=msg, sig="F8" if frac_dag else None, kind=label + suffix + num,
                    nontrivial=interesting(c))
    if kind in ("apply", "layer"):
        fac_py, fac_coq = factory(inp["fac"])
        rows = rows_py(inp["rows"])
        if kind == "apply":
            c = build_circuit(inp["c"])
            coll = build_collection(inp["coll"])
            order = list(set(coll))                 # CPython's iteration order of the set the implementation builds
            n_before = len(c.operations)
            import warnings
            with warnings.catch_warnings():
                warnings.simplefilter("ignore")
                r = outcome(lambda: apply_gate_to_qubits(c, coll, fac_py, rows))
            ob = enc_obs(r)
            head = f"apply_eqb {enc_circ(c)} {clist(list(coll), cnat)} {clist(order, cnat)} {fac_coq} {enc_rows(rows)}"
            distinct = sorted(set(coll))
        else:
            n = inp["n"]
            c = Circuit()
            order = list(set(range(n)))
            r = outcome(lambda: create_layer_of_gates(n, fac_py, rows))
            ob = enc_obs(r)
            head = f"layer_eqb {cnat(n)} {clist(order, cnat)} {fac_coq} {enc_rows(rows)}"
            distinct = list(range(n))
        if ob is None:
            return dict(chk="false", oracle_ok=False, oracle_msg=f"raised {r[1]}", kind=kind + "-crash")
        chk = f"{head} {ob}"
        if r[0] != "ok":
            ok = rows is not None and len(rows) != len(distinct) and r[1] == "AssertionError"
            return dict(chk=chk, oracle_ok=ok, oracle_msg="" if ok else f"raised {r[1]} for {len(rows or [])} rows and {len(distinct)} distinct qubits",
                        kind=kind + "-assert", nontrivial=False)
        res = r[1]
        if rows is not None and len(rows) != len(distinct):
            return dict(chk=chk, oracle_ok=False, oracle_msg=f"{len(rows)} rows accepted for {len(distinct)} distinct qubits", kind=kind + "-assert")
        ok, msg = shape_oracle(c, res, distinct, fac_py, rows)
        if ok and kind == "layer":
            for i, op in enumerate(res.operations):
                if tuple(op.qubit_indices) != (i,) or (rows is not None and params_key(op.gate.params) != params_key(rows[i])):
                    ok, msg = False, f"operation {i} of the layer is {op}, expected row {i} on qubit {i}"
                    break
            if ok and res.n_qubits != n:
                ok, msg = False, f"layer over {n} qubits has width {res.n_qubits}"
        suffix = ""
        if ok and res.n_qubits <= 5:
            # the action does not depend on the order in which the gates were appended
            added = list(res.operations[len(c.operations):])
            u1 = ref_unitary(res.operations, res.n_qubits)
            u2 = ref_unitary(list(c.operations) + sorted(added, key=lambda op: -op.qubit_indices[0]), res.n_qubits)
            if u1[0] == "ok" and u2[0] == "ok":
                suffix = "-num"
                if not close(u1[1], u2[1]):
                    ok, msg = False, "the action depends on the order in which the gates were appended"
                else:
                    # and is the old circuit followed by the tensor product of the new gates
                    want = ref_unitary(c.operations, res.n_qubits)[1]
                    for op in added:
                        want = ref_lift(gate_matrix(op.gate)[1], list(op.qubit_indices), res.n_qubits) @ want
                    if not close(u1[1], want):
                        ok, msg = False, "the action is not the old circuit followed by the new gates"
            else:
                suffix = "-nonum"
        dup = kind == "apply" and len(list(coll)) != len(distinct)
        return dict(chk=chk, oracle_ok=ok, oracle_msg=msg, kind=kind + ("-dup" if dup else "") + suffix,
                    nontrivial=len(distinct) >= 2)
    if kind == "add":
        c1, c2 = build_circuit(inp["c1"]), build_circuit(inp["c2"])
        r = outcome(lambda: c1 + c2)
        ob = enc_obs(r)
        if r[0] != "ok" or ob is None:
            return dict(chk="false", oracle_ok=False, oracle_msg=f"c1 + c2 raised {r[1]}", kind="add-crash")
        res = r[1]
        ok = res.n_qubits == max(c1.n_qubits, c2.n_qubits) and list(res.operations) == list(c1.operations) + list(c2.operations)
        return dict(chk=f"add_eqb {enc_circ(c1)} {enc_circ(c2)} {ob}", oracle_ok=ok,
                    oracle_msg="" if ok else f"{c1} + {c2} = {res}", kind="add", nontrivial=c1.n_qubits != c2.n_qubits)
    if kind == "ancilla":
        c = build_circuit(inp["c"])
        a = inp["a"]
        r = outcome(lambda: add_ancilla_register(c, a))
        ob = enc_obs(r)
        if r[0] != "ok" or ob is None:
            return dict(chk="false", oracle_ok=False, oracle_msg=f"add_ancilla_register raised {r[1]}", kind="ancilla-crash")
        res = r[1]
        ec = enc_circ(c)
        chk = f"ancilla_eqb {ec} {cnat(a)} {ob}"
        suffix = ""
        if inp.get("sem") and sem_ok(c) and sem_ok(res) and 1 <= res.n_qubits <= 4:
            chk += f" && {sem_term(base_table([c, res]), f'Some (add_ancilla {ec} {cnat(a)})', res)}"
            suffix += "-sem"
        n = c.n_qubits
        ok, msg = True, ""
        if res.n_qubits != n + a:
            ok, msg = False, f"{a} ancillas on a {n}-qubit circuit give width {res.n_qubits}"
        elif list(res.operations[:len(c.operations)]) != list(c.operations):
            ok, msg = False, "existing operations were changed"
        else:
            u = ref_unitary(c.operations, n)
            ur = ref_unitary(res.operations, n + a)
            if u[0] == "ok" and ur[0] == "ok":
                suffix += "-num"
                if not close(ur[1], np.kron(u[1], np.eye(2 ** a))):
                    ok, msg = False, f"the extended circuit does not act as the original on the first {n} qubits and as the identity on the ancillas"
            else:
                suffix += "-nonum"
        return dict(chk=chk, oracle_ok=ok, oracle_msg=msg, kind="ancilla" + suffix, nontrivial=interesting(c) and a >= 1)
    raise ValueError(kind)

# ----------------------------------------------------------------------------- witnesses


def w_f5():
    w = Circuit([X(0)], n_qubits=3).controlled(0).n_qubits
    return w != 4, f"Circuit([X(0)], n_qubits=3).controlled(0).n_qubits == {w} (expected 4)"


def w_f8():
    c = Circuit([Z.power(0.5)(0)])
    a = npmat(c.inverse().operations[0].gate.matrix)
    b = npmat(c.operations[0].gate.matrix).conj().T
    return (not close(a, b)), (f"Circuit([Z.power(0.5)(0)]).inverse() has matrix {a.tolist()}, the adjoint of the circuit's "
                               f"matrix is {b.tolist()}")


Hh.main(gen, run_case, {"F5": w_f5, "F8": w_f8})
