"""C05 correspondence harness: circuits through to_dict / real JSON text / circuit_from_dict."""
import inspect, io, json, math, os, random, tempfile
import sympy
from hlib import *
from orquestra.quantum.circuits import _serde, _builtin_gates, _gates
from orquestra.quantum.circuits._circuit import Circuit
from orquestra.quantum.circuits._gates import (ControlledGate, Dagger, Power, Exponential, MatrixFactoryGate,
                                               CustomGateDefinition, CustomGateMatrixFactory, GateOperation)

H = Harness("C05", ["OQ.Gen.NamesGen", "OQ.Serde.Json", "OQ.Serde.CircuitSerde", "OQ.Serde.CircuitSerdeCases"],
            "kinds: rt = one circuit (built-in gates with float/int/symbol/expression/indexed-symbol parameters, custom gates with "
            "symbolic matrices, wrapper nestings controlled/dagger/power/exponential to depth 5-7 by raw constructors or the "
            ".controlled/.dagger/.power/.exp methods, shuffled qubit indices, idle qubits, empty circuits) through to_dict, "
            "json.dumps/loads, circuit_from_dict, and save_circuit/load_circuit via StringIO or a temp file; set = circuit lists, half of them with the same custom gate name defined differently (or equally) in several circuits; "
            "conflict = two different definitions under one name; collide = custom gate named like a module global; f16 = x with "
            "x[k] in one gate; mangle = valid dictionaries with one key removed/changed (error branches); names = generated table vs "
            "vars(_builtin_gates). Compared in Coq: model to_dict = Python's JSON tree, model from_dict(Python's JSON) = structure of "
            "Python's result (sympify = table of the calls the implementation made), gate names. non-trivial = at least one wrapped or "
            "custom or symbolic gate")

# ----------------------------------------------------------------------------- building circuits from specs

def build_tree(t):
    k = t[0]
    if k == "sym": return sympy.Symbol(t[1])
    if k == "int": return sympy.Integer(t[1])
    if k == "rat": return sympy.Rational(t[1], t[2])
    if k == "flt": return sympy.Float(t[1])
    if k == "I": return sympy.I
    if k == "pi": return sympy.pi
    if k == "add": return build_tree(t[1]) + build_tree(t[2])
    if k == "mul": return build_tree(t[1]) * build_tree(t[2])
    if k == "pow": return build_tree(t[1]) ** t[2]
    if k == "fn": return getattr(sympy, t[1])(build_tree(t[2]))
    raise ValueError(t)

def build_param(p):
    if p[0] == "f": return float(p[1])
    if p[0] == "i": return int(p[1])
    if p[0] == "S": return build_tree(p[1])
    raise ValueError(p)

def build_defs(dspecs):
    out = {}
    for key, d in dspecs.items():
        m = sympy.Matrix([[build_tree(e) for e in row] for row in d["matrix"]])
        out[key] = CustomGateDefinition(d["gate_name"], m, tuple(sympy.Symbol(s) for s in d["params"]))
    return out

def build_num(e):
    return int(e[1]) if e[0] == "i" else float(e[1])

def build_gate(g, defs, smart):
    k = g[0]
    if k == "B":
        ref = getattr(_builtin_gates, g[1])
        return ref(*[build_param(p) for p in g[2]]) if g[2] else ref
    if k == "U":
        return defs[g[1]](*[build_param(p) for p in g[2]])
    w = build_gate(g[1], defs, smart)
    if k == "C": return w.controlled(g[2]) if smart else ControlledGate(w, g[2])
    if k == "D": return w.dagger if smart else Dagger(w)
    if k == "P": return w.power(build_num(g[2])) if smart else Power(w, build_num(g[2]))
    if k == "E": return w.exp if smart else Exponential(w)
    raise ValueError(g)

def build_circuit(cs, defs, smart):
    ops = [GateOperation(build_gate(g, defs, smart), tuple(q)) for g, q in cs["ops"]]
    return Circuit(ops, n_qubits=cs["n"]) if cs["n"] is not None else Circuit(ops)

# ----------------------------------------------------------------------------- structure of Python objects (independent walker)

class Junk(Exception):
    pass

def p_struct(p):
    fs = sorted(str(s) for s in p.free_symbols) if isinstance(p, sympy.Expr) else []
    return (str(p), fs)

def proto_ok(ref):
    return inspect.isfunction(ref) and ref.__qualname__.startswith("make_parametric_gate_prototype.")

def def_struct(d):
    if type(d) is not CustomGateDefinition or not isinstance(d.gate_name, str):
        raise Junk("definition")
    return ("def", d.gate_name, [[p_struct(e) for e in row] for row in d.matrix.tolist()], [str(s) for s in d.params_ordering])

def gate_struct(g):
    t = type(g)
    if t is ControlledGate:
        if type(g.num_control_qubits) is not int: raise Junk("control count")
        return ("C", gate_struct(g.wrapped_gate), g.num_control_qubits)
    if t is Dagger: return ("D", gate_struct(g.wrapped_gate))
    if t is Exponential: return ("E", gate_struct(g.wrapped_gate))
    if t is Power:
        if type(g.exponent) not in (int, float): raise Junk("exponent")
        return ("P", gate_struct(g.wrapped_gate), g.exponent)
    if t is MatrixFactoryGate:
        ps = [p_struct(p) for p in g.params]
        if isinstance(g.matrix_factory, CustomGateMatrixFactory):
            d = g.matrix_factory.gate_definition
            if g.name != d.gate_name or g.num_qubits != d._n_qubits or g.is_hermitian: raise Junk("custom gate fields")
            return ("U", def_struct(d), ps)
        ref = vars(_builtin_gates).get(g.name)
        if type(ref) is MatrixFactoryGate:
            same = not g.params and g.matrix_factory is ref.matrix_factory and g.num_qubits == ref.num_qubits \
                and g.is_hermitian == ref.is_hermitian
        elif proto_ok(ref):
            r = ref()
            same = bool(g.params) and g.matrix_factory is r.matrix_factory and g.num_qubits == r.num_qubits \
                and g.is_hermitian == r.is_hermitian
        else:
            same = False
        if not same: raise Junk("not the built-in gate of that name")
        return ("B", g.name, ps)
    raise Junk(f"not a gate: {t.__name__}")

def circuit_struct(c):
    if type(c) is not Circuit or type(c.n_qubits) is not int: raise Junk("circuit")
    ops = []
    for op in c.operations:
        if type(op) is not GateOperation or any(type(q) is not int for q in op.qubit_indices): raise Junk("operation")
        ops.append((gate_struct(op.gate), list(op.qubit_indices)))
    return (ops, c.n_qubits)

# ----------------------------------------------------------------------------- Coq literals

def cexpr(ps): return cpair(cstring(ps[0]), clist(ps[1], cstring))
def cnum(e): return f"(NInt {cz(e)})" if type(e) is int else f"(NFloat {cstring(repr(e))})"
def cdef(d): return f"(mkd {cstring(d[1])} {clist(d[2], lambda r: clist(r, cexpr))} {clist(d[3], cstring)})"
def cgate(s):
    k = s[0]
    if k == "B": return f"(B {cstring(s[1])} {clist(s[2], cexpr)})"
    if k == "U": return f"(U {cdef(s[1])} {clist(s[2], cexpr)})"
    if k == "C": return f"(Ct {cgate(s[1])} {cz(s[2])})"
    if k == "D": return f"(Dg {cgate(s[1])})"
    if k == "E": return f"(Ex {cgate(s[1])})"
    if k == "P": return f"(Pw {cgate(s[1])} {cnum(s[2])})"
    raise ValueError(s)
def ccirc(cs): return f"(mkc {clist(cs[0], lambda o: cpair(cgate(o[0]), clist(o[1], cz)))} {cz(cs[1])})"
def cjson(v):
    if v is None: return "JNull"
    if v is True or v is False: return f"(JBool {cbool(v)})"
    if type(v) is int: return f"(JNum (NInt {cz(v)}))"
    if type(v) is float: return f"(JNum (NFloat {cstring(repr(v))}))"
    if type(v) is str: return f"(JStr {cstring(v)})"
    if type(v) is list: return "(JArr " + clist(v, cjson) + ")"
    if type(v) is dict: return "(JObj " + clist(list(v.items()), lambda kv: cpair(cstring(kv[0]), cjson(kv[1]))) + ")"
    raise ValueError(v)
def ctable(tab):
    return clist(list(tab.items()), lambda kv: f"({clist(kv[0][0], cstring)}, {cstring(kv[0][1])}, {copt(kv[1], cexpr)})")
def cres(st, val, f):
    if st == "ok": return f"(Ok {f(val)})"
    return {"KeyError": "EKey", "Junk": "EUnmodelled"}.get(val, "EErr")

class Recorder:
    """the sympify calls the deserialiser makes: (names given, text) -> structure of the result, None if it raised"""
    def __enter__(self):
        self.tab, self.orig, self.odd = {}, _serde.deserialize_expr, False
        def wrapped(expr_str, symbol_names):
            names = list(symbol_names)
            key = (tuple(names), expr_str) if isinstance(expr_str, str) and all(isinstance(n, str) for n in names) else None
            try:
                r = self.orig(expr_str, names)
            except Exception:
                if key: self.tab.setdefault(key, None)
                raise
            if key: self.tab.setdefault(key, p_struct(r))
            if not isinstance(r, sympy.Expr): self.odd = True
            return r
        _serde.deserialize_expr = wrapped
        return self
    def __exit__(self, *a):
        _serde.deserialize_expr = self.orig

def read_back(fn, js, structf):
    """run a deserialiser, classify the outcome: ('ok', structure) / ('err', class) / ('err', 'Junk')"""
    with Recorder() as rec:
        st, out = outcome(fn, js, timeout=20)
    if rec.odd:                     # sympify returned something that is not an expression (e.g. the function N): outside the model
        return "skip", "sympify returned a non-expression", None, rec.tab
    if st == "ok":
        try:
            return "ok", structf(out), out, rec.tab
        except Junk:
            return "err", "Junk", out, rec.tab
    return st, out, None, rec.tab

# ----------------------------------------------------------------------------- the property, recomputed in plain Python

def prints_exactly(e):
    """every floating-point coefficient of e is given back by its 15-digit text"""
    return not isinstance(e, sympy.Expr) or all(sympy.Float(str(f)) == f for f in e.atoms(sympy.Float))

def circuit_exact(c):
    for op in c.operations:
        g = op.gate
        while hasattr(g, "wrapped_gate"): g = g.wrapped_gate
        if not all(prints_exactly(p) for p in g.params): return False
        if isinstance(g.matrix_factory, CustomGateMatrixFactory) and not all(prints_exactly(e) for e in g.matrix_factory.gate_definition.matrix):
            return False
    return True

def numeric(e, env):
    v = sympy.sympify(e)
    if env: v = v.subs(env, simultaneous=True)
    return complex(sympy.N(v, 30))

def same_number(a, b, rng_env):
    """a: original parameter, b: read back"""
    fa = a.free_symbols if isinstance(a, sympy.Expr) else set()
    fb = b.free_symbols if isinstance(b, sympy.Expr) else set()
    if {str(s) for s in fa} != {str(s) for s in fb} or fa != fb:
        return False
    if not fa and not isinstance(a, sympy.Expr):
        return complex(b) == complex(a)                       # Python numbers: exactly
    if isinstance(a, sympy.Symbol):
        return b == a                                         # bare symbols: exactly
    for env in rng_env(fa):
        try:
            x, y = numeric(a, env), numeric(b, env)
            if not (math.isfinite(x.real) and math.isfinite(x.imag)):
                raise OverflowError()
            if not (abs(x - y) <= 1e-12 * max(1.0, abs(x))):
                # sympy prints Float coefficients with 15 significant digits (recorded assumption): allow what a
                # relative change of 1e-15 in the expression's own Float atoms can do to the value (conditioning,
                # e.g. cos(68921.0*(0.0243902439024390*y + 1)**3)), and nothing more
                dev = 0.0
                if isinstance(a, sympy.Expr) and a.atoms(sympy.Float):
                    for sgn in (1, -1):
                        ap = a.xreplace({f: f * (1 + sgn * sympy.Float("1e-15", 30)) for f in a.atoms(sympy.Float)})
                        dev = max(dev, abs(numeric(ap, env) - x))
                if not (abs(x - y) <= 1e-12 * max(1.0, abs(x)) + 8 * dev):
                    return False
        except (OverflowError, TypeError):           # beyond double range: compare 15 significant digits
            sa, sb = (sympy.sympify(v).subs(env, simultaneous=True) if env else sympy.sympify(v) for v in (a, b))
            if str(sympy.N(sa, 15)) != str(sympy.N(sb, 15)):
                return False
    return True

def same_gate(g, h, rng_env):
    if type(g) is not type(h): return f"kind {type(g).__name__} became {type(h).__name__}"
    if g.name != h.name: return f"name {g.name} became {h.name}"
    if type(g) is ControlledGate and g.num_control_qubits != h.num_control_qubits: return "control count changed"
    if type(g) is Power and (type(g.exponent) is not type(h.exponent) or g.exponent != h.exponent): return "exponent changed"
    if type(g) is MatrixFactoryGate:
        if g.num_qubits != h.num_qubits or g.is_hermitian != h.is_hermitian: return "gate fields changed"
        cu, cv = isinstance(g.matrix_factory, CustomGateMatrixFactory), isinstance(h.matrix_factory, CustomGateMatrixFactory)
        if cu != cv: return "custom/built-in changed"
        if cu:
            d, e = g.matrix_factory.gate_definition, h.matrix_factory.gate_definition
            if d.gate_name != e.gate_name or d.params_ordering != e.params_ordering or d.matrix.shape != e.matrix.shape:
                return "definition changed"
            if not all(same_number(x, y, rng_env) for x, y in zip(d.matrix, e.matrix)): return "definition matrix changed"
        elif g.matrix_factory is not h.matrix_factory:
            return "matrix factory changed"
        if len(g.params) != len(h.params) or not all(same_number(a, b, rng_env) for a, b in zip(g.params, h.params)):
            return f"parameters {g.params} became {h.params}"
        return None
    return same_gate(g.wrapped_gate, h.wrapped_gate, rng_env)

def cheap_matrix(g):
    """dimension <= 4 and no sympy Matrix.exp / fractional power (they can hang)"""
    if g.num_qubits > 2: return False
    while hasattr(g, "wrapped_gate"):
        if type(g) is Exponential or (type(g) is Power and (type(g.exponent) is not int or abs(g.exponent) > 5)): return False
        g = g.wrapped_gate
    return True

def moderate(g, env):
    """arguments of modulus <= 1000 under env: 15 printed digits then keep matrix entries to 1e-9"""
    while hasattr(g, "wrapped_gate"): g = g.wrapped_gate
    try:
        return all(abs(numeric(p, env)) <= 1000 for p in g.params)
    except Exception:
        return False

def small_matrix(g, env):
    if not cheap_matrix(g) or not moderate(g, env): return None
    st, m = outcome(lambda: g.matrix, timeout=4)
    if st != "ok": return None
    st, m = outcome(lambda: [complex(sympy.N(x.subs(env, simultaneous=True) if env else x, 20)) for x in sympy.Matrix(m)], timeout=4)
    return m if st == "ok" else None

def same_circuit(c, c2, seed, exact=True):
    rr = random.Random(seed)
    def rng_env(fs):
        fs = sorted(fs, key=str)
        return [{s: sympy.Rational(rr.randint(-40, 40), 16) for s in fs} for _ in range(2)] if fs else [{}]
    if c.n_qubits != c2.n_qubits: return f"width {c.n_qubits} became {c2.n_qubits}"
    if len(c.operations) != len(c2.operations): return "number of operations changed"
    for i, (a, b) in enumerate(zip(c.operations, c2.operations)):
        if tuple(a.qubit_indices) != tuple(b.qubit_indices): return f"operation {i}: qubit indices {a.qubit_indices} became {b.qubit_indices}"
        m = same_gate(a.gate, b.gate, rng_env)
        if m: return f"operation {i}: {m}"
    if exact:
        st, eq = outcome(lambda: c2 == c and c == c2, timeout=20)
        if st != "ok" or not eq: return f"c2 == c is {eq}"
    if [str(s) for s in c.free_symbols] != [str(s) for s in c2.free_symbols] or c.free_symbols != c2.free_symbols:
        return f"free symbols {c.free_symbols} became {c2.free_symbols}"
    budget = 6
    for a, b in zip(c.operations, c2.operations):
        if budget == 0: break
        if cheap_matrix(a.gate):
            budget -= 1
            env = rng_env(set(a.gate.free_symbols))[0]
            m1 = small_matrix(a.gate, env)
            m2 = small_matrix(b.gate, env) if m1 is not None else None
            if m1 is not None and m2 is not None and any(not (abs(x - y) <= 1e-9 * max(1.0, abs(x))) for x, y in zip(m1, m2)
                                                         if math.isfinite(abs(x))):
                return f"matrix of {a.gate} changed at {env}"
    return None

# ----------------------------------------------------------------------------- generator

PLAIN = ["theta", "phi", "x", "y", "alpha_1", "beta", "gamma", "S", "N", "E", "I", "pi", "Q", "lam", "zeta"]
INDEXED = ["x[3]", "y[0]", "p[12]", "theta[1]", "q[7]", "x[10]"]
G = vars(_builtin_gates)
CONSTS = sorted(n for n, v in G.items() if type(v) is MatrixFactoryGate)
PROTOS = sorted(n for n, v in G.items() if proto_ok(v))
ARITY = {n: len(inspect.signature(G[n]().matrix_factory).parameters) for n in PROTOS}
NQ = {n: (G[n].num_qubits if n in CONSTS else G[n]().num_qubits) for n in CONSTS + PROTOS}
DEFNAMES = ["cg", "my_gate", "V", "A_1", "Zz", "sqrtX", "Control", "foo_Dagger", "a^2", "Exponential", "Dagger", "^"]

def base_of(n):
    return n.split("[")[0]

def pick_syms(rng, k, allow_clash=False):
    """k symbol names of which no plain one is the base of an indexed one"""
    out = []
    pool = PLAIN + INDEXED
    while len(out) < k:
        s = rng.choice(pool)
        if s in out: continue
        if not allow_clash and any(("[" in s) != ("[" in o) and base_of(s) == base_of(o) for o in out): continue
        out.append(s)
    return out

SHADOW = {"I": "I", "pi": "pi", "E": "exp"}      # symbol name -> the sympy constant / function that prints the same

def gen_tree(rng, syms, depth, mix=False):
    """expression tree; unless [mix], a symbol named I / pi / E is not used together with the constant that prints the same"""
    banned = set() if mix else {SHADOW[s] for s in syms if s in SHADOW}
    r = rng.random()
    if depth <= 0 or r < 0.3:
        q = rng.random()
        if syms and q < 0.55: return ["sym", rng.choice(syms)]
        if q < 0.7: return ["int", rng.randint(-9, 9)]
        if q < 0.85:
            fr = dyadic(rng)
            return ["rat", fr.numerator, fr.denominator]
        if q < 0.93: return ["flt", float(dyadic(rng, allow_zero=False))]
        c = rng.choice(["I", "pi"])
        return [c] if c not in banned else ["int", 1]
    if r < 0.55: return ["add", gen_tree(rng, syms, depth - 1, mix), gen_tree(rng, syms, depth - 1, mix)]
    if r < 0.8: return ["mul", gen_tree(rng, syms, depth - 1, mix), gen_tree(rng, syms, depth - 1, mix)]
    if r < 0.88: return ["pow", gen_tree(rng, syms, depth - 1, mix), rng.choice([2, 3])]
    f = rng.choice(["sin", "cos"] + ([] if "exp" in banned else ["exp"]))
    if f == "exp":                                  # keep magnitudes inside double range: exp of a symbol or a small number only
        return ["fn", f, ["sym", rng.choice(syms)] if syms and rng.random() < 0.6 else ["int", rng.randint(-4, 4)]]
    return ["fn", f, gen_tree(rng, syms, depth - 1, mix)]

def gen_param(rng, syms, numeric_only):
    r = rng.random()
    if numeric_only or not syms:
        if r < 0.5: return ["f", float(dyadic(rng))]
        if r < 0.7: return ["i", rng.randint(-5, 5)]
        return ["S", gen_tree(rng, [], 2)]
    if r < 0.2: return ["f", float(dyadic(rng))]
    if r < 0.28: return ["i", rng.randint(-5, 5)]
    if r < 0.55: return ["S", ["sym", rng.choice(syms)]]
    return ["S", gen_tree(rng, syms, rng.randint(1, 3))]

def gen_def(rng, gate_name):
    nq = rng.choice([1, 1, 1, 2])
    formal = pick_syms(rng, rng.randint(0, 3))
    dim = 2 ** nq
    mat = [[gen_tree(rng, formal, 2) if rng.random() < 0.6 else ["int", int(i == j)] for j in range(dim)] for i in range(dim)]
    return dict(gate_name=gate_name, matrix=mat, params=formal, nq=nq)

def gen_gate(rng, dspecs, depth, numeric_only, syms):
    """returns (spec, number of qubits)"""
    if depth <= 0:
        r = rng.random()
        if dspecs and r < 0.4:
            key = rng.choice(sorted(dspecs))
            d = dspecs[key]
            return ["U", key, [gen_param(rng, syms, numeric_only) for _ in d["params"]]], d["nq"]
        if r < 0.65:
            n = rng.choice(CONSTS)
            return ["B", n, []], NQ[n]
        n = rng.choice(PROTOS)
        return ["B", n, [gen_param(rng, syms, numeric_only) for _ in range(ARITY[n])]], NQ[n]
    r = rng.random()
    if r < 0.3:
        g, nq = gen_gate(rng, dspecs, depth - 1, numeric_only, syms)
        k = rng.choice([1, 1, 2, 3])
        return ["C", g, k], nq + k
    if r < 0.6:
        g, nq = gen_gate(rng, dspecs, depth - 1, numeric_only, syms)
        return ["D", g], nq
    if r < 0.82:
        g, nq = gen_gate(rng, dspecs, depth - 1, True, syms)
        e = ["i", rng.choice([2, 3, -1, 0, -2, 5, 17])] if rng.random() < 0.5 else \
            ["f", rng.choice([0.5, -0.5, 0.25, 1.5, 2.0, -3.0, 1e-07, 1e+22, 0.1])]
        return ["P", g, e], nq
    g, nq = gen_gate(rng, dspecs, depth - 1, True, syms)
    return ["E", g], nq

def gen_circuit(rng, dspecs, nops=None, clash=False):
    nops = rng.choice([0, 1, 2, 3, 4, 6]) if nops is None else nops
    ops, need = [], 0
    for _ in range(nops):
        depth = rng.choice([0, 0, 0, 1, 1, 2, 3, 4, 5, 5, 6, 7]) if rng.random() < 0.7 else 0
        syms = pick_syms(rng, rng.randint(0, 3), clash)
        g, nq = gen_gate(rng, dspecs, depth, False, syms)
        width = nq + rng.randint(0, 3)
        qs = rng.sample(range(width), nq)
        need = max(need, max(qs) + 1 if qs else 0)
        ops.append([g, qs])
    r = rng.random()
    n = None if r < 0.4 else need + rng.choice([0, 0, 1, 2]) or (None if r < 0.7 else 3)
    return dict(ops=ops, n=n)

def gen_defs(rng, k=None):
    k = rng.choice([0, 0, 1, 2, 3]) if k is None else k
    names = rng.sample(DEFNAMES[:6], k) if rng.random() < 0.8 else rng.sample(DEFNAMES, k)
    return {f"d{i}": gen_def(rng, n) for i, n in enumerate(names)}

def gen(rng, tier):
    yield dict(kind="names")
    n = {"quick": 420, "search": 300}.get(tier, 9000)
    for i in range(n):
        r = rng.random()
        seed = rng.randint(0, 2 ** 30)
        smart = rng.random() < 0.3
        if r < 0.60:
            ds = gen_defs(rng)
            yield dict(kind="rt", defs=ds, circuits=[gen_circuit(rng, ds)], smart=smart, seed=seed, file=rng.choice(["io", "io", "tmp"]))
        elif r < 0.69:
            if rng.random() < 0.5:
                ds = gen_defs(rng)
                yield dict(kind="set", defs=ds, circuits=[gen_circuit(rng, ds) for _ in range(rng.randint(0, 3))], smart=smart, seed=seed,
                           file=rng.choice(["io", "tmp"]))
            else:
                # name uniqueness is per circuit: the same custom gate name in several circuits of one list, with different
                # definitions (matrix, params_ordering, arity, width) or - as a control - with an equal one
                names = rng.sample(DEFNAMES[:6], rng.choice([1, 1, 2]))
                ds, circuits, per_name = {}, [], {n: [] for n in names}
                for ci in range(rng.randint(2, 4)):
                    mine = {}
                    for n in names:
                        if per_name[n] and rng.random() < 0.25:
                            d = json.loads(json.dumps(rng.choice(per_name[n])))       # equal definition, distinct object
                        elif per_name[n] and rng.random() < 0.3:
                            d = json.loads(json.dumps(rng.choice(per_name[n])))       # same shape, one entry differs
                            i, j = rng.randrange(len(d["matrix"])), rng.randrange(len(d["matrix"]))
                            d["matrix"][i][j] = ["add", d["matrix"][i][j], ["int", rng.randint(1, 7)]]
                        else:
                            d = gen_def(rng, n)
                        if rng.random() < 0.85 or not mine:
                            per_name[n].append(d)
                            mine[f"c{ci}d{len(mine)}"] = d
                    c = gen_circuit(rng, mine, nops=rng.randint(0, 2))
                    for key, d in mine.items():                                        # every definition is used at least once
                        syms = pick_syms(rng, rng.randint(0, 2))
                        g, nq = ["U", key, [gen_param(rng, syms, False) for _ in d["params"]]], d["nq"]
                        w = rng.random()
                        if w < 0.25: g = ["D", g]
                        elif w < 0.45: g, nq = ["C", ["D", g], 1], nq + 1
                        qs = rng.sample(range(nq + rng.randint(0, 2)), nq)
                        c["ops"].insert(rng.randint(0, len(c["ops"])), [g, qs])
                        if c["n"] is not None: c["n"] = max(c["n"], max(qs) + 1)
                    ds.update(mine)
                    circuits.append(c)
                yield dict(kind="set", shared=True, defs=ds, circuits=circuits, smart=smart, seed=seed, file=rng.choice(["io", "tmp"]))
        elif r < 0.73:
            ds = gen_defs(rng, 2)
            keys = sorted(ds)
            ds[keys[1]]["gate_name"] = ds[keys[0]]["gate_name"]
            if rng.random() < 0.35:                     # the same definition twice, as distinct objects
                ds[keys[1]] = json.loads(json.dumps(ds[keys[0]]))
            c = gen_circuit(rng, ds, nops=rng.randint(2, 5))
            yield dict(kind="conflict", defs=ds, circuits=[c], smart=smart, seed=seed, file="io")
        elif r < 0.76:
            ds = gen_defs(rng, 1)
            ds["d0"]["gate_name"] = rng.choice(sorted(G))
            yield dict(kind="collide", defs=ds, circuits=[gen_circuit(rng, ds, nops=rng.randint(1, 3))], smart=smart, seed=seed, file="io")
        elif r < 0.80:
            ds = gen_defs(rng, rng.choice([0, 1]))
            base = rng.choice(["x", "y", "theta"])
            idx = f"{base}[{rng.randint(0, 12)}]"
            n = rng.choice(PROTOS)
            ps = [["S", ["add", ["sym", base], ["mul", ["int", rng.randint(2, 5)], ["sym", idx]]]]] + \
                 [["S", ["sym", rng.choice([base, idx])]] for _ in range(ARITY[n] - 1)]
            g = ["B", n, ps]
            if ds and rng.random() < 0.5:
                d = ds["d0"]
                if len(d["params"]) >= 1:
                    g = ["U", "d0", [ps[0]] + [["i", 1]] * (len(d["params"]) - 1)]
                    n = None
            nq = NQ[n] if n else ds["d0"]["nq"]
            for _ in range(rng.randint(0, 2)):
                if rng.random() < 0.5:
                    g = ["D", g]
                else:
                    g, nq = ["C", g, 1], nq + 1
            c = gen_circuit(rng, ds, nops=rng.randint(0, 2))
            c["ops"].insert(rng.randint(0, len(c["ops"])), [g, list(range(nq))[::-1]])
            c["n"] = None
            yield dict(kind="f16", defs=ds, circuits=[c], smart=False, seed=seed, file="io")
        elif r < 0.83:
            pool = PLAIN[:4] + INDEXED + ["x[03]", "[3]", "a[1][22]", "x[3]y", "x[]", "x[a]", "y[00]", "theta[1] ", "q[7", "p12]", "x[-1]"]
            yield dict(kind="symmap", names=[rng.choice(pool) for _ in range(rng.randint(0, 6))])
        elif r < 0.86:
            nm = rng.choice(["pi", "I", "E"])
            const = {"pi": ["pi"], "I": ["I"], "E": ["fn", "exp", ["int", 1]]}[nm]
            other = rng.choice(["theta", "y[0]"])
            tree = rng.choice([["add", ["sym", nm], const], ["mul", ["add", ["sym", other], const], ["sym", nm]],
                               ["add", ["mul", ["int", 3], const], ["fn", "cos", ["sym", nm]]]])
            ds = {}
            if rng.random() < 0.4:
                ds = {"d0": dict(gate_name="cg", matrix=[[tree, ["int", 0]], [["int", 0], ["sym", other]]], params=[nm, other], nq=1)}
                g = ["U", "d0", [["f", 0.5], ["S", ["sym", "phi"]]]]
            elif rng.random() < 0.5:
                g = ["B", "RZ", [["S", tree]]]
            else:
                g = ["B", "U3", [["S", ["sym", nm]], ["f", 0.25], ["S", const]]]
            if rng.random() < 0.5: g = ["D", g]
            yield dict(kind="shadow", defs=ds, circuits=[dict(ops=[[g, [1]], [["B", "H", []], [0]]], n=None)], smart=False, seed=seed, file="io")
        else:
            ds = gen_defs(rng, rng.choice([0, 1, 1, 2]))
            yield dict(kind="mangle", defs=ds, circuits=[gen_circuit(rng, ds, nops=rng.randint(1, 3))], smart=smart, seed=seed,
                       mangle=rng.randint(0, 10 ** 6))

# ----------------------------------------------------------------------------- mangling valid dictionaries

def all_dicts(v, acc):
    if isinstance(v, dict):
        acc.append(v)
        for x in v.values(): all_dicts(x, acc)
    elif isinstance(v, list):
        for x in v: all_dicts(x, acc)
    return acc

def mangle(js, seed):
    """one small edit of a valid dictionary; returns a label"""
    rr = random.Random(seed)
    ds = all_dicts(js, [])
    for _ in range(50):
        d = rr.choice(ds)
        keys = sorted(d)
        if not keys: continue
        k = rr.choice(keys)
        how = rr.random()
        if how < 0.45:
            del d[k]
            return f"drop-{k}"
        if k == "num_control_qubits":
            d[k] = rr.choice([0, -1, 1, 2]); return "control-count"
        if k == "n_qubits":
            d[k] = rr.choice([0, -1, -3, 1, 9]); return "width"
        if k == "name":
            if rr.random() < 0.15:
                # a name that is not a str: globals()[name] is a KeyError for a hashable one, a TypeError for a list
                d[k] = rr.choice([5, None, 2.5, True, ["X"]]); return "rename-nonstr"
            d[k] = rr.choice(["Nope", "X", "RX", "Control", "Exponential", "Nope_Dagger", "X^2", "Union", "T", d[k] + "_Dagger", d[k] + "^3"])
            return "rename"
        if k == "gate_name":
            d[k] = rr.choice(["Nope", "X", d[k] + "2"]); return "rename-def"
        if k == "matrix":
            if rr.random() < 0.5: d[k] = d[k][:-1]
            else: d[k] = [row[:-1] for row in d[k]]
            return "matrix-shape"
        if k == "exponent":
            d[k] = rr.choice([2, 0.5, -1]); return "exponent"
        if k == "params" and d[k]:
            d[k] = d[k][:-1] if rr.random() < 0.5 else d[k] + ["0.5"]
            return "params"
        if k == "free_symbols":
            d[k] = rr.choice([[], d[k][:-1], d[k] + ["zz"], d[k][::-1]]); return "free-symbols"
        if k == "qubit_indices":
            d[k] = d[k][::-1] if rr.random() < 0.5 else []
            return "indices"
        if k == "wrapped_gate":
            d[k] = rr.choice([{"name": "X"}, {"name": "RX", "params": ["theta"], "free_symbols": ["theta"]}, {"name": "Nope"}, {}])
            return "rewrap"
    return "none"

# ----------------------------------------------------------------------------- cases

def nontrivial_struct(cs):
    def nt(g): return g[0] != "B" or any(fs for _, fs in g[2])
    return any(nt(g) for c in cs for g, _ in c[0])

CONST_OF = {"pi": sympy.pi, "I": sympy.I, "E": sympy.E}

def shadowed(exprs, names):
    """a symbol named pi / I / E next to the sympy constant that prints the same, in one list of expressions"""
    return any(n in CONST_OF and any(isinstance(e, sympy.Expr) and e.has(CONST_OF[n]) for e in exprs) for n in names)

def precondition(c):
    """custom gate names are not module globals of _builtin_gates; no gate uses both x and x[k] (F16) or a symbol
    together with the constant of the same name (F35)"""
    sig = None
    for op in c.operations:
        g = op.gate
        while hasattr(g, "wrapped_gate"): g = g.wrapped_gate
        names = [str(s) for s in g.free_symbols]
        lists = [names]
        if shadowed(g.params, names): sig = sig or "F35"
        if isinstance(g.matrix_factory, CustomGateMatrixFactory):
            if g.name in G: return "collide"
            d = g.matrix_factory.gate_definition
            lists.append([str(s) for s in d.params_ordering])
            if shadowed(list(d.matrix), lists[-1]): sig = sig or "F35"
        for l in lists:
            plain = {n for n in l if "[" not in n}
            if any("[" in n and base_of(n) in plain for n in l): sig = "F16"
    return sig

def run_case(inp):
    kind = inp["kind"]
    if kind == "names":
        names = sorted(G)
        ents = []
        for n in names:
            v = G[n]
            if type(v) is MatrixFactoryGate and v.name == n and v.params == ():
                ents.append(f"global_entry_eqb {cstring(n)} (GConst {cz(v.num_qubits)} {cbool(v.is_hermitian)})")
            elif proto_ok(v) and v().name == n:
                ents.append(f"global_entry_eqb {cstring(n)} (GProto {cz(v().num_qubits)} {cbool(v().is_hermitian)})")
            else:
                ents.append(f"global_entry_eqb {cstring(n)} GOther")
        chk = f"globals_eqb {clist(names, cstring)} && markers_eqb {cstring(_gates.DAGGER_GATE_NAME)} {cstring(_gates.CONTROLLED_GATE_NAME)} " \
              f"{cstring(_gates.EXPONENTIAL_GATE_NAME)} {cstring(_gates.POWER_GATE_SYMBOL)} && " + " && ".join(ents)
        ok = _serde.builtin_gate_by_name("RX") is G["RX"]
        return dict(chk=chk, oracle_ok=ok, oracle_msg="" if ok else "builtin_gate_by_name does not return the module global", kind=kind)

    if kind == "symmap":
        names = inp["names"]
        st, m = outcome(_serde._make_symbols_map, names)
        if st == "ok":
            ent = lambda kv: cpair(cstring(kv[0]), f"(SSym {cstring(str(kv[1]))})" if isinstance(kv[1], sympy.Symbol) else
                               "(SDict " + clist(list(kv[1].items()), lambda iv: cpair(cN(iv[0]), cstring(str(iv[1])))) + ")")
            lit = "(Some " + clist(list(m.items()), ent) + ")"
        else:
            lit = "None" if m == "TypeError" else "(Some [(\"unexpected\"%string, SSym \"\"%string)])"
        clash = any("[" not in a and any(b.startswith(a + "[") for b in names[i + 1:]) for i, a in enumerate(names))
        return dict(chk=f"symmap_eqb {clist(names, cstring)} {lit}", oracle_ok=True, oracle_msg="",
                    kind=kind + ("" if st == "ok" else "-rejected"), nontrivial=len(set(names)) >= 2)

    defs = build_defs(inp["defs"])
    cs = [build_circuit(c, defs, inp["smart"]) for c in inp["circuits"]]
    structs = [circuit_struct(c) for c in cs]
    is_set = kind == "set"
    obj = cs if is_set else cs[0]
    model_in = clist(structs, ccirc) if is_set else ccirc(structs[0])
    to_eqb, from_eqb = ("set_to_dict_eqb", "set_from_dict_eqb") if is_set else ("to_dict_eqb", "from_dict_eqb")
    reader = _serde.circuitset_from_dict if is_set else _serde.circuit_from_dict
    structf = (lambda out: [circuit_struct(c) for c in out]) if is_set else circuit_struct
    cstructs = (lambda ss: clist(ss, ccirc)) if is_set else ccirc
    pre = [precondition(c) for c in cs]
    sig = "F16" if "F16" in pre else "F35" if "F35" in pre else None
    inside = all(p is None for p in pre)
    nontriv = nontrivial_struct(structs)
    # names as the implementation computes them
    name_chk = " && ".join(f"name_eqb {cgate(g)} {cstring(op.gate.name)}" for c, s in zip(cs, structs)
                           for op, (g, _) in zip(c.operations, s[0])) or "true"

    st, d = outcome(_serde.to_dict, obj)
    if st != "ok":
        chk = f"{to_eqb} {model_in} None" if d == "ValueError" else "false"
        expected = kind == "conflict"
        return dict(chk=chk, oracle_ok=expected, oracle_msg="" if expected else f"to_dict raised {d}", kind=kind + "-rejected",
                    nontrivial=nontriv, sig=sig)
    text = json.dumps(d)
    js = json.loads(text)
    chk = f"{to_eqb} {model_in} (Some {cjson(js)}) && {name_chk}"

    if kind == "mangle":
        label = mangle(js, inp["mangle"])
        st2, out, _, tab = read_back(reader, js, structf)
        if st2 != "skip":
            chk += f" && {from_eqb} {ctable(tab)} {cjson(js)} {cres(st2, out, cstructs)}"
        return dict(chk=chk, oracle_ok=True, oracle_msg="", kind=f"mangle-{label}", nontrivial=nontriv)

    st2, out, obj2, tab = read_back(reader, js, structf)
    if st2 != "skip":
        chk += f" && {from_eqb} {ctable(tab)} {cjson(js)} {cres(st2, out, cstructs)}"
    ok, msg = True, ""
    if st2 == "skip":
        ok, msg = False, out
    elif st2 != "ok":
        ok, msg = False, f"reading back raised {out}" if out != "Junk" else "reading back gave an object that is not a gate circuit"
    else:
        cs2 = obj2 if is_set else [obj2]
        if len(cs2) != len(cs):
            ok, msg = False, "number of circuits changed"
        for c, c2 in zip(cs, cs2):
            m = same_circuit(c, c2, inp["seed"], exact=circuit_exact(c))
            if m and ok: ok, msg = False, m
        # the file variants give the same dictionary and the same circuit
        save, load = (_serde.save_circuitset, _serde.load_circuitset) if is_set else (_serde.save_circuit, _serde.load_circuit)
        if inp.get("file") == "tmp":
            fd, path = tempfile.mkstemp(suffix=".json", prefix="c05-")
            os.close(fd)
            try:
                save(obj, path)
                on_disk = json.load(open(path))
                st3, back = outcome(load, path, timeout=20)
            finally:
                os.unlink(path)
        else:
            buf = io.StringIO()
            save(obj, buf)
            on_disk = json.loads(buf.getvalue())
            st3, back = outcome(load, io.StringIO(buf.getvalue()), timeout=20)
        if ok and on_disk != js:
            ok, msg = False, "save_circuit wrote a different dictionary than to_dict"
        if ok and (st3 != "ok" or structf(back) != out):
            ok, msg = False, f"load_circuit gave a different circuit than circuit_from_dict: {back}"
    if not inside and not sig:
        ok, msg = True, ""                    # custom gate named like a module global: outside the property's quantifier
    label = kind + ("-smart" if inp["smart"] and kind == "rt" else "") + ("-shared-names" if inp.get("shared") else "") \
        + ("" if st2 == "ok" else "-unreadable")
    return dict(chk=chk, oracle_ok=ok, oracle_msg=msg, kind=label, nontrivial=nontriv, sig=sig)

# ----------------------------------------------------------------------------- witnesses of recorded findings

def _rt(c):
    return _serde.circuit_from_dict(json.loads(json.dumps(_serde.to_dict(c))))

def w_f14():
    x = sympy.Symbol("x")
    d = CustomGateDefinition("cg", sympy.Matrix([[sympy.cos(x), 0], [0, 1]]), (x,))
    bad = []
    for g in [Dagger(d(0.5)), ControlledGate(d(0.5), 2), Power(d(0.5), 2), Exponential(d(0.5)), ControlledGate(Dagger(d(x)), 1)]:
        c = Circuit([g(*range(g.num_qubits))])
        st, out = outcome(_rt, c)
        if st != "ok" or not (out == c):
            bad.append(f"{g}: {out}")
    return bool(bad), "custom gate under a wrapper: " + ("; ".join(bad) or "all read back")

def w_f15():
    x, y, a, x3 = sympy.Symbol("x"), sympy.Symbol("y"), sympy.Symbol("alpha"), sympy.Symbol("x[3]")
    d = CustomGateDefinition("cg", sympy.Matrix([[sympy.cos(x), 0], [0, sympy.exp(sympy.I * y)]]), (x, y))
    bad = []
    for args in [(a, 0.5), (x3, a), (2 * a + x3, y), (y, x)]:
        c = Circuit([d(*args)(0)])
        st, out = outcome(_rt, c)
        if st != "ok" or not (out == c) or out.free_symbols != c.free_symbols:
            bad.append(f"{args}: {out}")
    return bool(bad), "custom gate with symbolic arguments other than its formal names: " + ("; ".join(bad) or "all read back")

def w_f16():
    x, x3 = sympy.Symbol("x"), sympy.Symbol("x[3]")
    c = Circuit([_builtin_gates.RX(x + x3)(0)])
    st, out = outcome(_rt, c)
    return st != "ok", f"RX(x + x[3]) -> {out}"

def w_f35():
    c = Circuit([_builtin_gates.RX(sympy.Symbol("pi") + sympy.pi)(0)])
    st, out = outcome(_rt, c)
    return st != "ok" or not (out == c), f"RX(Symbol('pi') + pi) -> {out}"

H.main(gen, run_case, {"F14": w_f14, "F15": w_f15, "F16": w_f16, "F35": w_f35})
